/-
  Helper lemmas for C17: a transition is decided by the coordinator alone (never by the armed store
  fault), so a store fault at any boundary of its one transaction is all-or-nothing for `step`;
  the committed log only grows by single transactions, so every log prefix is the log of an
  earlier point of the same run.
-/
import EchoVerif.Lemmas.ExtAct

set_option linter.unusedSimpArgs false
set_option linter.unusedVariables false

namespace EchoVerif
namespace ExtAct
open SMap

/-! ### the accepting branch of each transition, from its conditions on the coordinator -/

theorem recordRequest_commit (s : Sys) (r : Request) (h1 : s.coord.ready = true)
    (h2 : s.coord.index.get r.rid = none) (h3 : r.validateIdentity = .ok ()) :
    recordRequest s r = commitStep s (.request r) (entry0 r)
        (fun c => { entry0 r with reqCommit := c }) (fun c => .recorded r c) := by
  unfold recordRequest
  simp only [h1, h2, h3]
  rfl

theorem claimAction_commit (s : Sys) (tok : Request) (a : Auth) (b o l : Nat) (rec : Entry)
    (h1 : s.coord.ready = true) (h2 : s.coord.index.get tok.rid = some rec) (h3 : rec.request = tok)
    (h4 : rec.claim = none) (h5 : tok.validateIdentity = .ok ()) (h6 : a.operation = tok.operation)
    (h7 : a.scope = tok.scope) (h8 : a.rid = tok.rid) (h9 : a.basis = tok.basis) (h10 : a.policy ≠ 0)
    (h11 : b = tok.basis) (h12 : o < tok.maxAttempts) (h13 : l ≠ 0) :
    claimAction s tok a b o l =
        commitStep s (.claim (Claim.forRequest tok a.adapter o l a.policy))
          { rec with claim := some (Claim.forRequest tok a.adapter o l a.policy), claimCommit := none,
                     posture := .claimed }
          (fun c => { rec with claim := some (Claim.forRequest tok a.adapter o l a.policy),
                               claimCommit := some c, posture := .claimed })
          (fun c => .grant tok (Claim.forRequest tok a.adapter o l a.policy) c) := by
  unfold claimAction
  have : ¬ o ≥ tok.maxAttempts := by omega
  simp [h1, h2, h3, h4, h5, h6, h7, h8, h9, h10, h11, this, h13]

theorem admitSettlement_commit (s : Sys) (gr : Request) (gc : Claim) (gcm : Nat) (k : Candidate)
    (rec : Entry) (h1 : s.coord.ready = true) (h2 : s.coord.index.get gr.rid = some rec)
    (h3 : rec.request = gr) (h4 : rec.claim = some gc) (h5 : rec.claimCommit = some gcm)
    (h6 : rec.settlement = none) (h7 : validateCandidate gr gc k = .ok ()) :
    admitSettlement s gr gc gcm k =
        commitStep s (.settlement (Settlement.ofCandidate k))
          { rec with posture := .settled k.kind, settlement := some (Settlement.ofCandidate k),
                     setCommit := none }
          (fun c => { rec with posture := .settled k.kind,
                               settlement := some (Settlement.ofCandidate k), setCommit := some c })
          (fun c => .admitted (Settlement.ofCandidate k) c) := by
  unfold admitSettlement
  simp [h1, h2, h3, h4, h5, h6, h7]
  rfl

/-! ### what an admitted transition is about to commit -/

structure Pending where
  body : TxBody
  e : Entry
  fin : Nat → Entry
  out : Nat → Out

/-- the pending commit is exactly what recovery replays on this index -/
structure Pending.OK (i : Index) (p : Pending) : Prop where
  hbody : ∀ c, applyBody i c p.body = .ok (i.put (p.fin c))
  hleaf : ∀ c, leafOf (p.fin c) = leafOf p.e ∧ (p.fin c).request.rid = p.e.request.rid

def Pending.run (p : Pending) (s : Sys) : Sys × Out := commitStep s p.body p.e p.fin p.out

def bodyRequest : TxBody → Option Request
  | .request r => some r
  | _ => none

def opRequest : Op → Option Request
  | .request r => some r
  | _ => none

theorem request_pending_ok (i : Index) (r : Request) (h2 : i.get r.rid = none)
    (h3 : r.validateIdentity = .ok ()) :
    Pending.OK i ⟨.request r, entry0 r, fun c => { entry0 r with reqCommit := c }, fun c => .recorded r c⟩ := by
  refine ⟨fun c => ?_, fun c => ⟨rfl, rfl⟩⟩
  simp only [applyBody, h3, h2]
  rfl

theorem claim_pending_ok (i : Index) (tok : Request) (a : Auth) (o l : Nat) (rec : Entry)
    (h2 : i.get tok.rid = some rec) (h3 : rec.request = tok) (h4 : rec.claim = none)
    (h10 : a.policy ≠ 0) (h12 : o < tok.maxAttempts) (h13 : l ≠ 0) :
    Pending.OK i ⟨.claim (Claim.forRequest tok a.adapter o l a.policy),
      { rec with claim := some (Claim.forRequest tok a.adapter o l a.policy), claimCommit := none,
                 posture := .claimed },
      fun c => { rec with claim := some (Claim.forRequest tok a.adapter o l a.policy),
                          claimCommit := some c, posture := .claimed },
      fun c => .grant tok (Claim.forRequest tok a.adapter o l a.policy) c⟩ := by
  refine ⟨fun c => ?_, fun c => ⟨rfl, rfl⟩⟩
  have hget' : i.get (Claim.forRequest tok a.adapter o l a.policy).rid = some rec := by
    simpa [Claim.forRequest] using h2
  have hv : validateClaim rec.request (Claim.forRequest tok a.adapter o l a.policy) = .ok () := by
    unfold validateClaim
    rw [h3]
    simp only [Claim.forRequest, ne_eq, not_true_eq_false, if_false]
    have : ¬ o ≥ tok.maxAttempts := by omega
    simp [this, h13, h10]
  simp only [applyBody, hget', h4, Option.isSome_none, Bool.false_eq_true, if_false, hv]

theorem settle_pending_ok (i : Index) (gr : Request) (gc : Claim) (k : Candidate) (rec : Entry)
    (hw : WFI i) (h2 : i.get gr.rid = some rec) (h3 : rec.request = gr) (h4 : rec.claim = some gc)
    (h6 : rec.settlement = none) (h7 : validateCandidate gr gc k = .ok ()) :
    Pending.OK i ⟨.settlement (Settlement.ofCandidate k),
      { rec with posture := .settled k.kind, settlement := some (Settlement.ofCandidate k),
                 setCommit := none },
      fun c => { rec with posture := .settled k.kind,
                          settlement := some (Settlement.ofCandidate k), setCommit := some c },
      fun c => .admitted (Settlement.ofCandidate k) c⟩ := by
  refine ⟨fun c => ?_, fun c => ⟨rfl, rfl⟩⟩
  have hk : k.rid = gr.rid := ((validateCandidate_ok_iff gr gc k).mp h7).1
  have hget' : i.get (Settlement.ofCandidate k).rid = some rec := by
    simpa [Settlement.ofCandidate, hk] using h2
  have hv := validate_toCandidate h7
  rw [← h3] at hv
  simp only [applyBody, hget', h4, hv, h6]
  rfl

/-! ### the armed store fault never decides whether a transition is admitted -/

theorem request_fault_shape (s : Sys) (r : Request) :
    (∀ k, ∃ err, recordRequest (withFault s k) r = (withFault s k, .err err)) ∨
    (∃ p : Pending, p.OK s.coord.index ∧ p.body = .request r ∧
      ∀ k, recordRequest (withFault s k) r = p.run (withFault s k)) := by
  by_cases hP : s.coord.ready = true ∧ s.coord.index.get r.rid = none ∧ r.validateIdentity = .ok ()
  · obtain ⟨h1, h2, h3⟩ := hP
    exact Or.inr ⟨_, request_pending_ok _ r h2 h3, rfl,
      fun k => recordRequest_commit (withFault s k) r h1 h2 h3⟩
  · left
    intro k
    rcases recordRequest_shape (withFault s k) r with ⟨err, he⟩ | ⟨h1, h2, h3, _⟩
    · exact ⟨err, he⟩
    · exact absurd ⟨h1, h2, h3⟩ hP

theorem claim_fault_shape (s : Sys) (tok : Request) (a : Auth) (b o l : Nat) :
    (∀ k, ∃ err, claimAction (withFault s k) tok a b o l = (withFault s k, .err err)) ∨
    (∃ p : Pending, p.OK s.coord.index ∧ bodyRequest p.body = none ∧
      ∀ k, claimAction (withFault s k) tok a b o l = p.run (withFault s k)) := by
  by_cases hP : ∃ rec, s.coord.ready = true ∧ s.coord.index.get tok.rid = some rec ∧ rec.request = tok ∧
      rec.claim = none ∧ tok.validateIdentity = .ok () ∧ a.operation = tok.operation ∧
      a.scope = tok.scope ∧ a.rid = tok.rid ∧ a.basis = tok.basis ∧ a.policy ≠ 0 ∧ b = tok.basis ∧
      o < tok.maxAttempts ∧ l ≠ 0
  · obtain ⟨rec, h1, h2, h3, h4, h5, h6, h7, h8, h9, h10, h11, h12, h13⟩ := hP
    exact Or.inr ⟨_, claim_pending_ok _ tok a o l rec h2 h3 h4 h10 h12 h13, rfl,
      fun k => claimAction_commit (withFault s k) tok a b o l rec h1 h2 h3 h4 h5 h6 h7 h8 h9 h10 h11 h12 h13⟩
  · left
    intro k
    rcases claimAction_shape (withFault s k) tok a b o l with ⟨err, he⟩ |
      ⟨rec, h1, h2, h3, h4, h5, h6, h7, h8, h9, h10, h11, h12, h13, _⟩
    · exact ⟨err, he⟩
    · exact absurd ⟨rec, h1, h2, h3, h4, h5, h6, h7, h8, h9, h10, h11, h12, h13⟩ hP

theorem settle_fault_shape (s : Sys) (hw : WFI s.coord.index) (gr : Request) (gc : Claim) (gcm : Nat)
    (k : Candidate) :
    (∀ f, ∃ err, admitSettlement (withFault s f) gr gc gcm k = (withFault s f, .err err)) ∨
    (∃ p : Pending, p.OK s.coord.index ∧ bodyRequest p.body = none ∧
      ∀ f, admitSettlement (withFault s f) gr gc gcm k = p.run (withFault s f)) := by
  by_cases hP : ∃ rec, s.coord.ready = true ∧ s.coord.index.get gr.rid = some rec ∧ rec.request = gr ∧
      rec.claim = some gc ∧ rec.claimCommit = some gcm ∧ rec.settlement = none ∧
      validateCandidate gr gc k = .ok ()
  · obtain ⟨rec, h1, h2, h3, h4, h5, h6, h7⟩ := hP
    exact Or.inr ⟨_, settle_pending_ok _ gr gc k rec hw h2 h3 h4 h6 h7, rfl,
      fun f => admitSettlement_commit (withFault s f) gr gc gcm k rec h1 h2 h3 h4 h5 h6 h7⟩
  · left
    intro f
    rcases admitSettlement_shape (withFault s f) gr gc gcm k with ⟨err, he⟩ |
      ⟨rec, h1, h2, h3, h4, h5, h6, h7, _⟩
    · exact ⟨err, he⟩
    · exact absurd ⟨rec, h1, h2, h3, h4, h5, h6, h7⟩ hP

/-- every operation, taken from a usable coordinator under ANY armed store fault, either leaves the
    committed log and the coordinator alone (whatever the fault), or is one `commitStep` whose
    content does not depend on the fault. -/
theorem step_fault_shape (s : Sys) (op : Op) (hg : Good s) (hr : s.coord.ready = true) :
    (∀ k, (step (withFault s k) op).1.store.commits = s.store.commits ∧
          (step (withFault s k) op).1.store.dirty = false ∧
          (step (withFault s k) op).1.coord = s.coord) ∨
    (∃ p : Pending, p.OK s.coord.index ∧ bodyRequest p.body = opRequest op ∧
      ∀ k, step (withFault s k) op = p.run (withFault s k)) := by
  obtain ⟨hd, ho, hl, hp⟩ := hg.2 hr
  have hw : WFI s.coord.index := good_wfi hg _ ho
  have rej : ∀ (f : Sys → Sys × Out),
      (∀ k, ∃ err, f (withFault s k) = (withFault s k, .err err)) →
      ∀ k, (f (withFault s k)).1.store.commits = s.store.commits ∧
        (f (withFault s k)).1.store.dirty = false ∧ (f (withFault s k)).1.coord = s.coord := by
    intro f h k
    obtain ⟨err, he⟩ := h k
    rw [he]
    exact ⟨rfl, hd, rfl⟩
  cases op with
  | request r =>
    rcases request_fault_shape s r with h | ⟨p, hp1, hp2, hp3⟩
    · exact Or.inl (rej (fun x => recordRequest x r) h)
    · exact Or.inr ⟨p, hp1, by rw [hp2]; rfl, hp3⟩
  | claim tok a b o l =>
    rcases claim_fault_shape s tok a b o l with h | ⟨p, hp1, hp2, hp3⟩
    · exact Or.inl (rej (fun x => claimAction x tok a b o l) h)
    · exact Or.inr ⟨p, hp1, hp2, hp3⟩
  | settle gr gc gcm k =>
    rcases settle_fault_shape s hw gr gc gcm k with h | ⟨p, hp1, hp2, hp3⟩
    · exact Or.inl (rej (fun x => admitSettlement x gr gc gcm k) h)
    · exact Or.inr ⟨p, hp1, hp2, hp3⟩
  | retry k => exact Or.inl (fun _ => ⟨rfl, hd, rfl⟩)
  | recordedRequest rid => exact Or.inl (fun _ => ⟨rfl, hd, rfl⟩)
  | claimGrant rid => exact Or.inl (fun _ => ⟨rfl, hd, rfl⟩)
  | admittedSettlement rid => exact Or.inl (fun _ => ⟨rfl, hd, rfl⟩)
  | recover =>
    left
    intro k
    have hrec : recover (withFault s k).store = .ok s.coord :=
      (recover_congr (st := (withFault s k).store) (st' := s.store) rfl rfl).trans
        (synced_recover hg.2 hr)
    have hst : step (withFault s k) .recover = ({ withFault s k with coord := s.coord }, .done) := by
      simp only [step, hrec]
    rw [hst]
    exact ⟨rfl, hd, rfl⟩
  | trunc => exact Or.inl (fun _ => ⟨rfl, rfl, rfl⟩)
  | fault k' => exact Or.inl (fun _ => ⟨rfl, hd, rfl⟩)

/-- **all-or-nothing for `step`.** -/
theorem step_crash_atomic (s : Sys) (op : Op) (hg : Good s) (hr : s.coord.ready = true) :
    (∀ k, k = 1 ∨ k = 2 →
      recover { (step (withFault s k) op).1.store with dirty := false } = .ok s.coord) ∧
    recover (step (withFault s 3) op).1.store = .ok (step (withFault s 0) op).1.coord := by
  rcases step_fault_shape s op hg hr with h | ⟨p, hp, _, hrun⟩
  · refine ⟨fun k _ => ?_, ?_⟩
    · obtain ⟨h1, _, _⟩ := h k
      exact (recover_congr (st := { (step (withFault s k) op).1.store with dirty := false })
        (st' := s.store) (by simp [(hg.2 hr).1]) h1).trans (synced_recover hg.2 hr)
    · obtain ⟨h1, h2, _⟩ := h 3
      obtain ⟨_, _, h3⟩ := h 0
      rw [h3]
      exact (recover_congr (st := (step (withFault s 3) op).1.store)
        (st' := s.store) (by rw [h2, (hg.2 hr).1]) h1).trans (synced_recover hg.2 hr)
  · have := commitStep_crash_atomic s p.body p.e p.fin p.out hg hr hp.hbody hp.hleaf
    refine ⟨fun k hk => ?_, ?_⟩
    · rw [hrun k]; exact this.1 k hk
    · rw [hrun 3, hrun 0]; exact this.2

/-! ### the committed log grows by at most one transaction per operation -/

theorem step_commits (s : Sys) (op : Op) :
    (step s op).1.store.commits = s.store.commits ∨
    ∃ tx, (step s op).1.store.commits = s.store.commits ++ [tx] := by
  have cs : ∀ (body : TxBody) (e : Entry) (fin : Nat → Entry) (mk : Nat → Out),
      (commitStep s body e fin mk).1.store.commits = s.store.commits ∨
      ∃ tx, (commitStep s body e fin mk).1.store.commits = s.store.commits ++ [tx] := by
    intro body e fin mk
    rcases commitStep_out s body e fin mk with ⟨_, h, _⟩ | ⟨_, _, _, h | h⟩
    · exact Or.inr ⟨_, h⟩
    · exact Or.inl h
    · exact Or.inr ⟨_, h⟩
  cases op with
  | request r =>
    rcases recordRequest_shape s r with ⟨err, h⟩ | ⟨_, _, _, h⟩
    · simp only [step]; rw [h]; exact Or.inl rfl
    · simp only [step]; rw [h]; exact cs ..
  | claim tok a b o l =>
    rcases claimAction_shape s tok a b o l with ⟨err, h⟩ | ⟨rec, _, _, _, _, _, _, _, _, _, _, _, _, _, h⟩
    · simp only [step]; rw [h]; exact Or.inl rfl
    · simp only [step]; rw [h]; exact cs ..
  | settle gr gc gcm k =>
    rcases admitSettlement_shape s gr gc gcm k with ⟨err, h⟩ | ⟨rec, _, _, _, _, _, _, _, h⟩
    · simp only [step]; rw [h]; exact Or.inl rfl
    · simp only [step]; rw [h]; exact cs ..
  | retry k => exact Or.inl rfl
  | recordedRequest rid => exact Or.inl rfl
  | claimGrant rid => exact Or.inl rfl
  | admittedSettlement rid => exact Or.inl rfl
  | recover =>
    left
    simp only [step]
    cases recover s.store <;> rfl
  | trunc => exact Or.inl rfl
  | fault k => exact Or.inl rfl

theorem run_commits_prefix : ∀ (ops : List Op) (s : Sys),
    s.store.commits <+: (run s ops).1.store.commits
  | [], s => List.prefix_refl _
  | op :: ops, s => by
    simp only [run]
    have h := run_commits_prefix ops (step s op).1
    rcases step_commits s op with h1 | ⟨tx, h1⟩
    · rw [h1] at h; exact h
    · rw [h1] at h
      exact (List.prefix_append _ _).trans h

theorem run_take_zero (s : Sys) (ops : List Op) : (run s (ops.take 0)).1 = s := by
  simp [run]

/-- every prefix of the final committed log (not shorter than the initial one) is the complete
    committed log at some earlier point of the same run. -/
theorem run_reaches_prefix : ∀ (ops : List Op) (s : Sys) (k : Nat),
    s.store.commits.length ≤ k → k ≤ (run s ops).1.store.commits.length →
    ∃ j, j ≤ ops.length ∧ (run s (ops.take j)).1.store.commits = (run s ops).1.store.commits.take k
  | [], s, k, h1, h2 => by
    refine ⟨0, Nat.le_refl _, ?_⟩
    simp only [run] at h2 ⊢
    have : k = s.store.commits.length := by omega
    rw [this, List.take_length]
    rfl
  | op :: ops, s, k, h1, h2 => by
    by_cases hk : k = s.store.commits.length
    · refine ⟨0, Nat.zero_le _, ?_⟩
      obtain ⟨t, ht⟩ := run_commits_prefix (op :: ops) s
      rw [List.take_zero]
      simp only [run]
      have : (run s (op :: ops)).1.store.commits.take k = s.store.commits := by
        rw [← ht, hk, List.take_left']
        rfl
      simpa [run] using this.symm
    · have hlen : (step s op).1.store.commits.length ≤ k := by
        rcases step_commits s op with h | ⟨tx, h⟩
        · rw [h]; exact h1
        · rw [h, List.length_append]; simp; omega
      simp only [run] at h2
      obtain ⟨j, hj, he⟩ := run_reaches_prefix ops (step s op).1 k hlen h2
      refine ⟨j + 1, by simp; omega, ?_⟩
      simpa [run, List.take_succ_cons] using he

end ExtAct
end EchoVerif
