/-
  Unique parse of the patch-digest pre-image (tick_patch.rs `compute_patch_digest_v2`,
  `encode_slots`, `encode_ops`, `encode_portal_init`, `encode_attachment_key(_opt)`,
  `encode_attachment_value(_opt)`, `encode_atom_payload`), byte for byte: ALL eight `WarpOp`
  variants, all four `SlotId` variants, both attachment values.  Tag bytes come from
  `Generated/PatchTags.lean` (extracted from the Rust source; the extractor also pins the order of
  the hashed fields of every arm), so a tag edit that makes two encodings collide breaks the proofs.

  Technique: every encoder is shown *prefix-injective* on well-formed values
  (`enc a ++ r = enc b ++ r' → a = b ∧ r = r'`), compositionally: fixed-width ids, u64 counts,
  tagged sums, options, length-prefixed bytes, counted lists.
-/
import EchoVerif.Lemmas.ChainBytes
import EchoVerif.Generated.PatchTags

set_option linter.unusedSimpArgs false
set_option linter.unusedVariables false

namespace EchoVerif.PatchBytes
open EchoVerif EchoVerif.ChainGraph EchoVerif.ChainBytes EchoVerif.Generated.PatchTags

/-- `enc` is uniquely parseable from the front of any stream, on well-formed values. -/
def PrefixInj {α : Type} (enc : α → Bytes) (wf : α → Prop) : Prop :=
  ∀ a b r r', wf a → wf b → enc a ++ r = enc b ++ r' → a = b ∧ r = r'

theorem peel32 {x y r r' : Bytes} (hx : x.length = 32) (hy : y.length = 32) (h : x ++ r = y ++ r') :
    x = y ∧ r = r' := List.append_inj h (by rw [hx, hy])

theorem peelU64 {n m : Nat} {r r' : Bytes} (hn : n < 2 ^ 64) (hm : m < 2 ^ 64)
    (h : u64le n ++ r = u64le m ++ r') : n = m ∧ r = r' := by
  obtain ⟨e1, e2⟩ := List.append_inj h (by simp [u64le, natToLE_length])
  exact ⟨natToLE_inj 8 _ _ (by simpa using hn) (by simpa using hm) e1, e2⟩

/-- u64-length-prefixed byte strings. -/
theorem peelBytes {x y r r' : Bytes} (hx : x.length < 2 ^ 64) (hy : y.length < 2 ^ 64)
    (h : u64le x.length ++ (x ++ r) = u64le y.length ++ (y ++ r')) : x = y ∧ r = r' := by
  obtain ⟨e1, e2⟩ := peelU64 hx hy h
  exact List.append_inj e2 e1

/-- counted lists of a prefix-injective element encoder. -/
theorem flatMap_prefix {α : Type} {enc : α → Bytes} {wf : α → Prop} (pi : PrefixInj enc wf) :
    ∀ (l l' : List α) (r r' : Bytes), l.length = l'.length → (∀ x ∈ l, wf x) → (∀ x ∈ l', wf x) →
      l.flatMap enc ++ r = l'.flatMap enc ++ r' → l = l' ∧ r = r'
  | [], [], r, r', _, _, _, h => ⟨rfl, by simpa using h⟩
  | [], _ :: _, _, _, hl, _, _, _ => by cases hl
  | _ :: _, [], _, _, hl, _, _, _ => by cases hl
  | a :: l, b :: l', r, r', hl, h1, h2, h => by
    simp only [List.flatMap_cons, List.append_assoc] at h
    obtain ⟨e1, e2⟩ := pi a b _ _ (h1 a List.mem_cons_self) (h2 b List.mem_cons_self) h
    obtain ⟨e3, e4⟩ := flatMap_prefix pi l l' r r' (by simpa using hl)
      (fun x hx => h1 x (List.mem_cons_of_mem _ hx)) (fun x hx => h2 x (List.mem_cons_of_mem _ hx)) e2
    exact ⟨by rw [e1, e3], e4⟩

def encList {α : Type} (enc : α → Bytes) (l : List α) : Bytes := u64le l.length ++ l.flatMap enc

def wfList {α : Type} (wf : α → Prop) (l : List α) : Prop := l.length < 2 ^ 64 ∧ ∀ x ∈ l, wf x

theorem pi_list {α : Type} {enc : α → Bytes} {wf : α → Prop} (pi : PrefixInj enc wf) :
    PrefixInj (encList enc) (wfList wf) := by
  intro a b r r' ha hb h
  simp only [encList, List.append_assoc] at h
  obtain ⟨e1, e2⟩ := peelU64 ha.1 hb.1 h
  exact flatMap_prefix pi a b r r' e1 ha.2 hb.2 e2

/-! ### attachment keys, values, portal init -/

/-- `AttachmentKey`: owner (node / edge) with its warp-scoped id, plane (alpha / beta). -/
structure AKey where
  node : Bool
  alpha : Bool
  warp : Bytes
  loc : Bytes

def AKey.wf (k : AKey) : Prop := k.warp.length = 32 ∧ k.loc.length = 32

def ownerTag (b : Bool) : UInt8 := if b then ownerTagNode else ownerTagEdge
def planeTag (b : Bool) : UInt8 := if b then planeTagAlpha else planeTagBeta

theorem ownerTag_inj : ∀ {a b : Bool}, ownerTag a = ownerTag b → a = b := by decide
theorem planeTag_inj : ∀ {a b : Bool}, planeTag a = planeTag b → a = b := by decide

/-- `encode_attachment_key`. -/
def encKey (k : AKey) : Bytes := ownerTag k.node :: planeTag k.alpha :: (k.warp ++ k.loc)

theorem pi_key : PrefixInj encKey AKey.wf := by
  intro a b r r' ha hb h
  obtain ⟨n1, a1, w1, l1⟩ := a
  obtain ⟨n2, a2, w2, l2⟩ := b
  simp only [encKey, List.cons_append, List.append_assoc] at h
  injection h with t1 h
  injection h with t2 h
  obtain ⟨e1, h⟩ := peel32 ha.1 hb.1 h
  obtain ⟨e2, h⟩ := peel32 ha.2 hb.2 h
  simp only [] at e1 e2
  rw [ownerTag_inj t1, planeTag_inj t2, e1, e2]
  exact ⟨rfl, h⟩

/-- tagged options (`encode_attachment_key_opt`, `encode_attachment_value_opt`). -/
def encOpt {α : Type} (tn ts : UInt8) (enc : α → Bytes) : Option α → Bytes
  | none => [tn]
  | some x => ts :: enc x

def wfOpt {α : Type} (wf : α → Prop) : Option α → Prop
  | none => True
  | some x => wf x

theorem pi_opt {α : Type} {enc : α → Bytes} {wf : α → Prop} (tn ts : UInt8) (hne : tn ≠ ts)
    (pi : PrefixInj enc wf) : PrefixInj (encOpt tn ts enc) (wfOpt wf) := by
  intro a b r r' ha hb h
  cases a with
  | none =>
    cases b with
    | none => simp only [encOpt, List.cons_append, List.nil_append] at h; injection h with _ h; exact ⟨rfl, h⟩
    | some y => simp only [encOpt, List.cons_append] at h; injection h with t _; exact absurd t hne
  | some x =>
    cases b with
    | none => simp only [encOpt, List.cons_append] at h; injection h with t _; exact absurd t.symm hne
    | some y =>
      simp only [encOpt, List.cons_append] at h
      injection h with _ h
      obtain ⟨e, h⟩ := pi x y r r' ha hb h
      exact ⟨by rw [e], h⟩

/-- `AttachmentValue`. -/
inductive AVal where
  | atom (ty : Bytes) (data : Bytes)
  | descend (w : Bytes)

def AVal.wf : AVal → Prop
  | .atom ty d => ty.length = 32 ∧ d.length < 2 ^ 64
  | .descend w => w.length = 32

/-- `encode_attachment_value` (+ `encode_atom_payload`). -/
def encVal : AVal → Bytes
  | .atom ty d => attValAtom :: (ty ++ (u64le d.length ++ d))
  | .descend w => attValDescend :: w

theorem pi_val : PrefixInj encVal AVal.wf := by
  intro a b r r' ha hb h
  cases a with
  | atom ty d =>
    cases b with
    | atom ty' d' =>
      simp only [encVal, List.cons_append, List.append_assoc] at h
      injection h with _ h
      obtain ⟨e1, h⟩ := peel32 ha.1 hb.1 h
      obtain ⟨e2, h⟩ := peelBytes ha.2 hb.2 h
      exact ⟨by rw [e1, e2], h⟩
    | descend w' =>
      simp only [encVal, List.cons_append] at h
      injection h with t _
      exact absurd t (by decide)
  | descend w =>
    cases b with
    | atom ty' d' =>
      simp only [encVal, List.cons_append] at h
      injection h with t _
      exact absurd t (by decide)
    | descend w' =>
      simp only [encVal, List.cons_append] at h
      injection h with _ h
      obtain ⟨e1, h⟩ := peel32 ha hb h
      exact ⟨by rw [e1], h⟩

/-- `PortalInit`. -/
inductive PInit where
  | requireExisting
  | empty (ty : Bytes)

def PInit.wf : PInit → Prop
  | .requireExisting => True
  | .empty ty => ty.length = 32

def encInit : PInit → Bytes
  | .requireExisting => [portalInitRequireExisting]
  | .empty ty => portalInitEmpty :: ty

theorem pi_init : PrefixInj encInit PInit.wf := by
  intro a b r r' ha hb h
  cases a with
  | requireExisting =>
    cases b with
    | requireExisting =>
      simp only [encInit, List.cons_append, List.nil_append] at h; injection h with _ h; exact ⟨rfl, h⟩
    | empty ty' => simp only [encInit, List.cons_append] at h; injection h with t _; exact absurd t (by decide)
  | empty ty =>
    cases b with
    | requireExisting => simp only [encInit, List.cons_append] at h; injection h with t _; exact absurd t (by decide)
    | empty ty' =>
      simp only [encInit, List.cons_append] at h
      injection h with _ h
      obtain ⟨e1, h⟩ := peel32 ha hb h
      exact ⟨by rw [e1], h⟩

/-! ### slots -/

/-- `SlotId`. -/
inductive FSlot where
  | node (w i : Bytes)
  | edge (w i : Bytes)
  | att (k : AKey)
  | port (w : Bytes) (key : Nat)

def FSlot.wf : FSlot → Prop
  | .node w i => w.length = 32 ∧ i.length = 32
  | .edge w i => w.length = 32 ∧ i.length = 32
  | .att k => k.wf
  | .port w key => w.length = 32 ∧ key < 2 ^ 64

def slotTag : FSlot → UInt8
  | .node .. => slotTagNode
  | .edge .. => slotTagEdge
  | .att .. => slotTagAttachment
  | .port .. => slotTagPort

def slotBody : FSlot → Bytes
  | .node w i => w ++ i
  | .edge w i => w ++ i
  | .att k => encKey k
  | .port w key => w ++ u64le key

/-- one element of `encode_slots`. -/
def encSlot (s : FSlot) : Bytes := slotTag s :: slotBody s

theorem pi_slot : PrefixInj encSlot FSlot.wf := by
  intro a b r r' ha hb h
  simp only [encSlot, List.cons_append] at h
  injection h with t h
  cases a <;> cases b <;> first
    | (simp only [slotTag] at t; exact absurd t (by decide))
    | skip
  · rename_i w i w' i'
    simp only [slotBody, List.append_assoc] at h
    obtain ⟨e1, h⟩ := peel32 ha.1 hb.1 h
    obtain ⟨e2, h⟩ := peel32 ha.2 hb.2 h
    exact ⟨by rw [e1, e2], h⟩
  · rename_i w i w' i'
    simp only [slotBody, List.append_assoc] at h
    obtain ⟨e1, h⟩ := peel32 ha.1 hb.1 h
    obtain ⟨e2, h⟩ := peel32 ha.2 hb.2 h
    exact ⟨by rw [e1, e2], h⟩
  · rename_i k k'
    simp only [slotBody] at h
    obtain ⟨e1, h⟩ := pi_key k k' r r' ha hb h
    exact ⟨by rw [e1], h⟩
  · rename_i w key w' key'
    simp only [slotBody, List.append_assoc] at h
    obtain ⟨e1, h⟩ := peel32 ha.1 hb.1 h
    obtain ⟨e2, h⟩ := peelU64 ha.2 hb.2 h
    exact ⟨by rw [e1, e2], h⟩

/-! ### ops -/

/-- `WarpOp`, every variant, fields in encoding order. -/
inductive FOp where
  | openPortal (k : AKey) (childWarp childRoot : Bytes) (init : PInit)
  | upsertWarpInstance (warp root : Bytes) (parent : Option AKey)
  | deleteWarpInstance (w : Bytes)
  | upsertNode (w n ty : Bytes)
  | deleteNode (w n : Bytes)
  | upsertEdge (w src id dst ty : Bytes)
  | deleteEdge (w src id : Bytes)
  | setAttachment (k : AKey) (v : Option AVal)

def FOp.wf : FOp → Prop
  | .openPortal k cw cr init => k.wf ∧ cw.length = 32 ∧ cr.length = 32 ∧ init.wf
  | .upsertWarpInstance w r p => w.length = 32 ∧ r.length = 32 ∧ wfOpt AKey.wf p
  | .deleteWarpInstance w => w.length = 32
  | .upsertNode w n ty => w.length = 32 ∧ n.length = 32 ∧ ty.length = 32
  | .deleteNode w n => w.length = 32 ∧ n.length = 32
  | .upsertEdge w s i d ty => w.length = 32 ∧ s.length = 32 ∧ i.length = 32 ∧ d.length = 32 ∧ ty.length = 32
  | .deleteEdge w s i => w.length = 32 ∧ s.length = 32 ∧ i.length = 32
  | .setAttachment k v => k.wf ∧ wfOpt AVal.wf v

def opTag : FOp → UInt8
  | .openPortal .. => opTagOpenPortal
  | .upsertWarpInstance .. => opTagUpsertWarpInstance
  | .deleteWarpInstance .. => opTagDeleteWarpInstance
  | .upsertNode .. => opTagUpsertNode
  | .deleteNode .. => opTagDeleteNode
  | .upsertEdge .. => opTagUpsertEdge
  | .deleteEdge .. => opTagDeleteEdge
  | .setAttachment .. => opTagSetAttachment

def opBody : FOp → Bytes
  | .openPortal k cw cr init => encKey k ++ (cw ++ (cr ++ encInit init))
  | .upsertWarpInstance w r p => w ++ (r ++ encOpt keyOptNone keyOptSome encKey p)
  | .deleteWarpInstance w => w
  | .upsertNode w n ty => w ++ (n ++ ty)
  | .deleteNode w n => w ++ n
  | .upsertEdge w s i d ty => w ++ (s ++ (i ++ (d ++ ty)))
  | .deleteEdge w s i => w ++ (s ++ i)
  | .setAttachment k v => encKey k ++ encOpt valOptNone valOptSome encVal v

/-- one element of `encode_ops`. -/
def encOp (o : FOp) : Bytes := opTag o :: opBody o

theorem pi_op : PrefixInj encOp FOp.wf := by
  intro a b r r' ha hb h
  simp only [encOp, List.cons_append] at h
  injection h with t h
  cases a <;> cases b <;> first
    | (simp only [opTag] at t; exact absurd t (by decide))
    | skip
  · rename_i k cw cr init k' cw' cr' init'
    simp only [opBody, List.append_assoc] at h
    obtain ⟨e1, h⟩ := pi_key k k' _ _ ha.1 hb.1 h
    obtain ⟨e2, h⟩ := peel32 ha.2.1 hb.2.1 h
    obtain ⟨e3, h⟩ := peel32 ha.2.2.1 hb.2.2.1 h
    obtain ⟨e4, h⟩ := pi_init init init' _ _ ha.2.2.2 hb.2.2.2 h
    exact ⟨by rw [e1, e2, e3, e4], h⟩
  · rename_i w rt p w' rt' p'
    simp only [opBody, List.append_assoc] at h
    obtain ⟨e1, h⟩ := peel32 ha.1 hb.1 h
    obtain ⟨e2, h⟩ := peel32 ha.2.1 hb.2.1 h
    obtain ⟨e3, h⟩ := pi_opt keyOptNone keyOptSome (by decide) pi_key p p' _ _ ha.2.2 hb.2.2 h
    exact ⟨by rw [e1, e2, e3], h⟩
  · rename_i w w'
    simp only [opBody] at h
    obtain ⟨e1, h⟩ := peel32 ha hb h
    exact ⟨by rw [e1], h⟩
  · rename_i w n ty w' n' ty'
    simp only [opBody, List.append_assoc] at h
    obtain ⟨e1, h⟩ := peel32 ha.1 hb.1 h
    obtain ⟨e2, h⟩ := peel32 ha.2.1 hb.2.1 h
    obtain ⟨e3, h⟩ := peel32 ha.2.2 hb.2.2 h
    exact ⟨by rw [e1, e2, e3], h⟩
  · rename_i w n w' n'
    simp only [opBody, List.append_assoc] at h
    obtain ⟨e1, h⟩ := peel32 ha.1 hb.1 h
    obtain ⟨e2, h⟩ := peel32 ha.2 hb.2 h
    exact ⟨by rw [e1, e2], h⟩
  · rename_i w s i d ty w' s' i' d' ty'
    simp only [opBody, List.append_assoc] at h
    obtain ⟨e1, h⟩ := peel32 ha.1 hb.1 h
    obtain ⟨e2, h⟩ := peel32 ha.2.1 hb.2.1 h
    obtain ⟨e3, h⟩ := peel32 ha.2.2.1 hb.2.2.1 h
    obtain ⟨e4, h⟩ := peel32 ha.2.2.2.1 hb.2.2.2.1 h
    obtain ⟨e5, h⟩ := peel32 ha.2.2.2.2 hb.2.2.2.2 h
    exact ⟨by rw [e1, e2, e3, e4, e5], h⟩
  · rename_i w s i w' s' i'
    simp only [opBody, List.append_assoc] at h
    obtain ⟨e1, h⟩ := peel32 ha.1 hb.1 h
    obtain ⟨e2, h⟩ := peel32 ha.2.1 hb.2.1 h
    obtain ⟨e3, h⟩ := peel32 ha.2.2 hb.2.2 h
    exact ⟨by rw [e1, e2, e3], h⟩
  · rename_i k v k' v'
    simp only [opBody, List.append_assoc] at h
    obtain ⟨e1, h⟩ := pi_key k k' _ _ ha.1 hb.1 h
    obtain ⟨e2, h⟩ := pi_opt valOptNone valOptSome (by decide) pi_val v v' _ _ ha.2 hb.2 h
    exact ⟨by rw [e1, e2], h⟩

/-! ### the tail and the whole pre-image -/

/-- `encode_slots(in) ; encode_slots(out) ; encode_ops(ops)`. -/
def encTail (ins outs : List FSlot) (ops : List FOp) : Bytes :=
  encList encSlot ins ++ (encList encSlot outs ++ encList encOp ops)

/-- the encoded tail parses uniquely into (in_slots, out_slots, ops). -/
theorem encTail_inj (ins ins' outs outs' : List FSlot) (ops ops' : List FOp)
    (h1 : wfList FSlot.wf ins) (h1' : wfList FSlot.wf ins')
    (h2 : wfList FSlot.wf outs) (h2' : wfList FSlot.wf outs')
    (h3 : wfList FOp.wf ops) (h3' : wfList FOp.wf ops')
    (h : encTail ins outs ops = encTail ins' outs' ops') :
    ins = ins' ∧ outs = outs' ∧ ops = ops' := by
  unfold encTail at h
  obtain ⟨e1, h⟩ := pi_list pi_slot ins ins' _ _ h1 h1' h
  obtain ⟨e2, h⟩ := pi_list pi_slot outs outs' _ _ h2 h2' h
  have h' : encList encOp ops ++ [] = encList encOp ops' ++ [] := by simpa using h
  obtain ⟨e3, _⟩ := pi_list pi_op ops ops' _ _ h3 h3' h'
  exact ⟨e1, e2, e3⟩

/-- The complete pre-image of `compute_patch_digest_v2`. -/
def patchBytesFull (policy : Nat) (rulePack : Bytes) (status : UInt8)
    (ins outs : List FSlot) (ops : List FOp) : Bytes :=
  patchBytesOf policy rulePack status (encTail ins outs ops)

theorem patchBytesFull_inj (policy policy' : Nat) (rp rp' : Bytes) (st st' : UInt8)
    (ins ins' outs outs' : List FSlot) (ops ops' : List FOp)
    (hrp : rp.length = 32) (hrp' : rp'.length = 32) (hpol : policy < 2 ^ 32) (hpol' : policy' < 2 ^ 32)
    (h1 : wfList FSlot.wf ins) (h1' : wfList FSlot.wf ins')
    (h2 : wfList FSlot.wf outs) (h2' : wfList FSlot.wf outs')
    (h3 : wfList FOp.wf ops) (h3' : wfList FOp.wf ops')
    (h : patchBytesFull policy rp st ins outs ops = patchBytesFull policy' rp' st' ins' outs' ops') :
    policy = policy' ∧ rp = rp' ∧ st = st' ∧ ins = ins' ∧ outs = outs' ∧ ops = ops' := by
  obtain ⟨e1, e2, e3, e4⟩ := patchBytesOf_inj policy policy' rp rp' st st' _ _ hrp hrp' hpol hpol' h
  obtain ⟨e5, e6, e7⟩ := encTail_inj ins ins' outs outs' ops ops' h1 h1' h2 h2' h3 h3' e4
  exact ⟨e1, e2, e3, e5, e6, e7⟩

/-! ### tie to the driver's encoder (the bytes the correspondence run hashes and compares) -/

def embedOp : Op → FOp
  | .upsertNode w n ty => .upsertNode (id32B w) (id32B n) (id32B ty)
  | .deleteNode w n => .deleteNode (id32B w) (id32B n)
  | .upsertEdge w id src dst ty => .upsertEdge (id32B w) (id32B src) (id32B id) (id32B dst) (id32B ty)
  | .deleteEdge w src id => .deleteEdge (id32B w) (id32B src) (id32B id)
  | .setNodeAtt w n a =>
    .setAttachment { node := true, alpha := true, warp := id32B w, loc := id32B n }
      (a.map (fun x => .atom (id32B x.ty) x.bytes))
  | .setEdgeAtt w e a =>
    .setAttachment { node := false, alpha := false, warp := id32B w, loc := id32B e }
      (a.map (fun x => .atom (id32B x.ty) x.bytes))

/-- the driver's `opB` is the full encoder on the six modelled op kinds (tags included). -/
theorem opB_eq (o : Op) : opB o = encOp (embedOp o) := by
  cases o with
  | upsertNode w n ty => simp [opB, encOp, embedOp, opTag, opBody, opTagUpsertNode]
  | deleteNode w n => simp [opB, encOp, embedOp, opTag, opBody, opTagDeleteNode]
  | upsertEdge w id src dst ty => simp [opB, encOp, embedOp, opTag, opBody, opTagUpsertEdge]
  | deleteEdge w src id => simp [opB, encOp, embedOp, opTag, opBody, opTagDeleteEdge]
  | setNodeAtt w n a =>
    cases a <;>
      simp [opB, encOp, embedOp, opTag, opBody, opTagSetAttachment, encKey, ownerTag, planeTag, encOpt, encVal,
        atomOptB, ownerTagNode, planeTagAlpha, valOptNone, valOptSome, attValAtom]
  | setEdgeAtt w e a =>
    cases a <;>
      simp [opB, encOp, embedOp, opTag, opBody, opTagSetAttachment, encKey, ownerTag, planeTag, encOpt, encVal,
        atomOptB, ownerTagEdge, planeTagBeta, valOptNone, valOptSome, attValAtom]

theorem opsB_eq (ops : List Op) : opsB ops = encList encOp (ops.map embedOp) := by
  simp only [opsB, encList, List.length_map]
  congr 1
  induction ops with
  | nil => rfl
  | cons o rest ih => simp only [List.flatMap_cons, List.map_cons, ih, opB_eq]

def embedSlot : Slot → FSlot
  | (t, w, i) => if t = 1 then .node (id32B w) (id32B i) else .edge (id32B w) (id32B i)

theorem slotB_eq (s : Slot) (h : s.1 = 1 ∨ s.1 = 2) : slotB s = encSlot (embedSlot s) := by
  obtain ⟨t, w, i⟩ := s
  rcases h with h | h <;> simp only [] at h <;> subst h <;>
    simp [slotB, encSlot, embedSlot, slotTag, slotBody, slotTagNode, slotTagEdge]

theorem slotsB_eq (ss : List Slot) (h : ∀ s ∈ ss, s.1 = 1 ∨ s.1 = 2) :
    slotsB ss = encList encSlot (ss.map embedSlot) := by
  simp only [slotsB, encList, List.length_map]
  congr 1
  induction ss with
  | nil => rfl
  | cons s rest ih =>
    simp only [List.flatMap_cons, List.map_cons]
    rw [slotB_eq s (h s List.mem_cons_self), ih (fun x hx => h x (List.mem_cons_of_mem _ hx))]

/-- The pre-image the driver renders (and the correspondence run hashes with BLAKE3 and compares with
    the real `patch_digest`) IS the full layout, for node / edge slots. -/
theorem patchBytes_full_layout (p : Patch)
    (hin : ∀ s ∈ canonSlots p.inSlots, s.1 = 1 ∨ s.1 = 2)
    (hout : ∀ s ∈ canonSlots p.outSlots, s.1 = 1 ∨ s.1 = 2) :
    patchBytes p = patchBytesFull p.policy (id32B p.rulePack) statusCommitted
      ((canonSlots p.inSlots).map embedSlot) ((canonSlots p.outSlots).map embedSlot)
      ((canonOps p.ops).map embedOp) := by
  rw [patchBytes_layout, patchBytesFull, encTail, slotsB_eq _ hin, slotsB_eq _ hout, opsB_eq]
  rfl

theorem id32B_length (n : Nat) : (id32B n).length = 32 := by simp [id32B, natToBE]

/-- every embedded op is well-formed as soon as its atom payload is below 2^64 bytes. -/
theorem embedOp_wf (o : Op)
    (h : ∀ w n a, (o = .setNodeAtt w n (some a) ∨ o = .setEdgeAtt w n (some a)) → a.bytes.length < 2 ^ 64) :
    (embedOp o).wf := by
  cases o with
  | upsertNode w n ty => exact ⟨id32B_length _, id32B_length _, id32B_length _⟩
  | deleteNode w n => exact ⟨id32B_length _, id32B_length _⟩
  | upsertEdge w id src dst ty =>
    exact ⟨id32B_length _, id32B_length _, id32B_length _, id32B_length _, id32B_length _⟩
  | deleteEdge w src id => exact ⟨id32B_length _, id32B_length _, id32B_length _⟩
  | setNodeAtt w n a =>
    refine ⟨⟨id32B_length _, id32B_length _⟩, ?_⟩
    cases a with
    | none => trivial
    | some x => exact ⟨id32B_length _, h w n x (Or.inl rfl)⟩
  | setEdgeAtt w e a =>
    refine ⟨⟨id32B_length _, id32B_length _⟩, ?_⟩
    cases a with
    | none => trivial
    | some x => exact ⟨id32B_length _, h w e x (Or.inr rfl)⟩

end EchoVerif.PatchBytes
