/-
  Lemmas about Model/Root.lean, part 5: the accumulator's flat tables.
  * generic facts about sorted association lists over any `LinOrd` key (membership
    characterisation of `find?`, `insert`, `erase`, `filter`; `alookup = find?`);
  * `flat f stores` — the `(warp, id)`-keyed concatenation `from_warp_state` builds — is sorted,
    and looking it up is looking up the store and then the id;
  * selecting one warp's rows from a flat table gives that store's rows.
-/
import EchoVerif.Model.RootAccum
import EchoVerif.Lemmas.Graph

set_option linter.unusedSimpArgs false
set_option linter.unusedVariables false
set_option linter.unusedSectionVars false

namespace EchoVerif
namespace SMap
variable {κ ν : Type} [DecidableEq κ] [LinOrd κ]
open LinOrd

theorem pairwise_of_sorted : ∀ {m : SMap κ ν}, Sorted m → m.Pairwise (fun a b => lt a.1 b.1 = true)
  | [], _ => List.Pairwise.nil
  | (k, v) :: rest, hs =>
    List.Pairwise.cons (fun p hp => all_above hs.1 hs.2 p hp) (pairwise_of_sorted hs.2)

theorem sorted_of_pairwise : ∀ {m : SMap κ ν}, m.Pairwise (fun a b => lt a.1 b.1 = true) → Sorted m
  | [], _ => trivial
  | (k, v) :: rest, hp => by
    cases hp with
    | cons h1 h2 =>
      refine ⟨?_, sorted_of_pairwise h2⟩
      cases rest with
      | nil => trivial
      | cons q rest' => exact h1 q List.mem_cons_self

theorem sorted_iff_pairwise {m : SMap κ ν} : Sorted m ↔ m.Pairwise (fun a b => lt a.1 b.1 = true) :=
  ⟨pairwise_of_sorted, sorted_of_pairwise⟩

theorem find?_eq_some_iff {m : SMap κ ν} (hs : Sorted m) {k : κ} {v : ν} :
    find? k m = some v ↔ (k, v) ∈ m := ⟨find?_mem, mem_find? hs⟩

/-- two sorted maps whose `k`-rows coincide answer the same at `k` -/
theorem find?_congr_mem {κ' : Type} [DecidableEq κ'] [LinOrd κ']
    {a : SMap κ ν} {b : SMap κ' ν} (ha : Sorted a) (hb : Sorted b) {k : κ} {k' : κ'}
    (h : ∀ v, (k, v) ∈ a ↔ (k', v) ∈ b) : find? k a = find? k' b := by
  cases h1 : find? k a with
  | some v => exact ((find?_eq_some_iff hb).mpr ((h v).mp (find?_mem h1))).symm
  | none =>
    cases h2 : find? k' b with
    | none => rfl
    | some v =>
      have := (find?_eq_some_iff ha).mpr ((h v).mpr (find?_mem h2))
      rw [h1] at this; cases this

theorem sorted_filter (p : κ × ν → Bool) {m : SMap κ ν} (hs : Sorted m) : Sorted (m.filter p) :=
  sorted_of_pairwise ((pairwise_of_sorted hs).filter _)

theorem find?_filter_key (g : κ → Bool) {m : SMap κ ν} (hs : Sorted m) (k : κ) :
    find? k (m.filter (fun p => g p.1)) = if g k then find? k m else none := by
  cases hg : g k with
  | true =>
    simp only [if_true]
    apply find?_congr_mem (sorted_filter _ hs) hs
    intro v; simp [List.mem_filter, hg]
  | false =>
    simp only [Bool.false_eq_true, if_false]
    cases h : find? k (m.filter (fun p => g p.1)) with
    | none => rfl
    | some v =>
      have := find?_mem h
      simp [List.mem_filter, hg] at this

/-- `find?` of a key absent from the list (no sortedness needed on this side) -/
theorem find?_none_of_not_mem {m : SMap κ ν} {k : κ} (h : ∀ v, (k, v) ∉ m) : find? k m = none := by
  cases hf : find? k m with
  | none => rfl
  | some v => exact absurd (find?_mem hf) (h v)

theorem insert_same {m : SMap κ ν} (hs : Sorted m) {k : κ} {v : ν} (h : find? k m = some v) :
    insert k v m = m := by
  apply ext (sorted_insert k v hs) hs
  intro k0
  rw [find?_insert]
  split
  · rename_i e; rw [e, h]
  · rfl

end SMap

namespace Root
open Graph SMap

/-! ### `alookup` on sorted tables -/

theorem alookup_mem {ν : Type} {k : NKey} {v : ν} : ∀ {m : List (NKey × ν)}, alookup k m = some v → (k, v) ∈ m
  | [], h => by cases h
  | (k', v') :: rest, h => by
    simp only [alookup] at h
    split at h
    · rename_i e; cases h; rw [e]; exact List.mem_cons_self
    · exact List.mem_cons_of_mem _ (alookup_mem h)

theorem mem_alookup {ν : Type} {k : NKey} {v : ν} : ∀ {m : SMap NKey ν}, Sorted m → (k, v) ∈ m →
    alookup k m = some v
  | [], _, h => by cases h
  | (k', v') :: rest, hs, h => by
    simp only [alookup]
    split
    · rename_i e
      cases h with
      | head => rfl
      | tail _ h' =>
        have := SMap.all_above hs.1 hs.2 _ h'
        simp only [e, LinOrd.lt_irrefl] at this
        cases this
    · rename_i ne
      cases h with
      | head => exact absurd rfl ne
      | tail _ h' => exact mem_alookup hs.2 h'

theorem alookup_eq_find? {ν : Type} {m : SMap NKey ν} (hs : Sorted m) (k : NKey) :
    alookup k m = find? k m := by
  cases h : alookup k m with
  | some v => exact ((find?_eq_some_iff hs).mpr (alookup_mem h)).symm
  | none =>
    cases h2 : find? k m with
    | none => rfl
    | some v => rw [mem_alookup hs (find?_mem h2)] at h; cases h

/-! ### flat tables -/

/-- the `(warp, id)`-keyed table `from_warp_state` builds from one component of every store -/
def flat {ν : Type} (f : Store → SMap Nat ν) (stores : SMap Nat Store) : SMap NKey ν :=
  stores.flatMap (fun ws => (f ws.2).map (fun p => ((ws.1, p.1), p.2)))

theorem ofState_nodes (s : WState) : (Acc.ofState s).nodes = flat Store.nodes s.stores := rfl
theorem ofState_edges (s : WState) : (Acc.ofState s).edges = flat Store.edges s.stores := rfl
theorem ofState_nodeAtt (s : WState) : (Acc.ofState s).nodeAtt = flat Store.nodeAtt s.stores := rfl
theorem ofState_edgeAtt (s : WState) : (Acc.ofState s).edgeAtt = flat Store.edgeAtt s.stores := rfl

theorem mem_flat {ν : Type} (f : Store → SMap Nat ν) (stores : SMap Nat Store) (w i : Nat) (v : ν) :
    ((w, i), v) ∈ flat f stores ↔ ∃ st, (w, st) ∈ stores ∧ (i, v) ∈ f st := by
  simp only [flat, List.mem_flatMap, List.mem_map, Prod.mk.injEq, Prod.exists]
  constructor
  · rintro ⟨w', st, hm, i', v', hm', ⟨rfl, rfl⟩, rfl⟩
    exact ⟨st, hm, hm'⟩
  · rintro ⟨st, hm, hm'⟩
    exact ⟨w, st, hm, i, v, hm', ⟨rfl, rfl⟩, rfl⟩

theorem flat_sorted {ν : Type} (f : Store → SMap Nat ν) {stores : SMap Nat Store} (hs : Sorted stores)
    (hf : ∀ w st, find? w stores = some st → Sorted (f st)) : Sorted (flat f stores) := by
  apply sorted_of_pairwise
  unfold flat
  rw [List.pairwise_flatMap]
  refine ⟨?_, ?_⟩
  · intro ws hws
    rw [List.pairwise_map]
    have := pairwise_of_sorted (hf ws.1 ws.2 (mem_find? hs hws))
    refine this.imp ?_
    intro a b hab
    simp only [LinOrd.lt, LinOrd.lt_irrefl, decide_true, Bool.true_and, Bool.false_or] at hab ⊢
    simpa [LinOrd.lt] using hab
  · refine (pairwise_of_sorted hs).imp ?_
    intro a b hab x hx y hy
    simp only [List.mem_map] at hx hy
    obtain ⟨p, _, rfl⟩ := hx
    obtain ⟨q, _, rfl⟩ := hy
    simp only [LinOrd.lt, Bool.or_eq_true]
    exact Or.inl hab

theorem find?_flat {ν : Type} (f : Store → SMap Nat ν) {stores : SMap Nat Store} (hs : Sorted stores)
    (hf : ∀ w st, find? w stores = some st → Sorted (f st)) (w i : Nat) :
    find? (w, i) (flat f stores) = match find? w stores with
      | none => none
      | some st => find? i (f st) := by
  cases hst : find? w stores with
  | none =>
    apply find?_none_of_not_mem
    intro v hv
    obtain ⟨st, hm, _⟩ := (mem_flat f stores w i v).mp hv
    rw [mem_find? hs hm] at hst; cases hst
  | some st =>
    apply find?_congr_mem (flat_sorted f hs hf) (hf w st hst)
    intro v
    rw [mem_flat]
    constructor
    · rintro ⟨st', hm, hv⟩
      have := mem_find? hs hm
      rw [hst] at this; cases this; exact hv
    · intro hv; exact ⟨st, find?_mem hst, hv⟩

/-- selecting warp `w`'s rows of a flat table = that store's rows, re-keyed -/
theorem flat_filter_warp {ν : Type} (f : Store → SMap Nat ν) (w : Nat) (q : Nat × ν → Bool) :
    ∀ {stores : SMap Nat Store}, Sorted stores →
    (flat f stores).filter (fun p => p.1.1 == w && q (p.1.2, p.2)) =
      match find? w stores with
      | none => []
      | some st => ((f st).filter q).map (fun p => ((w, p.1), p.2))
  | [], _ => rfl
  | (w0, st0) :: rest, hs => by
    have ih := flat_filter_warp f w q hs.2
    have hflat : flat f ((w0, st0) :: rest) = (f st0).map (fun p => ((w0, p.1), p.2)) ++ flat f rest := by
      simp only [flat, List.flatMap_cons]
    rw [hflat, List.filter_append, ih, List.filter_map]
    by_cases hw : w = w0
    · subst hw
      have hnone : find? w rest = none := find?_of_above hs.1
      have hfilt : (f st0).filter ((fun p : NKey × ν => p.1.1 == w && q (p.1.2, p.2)) ∘ fun p => ((w, p.1), p.2))
          = (f st0).filter q := by
        apply List.filter_congr
        intro x _
        simp
      rw [hnone, hfilt]
      simp only [find?, LinOrd.lt_irrefl, Bool.false_eq_true, if_false, if_true, List.append_nil]
    · have hfilt : (f st0).filter ((fun p : NKey × ν => p.1.1 == w && q (p.1.2, p.2)) ∘ fun p => ((w0, p.1), p.2))
          = [] := by
        rw [List.filter_eq_nil_iff]
        intro x _
        have : (w0 == w) = false := by simp; exact fun e => hw e.symm
        simp [this]
      rw [hfilt]
      simp only [List.map_nil, List.nil_append]
      simp only [find?, if_neg hw]
      by_cases hlt : LinOrd.lt w w0 = true
      · rw [if_pos hlt, find?_above_lt hs.1 hs.2 hlt]
      · rw [if_neg hlt]

end Root
end EchoVerif
