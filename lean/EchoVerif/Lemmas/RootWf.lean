/-
  Lemmas about Model/Root.lean, part 4: state-level well-formedness implies the content-level
  hypotheses (`ContentOk`, `InstCanon`) of the injectivity theorems.
-/
import EchoVerif.Lemmas.RootContent
import EchoVerif.Lemmas.RootBytes

set_option linter.unusedSimpArgs false
set_option linter.unusedVariables false

namespace EchoVerif
namespace Root
open Graph SMap

structure StoreOk (st : Store) : Prop where
  nodesSorted : SMap.Sorted st.nodes
  nodes : ∀ p, p ∈ st.nodes → IdOk p.1 ∧ IdOk p.2
  edges : ∀ p, p ∈ st.edges → IdOk p.1 ∧ IdOk p.2.src ∧ IdOk p.2.dst ∧ IdOk p.2.ty
  natt : ∀ p, p ∈ st.nodeAtt → AttOk (some p.2)
  eatt : ∀ p, p ∈ st.edgeAtt → AttOk (some p.2)
  edgeCount : LenOk st.edges.length
  /-- every edge leaves an existing node (no dangling sources) -/
  srcIsNode : ∀ p, p ∈ st.edges → (SMap.find? p.2.src st.nodes).isSome = true

structure StateOk (s : WState) : Prop where
  stores : ∀ p, p ∈ s.stores → StoreOk p.2
  insts : ∀ p, p ∈ s.instances → IdOk p.2.warp ∧ IdOk p.2.root ∧ KeyOk p.2.parent

theorem attOk_find {m : SMap Nat Att} (h : ∀ p, p ∈ m → AttOk (some p.2)) (k : Nat) :
    AttOk (SMap.find? k m) := by
  cases hf : SMap.find? k m with
  | none => trivial
  | some a => exact h (k, a) (SMap.find?_mem hf)

theorem mem_sources_foldl (l : List (Nat × EdgeRec)) : ∀ (acc : List Nat) (x : Nat),
    x ∈ l.foldl (fun acc p => insertW p.2.src acc) acc → x ∈ acc ∨ ∃ p, p ∈ l ∧ p.2.src = x := by
  induction l with
  | nil => intro acc x h; exact Or.inl h
  | cons q qs ih =>
    intro acc x h
    simp only [List.foldl_cons] at h
    rcases ih _ x h with h1 | ⟨p, hp, e⟩
    · rcases mem_insertW.mp h1 with h2 | h2
      · exact Or.inr ⟨q, List.mem_cons_self, h2.symm⟩
      · exact Or.inl h2
    · exact Or.inr ⟨p, List.mem_cons_of_mem _ hp, e⟩

theorem mem_sources {st : Store} {x : Nat} (h : x ∈ sources st) : ∃ p, p ∈ st.edges ∧ p.2.src = x := by
  rcases mem_sources_foldl st.edges [] x h with h | h
  · cases h
  · exact h

theorem sorted_pairwise {ν : Type} : ∀ {m : SMap Nat ν}, SMap.Sorted m →
    m.Pairwise (fun a b => a.1 < b.1)
  | [], _ => List.Pairwise.nil
  | (k, v) :: rest, hs => by
    refine List.Pairwise.cons ?_ (sorted_pairwise hs.2)
    intro p hp
    have := SMap.all_above hs.1 hs.2 p hp
    simpa [LinOrd.lt] using this

theorem storeNodes_ok {w : Nat} {st : Store} (ho : StoreOk st) (vis : List NKey) :
    ∀ n, n ∈ storeNodes w st vis → NodeOk n := by
  intro n hn
  simp only [storeNodes, List.mem_map, List.mem_filter] at hn
  obtain ⟨p, ⟨hp, _⟩, rfl⟩ := hn
  exact ⟨(ho.nodes p hp).1, (ho.nodes p hp).2, attOk_find ho.natt p.1⟩

theorem storeBuckets_ok {w : Nat} {st : Store} (ho : StoreOk st) (vis : List NKey) :
    ∀ b, b ∈ storeBuckets w st vis → BucketOk b := by
  intro b hb
  simp only [storeBuckets, List.mem_map, List.mem_filter] at hb
  obtain ⟨src, ⟨hsrc, _⟩, rfl⟩ := hb
  obtain ⟨p, hp, e⟩ := mem_sources hsrc
  refine ⟨e ▸ (ho.edges p hp).2.1, ?_, ?_⟩
  · simp only [storeBucket, List.length_map]
    have h1 := List.length_filter_le (fun p : Nat × EdgeRec => decide ((w, p.2.dst) ∈ vis)) (outEdges st src)
    have h2 : (outEdges st src).length ≤ st.edges.length := List.length_filter_le _ _
    have h3 := ho.edgeCount
    unfold LenOk at *
    omega
  · intro e he
    simp only [storeBucket, List.mem_map, List.mem_filter] at he
    obtain ⟨q, ⟨hq, _⟩, rfl⟩ := he
    have hq' : q ∈ st.edges := (List.mem_filter.mp hq).1
    have := ho.edges q hq'
    exact ⟨this.1, this.2.2.2, this.2.2.1, attOk_find ho.eatt q.1⟩

theorem storeInst_ok {s : WState} (hs : StateOk s) (vis : List NKey) (w : Nat) :
    ∀ i, i ∈ storeInst s vis w → InstOk i ∧ InstCanon i := by
  intro i hi
  unfold storeInst at hi
  split at hi
  · rename_i inst st hfi hfs
    simp only [List.mem_singleton] at hi
    subst hi
    have hio := hs.insts (w, inst) (SMap.find?_mem hfi)
    have hso := hs.stores (w, st) (SMap.find?_mem hfs)
    refine ⟨⟨hio.1, hio.2.1, hio.2.2, storeNodes_ok hso vis, storeBuckets_ok hso vis⟩, ?_, ?_⟩
    · simp only [Asc, storeNodes]
      rw [List.pairwise_map]
      exact (sorted_pairwise hso.nodesSorted).filter _
    · intro b hb
      simp only [storeBuckets, List.mem_map, List.mem_filter] at hb
      obtain ⟨src, ⟨hsrc, hvis⟩, rfl⟩ := hb
      obtain ⟨p, hp, e⟩ := mem_sources hsrc
      obtain ⟨ty, hty'⟩ := Option.isSome_iff_exists.mp (hso.srcIsNode p hp)
      have hty := SMap.find?_mem hty'
      refine ⟨{ id := src, ty := ty, att := SMap.find? src st.nodeAtt }, ?_, rfl⟩
      simp only [storeNodes, List.mem_map, List.mem_filter]
      exact ⟨(src, ty), ⟨e ▸ hty, hvis⟩, rfl⟩
  · cases hi

/-- the reachable content of a well-formed state satisfies every content-level hypothesis -/
theorem content_ok {s : WState} (hs : StateOk s) {r : NKey} (hr : IdOk r.1 ∧ IdOk r.2) :
    ContentOk (content s r) ∧ ∀ i, i ∈ (content s r).insts → InstCanon i := by
  have key : ∀ i, i ∈ (content s r).insts → InstOk i ∧ InstCanon i := by
    intro i hi
    simp only [content, contentOf, List.mem_flatMap] at hi
    obtain ⟨w, _, hw⟩ := hi
    exact storeInst_ok hs _ w i hw
  exact ⟨⟨hr.1, hr.2, fun i hi => (key i hi).1⟩, fun i hi => (key i hi).2⟩

end Root
end EchoVerif
