/-
  The last effect of `diffState a b` on every location is `b`'s value there — for ARBITRARY pairs of
  fully well-formed states (`WFI`): instance table, store set, nodes, edges, node attachments; and
  edge attachments up to ONE named exception (a NEW portal whose parent-slot edge is re-parented in
  the same diff: the re-emitted SetAttachment is skipped, the slot ends empty — and the final
  portal validation of `apply_ops_to_state` then rejects the state). Used by C04 `diff_apply`.
-/
import EchoVerif.Lemmas.DiffFullMem

set_option linter.unusedSimpArgs false
set_option linter.unusedVariables false
set_option linter.unusedSectionVars false

namespace EchoVerif
namespace Graph
open SMap

theorem kind_OP (k : AttKey) (cw cr : Nat) (i : PortalInit) : (Op.openPortal k cw cr i).kind = 1 := rfl
theorem kind_UI (i : Instance) : (Op.upsertInstance i).kind = 2 := rfl
theorem kind_DI (w : Nat) : (Op.deleteInstance w).kind = 3 := rfl
theorem kind_UN (w i ty : Nat) : (Op.upsertNode w i ty).kind = 6 := rfl

theorem lastEff_map {V W : Type} (eff : Op → Option V) (f : V → W) :
    ∀ (l : List Op) (x : V),
      lastEff (fun o => (eff o).map f) l (f x) = f (lastEff eff l x)
  | [], _ => rfl
  | o :: l, x => by
    simp only [lastEff, List.foldl_cons]
    have : orKeep ((eff o).map f) (f x) = f (orKeep (eff o) x) := by
      cases eff o <;> rfl
    rw [this]
    exact lastEff_map eff f l _

theorem effSt_eq_map (w : Nat) (o : Op) : effSt w o = (effInst w o).map Option.isSome := by
  cases o <;> simp [effSt, effInst] <;> split <;> rfl

theorem nodeAt_storeOr (a : WState) (w i : Nat) : nodeAt a w i = find? i (storeOr a w).nodes := by
  unfold nodeAt storeOr WState.store?; cases find? w a.stores <;> rfl
theorem edgeAt_storeOr (a : WState) (w i : Nat) : edgeAt a w i = find? i (storeOr a w).edges := by
  unfold edgeAt storeOr WState.store?; cases find? w a.stores <;> rfl
theorem nattAt_storeOr (a : WState) (w i : Nat) : nattAt a w i = find? i (storeOr a w).nodeAtt := by
  unfold nattAt storeOr WState.store?; cases find? w a.stores <;> rfl
theorem eattAt_storeOr (a : WState) (w i : Nat) : eattAt a w i = find? i (storeOr a w).edgeAtt := by
  unfold eattAt storeOr WState.store?; cases find? w a.stores <;> rfl

theorem attValue_node (s : WState) (w i : Nat) (p : Plane) :
    attValueForKey s { owner := .node w i, plane := p } = nattAt s w i := rfl
theorem attValue_edge (s : WState) (w i : Nat) (p : Plane) :
    attValueForKey s { owner := .edge w i, plane := p } = eattAt s w i := rfl

theorem nattAt_some_store {s : WState} {w i : Nat} {v : Att} (h : nattAt s w i = some v) :
    ∃ st, s.store? w = some st ∧ find? i st.nodeAtt = some v := by
  unfold nattAt at h
  cases hx : s.store? w with
  | none => rw [hx] at h; cases h
  | some st => rw [hx] at h; exact ⟨st, rfl, h⟩

theorem eattAt_some_store {s : WState} {w i : Nat} {v : Att} (h : eattAt s w i = some v) :
    ∃ st, s.store? w = some st ∧ find? i st.edgeAtt = some v := by
  unfold eattAt at h
  cases hx : s.store? w with
  | none => rw [hx] at h; cases h
  | some st => rw [hx] at h; exact ⟨st, rfl, h⟩

theorem wfi_inst_of_store {s : WState} (hs : WFI s) {w : Nat} {st : Store} (h : s.store? w = some st) :
    ∃ inst, find? w s.instances = some inst := by
  have := hs.keys w
  rw [h] at this
  cases hx : find? w s.instances with
  | none => rw [hx] at this; cases this
  | some inst => exact ⟨inst, rfl⟩

theorem wfi_store_none {s : WState} (hs : WFI s) {w : Nat} (h : find? w s.instances = none) :
    s.store? w = none := by
  have := hs.keys w
  rw [h] at this
  cases hx : s.store? w with
  | none => rfl
  | some st => rw [hx] at this; cases this

theorem wfi_inst_none {s : WState} (hs : WFI s) {w : Nat} (h : s.store? w = none) :
    find? w s.instances = none := by
  have := hs.keys w
  rw [h] at this
  cases hx : find? w s.instances with
  | none => rfl
  | some st => rw [hx] at this; cases this

theorem storeOr_none {a : WState} {w : Nat} (h : a.store? w = none) : storeOr a w = Store.empty := by
  unfold storeOr; unfold WState.store? at h; rw [h]

theorem portalOf_unique {a b : WState} {w : Nat} {pk pk' : AttKey} {root root' ty ty' : Nat}
    (h : PortalOf a b w pk root ty) (h' : PortalOf a b w pk' root' ty') :
    pk = pk' ∧ root = root' ∧ ty = ty' := by
  obtain ⟨_, inst, child, g1, g2, g3, _, g5, g6⟩ := h
  obtain ⟨_, inst', child', g1', g2', g3', _, g5', g6'⟩ := h'
  rw [g1] at g1'; cases g1'
  rw [g5] at g5'; cases g5'
  rw [g2] at g2'; cases g2'
  subst g3; subst g3'
  rw [g6] at g6'; cases g6'
  exact ⟨rfl, rfl, rfl⟩

/-- Skeleton ops of another warp do not touch a location of `w`; no skeleton op touches the
    instance table. -/
theorem effI_other_warp {sn : Nat → Nat → Prop} {sa : AttKey → Prop} {w' : Nat} {B A : Store}
    {o : Op} (h : DiffFormS sn sa w' B A o) {w : Nat} (hne : w' ≠ w) (i : Nat) :
    effNodeI w i o = none ∧ effEdgeI w i o = none ∧ effNattI w i o = none ∧
    effEattI w i o = none := by
  cases h <;> simp [effNodeI, effNode, effEdgeI, effEdge, effNattI, effNatt, effEattI, effEatt,
    hne, AttKey.nodeAlpha, AttKey.edgeBeta]

theorem effInst_skel {sn : Nat → Nat → Prop} {sa : AttKey → Prop} {w' : Nat} {B A : Store}
    {o : Op} (h : DiffFormS sn sa w' B A o) (w : Nat) : effInst w o = none := by
  cases h <;> rfl

section
variable {a b : WState} (ha : WFI a) (hb : WFI b)
include ha hb

theorem final_inst (w : Nat) :
    lastEff (effInst w) (diffState a b) (instAt a w) = instAt b w := by
  have hmem := mem_diffState_full ha.wf hb.wf
  unfold instAt
  cases hbw : find? w b.instances with
  | none =>
    apply lastEff_same
    · intro o ho
      cases (hmem o).mp ho with
      | op w' pk root ty hP =>
        by_cases hc : w' = w
        · subst hc
          obtain ⟨_, inst, child, g, _⟩ := hP
          rw [hbw] at g; cases g
        · simp [effInst, hc]
      | di w' h1 h2 => by_cases hc : w' = w <;> simp [effInst, hc]
      | ui w' inst h1 h2 h3 =>
        have hk := hb.warpKey w' inst h1
        by_cases hc : w' = w
        · subst hc; rw [hbw] at h1; cases h1
        · left; simp [effInst, hk, hc]
      | sk w' stA o h1 h2 => exact Or.inl (effInst_skel h2 w)
    · by_cases hx : find? w a.instances = none
      · exact Or.inr hx
      · exact Or.inl ⟨.deleteInstance w, (hmem _).mpr (.di w hx hbw), by simp [effInst]⟩
  | some instB =>
    by_cases hsame : find? w a.instances = some instB
    · rw [hsame]
      apply lastEff_none
      intro o ho
      cases (hmem o).mp ho with
      | op w' pk root ty hP =>
        by_cases hc : w' = w
        · subst hc; rw [hP.1] at hsame; cases hsame
        · simp [effInst, hc]
      | di w' h1 h2 =>
        by_cases hc : w' = w
        · subst hc; rw [hbw] at h2; cases h2
        · simp [effInst, hc]
      | ui w' inst h1 h2 h3 =>
        have hk := hb.warpKey w' inst h1
        by_cases hc : w' = w
        · subst hc; rw [hbw] at h1; cases h1; exact absurd hsame h2
        · simp [effInst, hk, hc]
      | sk w' stA o h1 h2 => exact effInst_skel h2 w
    · apply lastEff_same
      · intro o ho
        cases (hmem o).mp ho with
        | op w' pk root ty hP =>
          by_cases hc : w' = w
          · subst hc
            obtain ⟨_, inst, child, g1, g2, g3, _⟩ := hP
            rw [hbw] at g1; cases g1
            have hk := hb.warpKey w' instB hbw
            right
            simp only [effInst, if_true]
            congr 2
            cases instB
            simp only at g2 g3 hk
            subst g2; subst g3; subst hk; rfl
          · simp [effInst, hc]
        | di w' h1 h2 =>
          by_cases hc : w' = w
          · subst hc; rw [hbw] at h2; cases h2
          · simp [effInst, hc]
        | ui w' inst h1 h2 h3 =>
          have hk := hb.warpKey w' inst h1
          by_cases hc : w' = w
          · subst hc; rw [hbw] at h1; cases h1; right; simp [effInst, hk]
          · left; simp [effInst, hk, hc]
        | sk w' stA o h1 h2 => exact Or.inl (effInst_skel h2 w)
      · left
        have hk := hb.warpKey w instB hbw
        by_cases hP : ∃ pk root ty, PortalOf a b w pk root ty
        · obtain ⟨pk, root, ty, hP⟩ := hP
          refine ⟨_, (hmem _).mpr (.op w pk root ty hP), ?_⟩
          obtain ⟨_, inst, child, g1, g2, g3, _⟩ := hP
          rw [hbw] at g1; cases g1
          simp only [effInst, if_true]
          congr 2
          cases instB
          simp only at g2 g3 hk
          subst g2; subst g3; subst hk; rfl
        · exact ⟨_, (hmem _).mpr (.ui w instB hbw hsame hP), by simp [effInst, hk]⟩

theorem final_st (w : Nat) :
    lastEff (effSt w) (diffState a b) (stEx a w) = stEx b w := by
  have h1 : stEx a w = (instAt a w).isSome := by unfold stEx instAt; exact (ha.keys w).symm
  have h2 : stEx b w = (instAt b w).isSome := by unfold stEx instAt; exact (hb.keys w).symm
  have h3 : effSt w = fun o => (effInst w o).map Option.isSome := funext (effSt_eq_map w)
  rw [h1, h2, h3, lastEff_map, final_inst ha hb]

/-- Locations of a warp that has no store in `b`: every toucher clears. -/
theorem gone_all {w : Nat} (hbs : b.store? w = none) (i : Nat) (o : Op) (ho : DiffOp a b o) :
    (effNodeI w i o = none ∨ effNodeI w i o = some none) ∧
    (effEdgeI w i o = none ∨ effEdgeI w i o = some none) ∧
    (effNattI w i o = none ∨ effNattI w i o = some none) ∧
    (effEattI w i o = none ∨ effEattI w i o = some none) := by
  cases ho with
  | op w' pk root ty hP =>
    obtain ⟨_, inst, child, g1, g2, g3, g4, g5, g6⟩ := hP
    have hne : w' ≠ w := by intro e; subst e; rw [hbs] at g5; cases g5
    obtain ⟨owner, plane⟩ := pk
    cases owner with
    | node pw pi =>
      rw [attValue_node] at g4
      obtain ⟨st, hst, _⟩ := nattAt_some_store g4
      have hne2 : pw ≠ w := by intro e; subst e; rw [hbs] at hst; cases hst
      simp [effNodeI, effEdgeI, effEdge, effNattI, effEattI, hne, hne2]
    | edge pw pi =>
      rw [attValue_edge] at g4
      obtain ⟨st, hst, _⟩ := eattAt_some_store g4
      have hne2 : pw ≠ w := by intro e; subst e; rw [hbs] at hst; cases hst
      simp [effNodeI, effEdgeI, effEdge, effNattI, effEattI, hne, hne2]
  | di w' h1 h2 =>
    by_cases hc : w' = w <;> simp [effNodeI, effEdgeI, effNattI, effEattI, hc]
  | ui w' inst h1 h2 h3 =>
    simp [effNodeI, effNode, effEdgeI, effEdge, effNattI, effNatt, effEattI, effEatt]
  | sk w' stA o h1 h2 =>
    have hne : w' ≠ w := by intro e; subst e; rw [hbs] at h1; cases h1
    obtain ⟨e1, e2, e3, e4⟩ := effI_other_warp h2 hne i
    exact ⟨Or.inl e1, Or.inl e2, Or.inl e3, Or.inl e4⟩

theorem gone_exists {w : Nat} (hbs : b.store? w = none) (hx : a.store? w ≠ none) (i : Nat) :
    ∃ o ∈ diffState a b, effNodeI w i o = some none ∧ effEdgeI w i o = some none ∧
      effNattI w i o = some none ∧ effEattI w i o = some none := by
  refine ⟨.deleteInstance w, (mem_diffState_full ha.wf hb.wf _).mpr (.di w ?_ (wfi_inst_none hb hbs)), ?_⟩
  · intro e; exact hx (wfi_store_none ha e)
  · simp [effNodeI, effEdgeI, effNattI, effEattI]

theorem final_nodeI (w i : Nat) :
    lastEff (effNodeI w i) (diffState a b) (nodeAt a w i) = nodeAt b w i := by
  have hmem := mem_diffState_full ha.wf hb.wf
  cases hbs : b.store? w with
  | none =>
    have : nodeAt b w i = none := by simp [nodeAt, hbs]
    rw [this]
    apply lastEff_same
    · intro o ho; exact (gone_all ha hb hbs i o ((hmem o).mp ho)).1
    · by_cases hx : a.store? w = none
      · right; simp [nodeAt, hx]
      · obtain ⟨o, ho, h1, _⟩ := gone_exists ha hb hbs hx i
        exact Or.inl ⟨o, ho, h1⟩
  | some stA =>
    obtain ⟨instB, hinstB⟩ := wfi_inst_of_store hb hbs
    have hb' : nodeAt b w i = find? i stA.nodes := by simp [nodeAt, hbs]
    rw [hb', nodeAt_storeOr]
    by_cases hsk : SkN a b w i
    · obtain ⟨pk, ty, hP⟩ := hsk
      have hty : find? i stA.nodes = some ty := by
        obtain ⟨_, inst, child, g1, g2, g3, g4, g5, g6⟩ := hP
        rw [hbs] at g5; cases g5; exact g6
      rw [hty]
      apply lastEff_same
      · intro o ho
        cases (hmem o).mp ho with
        | op w' pk' root' ty' hP' =>
          by_cases hc : w' = w ∧ root' = i
          · obtain ⟨rfl, rfl⟩ := hc
            obtain ⟨_, _, e⟩ := portalOf_unique hP hP'
            subst e; right; simp [effNodeI]
          · left; simp [effNodeI, hc]
        | di w' h1 h2 =>
          by_cases hc : w' = w
          · subst hc; rw [hinstB] at h2; cases h2
          · simp [effNodeI, hc]
        | ui w' inst h1 h2 h3 => left; rfl
        | sk w' stA' o h1 h2 =>
          by_cases hw : w' = w
          · subst hw
            cases h2 with
            | dn i' hc g1 g2 =>
              by_cases hi : i' = i
              · subst hi; exact absurd ⟨pk, ty, hP⟩ hc
              · simp [effNodeI, effNode, hi]
            | un i' ty' hc g1 g2 =>
              by_cases hi : i' = i
              · subst hi; exact absurd ⟨pk, ty, hP⟩ hc
              · simp [effNodeI, effNode, hi]
            | sn => simp [effNodeI, effNode]
            | de => simp [effNodeI, effNode]
            | ue => simp [effNodeI, effNode]
            | se => simp [effNodeI, effNode]
          · exact Or.inl (effI_other_warp h2 hw i).1
      · exact Or.inl ⟨_, (hmem _).mpr (.op w pk i ty hP), by simp [effNodeI]⟩
    · -- not a canonicalised portal root: only DeleteNode / UpsertNode of (w, i) touch it
      have htouch : ∀ o, DiffOp a b o → ∀ v, effNodeI w i o = some v →
          (v = none ∧ find? i stA.nodes = none) ∨ (∃ ty, v = some ty ∧ find? i stA.nodes = some ty) := by
        intro o ho v hv
        cases ho with
        | op w' pk' root' ty' hP' =>
          by_cases hc : w' = w ∧ root' = i
          · obtain ⟨rfl, rfl⟩ := hc; exact absurd ⟨pk', ty', hP'⟩ hsk
          · simp [effNodeI, hc] at hv
        | di w' h1 h2 =>
          by_cases hc : w' = w
          · subst hc; rw [hinstB] at h2; cases h2
          · simp [effNodeI, hc] at hv
        | ui w' inst h1 h2 h3 => simp [effNodeI, effNode] at hv
        | sk w' stA' o h1 h2 =>
          by_cases hw : w' = w
          · subst hw
            rw [hbs] at h1; cases h1
            cases h2 with
            | dn i' hc g1 g2 =>
              by_cases hi : i' = i
              · subst hi; simp [effNodeI, effNode] at hv; subst hv; exact Or.inl ⟨rfl, g2⟩
              · simp [effNodeI, effNode, hi] at hv
            | un i' ty' hc g1 g2 =>
              by_cases hi : i' = i
              · subst hi; simp [effNodeI, effNode] at hv; subst hv; exact Or.inr ⟨ty', rfl, g1⟩
              · simp [effNodeI, effNode, hi] at hv
            | sn => simp [effNodeI, effNode] at hv
            | de => simp [effNodeI, effNode] at hv
            | ue => simp [effNodeI, effNode] at hv
            | se => simp [effNodeI, effNode] at hv
          · rw [(effI_other_warp h2 hw i).1] at hv; cases hv
      apply lastEff_same
      · intro o ho
        cases hv : effNodeI w i o with
        | none => exact Or.inl rfl
        | some v =>
          right
          rcases htouch o ((hmem o).mp ho) v hv with ⟨rfl, h⟩ | ⟨ty, rfl, h⟩
          · rw [h]
          · rw [h]
      · by_cases hxy : find? i (storeOr a w).nodes = find? i stA.nodes
        · exact Or.inr hxy
        · left
          cases hy : find? i stA.nodes with
          | none =>
            refine ⟨.deleteNode w i, (hmem _).mpr (.sk w stA _ hbs (.dn i hsk ?_ hy)), by simp [effNodeI, effNode]⟩
            intro hx; exact hxy (hx.trans hy.symm)
          | some ty =>
            refine ⟨.upsertNode w i ty, (hmem _).mpr (.sk w stA _ hbs (.un i ty hsk hy ?_)), by simp [effNodeI, effNode]⟩
            intro hx; exact hxy (hx.trans hy.symm)

theorem final_edgeI (w i : Nat) :
    lastEff (effEdgeI w i) (diffState a b) (edgeAt a w i) = edgeAt b w i := by
  have hmem := mem_diffState_full ha.wf hb.wf
  cases hbs : b.store? w with
  | none =>
    have : edgeAt b w i = none := by simp [edgeAt, hbs]
    rw [this]
    apply lastEff_same
    · intro o ho; exact (gone_all ha hb hbs i o ((hmem o).mp ho)).2.1
    · by_cases hx : a.store? w = none
      · right; simp [edgeAt, hx]
      · obtain ⟨o, ho, _, h1, _⟩ := gone_exists ha hb hbs hx i
        exact Or.inl ⟨o, ho, h1⟩
  | some stA =>
    obtain ⟨instB, hinstB⟩ := wfi_inst_of_store hb hbs
    have hb' : edgeAt b w i = find? i stA.edges := by simp [edgeAt, hbs]
    rw [hb', edgeAt_storeOr]
    -- only DeleteEdge / UpsertEdge of (w, i) touch the location
    have htouch : ∀ o, DiffOp a b o → ∀ v, effEdgeI w i o = some v →
        (v = none ∧ ∃ eB, o = .deleteEdge w eB.src i ∧ find? i (storeOr a w).edges = some eB ∧
          (find? i stA.edges = none ∨ ∃ eA, find? i stA.edges = some eA ∧ eB.src ≠ eA.src)) ∨
        (∃ eA, v = some eA ∧ o = .upsertEdge w i eA.src eA.dst eA.ty ∧ find? i stA.edges = some eA ∧
          find? i (storeOr a w).edges ≠ some eA) := by
      intro o ho v hv
      cases ho with
      | op w' pk' root' ty' hP' => simp [effEdgeI, effEdge] at hv
      | di w' h1 h2 =>
        by_cases hc : w' = w
        · subst hc; rw [hinstB] at h2; cases h2
        · simp [effEdgeI, hc] at hv
      | ui w' inst h1 h2 h3 => simp [effEdgeI, effEdge] at hv
      | sk w' stA' o h1 h2 =>
        by_cases hw : w' = w
        · subst hw
          rw [hbs] at h1; cases h1
          cases h2 with
          | de id eB g1 g2 =>
            by_cases hi : id = i
            · subst hi; simp [effEdgeI, effEdge] at hv; subst hv; exact Or.inl ⟨rfl, eB, rfl, g1, g2⟩
            · simp [effEdgeI, effEdge, hi] at hv
          | ue id eA g1 g2 =>
            by_cases hi : id = i
            · subst hi; simp [effEdgeI, effEdge] at hv; subst hv; exact Or.inr ⟨eA, rfl, rfl, g1, g2⟩
            · simp [effEdgeI, effEdge, hi] at hv
          | dn => simp [effEdgeI, effEdge] at hv
          | un => simp [effEdgeI, effEdge] at hv
          | sn => simp [effEdgeI, effEdge] at hv
          | se => simp [effEdgeI, effEdge] at hv
        · rw [(effI_other_warp h2 hw i).2.1] at hv; cases hv
    cases hy : find? i stA.edges with
    | none =>
      apply lastEff_same
      · intro o ho
        cases hv : effEdgeI w i o with
        | none => exact Or.inl rfl
        | some v =>
          right
          rcases htouch o ((hmem o).mp ho) v hv with ⟨rfl, _⟩ | ⟨eA, _, _, h, _⟩
          · rfl
          · rw [hy] at h; cases h
      · cases hx : find? i (storeOr a w).edges with
        | none => exact Or.inr rfl
        | some eB =>
          exact Or.inl ⟨.deleteEdge w eB.src i, (hmem _).mpr (.sk w stA _ hbs (.de i eB hx (Or.inl hy))),
            by simp [effEdgeI, effEdge]⟩
    | some eA =>
      by_cases hx : find? i (storeOr a w).edges = some eA
      · rw [hx]
        apply lastEff_none
        intro o ho
        cases hv : effEdgeI w i o with
        | none => rfl
        | some v =>
          exfalso
          rcases htouch o ((hmem o).mp ho) v hv with ⟨_, eB, _, h1, h2⟩ | ⟨eA', _, _, h1, h2⟩
          · rw [hx] at h1; cases h1
            rcases h2 with h2 | ⟨e', h2, h3⟩
            · rw [hy] at h2; cases h2
            · rw [hy] at h2; cases h2; exact h3 rfl
          · rw [hy] at h1; cases h1; exact h2 hx
      · apply lastEff_of_top (effEdgeI w i) Op.kind _ (diffState_kind_sorted a b)
          (.upsertEdge w i eA.src eA.dst eA.ty)
          ((hmem _).mpr (.sk w stA _ hbs (.ue i eA hy hx)))
        · simp [effEdgeI, effEdge]
        · intro o ho hk
          cases hv : effEdgeI w i o with
          | none => exact Or.inl rfl
          | some v =>
            right
            rcases htouch o ((hmem o).mp ho) v hv with ⟨_, eB, rfl, _, _⟩ | ⟨eA', rfl, _, h1, _⟩
            · rw [kind_UE, kind_DE] at hk; omega
            · rw [hy] at h1; cases h1; rfl

theorem final_nattI (w i : Nat) :
    lastEff (effNattI w i) (diffState a b) (nattAt a w i) = nattAt b w i := by
  have hmem := mem_diffState_full ha.wf hb.wf
  cases hbs : b.store? w with
  | none =>
    have : nattAt b w i = none := by simp [nattAt, hbs]
    rw [this]
    apply lastEff_same
    · intro o ho; exact (gone_all ha hb hbs i o ((hmem o).mp ho)).2.2.1
    · by_cases hx : a.store? w = none
      · right; simp [nattAt, hx]
      · obtain ⟨o, ho, _, _, h1, _⟩ := gone_exists ha hb hbs hx i
        exact Or.inl ⟨o, ho, h1⟩
  | some stA =>
    obtain ⟨instB, hinstB⟩ := wfi_inst_of_store hb hbs
    have hb' : nattAt b w i = find? i stA.nodeAtt := by simp [nattAt, hbs]
    have hbsub := hb.wf.natt_sub w i
    have hasub := ha.wf.natt_sub w i
    rw [nattAt_storeOr, nodeAt_storeOr] at hasub
    simp only [nattAt, nodeAt, hbs] at hbsub
    rw [hb', nattAt_storeOr]
    apply lastEff_same
    · intro o ho
      cases (hmem o).mp ho with
      | op w' pk' root' ty' hP' =>
        obtain ⟨owner, plane⟩ := pk'
        cases owner with
        | node pw pi =>
          by_cases hc : pw = w ∧ pi = i
          · obtain ⟨rfl, rfl⟩ := hc
            obtain ⟨_, inst, child, g1, g2, g3, g4, g5, g6⟩ := hP'
            rw [attValue_node, hb'] at g4
            right; simp [effNattI, g4]
          · left; simp [effNattI, hc]
        | edge pw pi => left; simp [effNattI]
      | di w' h1 h2 =>
        by_cases hc : w' = w
        · subst hc; rw [hinstB] at h2; cases h2
        · simp [effNattI, hc]
      | ui w' inst h1 h2 h3 => left; rfl
      | sk w' stA' o h1 h2 =>
        by_cases hw : w' = w
        · subst hw
          rw [hbs] at h1; cases h1
          cases h2 with
          | dn i' hc g1 g2 =>
            by_cases hi : i' = i
            · subst hi
              right
              simp only [effNattI, effNatt, and_self, if_true]
              congr 1
              cases hy : find? i' stA.nodeAtt with
              | none => rfl
              | some v => exact absurd g2 (hbsub (by rw [hy]; simp))
            · simp [effNattI, effNatt, hi]
          | sn i' hc g1 g2 =>
            by_cases hi : i' = i
            · subst hi; right; simp [effNattI, effNatt, AttKey.nodeAlpha]
            · simp [effNattI, effNatt, AttKey.nodeAlpha, hi]
          | un => simp [effNattI, effNatt]
          | de => simp [effNattI, effNatt]
          | ue => simp [effNattI, effNatt]
          | se => simp [effNattI, effNatt, AttKey.edgeBeta]
        · exact Or.inl (effI_other_warp h2 hw i).2.2.1
    · by_cases hxy : find? i (storeOr a w).nodeAtt = find? i stA.nodeAtt
      · exact Or.inr hxy
      · left
        by_cases hn : find? i stA.nodes = none
        · have hy : find? i stA.nodeAtt = none := by
            cases hy : find? i stA.nodeAtt with
            | none => rfl
            | some v => exact absurd hn (hbsub (by rw [hy]; simp))
          have hxn : find? i (storeOr a w).nodes ≠ none := hasub (by rw [hy] at hxy; exact hxy)
          have hsk : ¬ SkN a b w i := by
            rintro ⟨pk, ty, _, inst, child, g1, g2, g3, g4, g5, g6⟩
            rw [hbs] at g5; cases g5; rw [hn] at g6; cases g6
          exact ⟨.deleteNode w i, (hmem _).mpr (.sk w stA _ hbs (.dn i hsk hxn hn)),
            by simp [effNattI, effNatt, hy]⟩
        · by_cases hsa : SkA a b (AttKey.nodeAlpha w i)
          · obtain ⟨cw, root, ty, hP⟩ := hsa
            refine ⟨_, (hmem _).mpr (.op cw _ root ty hP), ?_⟩
            obtain ⟨_, inst, child, g1, g2, g3, g4, g5, g6⟩ := hP
            simp only [AttKey.nodeAlpha, attValue_node] at g4
            rw [hb'] at g4
            simp [effNattI, AttKey.nodeAlpha, g4]
          · exact ⟨.setAtt (AttKey.nodeAlpha w i) (find? i stA.nodeAtt),
              (hmem _).mpr (.sk w stA _ hbs (.sn i hsa hn hxy)),
              by simp [effNattI, effNatt, AttKey.nodeAlpha]⟩

/-- Edge attachments: `b`'s value, or — the single exception — the slot ends EMPTY although it is
    the parent slot of a canonicalised new portal (its edge was re-parented in the same diff). -/
theorem final_eattI (w i : Nat) :
    lastEff (effEattI w i) (diffState a b) (eattAt a w i) = eattAt b w i ∨
    (lastEff (effEattI w i) (diffState a b) (eattAt a w i) = none ∧
      ∃ cw root ty, PortalOf a b cw (AttKey.edgeBeta w i) root ty) := by
  have hmem := mem_diffState_full ha.wf hb.wf
  cases hbs : b.store? w with
  | none =>
    left
    have : eattAt b w i = none := by simp [eattAt, hbs]
    rw [this]
    apply lastEff_same
    · intro o ho; exact (gone_all ha hb hbs i o ((hmem o).mp ho)).2.2.2
    · by_cases hx : a.store? w = none
      · right; simp [eattAt, hx]
      · obtain ⟨o, ho, _, _, _, h1⟩ := gone_exists ha hb hbs hx i
        exact Or.inl ⟨o, ho, h1⟩
  | some stA =>
    obtain ⟨instB, hinstB⟩ := wfi_inst_of_store hb hbs
    have hb' : eattAt b w i = find? i stA.edgeAtt := by simp [eattAt, hbs]
    have hbsub := hb.wf.eatt_sub w i
    have hasub := ha.wf.eatt_sub w i
    rw [eattAt_storeOr, edgeAt_storeOr] at hasub
    simp only [eattAt, edgeAt, hbs] at hbsub
    rw [hb', eattAt_storeOr]
    -- what can touch the location
    have htouch : ∀ o, DiffOp a b o → ∀ v, effEattI w i o = some v →
        (v = find? i stA.edgeAtt ∧ ∃ cw, v = some (.descend cw) ∧ o.kind = 1) ∨
        (v = none ∧ ∃ eB, o = .deleteEdge w eB.src i ∧ find? i (storeOr a w).edges = some eB ∧
          (find? i stA.edges = none ∨ ∃ eA, find? i stA.edges = some eA ∧ eB.src ≠ eA.src)) ∨
        (v = find? i stA.edgeAtt ∧ ¬ SkA a b (AttKey.edgeBeta w i) ∧ ∃ eA, find? i stA.edges = some eA ∧
          (find? i (storeOr a w).edgeAtt ≠ find? i stA.edgeAtt ∨ migratedAtt (storeOr a w) stA i eA)) := by
      intro o ho v hv
      cases ho with
      | op w' pk' root' ty' hP' =>
        obtain ⟨owner, plane⟩ := pk'
        cases owner with
        | edge pw pi =>
          by_cases hc : pw = w ∧ pi = i
          · obtain ⟨rfl, rfl⟩ := hc
            obtain ⟨_, inst, child, g1, g2, g3, g4, g5, g6⟩ := hP'
            rw [attValue_edge, hb'] at g4
            simp [effEattI] at hv
            subst hv
            exact Or.inl ⟨g4.symm, w', rfl, rfl⟩
          · simp [effEattI, hc] at hv
        | node pw pi => simp [effEattI] at hv
      | di w' h1 h2 =>
        by_cases hc : w' = w
        · subst hc; rw [hinstB] at h2; cases h2
        · simp [effEattI, hc] at hv
      | ui w' inst h1 h2 h3 => simp [effEattI, effEatt] at hv
      | sk w' stA' o h1 h2 =>
        by_cases hw : w' = w
        · subst hw
          rw [hbs] at h1; cases h1
          cases h2 with
          | de id eB g1 g2 =>
            by_cases hi : id = i
            · subst hi; simp [effEattI, effEatt] at hv; subst hv
              exact Or.inr (Or.inl ⟨rfl, eB, rfl, g1, g2⟩)
            · simp [effEattI, effEatt, hi] at hv
          | se id eA hc g1 g2 =>
            by_cases hi : id = i
            · subst hi; simp [effEattI, effEatt, AttKey.edgeBeta] at hv; subst hv
              exact Or.inr (Or.inr ⟨rfl, hc, eA, g1, g2⟩)
            · simp [effEattI, effEatt, AttKey.edgeBeta, hi] at hv
          | dn => simp [effEattI, effEatt] at hv
          | un => simp [effEattI, effEatt] at hv
          | sn => simp [effEattI, effEatt, AttKey.nodeAlpha] at hv
          | ue => simp [effEattI, effEatt] at hv
        · rw [(effI_other_warp h2 hw i).2.2.2] at hv; cases hv
    by_cases hse : ∃ eA, find? i stA.edges = some eA ∧ ¬ SkA a b (AttKey.edgeBeta w i) ∧
        (find? i (storeOr a w).edgeAtt ≠ find? i stA.edgeAtt ∨ migratedAtt (storeOr a w) stA i eA)
    · -- the SetAttachment is emitted: it is the last toucher
      left
      obtain ⟨eA, hy, hsa, hc⟩ := hse
      apply lastEff_of_top (effEattI w i) Op.kind _ (diffState_kind_sorted a b)
        (.setAtt (AttKey.edgeBeta w i) (find? i stA.edgeAtt))
        ((hmem _).mpr (.sk w stA _ hbs (.se i eA hsa hy hc)))
      · simp [effEattI, effEatt, AttKey.edgeBeta]
      · intro o ho hk
        cases hv : effEattI w i o with
        | none => exact Or.inl rfl
        | some v =>
          right
          rcases htouch o ((hmem o).mp ho) v hv with ⟨_, cw, _, h⟩ | ⟨_, eB, rfl, _⟩ | ⟨rfl, _⟩
          · rw [kind_SA, h] at hk; omega
          · rw [kind_SA, kind_DE] at hk; omega
          · rfl
    · by_cases hmig : SkA a b (AttKey.edgeBeta w i) ∧ ∃ eB eA, find? i (storeOr a w).edges = some eB ∧
          find? i stA.edges = some eA ∧ eB.src ≠ eA.src
      · -- THE EXCEPTION: new portal on a re-parented edge; DeleteEdge is the last toucher
        right
        obtain ⟨⟨cw, root, ty, hP⟩, eB, eA, hx, hy, hsrc⟩ := hmig
        refine ⟨?_, cw, root, ty, hP⟩
        apply lastEff_of_top (effEattI w i) Op.kind _ (diffState_kind_sorted a b)
          (.deleteEdge w eB.src i)
          ((hmem _).mpr (.sk w stA _ hbs (.de i eB hx (Or.inr ⟨eA, hy, hsrc⟩))))
        · simp [effEattI, effEatt]
        · intro o ho hk
          cases hv : effEattI w i o with
          | none => exact Or.inl rfl
          | some v =>
            right
            rcases htouch o ((hmem o).mp ho) v hv with ⟨_, cw', _, h⟩ | ⟨rfl, _⟩ | ⟨_, hsa, _⟩
            · rw [kind_DE, h] at hk; omega
            · rfl
            · exact absurd ⟨cw, root, ty, hP⟩ hsa
      · left
        apply lastEff_same
        · intro o ho
          cases hv : effEattI w i o with
          | none => exact Or.inl rfl
          | some v =>
            right
            rcases htouch o ((hmem o).mp ho) v hv with ⟨h, _⟩ | ⟨rfl, eB, _, hx, h2⟩ | ⟨_, hsa, eA, hy, hc⟩
            · rw [h]
            · congr 1
              cases hya : find? i stA.edgeAtt with
              | none => rfl
              | some v =>
                exfalso
                rcases h2 with h2 | ⟨eA, h2, h3⟩
                · exact hbsub (by rw [hya]; simp) h2
                · by_cases hsa : SkA a b (AttKey.edgeBeta w i)
                  · exact hmig ⟨hsa, eB, eA, hx, h2, h3⟩
                  · exact hse ⟨eA, h2, hsa, Or.inr ⟨by rw [hya]; rfl, eB, hx, h3⟩⟩
            · exact absurd ⟨eA, hy, hsa, hc⟩ hse
        · by_cases hxy : find? i (storeOr a w).edgeAtt = find? i stA.edgeAtt
          · exact Or.inr hxy
          · left
            by_cases hsa : SkA a b (AttKey.edgeBeta w i)
            · obtain ⟨cw, root, ty, hP⟩ := hsa
              refine ⟨_, (hmem _).mpr (.op cw _ root ty hP), ?_⟩
              obtain ⟨_, inst, child, g1, g2, g3, g4, g5, g6⟩ := hP
              simp only [AttKey.edgeBeta, attValue_edge] at g4
              rw [hb'] at g4
              simp [effEattI, AttKey.edgeBeta, g4]
            · have hyn : find? i stA.edges = none := by
                cases hy : find? i stA.edges with
                | none => rfl
                | some eA => exact absurd ⟨eA, hy, hsa, Or.inl hxy⟩ hse
              have hya : find? i stA.edgeAtt = none := by
                cases hy : find? i stA.edgeAtt with
                | none => rfl
                | some v => exact absurd hyn (hbsub (by rw [hy]; simp))
              have hxe : find? i (storeOr a w).edges ≠ none := hasub (by rw [hya] at hxy; exact hxy)
              cases hx : find? i (storeOr a w).edges with
              | none => exact absurd hx hxe
              | some eB =>
                exact ⟨.deleteEdge w eB.src i,
                  (hmem _).mpr (.sk w stA _ hbs (.de i eB hx (Or.inl hyn))),
                  by simp [effEattI, effEatt, hya]⟩

end

end Graph
end EchoVerif
