/-
  The COST model of the ABI CBOR decoder (Model/CostCbor.lean, C13) and the FUNCTIONAL model
  (Model/Codec/Cbor.lean, C12) compute the same result class: for every input, the cost model
  accepts iff `Cbor.decode` accepts, leaving the same rest, and a typed cost-model error maps to the
  `CanonError` class of the functional decoder (`cls`).  Proved for the checked decoder
  (`depthChecked`, limit = `maxNesting`); the capacity rule is irrelevant for the result.
-/
import EchoVerif.Lemmas.CostCbor
import EchoVerif.Lemmas.Codec.CborFuel

set_option linter.unusedSimpArgs false
set_option linter.unusedVariables false

namespace EchoVerif.CostCbor
open EchoVerif EchoVerif.Generated.CborHead

/-- the functional model's (coarser) `CanonError` class of a typed cost-model error -/
def cls : Err → Cbor.Err
  | .incomplete => .incomplete | .trailing => .trailing | .tag => .tag | .indefinite => .indefinite
  | .nonCanonInt => .nonCanonicalInt | .nonCanonFloat => .nonCanonicalFloat
  | .floatShouldBeInt => .floatShouldBeInt | .keyOrder => .mapKeyOrder | .keyDup => .mapKeyDuplicate
  | .lenInfo => .decode | .intRange => .decode | .utf8 => .decode | .simple => .decode
  | .depth => .nestingLimit | .fuel => .fuel

def mapE {α : Type} : Except Err α → Except Cbor.Err α
  | .ok a => .ok a
  | .error e => .error (cls e)

/-- forget the decoded value, keep the remaining input -/
def restOf {α : Type} : Except Cbor.Err (α × Bytes) → Except Cbor.Err Bytes
  | .ok (_, r) => .ok r
  | .error e => .error e

theorem mapE_ok {α : Type} {x : Except Err α} {a : α} (h : mapE x = .ok a) : x = .ok a := by
  cases x with
  | ok b => simp only [mapE] at h; injection h with h; rw [h]
  | error e => simp [mapE] at h

theorem mapE_err {α : Type} {x : Except Err α} {e' : Cbor.Err} (h : mapE x = .error e') :
    ∃ e, x = .error e ∧ cls e = e' := by
  cases x with
  | ok b => simp [mapE] at h
  | error e => simp only [mapE] at h; injection h with h; exact ⟨e, rfl, h⟩

/-! ### big-endian value, `need`, `read_len` -/

theorem foldl_be (bs : Bytes) (acc : Nat) :
    bs.foldl (fun acc b => acc * 256 + b.toNat) acc = acc * 256 ^ bs.length + Cbor.beVal bs := by
  induction bs generalizing acc with
  | nil => simp [Cbor.beVal]
  | cons b bs ih =>
    simp only [List.foldl_cons, ih, Cbor.beVal, List.length_cons, Nat.pow_succ]
    generalize 256 ^ bs.length = p
    rw [Nat.add_mul, Nat.mul_assoc, Nat.mul_comm 256 p, Nat.add_assoc]

theorem beNat_eq (bs : Bytes) : beNat bs = Cbor.beVal bs := by
  simp [beNat, foldl_be]

theorem shorter_false {bs : Bytes} {n : Nat} (h : ¬ bs.length < n) : shorter bs n = false := by
  cases hs : shorter bs n with
  | false => rfl
  | true => exact absurd ((shorter_iff bs n).1 hs) h

theorem width_tie (info w bound : Nat) (bs : Bytes)
    (hov : ∀ v, decOverwide info v = decide (v ≤ bound)) :
    mapE (match readUint w bs with
          | .ok (v, r) => if v ≤ bound then .error .nonCanonInt else .ok (v, r)
          | .error e => .error e)
      = (match Cbor.takeN w bs with
          | .error e => .error e
          | .ok (a, r) =>
            if decOverwide info (Cbor.beVal a) then .error .nonCanonicalInt else .ok (Cbor.beVal a, r)) := by
  unfold readUint Cbor.takeN
  by_cases hs : bs.length < w
  · have h1 : shorter bs w = true := (shorter_iff _ _).2 hs
    simp [h1, hs, mapE, cls]
  · have h1 : shorter bs w = false := shorter_false hs
    simp only [h1, hs, if_false, hov, beNat_eq, Bool.false_eq_true, decide_eq_true_eq]
    split <;> simp [mapE, cls]

theorem readLen_tie (info : Nat) (bs : Bytes) : mapE (readLen info bs) = Cbor.readLen info bs := by
  unfold readLen Cbor.readLen decKind
  by_cases h0 : info ≤ 23
  · simp [h0, mapE]
  rw [if_neg h0, if_neg h0]
  by_cases h1 : info = 24
  · subst h1
    simp only [if_true]
    exact width_tie 24 1 23 bs (by intro v; simp [decOverwide])
  rw [if_neg h1, if_neg h1]
  by_cases h2 : info = 25
  · subst h2
    simp only [if_true]
    exact width_tie 25 2 0xff bs (by intro v; simp [decOverwide])
  rw [if_neg h2, if_neg h2]
  by_cases h3 : info = 26
  · subst h3
    simp only [if_true]
    exact width_tie 26 4 0xffff bs (by intro v; simp [decOverwide])
  rw [if_neg h3, if_neg h3]
  by_cases h4 : info = 27
  · subst h4
    simp only [if_true]
    exact width_tie 27 8 0xffffffff bs (by intro v; simp [decOverwide])
  rw [if_neg h4, if_neg h4]
  by_cases h5 : info = 31
  · simp [h5, mapE, cls]
  · simp [h5, mapE, cls]

/-! ### byte order, key check -/

theorem bytesLt_eq : ∀ a b : Bytes, bytesLt a b = (Cbor.bytesCmp a b == .lt)
  | [], [] => rfl
  | [], _ :: _ => rfl
  | _ :: _, [] => rfl
  | x :: xs, y :: ys => by
    simp only [bytesLt, Cbor.bytesCmp]
    by_cases h1 : x < y
    · simp [h1]
    · by_cases h2 : y < x
      · simp [h1, h2]
      · simp [h1, h2, bytesLt_eq xs ys]

theorem keyCheck_tie (last : Option Bytes) (kb : Bytes) :
    (keyCheck last kb).map cls =
      (match last with
        | none => none
        | some prev =>
          if kb == prev then some Cbor.Err.mapKeyDuplicate
          else if Cbor.bytesCmp kb prev == .lt then some Cbor.Err.mapKeyOrder
          else none) := by
  cases last with
  | none => rfl
  | some prev =>
    simp only [keyCheck, bytesLt_eq]
    by_cases h1 : kb = prev
    · simp [h1, cls]
    · by_cases h2 : (Cbor.bytesCmp kb prev == .lt) = true
      · simp [h1, h2, cls]
      · simp [h1, h2]

/-! ### one call: the head -/

theorem readUint_tie (w : Nat) (bs : Bytes) :
    mapE (readUint w bs) = (match Cbor.takeN w bs with
      | .error e => .error e
      | .ok (a, r) => .ok (Cbor.beVal a, r)) := by
  unfold readUint Cbor.takeN
  by_cases hs : bs.length < w
  · have h1 : shorter bs w = true := (shorter_iff _ _).2 hs
    simp [h1, hs, mapE, cls]
  · have h1 : shorter bs w = false := shorter_false hs
    simp [h1, hs, mapE, beNat_eq]

/-- the outcome of a scalar head, as the functional decoder computes it -/
theorem headInt_pos_tie (info : Nat) (tl : Bytes) :
    ∃ r, headInt false info tl = .done r 0 ∧
      mapE r = restOf (match Cbor.readLen info tl with
        | .error e => .error e
        | .ok (n, r) => .ok (Cbor.Val.int (Int.ofNat n), r)) := by
  have ht := readLen_tie info tl
  unfold headInt
  cases hr : readLen info tl with
  | error e =>
    rw [hr] at ht
    simp only [mapE] at ht
    exact ⟨.error e, rfl, by rw [← ht]; rfl⟩
  | ok p =>
    obtain ⟨n, r⟩ := p
    rw [hr] at ht
    simp only [mapE] at ht
    refine ⟨.ok r, by simp, by rw [← ht]; rfl⟩

theorem headInt_neg_tie (info : Nat) (tl : Bytes) :
    ∃ r, headInt true info tl = .done r 0 ∧
      mapE r = restOf (match Cbor.readLen info tl with
        | .error e => .error e
        | .ok (n, r) => if 2 ^ 63 ≤ n then .error .decode else .ok (Cbor.Val.int (-(1 + Int.ofNat n)), r)) := by
  have ht := readLen_tie info tl
  unfold headInt
  cases hr : readLen info tl with
  | error e =>
    rw [hr] at ht
    simp only [mapE] at ht
    exact ⟨.error e, rfl, by rw [← ht]; rfl⟩
  | ok p =>
    obtain ⟨n, r⟩ := p
    rw [hr] at ht
    simp only [mapE] at ht
    rw [← ht]
    by_cases hn : 2 ^ 63 ≤ n
    · exact ⟨.error .intRange, by simp [hn], by simp [hn, mapE, cls, restOf]⟩
    · exact ⟨.ok r, by simp [hn], by simp [hn, mapE, restOf]⟩

theorem headStr_tie (text : Bool) (info : Nat) (tl : Bytes) :
    ∃ r c, headStr text info tl = .done r c ∧
      mapE r = restOf (match Cbor.readLen info tl with
        | .error e => .error e
        | .ok (n, r) =>
          match Cbor.takeN n r with
          | .error e => .error e
          | .ok (data, r') =>
            if text then (if Cbor.utf8Valid data then .ok (Cbor.Val.text data, r') else .error .decode)
            else .ok (Cbor.Val.bytes data, r')) := by
  have ht := readLen_tie info tl
  unfold headStr
  cases hr : readLen info tl with
  | error e =>
    rw [hr] at ht
    simp only [mapE] at ht
    exact ⟨.error e, 0, rfl, by rw [← ht]; rfl⟩
  | ok p =>
    obtain ⟨n, r⟩ := p
    rw [hr] at ht
    simp only [mapE] at ht
    rw [← ht]
    simp only [Cbor.takeN]
    by_cases hs : r.length < n
    · have h1 : shorter r n = true := (shorter_iff _ _).2 hs
      exact ⟨.error .incomplete, 0, by simp [h1], by simp [hs, mapE, cls, restOf]⟩
    · have h1 : shorter r n = false := shorter_false hs
      cases text with
      | false => exact ⟨.ok (r.drop n), n, by simp [h1], by simp [hs, mapE, restOf]⟩
      | true =>
        by_cases hu : Cbor.utf8Valid (r.take n) = true
        · exact ⟨.ok (r.drop n), n, by simp [h1, validUtf8, hu], by simp [hs, hu, mapE, restOf]⟩
        · exact ⟨.error .utf8, 0, by simp [h1, validUtf8, hu], by simp [hs, hu, mapE, cls, restOf]⟩


def floatRes (w v : Nat) (r : Bytes) : Except Err Bytes :=
  match floatCheck w v with
  | some e => .error e
  | none => .ok r

theorem floatRes16 (v : Nat) (r : Bytes) :
    mapE (floatRes 2 v r) = restOf
      (if Cbor.isNan (Cbor.widen16 v) && v != Cbor.canonNan16 then .error .nonCanonicalFloat
       else if (Cbor.floatInt? (Cbor.widen16 v)).isSome then .error .floatShouldBeInt
       else .ok (Cbor.Val.float (Cbor.widen16 v), r)) := by
  simp only [floatRes, floatCheck, if_true]
  by_cases c1 : (Cbor.isNan (Cbor.widen16 v) && v != Cbor.canonNan16) = true
  · simp [c1, mapE, cls, restOf]
  · by_cases c2 : (Cbor.floatInt? (Cbor.widen16 v)).isSome = true
    · simp [c1, c2, mapE, cls, restOf]
    · simp [c1, c2, mapE, cls, restOf]

theorem floatRes32 (v : Nat) (r : Bytes) :
    mapE (floatRes 4 v r) = restOf
      (if (Cbor.floatInt? (Cbor.widen32 v)).isSome then .error .floatShouldBeInt
       else if Cbor.fits16 (Cbor.widen32 v) then .error .nonCanonicalFloat
       else .ok (Cbor.Val.float (Cbor.widen32 v), r)) := by
  simp only [floatRes, floatCheck, if_true, show ¬ ((4 : Nat) = 2) by omega, if_false]
  by_cases c1 : (Cbor.floatInt? (Cbor.widen32 v)).isSome = true
  · simp [c1, mapE, cls, restOf]
  · by_cases c2 : Cbor.fits16 (Cbor.widen32 v) = true
    · simp [c1, c2, mapE, cls, restOf]
    · simp [c1, c2, mapE, cls, restOf]

theorem floatRes64 (v : Nat) (r : Bytes) :
    mapE (floatRes 8 v r) = restOf
      (if (Cbor.floatInt? v).isSome then .error .floatShouldBeInt
       else if Cbor.fits16 v then .error .nonCanonicalFloat
       else if Cbor.fits32 v then .error .nonCanonicalFloat
       else .ok (Cbor.Val.float v, r)) := by
  simp only [floatRes, floatCheck, show ¬ ((8 : Nat) = 2) by omega, show ¬ ((8 : Nat) = 4) by omega, if_false]
  by_cases c1 : (Cbor.floatInt? v).isSome = true
  · simp [c1, mapE, cls, restOf]
  · by_cases c2 : Cbor.fits16 v = true
    · simp [c1, c2, mapE, cls, restOf]
    · by_cases c3 : Cbor.fits32 v = true
      · simp [c1, c2, c3, mapE, cls, restOf]
      · simp [c1, c2, c3, mapE, cls, restOf]

theorem headFloat_eq (w : Nat) (tl : Bytes) :
    headFloat w tl = .done (match readUint w tl with
      | .ok (v, r) => floatRes w v r
      | .error e => .error e) 0 := by
  unfold headFloat floatRes
  cases readUint w tl with
  | error e => rfl
  | ok p => obtain ⟨v, r⟩ := p; simp only; cases floatCheck w v <;> rfl

theorem headFloat_tie (info w : Nat) (tl : Bytes)
    (h : (info = 25 ∧ w = 2) ∨ (info = 26 ∧ w = 4) ∨ (info = 27 ∧ w = 8)) :
    ∃ r, headFloat w tl = .done r 0 ∧ mapE r = restOf (Cbor.decFloat info tl) := by
  refine ⟨_, headFloat_eq w tl, ?_⟩
  have ht := readUint_tie w tl
  cases hk : Cbor.takeN w tl with
  | error e' =>
    rw [hk] at ht
    obtain ⟨e, he, hc⟩ := mapE_err ht
    rw [he]
    rcases h with ⟨rfl, rfl⟩ | ⟨rfl, rfl⟩ | ⟨rfl, rfl⟩ <;>
      simp [Cbor.decFloat, decF16, decF32, hk, restOf, mapE, hc]
  | ok p =>
    obtain ⟨a, r⟩ := p
    rw [hk] at ht
    have he := mapE_ok ht
    rw [he]
    simp only
    rcases h with ⟨rfl, rfl⟩ | ⟨rfl, rfl⟩ | ⟨rfl, rfl⟩
    · rw [floatRes16]; simp [Cbor.decFloat, decF16, hk]
    · rw [floatRes32]; simp [Cbor.decFloat, decF16, decF32, hk]
    · rw [floatRes64]; simp [Cbor.decFloat, decF16, decF32, hk]


theorem headSimple_tie (f depth : Nat) (b0 : UInt8) (tl : Bytes) (hm : b0.toNat / 32 = 7) :
    ∃ r c, headSimple (b0.toNat % 32) tl = .done r c ∧
      mapE r = restOf (Cbor.dec (f + 1) depth (b0 :: tl)) := by
  have h6 : ¬ (b0.toNat / 32 = decTagMajor) := by simp [decTagMajor]; omega
  rw [Cbor.dec, if_neg (by omega), if_neg (by omega), if_neg (by omega), if_neg (by omega),
    if_neg (by omega), if_neg (by omega), if_neg h6]
  generalize b0.toNat % 32 = info
  unfold headSimple
  simp only [decFalse, decTrue, decNull, decF16, decF32, decF64, decSimpleIndefinite]
  by_cases h20 : info = 20
  · subst h20; exact ⟨.ok tl, 0, by simp, by simp [mapE, restOf]⟩
  by_cases h21 : info = 21
  · subst h21; exact ⟨.ok tl, 0, by simp, by simp [mapE, restOf]⟩
  by_cases h22 : info = 22
  · subst h22; exact ⟨.ok tl, 0, by simp, by simp [mapE, restOf]⟩
  have hs : (info = 20 || info = 21 || info = 22) = false := by simp [h20, h21, h22]
  simp only [hs, Bool.false_eq_true, if_false, h20, h21, h22]
  by_cases h25 : info = 25
  · subst h25
    obtain ⟨r, h1, h2⟩ := headFloat_tie 25 2 tl (Or.inl ⟨rfl, rfl⟩)
    exact ⟨r, 0, by simp [h1], by simp [h2]⟩
  by_cases h26 : info = 26
  · subst h26
    obtain ⟨r, h1, h2⟩ := headFloat_tie 26 4 tl (Or.inr (Or.inl ⟨rfl, rfl⟩))
    exact ⟨r, 0, by simp [h1], by simp [h2]⟩
  by_cases h27 : info = 27
  · subst h27
    obtain ⟨r, h1, h2⟩ := headFloat_tie 27 8 tl (Or.inr (Or.inr ⟨rfl, rfl⟩))
    exact ⟨r, 0, by simp [h1], by simp [h2]⟩
  by_cases h31 : info = 31
  · subst h31; exact ⟨.error .indefinite, 0, by simp, by simp [mapE, cls, restOf]⟩
  · exact ⟨.error .simple, 0, by simp [h25, h26, h27, h31], by simp [h25, h26, h27, h31, mapE, cls, restOf]⟩


/-- One `dec_value` call, both models: either no recursion (same outcome), or a container head
    whose length and rest both models agree on (and the functional decoder's continuation). -/
theorem decHead_tie (f depth : Nat) (b0 : UInt8) (tl : Bytes) :
    (∃ r c, decHead (b0 :: tl) = .done r c ∧
      mapE r = restOf (Cbor.dec (f + 1) depth (b0 :: tl))) ∨
    (∃ len rest, decHead (b0 :: tl) = .arr len rest ∧ rest.length ≤ tl.length ∧
      Cbor.dec (f + 1) depth (b0 :: tl) =
        if maxNesting ≤ depth then .error .nestingLimit
        else match Cbor.itemsWith (Cbor.dec f (depth + 1)) len rest with
          | .error e => .error e
          | .ok (xs, r') => .ok (.array xs, r')) ∨
    (∃ len rest, decHead (b0 :: tl) = .map len rest ∧ rest.length ≤ tl.length ∧
      Cbor.dec (f + 1) depth (b0 :: tl) =
        if maxNesting ≤ depth then .error .nestingLimit
        else match Cbor.entriesWith (Cbor.dec f (depth + 1)) len none rest with
          | .error e => .error e
          | .ok (es, r') => .ok (.map es, r')) := by
  have hlt : b0.toNat / 32 < 8 := by have := UInt8.toNat_lt b0; omega
  simp only [decHead, dispatch]
  by_cases hm0 : b0.toNat / 32 = 0
  · left
    obtain ⟨r, h1, h2⟩ := headInt_pos_tie (b0.toNat % 32) tl
    refine ⟨r, 0, by simp [hm0, h1], ?_⟩
    rw [h2, Cbor.dec, if_pos hm0]
    rfl
  by_cases hm1 : b0.toNat / 32 = 1
  · left
    obtain ⟨r, h1, h2⟩ := headInt_neg_tie (b0.toNat % 32) tl
    refine ⟨r, 0, by simp [hm1, h1], ?_⟩
    rw [h2, Cbor.dec, if_neg hm0, if_pos hm1]
    rfl
  by_cases hm2 : b0.toNat / 32 = 2
  · left
    obtain ⟨r, c, h1, h2⟩ := headStr_tie false (b0.toNat % 32) tl
    refine ⟨r, c, by simp [hm2, h1], ?_⟩
    rw [h2, Cbor.dec, if_neg hm0, if_neg hm1, if_pos hm2]
    simp only [Bool.false_eq_true, if_false]
    rfl
  by_cases hm3 : b0.toNat / 32 = 3
  · left
    obtain ⟨r, c, h1, h2⟩ := headStr_tie true (b0.toNat % 32) tl
    refine ⟨r, c, by simp [hm3, h1], ?_⟩
    rw [h2, Cbor.dec, if_neg hm0, if_neg hm1, if_neg hm2, if_pos hm3]
    simp only [if_true]
    rfl
  by_cases hm4 : b0.toNat / 32 = 4
  · have ht := readLen_tie (b0.toNat % 32) tl
    cases hr : Cbor.readLen (b0.toNat % 32) tl with
    | error e' =>
      left
      rw [hr] at ht
      obtain ⟨e, he, hc⟩ := mapE_err ht
      refine ⟨.error e, 0, by simp [hm4, headArr, he], ?_⟩
      rw [Cbor.dec, if_neg hm0, if_neg hm1, if_neg hm2, if_neg hm3, if_pos hm4, hr]
      simp [mapE, restOf, hc]
    | ok p =>
      obtain ⟨n, r⟩ := p
      right; left
      rw [hr] at ht
      have he := mapE_ok ht
      refine ⟨n, r, by simp [hm4, headArr, he], Cbor.readLen_suffix hr, ?_⟩
      rw [Cbor.dec, if_neg hm0, if_neg hm1, if_neg hm2, if_neg hm3, if_pos hm4, hr]
      rfl
  by_cases hm5 : b0.toNat / 32 = 5
  · have ht := readLen_tie (b0.toNat % 32) tl
    cases hr : Cbor.readLen (b0.toNat % 32) tl with
    | error e' =>
      left
      rw [hr] at ht
      obtain ⟨e, he, hc⟩ := mapE_err ht
      refine ⟨.error e, 0, by simp [hm5, headMap, he], ?_⟩
      rw [Cbor.dec, if_neg hm0, if_neg hm1, if_neg hm2, if_neg hm3, if_neg hm4, if_pos hm5, hr]
      simp [mapE, restOf, hc]
    | ok p =>
      obtain ⟨n, r⟩ := p
      right; right
      rw [hr] at ht
      have he := mapE_ok ht
      refine ⟨n, r, by simp [hm5, headMap, he], Cbor.readLen_suffix hr, ?_⟩
      rw [Cbor.dec, if_neg hm0, if_neg hm1, if_neg hm2, if_neg hm3, if_neg hm4, if_pos hm5, hr]
      rfl
  by_cases hm6 : b0.toNat / 32 = 6
  · left
    refine ⟨.error .tag, 0, by simp [hm6], ?_⟩
    rw [Cbor.dec, if_neg hm0, if_neg hm1, if_neg hm2, if_neg hm3, if_neg hm4, if_neg hm5,
      if_pos (by simp [decTagMajor, hm6])]
    simp [mapE, cls, restOf]
  · left
    have hm7 : b0.toNat / 32 = 7 := by omega
    obtain ⟨r, c, h1, h2⟩ := headSimple_tie f depth b0 tl hm7
    exact ⟨r, c, by simp [hm7, h1], h2⟩


/-! ### the loops -/

/-- an element decoder pair that agrees on every input shorter than `n` -/
def TieB (n : Nat) (dv : Bytes → St → R) (d : Bytes → Except Cbor.Err (Cbor.Val × Bytes)) : Prop :=
  ∀ bs st, bs.length < n → mapE (dv bs st).2 = restOf (d bs)

def Consumes (d : Bytes → Except Cbor.Err (Cbor.Val × Bytes)) : Prop :=
  ∀ bs v r, d bs = .ok (v, r) → r.length < bs.length

theorem items_tie {n : Nat} {dv d} (h : TieB n dv d) (hc : Consumes d) :
    ∀ k bs st, bs.length < n → mapE (items dv k bs st).2 = restOf (Cbor.itemsWith d k bs) := by
  intro k
  induction k with
  | zero => intro bs st _; simp [items, Cbor.itemsWith, mapE, restOf]
  | succ k ih =>
    intro bs st hb
    have h1 := h bs st hb
    simp only [items, Cbor.itemsWith]
    rcases hdv : dv bs st with ⟨st', res⟩
    rw [hdv] at h1
    cases hd : d bs with
    | error e' =>
      rw [hd] at h1
      obtain ⟨e, he, hce⟩ := mapE_err h1
      simp only at he
      subst he
      simp [mapE, restOf, hce]
    | ok p =>
      obtain ⟨v, r⟩ := p
      rw [hd] at h1
      have he := mapE_ok h1
      simp only at he
      subst he
      simp only
      rw [ih r st' (by have := hc bs v r hd; omega)]
      cases Cbor.itemsWith d k r with
      | error e => rfl
      | ok q => rfl

/-- the functional decoder's duplicate / order check, named -/
def chkF (last : Option Bytes) (kb : Bytes) : Option Cbor.Err :=
  match last with
  | none => none
  | some prev =>
    if kb == prev then some .mapKeyDuplicate
    else if Cbor.bytesCmp kb prev == .lt then some .mapKeyOrder
    else none

theorem keyCheck_chkF (last : Option Bytes) (kb : Bytes) : (keyCheck last kb).map cls = chkF last kb :=
  keyCheck_tie last kb

theorem entriesWith_succ (d : Bytes → Except Cbor.Err (Cbor.Val × Bytes)) (k : Nat)
    (last : Option Bytes) (bs : Bytes) :
    Cbor.entriesWith d (k + 1) last bs =
      match d bs with
      | .error e => .error e
      | .ok (kv, r1) =>
        match chkF last (bs.take (bs.length - r1.length)) with
        | some e => .error e
        | none =>
          match d r1 with
          | .error e => .error e
          | .ok (v, r2) =>
            match Cbor.entriesWith d k (some (bs.take (bs.length - r1.length))) r2 with
            | .error e => .error e
            | .ok (es, r3) => .ok ((kv, v) :: es, r3) := by
  rw [Cbor.entriesWith]
  rfl

theorem entries_tie {n : Nat} {dv d} (h : TieB n dv d) (hc : Consumes d) :
    ∀ k last bs st, bs.length < n →
      mapE (entries dv k last bs st).2 = restOf (Cbor.entriesWith d k last bs) := by
  intro k
  induction k with
  | zero => intro last bs st _; simp [entries, Cbor.entriesWith, mapE, restOf]
  | succ k ih =>
    intro last bs st hb
    have h1 := h bs st hb
    rw [entriesWith_succ]
    simp only [entries, entry]
    rcases hdv : dv bs st with ⟨st1, res1⟩
    rw [hdv] at h1
    cases hd : d bs with
    | error e' =>
      rw [hd] at h1
      obtain ⟨e, he, hce⟩ := mapE_err h1
      simp only at he
      subst he
      simp [mapE, restOf, hce]
    | ok p =>
      obtain ⟨kv, r1⟩ := p
      rw [hd] at h1
      have he := mapE_ok h1
      simp only at he
      subst he
      simp only
      have hk := keyCheck_chkF last (bs.take (bs.length - r1.length))
      have hr1 := hc bs kv r1 hd
      cases hkc : keyCheck last (bs.take (bs.length - r1.length)) with
      | some e =>
        rw [hkc] at hk
        simp only [Option.map] at hk
        rw [← hk]
        simp [mapE, restOf]
      | none =>
        rw [hkc] at hk
        simp only [Option.map] at hk
        rw [← hk]
        simp only
        have h2 := h r1 st1 (by omega)
        rcases hdv2 : dv r1 st1 with ⟨st2, res2⟩
        rw [hdv2] at h2
        cases hd2 : d r1 with
        | error e' =>
          rw [hd2] at h2
          obtain ⟨e, he, hce⟩ := mapE_err h2
          simp only at he
          subst he
          simp [mapE, restOf, hce]
        | ok q =>
          obtain ⟨vv, r2⟩ := q
          rw [hd2] at h2
          have he := mapE_ok h2
          simp only at he
          subst he
          simp only
          rw [ih _ r2 st2 (by have := hc r1 vv r2 hd2; omega)]
          cases Cbor.entriesWith d k (some (bs.take (bs.length - r1.length))) r2 with
          | error e => rfl
          | ok q => rfl


/-! ### `dec_value`, `decode_value` -/

theorem dec_consumes' (f depth : Nat) : Consumes (Cbor.dec f depth) :=
  fun bs v r h => Cbor.dec_consumes f depth bs v r h

/-- **the two models agree call by call.**  `room` is what the cost model recurses on
    (`maxNesting − depth`), `f` the functional model's fuel (anything above the input length). -/
theorem decValue_tie (p : Params) (hc : p.depthChecked = true) :
    ∀ room depth, depth + room = maxNesting → ∀ f, TieB f (decValue p room depth) (Cbor.dec f depth) := by
  intro room
  induction room with
  | zero =>
    intro depth hd f bs st hb
    obtain ⟨f', rfl⟩ : ∃ f', f = f' + 1 := ⟨f - 1, by omega⟩
    cases bs with
    | nil => simp [decValue, decHead, Cbor.dec, mapE, cls, restOf]
    | cons b0 tl =>
      simp only [decValue]
      rcases decHead_tie f' depth b0 tl with ⟨r, c, h1, h2⟩ | ⟨len, rest, h1, _, h2⟩ | ⟨len, rest, h1, _, h2⟩
      · rw [h1]; exact h2
      · rw [h1, h2, if_pos (by omega)]
        simp [noRoom, hc, mapE, cls, restOf]
      · rw [h1, h2, if_pos (by omega)]
        simp [noRoom, hc, mapE, cls, restOf]
  | succ room ih =>
    intro depth hd f bs st hb
    obtain ⟨f', rfl⟩ : ∃ f', f = f' + 1 := ⟨f - 1, by omega⟩
    cases bs with
    | nil => simp [decValue, decHead, Cbor.dec, mapE, cls, restOf]
    | cons b0 tl =>
      have htl : tl.length < f' := by simp at hb; omega
      simp only [decValue]
      rcases decHead_tie f' depth b0 tl with ⟨r, c, h1, h2⟩ | ⟨len, rest, h1, hl, h2⟩ | ⟨len, rest, h1, hl, h2⟩
      · rw [h1]; exact h2
      · rw [h1, h2, if_neg (by omega)]
        simp only
        rw [items_tie (ih (depth + 1) (by omega) f') (dec_consumes' f' (depth + 1)) len rest _ (by omega)]
        cases Cbor.itemsWith (Cbor.dec f' (depth + 1)) len rest with
        | error e => rfl
        | ok q => rfl
      · rw [h1, h2, if_neg (by omega)]
        simp only
        rw [entries_tie (ih (depth + 1) (by omega) f') (dec_consumes' f' (depth + 1)) len none rest _ (by omega)]
        cases Cbor.entriesWith (Cbor.dec f' (depth + 1)) len none rest with
        | error e => rfl
        | ok q => rfl

/-- forget the decoded value -/
def unitOf {α : Type} : Except Cbor.Err α → Except Cbor.Err Unit
  | .ok _ => .ok ()
  | .error e => .error e

/-- **decode_value: one result class.**  For every input, the cost model of the checked decoder
    accepts iff the functional model accepts, and its typed error is of the functional model's
    `CanonError` class. -/
theorem decode_tie (p : Params) (hc : p.depthChecked = true) (hm : p.maxDepth = maxNesting) (bs : Bytes) :
    mapE (decode p bs).2 = unitOf (Cbor.decode bs) := by
  have h := decValue_tie p hc maxNesting 0 (by omega) (bs.length + 1) bs (St.init bs.length) (by omega)
  unfold decode Cbor.decode
  simp only [rootRoom, hc, if_true, hm]
  rcases hdv : decValue p maxNesting 0 bs (St.init bs.length) with ⟨st, res⟩
  rw [hdv] at h
  cases hd : Cbor.dec (bs.length + 1) 0 bs with
  | error e' =>
    rw [hd] at h
    obtain ⟨e, he, hce⟩ := mapE_err h
    simp only at he
    subst he
    simp [mapE, unitOf, hce]
  | ok q =>
    obtain ⟨v, r⟩ := q
    rw [hd] at h
    have he := mapE_ok h
    simp only at he
    subst he
    cases r with
    | nil => simp [mapE, unitOf]
    | cons x xs => simp [mapE, cls, unitOf]


end EchoVerif.CostCbor
