/-
  Byte-level unique-parse lemmas for the commit-id and patch-digest pre-images
  (snapshot.rs `compute_commit_hash_v2`, tick_patch.rs `compute_patch_digest_v2`).
  The layouts are the ones `Model/ChainGraph.lean` renders for the correspondence run.
-/
import EchoVerif.Model.ChainGraph

set_option linter.unusedSimpArgs false
set_option linter.unusedVariables false

namespace EchoVerif.ChainBytes
open EchoVerif EchoVerif.ChainGraph

theorem natToLE_length (k n : Nat) : (natToLE k n).length = k := by
  simp [natToLE]

theorem natToLE_succ (k n : Nat) :
    natToLE (k + 1) n = UInt8.ofNat (n % 256) :: natToLE k (n / 256) := by
  unfold natToLE
  rw [List.range_succ_eq_map, List.map_cons, List.map_map]
  congr 1
  · simp
  · apply List.map_congr_left
    intro i _
    simp only [Function.comp, Nat.succ_eq_add_one]
    have : n / 256 ^ (i + 1) = n / 256 / 256 ^ i := by
      rw [Nat.div_div_eq_div_mul, Nat.pow_succ, Nat.mul_comm]
    rw [this]

/-- fixed-width little-endian integers are injective below `256^k`. -/
theorem natToLE_inj : ∀ (k n m : Nat), n < 256 ^ k → m < 256 ^ k → natToLE k n = natToLE k m → n = m
  | 0, n, m, hn, hm, _ => by simp at hn hm; omega
  | k + 1, n, m, hn, hm, h => by
    rw [natToLE_succ, natToLE_succ] at h
    injection h with h1 h2
    have hb : n % 256 = m % 256 := by
      have := congrArg UInt8.toNat h1
      rw [UInt8.toNat_ofNat', UInt8.toNat_ofNat'] at this
      have e1 : n % 256 % 2 ^ 8 = n % 256 := Nat.mod_eq_of_lt (by omega)
      have e2 : m % 256 % 2 ^ 8 = m % 256 := Nat.mod_eq_of_lt (by omega)
      omega
    have hd : n / 256 = m / 256 := by
      apply natToLE_inj k _ _ _ _ h2
      · rw [Nat.pow_succ] at hn; omega
      · rw [Nat.pow_succ] at hm; omega
    have := Nat.div_add_mod n 256
    have := Nat.div_add_mod m 256
    omega

/-- 32-byte chunks concatenate injectively. -/
theorem flatten32_inj : ∀ (ps ps' : List Bytes), ps.length = ps'.length →
    (∀ p ∈ ps, p.length = 32) → (∀ p ∈ ps', p.length = 32) → ps.flatten = ps'.flatten → ps = ps'
  | [], [], _, _, _, _ => rfl
  | [], _ :: _, hl, _, _, _ => by cases hl
  | _ :: _, [], hl, _, _, _ => by cases hl
  | p :: r, p' :: r', hl, h1, h2, h => by
    rw [List.flatten_cons, List.flatten_cons] at h
    have hp := h1 p (List.mem_cons_self)
    have hp' := h2 p' (List.mem_cons_self)
    obtain ⟨e1, e2⟩ := List.append_inj h (by rw [hp, hp'])
    have := flatten32_inj r r' (by simpa using hl)
      (fun x hx => h1 x (List.mem_cons_of_mem _ hx)) (fun x hx => h2 x (List.mem_cons_of_mem _ hx)) e2
    rw [e1, this]

theorem flatten32_length : ∀ (ps : List Bytes), (∀ p ∈ ps, p.length = 32) → ps.flatten.length = 32 * ps.length
  | [], _ => rfl
  | p :: r, h => by
    rw [List.flatten_cons, List.length_append, h p List.mem_cons_self,
      flatten32_length r (fun x hx => h x (List.mem_cons_of_mem _ hx))]
    simp only [List.length_cons]; omega

/-- The commit-id pre-image: tag, version, u64 parent count, parents, state root, patch digest, u32 policy. -/
def commitBytes (parents : List Bytes) (root pd : Bytes) (policy : Nat) : Bytes :=
  commitIdTag ++ (u16le 2 ++ (u64le parents.length ++ (parents.flatten ++ (root ++ (pd ++ u32le policy)))))

/-- **commit_binds**: the commit-id pre-image determines (parents, state root, patch digest, policy):
    fixed-width fields and the u64 count make it uniquely parseable. -/
theorem commitBytes_inj (ps ps' : List Bytes) (root root' pd pd' : Bytes) (policy policy' : Nat)
    (hps : ∀ p ∈ ps, p.length = 32) (hps' : ∀ p ∈ ps', p.length = 32)
    (hr : root.length = 32) (hr' : root'.length = 32) (hd : pd.length = 32) (hd' : pd'.length = 32)
    (hn : ps.length < 2 ^ 64) (hn' : ps'.length < 2 ^ 64)
    (hpol : policy < 2 ^ 32) (hpol' : policy' < 2 ^ 32)
    (h : commitBytes ps root pd policy = commitBytes ps' root' pd' policy') :
    ps = ps' ∧ root = root' ∧ pd = pd' ∧ policy = policy' := by
  unfold commitBytes at h
  have h1 := List.append_cancel_left (List.append_cancel_left h)
  obtain ⟨e1, h2⟩ := List.append_inj h1 (by simp [u64le, natToLE_length])
  have hlen : ps.length = ps'.length :=
    natToLE_inj 8 _ _ (by simpa using hn) (by simpa using hn') e1
  obtain ⟨e2, h3⟩ := List.append_inj h2 (by rw [flatten32_length ps hps, flatten32_length ps' hps', hlen])
  obtain ⟨e3, h4⟩ := List.append_inj h3 (by rw [hr, hr'])
  obtain ⟨e4, h5⟩ := List.append_inj h4 (by rw [hd, hd'])
  exact ⟨flatten32_inj ps ps' hlen hps hps' e2, e3, e4,
    natToLE_inj 4 _ _ (by simpa using hpol) (by simpa using hpol') h5⟩

/-- The patch-digest pre-image: tag, version, u32 policy, 32-byte rule pack, status byte, then the
    slot lists and the op list (`tail`). -/
def patchBytesOf (policy : Nat) (rulePack : Bytes) (status : UInt8) (tail : Bytes) : Bytes :=
  patchDigestTag ++ (u16le 2 ++ (u32le policy ++ (rulePack ++ ([status] ++ tail))))

/-- header part of **commit_binds** for the patch digest: (policy, rule pack, commit status) and the
    encoded slots+ops are determined by the pre-image. -/
theorem patchBytesOf_inj (policy policy' : Nat) (rp rp' : Bytes) (st st' : UInt8) (tail tail' : Bytes)
    (hrp : rp.length = 32) (hrp' : rp'.length = 32) (hpol : policy < 2 ^ 32) (hpol' : policy' < 2 ^ 32)
    (h : patchBytesOf policy rp st tail = patchBytesOf policy' rp' st' tail') :
    policy = policy' ∧ rp = rp' ∧ st = st' ∧ tail = tail' := by
  unfold patchBytesOf at h
  have h1 := List.append_cancel_left (List.append_cancel_left h)
  obtain ⟨e1, h2⟩ := List.append_inj h1 (by simp [u32le, natToLE_length])
  obtain ⟨e2, h3⟩ := List.append_inj h2 (by rw [hrp, hrp'])
  obtain ⟨e3, e4⟩ := List.append_inj h3 rfl
  refine ⟨natToLE_inj 4 _ _ (by simpa using hpol) (by simpa using hpol') e1, e2, ?_, e4⟩
  injection e3

/-- The driver's `patchBytes` is this layout (status `Committed` = 1, tail = slots ++ slots ++ ops). -/
theorem patchBytes_layout (p : Patch) :
    patchBytes p = patchBytesOf p.policy (id32B p.rulePack) 1
      (slotsB (canonSlots p.inSlots) ++ (slotsB (canonSlots p.outSlots) ++ opsB (canonOps p.ops))) := by
  simp [patchBytes, patchBytesOf, List.append_assoc]

end EchoVerif.ChainBytes
