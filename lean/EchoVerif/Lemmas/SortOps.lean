import EchoVerif.Lemmas.DiffMem
set_option linter.unusedSimpArgs false
set_option linter.unusedVariables false
namespace EchoVerif
namespace Graph
open SMap

/-! ### `sortOps` is a permutation sorted by phase -/

theorem mem_insertOp (o x : Op) : ∀ l : List Op, x ∈ insertOp o l ↔ x = o ∨ x ∈ l
  | [] => by simp [insertOp]
  | y :: ys => by
    simp only [insertOp]
    split
    · simp
    · simp only [List.mem_cons, mem_insertOp o x ys]
      constructor
      · rintro (h | h | h)
        · exact Or.inr (Or.inl h)
        · exact Or.inl h
        · exact Or.inr (Or.inr h)
      · rintro (h | h | h)
        · exact Or.inr (Or.inl h)
        · exact Or.inl h
        · exact Or.inr (Or.inr h)

theorem mem_foldl_insertOp (x : Op) : ∀ (l acc : List Op),
    x ∈ l.foldl (fun acc o => insertOp o acc) acc ↔ x ∈ acc ∨ x ∈ l
  | [], acc => by simp
  | o :: l, acc => by
    simp only [List.foldl_cons, mem_foldl_insertOp x l, mem_insertOp, List.mem_cons]
    constructor
    · rintro ((h | h) | h)
      · exact Or.inr (Or.inl h)
      · exact Or.inl h
      · exact Or.inr (Or.inr h)
    · rintro (h | h | h)
      · exact Or.inl (Or.inr h)
      · exact Or.inl (Or.inl h)
      · exact Or.inr h

theorem mem_sortOps (x : Op) (l : List Op) : x ∈ sortOps l ↔ x ∈ l := by
  simp [sortOps, mem_foldl_insertOp]

/-- `a` is not after `b` in key order. -/
def KeyLe (a b : Op) : Prop := LinOrd.lt b.sortKey a.sortKey = false

theorem insertOp_sorted (o : Op) : ∀ l : List Op, l.Pairwise KeyLe → (insertOp o l).Pairwise KeyLe
  | [], _ => by simp [insertOp]
  | y :: ys, h => by
    simp only [insertOp]
    cases h with
    | cons hy hys =>
      split
      · rename_i hlt
        refine List.Pairwise.cons ?_ (List.Pairwise.cons hy hys)
        intro z hz
        cases hz with
        | head => exact LinOrd.lt_asymm hlt
        | tail _ hz' =>
          -- z after y, o before y  ⇒  z is not before o
          unfold KeyLe
          cases hzo : LinOrd.lt z.sortKey o.sortKey with
          | false => rfl
          | true =>
            have := LinOrd.lt_trans _ _ _ hzo hlt
            have h2 := hy z hz'
            unfold KeyLe at h2
            rw [this] at h2; cases h2
      · rename_i hnlt
        refine List.Pairwise.cons ?_ (insertOp_sorted o ys hys)
        intro z hz
        rcases (mem_insertOp o z ys).mp hz with h | h
        · subst h; unfold KeyLe; simpa using hnlt
        · exact hy z h

theorem sortOps_sorted (l : List Op) : (sortOps l).Pairwise KeyLe := by
  unfold sortOps
  suffices h : ∀ (l acc : List Op), acc.Pairwise KeyLe →
      (l.foldl (fun acc o => insertOp o acc) acc).Pairwise KeyLe from h l [] List.Pairwise.nil
  intro l
  induction l with
  | nil => intro acc h; exact h
  | cons o l ih => intro acc h; exact ih _ (insertOp_sorted o acc h)

/-- phase rank of an op = first component of its sort key. -/
def Op.kind (o : Op) : Nat := Generated.opKind o.tag

theorem sortKey_fst (o : Op) : o.sortKey.1 = o.kind := by cases o <;> rfl

theorem kind_le_of_keyLe {a b : Op} (h : KeyLe a b) : a.kind ≤ b.kind := by
  unfold KeyLe at h
  rw [← sortKey_fst, ← sortKey_fst]
  generalize a.sortKey = ka at *
  generalize b.sortKey = kb at *
  obtain ⟨a1, a2⟩ := ka
  obtain ⟨b1, b2⟩ := kb
  simp only [LinOrd.lt, Bool.or_eq_false_iff, decide_eq_false_iff_not] at h
  omega

theorem sortOps_kind_sorted (l : List Op) : (sortOps l).Pairwise (fun a b => a.kind ≤ b.kind) :=
  (sortOps_sorted l).imp kind_le_of_keyLe

end Graph
end EchoVerif
