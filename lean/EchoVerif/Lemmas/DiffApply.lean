/-
  Assembly of C04 `diff_apply`: the diff's OpenPortal ops are fresh and pairwise distinct (`PFresh`),
  the orphan check of `validate_portal_invariants`, and the replay law for ARBITRARY pairs of fully
  well-formed states.
-/
import EchoVerif.Lemmas.DiffFullFinal

set_option linter.unusedSimpArgs false
set_option linter.unusedVariables false
set_option linter.unusedSectionVars false

namespace EchoVerif
namespace Graph
open SMap

/-! ### `sortOps` is a permutation -/

theorem insertOp_perm (o : Op) : ∀ l : List Op, (insertOp o l).Perm (o :: l)
  | [] => List.Perm.refl _
  | x :: xs => by
    simp only [insertOp]
    split
    · exact List.Perm.refl _
    · exact ((insertOp_perm o xs).cons x).trans (List.Perm.swap o x xs)

theorem foldl_insertOp_perm : ∀ (l acc : List Op),
    (l.foldl (fun acc o => insertOp o acc) acc).Perm (acc ++ l)
  | [], acc => by simp
  | o :: l, acc => by
    simp only [List.foldl_cons]
    refine (foldl_insertOp_perm l (insertOp o acc)).trans ?_
    refine ((insertOp_perm o acc).append_right l).trans ?_
    exact (List.perm_middle (a := o) (l₁ := acc) (l₂ := l)).symm

theorem sortOps_perm (l : List Op) : (sortOps l).Perm l := by
  have := foldl_insertOp_perm l []
  simpa [sortOps] using this

/-! ### portal ops of a diff are pairwise distinct -/

theorem sorted_keys_ne {ν : Type} : ∀ {m : SMap Nat ν}, Sorted m → m.Pairwise (fun x y => x.1 ≠ y.1)
  | [], _ => List.Pairwise.nil
  | (k, v) :: rest, hs => by
    refine List.Pairwise.cons ?_ (sorted_keys_ne hs.2)
    intro p hp
    exact LinOrd.ne_of_lt (all_above hs.1 hs.2 p hp)

/-- two ops do not open a portal to the same child. -/
def DistinctChild (o1 o2 : Op) : Prop := ∀ cw, o1.portalChild = some cw → o2.portalChild ≠ some cw

theorem pairwise_of_no_child {l : List Op} (h : ∀ o ∈ l, o.portalChild = none) :
    l.Pairwise DistinctChild := by
  induction l with
  | nil => exact List.Pairwise.nil
  | cons x xs ih =>
    refine List.Pairwise.cons ?_ (ih (fun o ho => h o (List.mem_cons_of_mem _ ho)))
    intro y hy cw h1
    rw [h x List.mem_cons_self] at h1; cases h1

theorem portal_raw_pairwise {a b : WState} (hb : Sorted b.instances) :
    ((portalOps a b).map (·.1)).Pairwise DistinctChild := by
  rw [List.pairwise_map]
  unfold portalOps
  refine List.Pairwise.filterMap _ ?_ (sorted_keys_ne hb)
  intro x x' hne p hp p' hp' cw h1 h2
  obtain ⟨w, inst⟩ := x
  obtain ⟨w', inst'⟩ := x'
  have e1 : p.1.portalChild = some w := by
    simp only at hp
    repeat' split at hp
    all_goals first | (cases hp; done) | skip
    all_goals (cases hp; rfl)
  have e2 : p'.1.portalChild = some w' := by
    simp only at hp'
    repeat' split at hp'
    all_goals first | (cases hp'; done) | skip
    all_goals (cases hp'; rfl)
  rw [e1] at h1; rw [e2] at h2
  cases h1; cases h2
  exact hne rfl

theorem diff_distinct {a b : WState} (ha : WF a) (hb : WF b) :
    (diffState a b).Pairwise DistinctChild := by
  have hsym : ∀ {x y : Op}, DistinctChild x y → DistinctChild y x := by
    intro x y h cw h1 h2; exact h cw h2 h1
  unfold diffState
  rw [(sortOps_perm _).pairwise_iff hsym]
  have hD : ∀ o ∈ b.instances.filterMap (fun (x : Nat × Instance) => (none : Option Op)), o.portalChild = none := by
    intro o ho; simp at ho
  -- the three non-portal parts carry no OpenPortal
  have h1 : ∀ o ∈ (a.instances.filterMap (fun (x : Nat × Instance) =>
      match SMap.find? x.1 b.instances with
      | none => some (Op.deleteInstance x.1)
      | some _ => none)), o.portalChild = none := by
    intro o ho
    simp only [List.mem_filterMap] at ho
    obtain ⟨x, _, hx⟩ := ho
    split at hx
    · cases hx; rfl
    · cases hx
  have nochild : ∀ {l1 l2 : List Op}, l1.Pairwise DistinctChild → (∀ o ∈ l2, o.portalChild = none) →
      (l1 ++ l2).Pairwise DistinctChild := by
    intro l1 l2 hp hn
    rw [List.pairwise_append]
    refine ⟨hp, pairwise_of_no_child hn, ?_⟩
    intro x _ y hy cw _ h2
    rw [hn y hy] at h2; cases h2
  refine nochild (nochild (nochild (portal_raw_pairwise hb.instSorted) h1) ?_) ?_
  · intro o ho
    simp only [List.mem_filterMap] at ho
    obtain ⟨x, _, hx⟩ := ho
    repeat' split at hx
    all_goals first | (cases hx; done) | (cases hx; rfl)
  · intro o ho
    simp only [List.mem_flatMap] at ho
    obtain ⟨x, hxm, hx⟩ := ho
    have hsorted4 : ∀ (w : Nat), (match SMap.find? w a.stores with | some s => s | none => Store.empty).Sorted4 := by
      intro w
      cases hx : find? w a.stores with
      | none => exact empty_sorted4
      | some st => exact ha.sorted.2 w st hx
    have hA4 := hb.sorted.2 x.1 x.2 (mem_find? hb.sorted.1 hxm)
    have := (diffInstance_iffS (hsorted4 x.1) hA4 _ _ o).mp hx
    cases this <;> rfl

theorem pfresh_diff {a b : WState} (ha : WFI a) (hb : WFI b) : PFresh a (diffState a b) := by
  constructor
  · intro o ho cw hc
    cases (mem_diffState_full ha.wf hb.wf o).mp ho with
    | op w pk root ty hP =>
      simp only [Op.portalChild] at hc; cases hc
      exact ⟨hP.1, wfi_store_none ha hP.1⟩
    | di w h1 h2 => cases hc
    | ui w inst h1 h2 h3 => cases hc
    | sk w stA o h1 h2 => cases h2 <;> cases hc
  · have h1 := diff_distinct ha.wf hb.wf
    have h2 := diffState_kind_sorted a b
    have h3 := h1.and h2
    refine h3.imp ?_
    intro o1 o2 ⟨hd, hk⟩ cw hc
    cases o2 with
    | openPortal key cw2 cr init =>
      simp only [Op.portalChild] at hc; cases hc
      rw [kind_OP] at hk
      cases o1 with
      | openPortal key1 cw1 cr1 init1 =>
        simp only [Op.creates, beq_eq_false_iff_ne]
        intro e
        exact hd cw1 rfl (by rw [e]; rfl)
      | upsertInstance inst => rw [kind_UI] at hk; omega
      | _ => rfl
    | _ => cases hc

/-! ### the orphan check -/

theorem orphan_ok {s : WState} : ∀ (l : List (Nat × Instance)),
    validatePortalInvariants.orphan s l = .ok () → ∀ w inst pk, (w, inst) ∈ l →
      inst.parent = some pk → attValueForKey s pk = some (.descend w)
  | [], _, w, inst, pk, hm, _ => by cases hm
  | (w0, inst0) :: rest, h, w, inst, pk, hm, hp => by
    simp only [validatePortalInvariants.orphan] at h
    cases hm with
    | head =>
      rw [hp] at h
      simp only at h
      cases hv : validateOwnerExists s pk with
      | error e => rw [hv] at h; cases h
      | ok x =>
        rw [hv] at h
        simp only at h
        cases ha : attValueForKey s pk with
        | none => rw [ha] at h; cases h
        | some v =>
          rw [ha] at h
          cases v with
          | atom ty bs => cases h
          | descend c =>
            simp only at h
            by_cases hc : c = w0
            · rw [hc]
            · rw [if_neg hc] at h; cases h
    | tail _ hm' =>
      apply orphan_ok rest ?_ w inst pk hm' hp
      cases hp0 : inst0.parent with
      | none => rw [hp0] at h; exact h
      | some pk0 =>
        rw [hp0] at h
        simp only at h
        cases hv : validateOwnerExists s pk0 with
        | error e => rw [hv] at h; cases h
        | ok x =>
          rw [hv] at h
          simp only at h
          cases ha : attValueForKey s pk0 with
          | none => rw [ha] at h; cases h
          | some v =>
            rw [ha] at h
            cases v with
            | atom ty bs => cases h
            | descend c =>
              simp only at h
              by_cases hc : c = w0
              · rw [if_pos hc] at h; exact h
              · rw [if_neg hc] at h; cases h

theorem validate_orphan {s : WState} (h : validatePortalInvariants s = .ok ()) :
    validatePortalInvariants.orphan s s.instances = .ok () := by
  unfold validatePortalInvariants at h
  cases ho : validatePortalInvariants.orphan s s.instances with
  | error e => rw [ho] at h; cases h
  | ok u => rfl

theorem applyOps_validated {s c : WState} {l : List Op} (h : applyOps s l = .ok c)
    (hl : applyLoop s false l = .ok (c, true)) : validatePortalInvariants c = .ok () := by
  simp only [applyOps, hl, if_true] at h
  cases hv : validatePortalInvariants c with
  | error e => rw [hv] at h; cases h
  | ok u => rfl

/-- **the replay law, all well-formed pairs.** -/
theorem diff_apply_full {a b c : WState} (ha : WFI a) (hb : WFI b)
    (h : applyOps a (diffState a b) = .ok c) : c = b := by
  obtain ⟨t, hl⟩ := applyOps_loop h
  obtain ⟨cs, ci, c3, c4, c5, c6, c7, c8⟩ :=
    applyLoop_full (diffState a b) a false c t ha.wf.sorted ha.wf.instSorted (pfresh_diff ha hb) hl
  have hinst : c.instances = b.instances := by
    apply SMap.ext ci hb.wf.instSorted
    intro w
    have := c3 w
    rw [final_inst ha hb] at this
    exact this
  apply wstate_ext cs hb.wf.sorted hinst
  · intro w; have := c4 w; rw [final_st ha hb] at this; exact this
  · intro w i; rw [c5, final_nodeI ha hb]
  · intro w i; rw [c6, final_edgeI ha hb]
  · intro w i; rw [c7, final_nattI ha hb]
  · intro w i
    rcases final_eattI ha hb w i with h1 | ⟨h1, cw, root, ty, hP⟩
    · rw [c8, h1]
    · exfalso
      -- an OpenPortal was applied, so the final validation ran on `c` …
      have hmemP : Op.openPortal (AttKey.edgeBeta w i) cw root (.empty ty) ∈ diffState a b :=
        (mem_diffState_full ha.wf hb.wf _).mpr (.op cw _ root ty hP)
      have ht : t = true := applyLoop_flag _ a false c t hl (Or.inr ⟨_, hmemP, rfl⟩)
      subst ht
      have hval := applyOps_validated h hl
      -- … and its orphan check demands the parent slot to point at the child
      obtain ⟨_, inst, child, g1, g2, _⟩ := hP
      have hm : (cw, inst) ∈ c.instances := by rw [hinst]; exact find?_mem g1
      have := orphan_ok c.instances (validate_orphan hval) cw inst _ hm g2
      simp only [AttKey.edgeBeta, attValue_edge] at this
      rw [c8 w i, h1] at this
      cases this

end Graph
end EchoVerif
