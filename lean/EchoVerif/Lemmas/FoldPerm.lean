/-
  Generic "a fold does not depend on the order of its inputs" lemma, the engine
  behind every order-independence theorem (C01, C02, C08, C18).
-/
namespace EchoVerif

/-- If `f` preserves an invariant and commutes on `R`-related inputs, a left fold over a
    pairwise-`R` list is invariant under permutation. -/
theorem foldl_perm_of_comm {σ α : Type} (f : σ → α → σ) (Inv : σ → Prop) (R : α → α → Prop)
    (hsymm : ∀ {a b}, R a b → R b a)
    (hInv : ∀ s a, Inv s → Inv (f s a))
    (hcomm : ∀ s a b, Inv s → R a b → f (f s a) b = f (f s b) a)
    {xs ys : List α} (hp : xs.Perm ys) :
    xs.Pairwise R → ∀ s, Inv s → xs.foldl f s = ys.foldl f s := by
  induction hp with
  | nil => intros; rfl
  | cons x _ ih =>
    intro hpw s hs
    simp only [List.foldl_cons]
    exact ih (List.Pairwise.of_cons hpw) _ (hInv s x hs)
  | swap x y l =>
    intro hpw s hs
    simp only [List.foldl_cons]
    have hxy : R y x := by
      cases hpw with
      | cons h _ => exact h x (List.mem_cons_self)
    rw [hcomm s y x hs hxy]
  | trans h1 _ ih1 ih2 =>
    intro hpw s hs
    rw [ih1 hpw s hs]
    exact ih2 ((h1.pairwise_iff hsymm).mp hpw) s hs

/-- Unconditional version: `f` commutes on all inputs. -/
theorem foldl_perm_of_comm' {σ α : Type} (f : σ → α → σ)
    (hcomm : ∀ s a b, f (f s a) b = f (f s b) a)
    {xs ys : List α} (hp : xs.Perm ys) (s : σ) : xs.foldl f s = ys.foldl f s := by
  induction hp generalizing s with
  | nil => rfl
  | cons x _ ih => simp only [List.foldl_cons]; exact ih _
  | swap x y l => simp only [List.foldl_cons]; rw [hcomm]
  | trans _ _ ih1 ih2 => rw [ih1, ih2]

end EchoVerif
