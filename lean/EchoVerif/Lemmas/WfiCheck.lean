/- An executable checker sound for the full well-formedness `WFI` (used by non-vacuity examples). -/
import EchoVerif.Lemmas.DiffApply
import EchoVerif.Lemmas.WfCheck
set_option linter.unusedSimpArgs false
set_option linter.unusedVariables false
namespace EchoVerif
namespace Graph
open SMap

def wfiB (s : WState) : Bool :=
  wfB s && decide (s.instances.map (·.1) = s.stores.map (·.1)) &&
    s.instances.all (fun p => p.2.warp == p.1)

theorem wfiB_sound (s : WState) (h : wfiB s = true) : WFI s := by
  simp only [wfiB, Bool.and_eq_true, decide_eq_true_eq, List.all_eq_true, beq_iff_eq] at h
  obtain ⟨⟨h1, h2⟩, h3⟩ := h
  have hwf := wfB_sound s h1
  refine ⟨hwf, ?_, ?_⟩
  · intro w
    have e1 := isSome_find?_iff hwf.instSorted w
    have e2 := isSome_find?_iff hwf.sorted.1 w
    rw [h2] at e1
    simp only [WState.store?]
    cases g1 : (find? w s.instances).isSome <;> cases g2 : (find? w s.stores).isSome <;> simp_all
  · intro w inst hf
    exact h3 (w, inst) (find?_mem hf)

end Graph
end EchoVerif
