/-
  Lemmas for the LE `Reader` cost model (C13): a level-indexed allocation invariant that every
  combinator preserves and `read_list` raises by one level.
-/
import EchoVerif.Model.CostLe

set_option linter.unusedSimpArgs false
set_option linter.unusedVariables false

namespace EchoVerif.CostLe

/-- `Inv d f`: on success `f` leaves a suffix-length rest and requested at most `d` elements per
    byte it consumed; on failure at most `d` per byte that was available. -/
def InvR (d : Nat) (n : Nat) (a : Nat) : R → Prop
  | (st', .ok rest) => rest.length ≤ n ∧ st'.alloc + d * rest.length ≤ a + d * n
  | (st', .error _) => st'.alloc ≤ a + d * n

def Inv (d : Nat) (f : Dec) : Prop := ∀ bs st, InvR d bs.length st.alloc (f bs st)

/-- `f` consumes at least one byte whenever it succeeds -/
def Prog (f : Dec) : Prop := ∀ bs st st' rest, f bs st = (st', .ok rest) → rest.length + 1 ≤ bs.length

theorem Inv.mono {d e : Nat} (h : d ≤ e) {f : Dec} (hf : Inv d f) : Inv e f := by
  intro bs st
  have := hf bs st
  generalize f bs st = r at this ⊢
  obtain ⟨st', _ | rest⟩ := r
  · simp only [InvR] at this ⊢
    have : d * bs.length ≤ e * bs.length := Nat.mul_le_mul_right _ h
    omega
  · simp only [InvR] at this ⊢
    obtain ⟨h1, h2⟩ := this
    refine ⟨h1, ?_⟩
    -- (e-d)*rest ≤ (e-d)*n
    have h3 : (e - d) * rest.length ≤ (e - d) * bs.length := Nat.mul_le_mul_left _ h1
    have h4 : e * rest.length = d * rest.length + (e - d) * rest.length := by
      rw [← Nat.add_mul]; congr 1; omega
    have h5 : e * bs.length = d * bs.length + (e - d) * bs.length := by
      rw [← Nat.add_mul]; congr 1; omega
    omega

theorem skip_inv (n d : Nat) : Inv d (skip n) := by
  intro bs st
  unfold skip
  split
  · simp [InvR]
  · rename_i hs
    rw [CostCbor.shorter_iff] at hs
    simp only [InvR, List.length_drop]
    refine ⟨by omega, ?_⟩
    have : d * (bs.length - n) ≤ d * bs.length := Nat.mul_le_mul_left _ (by omega)
    omega

theorem skip_prog (n : Nat) (hn : 1 ≤ n) : Prog (skip n) := by
  intro bs st st' rest h
  unfold skip at h
  split at h
  · cases h
  · rename_i hs
    rw [CostCbor.shorter_iff] at hs
    cases h
    simp only [List.length_drop]
    omega

theorem byteWhere_inv (ok : Nat → Bool) (e : Err) (d : Nat) : Inv d (byteWhere ok e) := by
  intro bs st
  unfold byteWhere
  split
  · simp [InvR]
  · split
    · simp only [InvR, List.length_cons]
      refine ⟨by omega, ?_⟩
      rw [Nat.mul_add]; omega
    · simp [InvR]

theorem byteWhere_prog (ok : Nat → Bool) (e : Err) : Prog (byteWhere ok e) := by
  intro bs st st' rest h
  unfold byteWhere at h
  split at h
  · cases h
  · split at h
    · cases h; simp
    · cases h

theorem readU32_ok {bs : Bytes} {v : Nat} {r : Bytes} (h : readU32 bs = .ok (v, r)) :
    r.length + 4 = bs.length := by
  unfold readU32 at h
  split at h
  · cases h
  · rename_i hs
    rw [CostCbor.shorter_iff] at hs
    cases h; simp only [List.length_drop]; omega

theorem lenPrefixed_inv (max : Nat) (u : Bool) (d : Nat) : Inv d (lenPrefixed max u) := by
  intro bs st
  unfold lenPrefixed
  split
  · simp [InvR]
  · rename_i len rest hu
    have := readU32_ok hu
    repeat' split
    all_goals first
      | (simp [InvR]; done)
      | (rename_i hs _; rw [CostCbor.shorter_iff] at hs
         simp only [InvR, List.length_drop]
         refine ⟨by omega, ?_⟩
         have : d * (rest.length - len) ≤ d * bs.length := Nat.mul_le_mul_left _ (by omega)
         omega)

theorem option_inv {d : Nat} {f : Dec} (hf : Inv d f) : Inv d (option f) := by
  intro bs st
  unfold option
  split
  · simp [InvR]
  · rename_i b rest
    repeat' split
    all_goals first
      | (simp [InvR]; done)
      | (simp only [InvR, List.length_cons]
         refine ⟨by omega, ?_⟩
         rw [Nat.mul_add]; omega)
      | (have := hf rest st
         generalize f rest st = r at this ⊢
         obtain ⟨st', _ | rest'⟩ := r
         · simp only [InvR, List.length_cons] at this ⊢
           rw [Nat.mul_add]; omega
         · simp only [InvR, List.length_cons] at this ⊢
           rw [Nat.mul_add]; omega)

theorem seq_inv {d : Nat} {a b : Dec} (ha : Inv d a) (hb : Inv d b) : Inv d (seq a b) := by
  intro bs st
  unfold seq
  have h1 := ha bs st
  split
  · rename_i st' rest heq
    rw [heq] at h1
    simp only [InvR] at h1
    have h2 := hb rest st'
    generalize b rest st' = r at h2 ⊢
    obtain ⟨st2, _ | rest2⟩ := r
    · simp only [InvR] at h2 ⊢; omega
    · simp only [InvR] at h2 ⊢; omega
  · rename_i st' e heq
    rw [heq] at h1
    exact h1

theorem seq_prog_left {a b : Dec} (ha : Prog a) (hb : ∀ d, Inv d b) : Prog (seq a b) := by
  intro bs st st' rest h
  unfold seq at h
  split at h
  · rename_i st1 r1 heq
    have h1 := ha _ _ _ _ heq
    have h2 := hb 0 r1 st1
    rw [h] at h2
    simp only [InvR] at h2
    omega
  · cases h

/-- the element loop: `count` successful elements consume at least `count` bytes -/
def LoopR (d n len a : Nat) : R → Prop
  | (st', .ok rest) => rest.length + n ≤ len ∧ st'.alloc + d * rest.length ≤ a + d * len
  | (st', .error _) => st'.alloc ≤ a + d * len

theorem loop_inv {d : Nat} {f : Dec} (hf : Inv d f) (hp : Prog f) :
    ∀ n bs st, LoopR d n bs.length st.alloc (loop f n bs st)
  | 0, bs, st => by simp [loop, LoopR]
  | n + 1, bs, st => by
    unfold loop
    have h1 := hf bs st
    split
    · rename_i st' rest heq
      rw [heq] at h1
      simp only [InvR] at h1
      have hpr := hp _ _ _ _ heq
      have ih := loop_inv hf hp n rest { st' with elems := st'.elems + 1 }
      generalize loop f n rest { st' with elems := st'.elems + 1 } = r at ih ⊢
      obtain ⟨st2, _ | rest2⟩ := r
      · simp only [LoopR] at ih ⊢; omega
      · simp only [LoopR] at ih ⊢; omega
    · rename_i st' e heq
      rw [heq] at h1
      simp only [InvR, LoopR] at h1 ⊢
      exact h1

/-- `read_list` with the capped rule raises the level by one. -/
theorem list_inv {d : Nat} {f : Dec} (hf : Inv d f) (hp : Prog f) : Inv (d + 1) (list .capped f) := by
  intro bs st
  unfold list
  split
  · simp [InvR]
  · rename_i count rest hu
    have hlen := readU32_ok hu
    simp only [List.length_take]
    have hl := loop_inv hf hp count rest { st with alloc := st.alloc + min count rest.length }
    generalize loop f count rest { st with alloc := st.alloc + min count rest.length } = r at hl ⊢
    have hm1 : min count rest.length ≤ rest.length := Nat.min_le_right _ _
    have hm2 : min count rest.length ≤ count := Nat.min_le_left _ _
    have hd : d * rest.length ≤ d * bs.length := Nat.mul_le_mul_left _ (by omega)
    obtain ⟨st2, _ | rest2⟩ := r
    · simp only [InvR, LoopR] at hl ⊢
      rw [Nat.add_mul]; omega
    · simp only [InvR, LoopR] at hl ⊢
      obtain ⟨h1, h2⟩ := hl
      refine ⟨by omega, ?_⟩
      rw [Nat.add_mul, Nat.add_mul]
      -- cap ≤ count ≤ rest.length - rest2.length
      omega

theorem list_prog (rule : CapRule) (f : Dec) (hf : ∀ d, Inv d f) : Prog (list rule f) := by
  intro bs st st' rest h
  unfold list at h
  split at h
  · cases h
  · rename_i count r0 hu
    have hlen := readU32_ok hu
    simp only at h
    -- the loop never returns a longer rest
    have : ∀ n bs st st' rest, loop f n bs st = (st', .ok rest) → rest.length ≤ bs.length := by
      intro n
      induction n with
      | zero => intro bs st st' rest h; simp [loop] at h; obtain ⟨_, h2⟩ := h; subst h2; exact Nat.le_refl _
      | succ n ih =>
        intro bs st st' rest h
        unfold loop at h
        split at h
        · rename_i st1 r1 heq
          have h1 := hf 0 bs st
          rw [heq] at h1
          simp only [InvR] at h1
          have := ih _ _ _ _ h
          omega
        · cases h
    have := this _ _ _ _ _ h
    omega

/-! ### the schema -/

theorem item_inv : Inv 1 (item .capped) := by
  unfold item
  refine seq_inv (byteWhere_inv _ _ _) (seq_inv (byteWhere_inv _ _ _) (seq_inv ?_ (option_inv (lenPrefixed_inv _ _ _))))
  exact list_inv (skip_inv 2 0) (skip_prog 2 (by omega))

theorem item_prog : Prog (item .capped) := by
  intro bs st st' rest h
  unfold item seq at h
  split at h
  · rename_i st1 r1 heq
    have h1 := byteWhere_prog _ _ _ _ _ _ heq
    -- the remainder of the item never lengthens the rest
    have h2 : Inv 1 (seq (byteWhere (fun k => decide (k ≤ 1)) .invalidBoolTag)
        (seq (list .capped (skip 2)) (option (lenPrefixed 16 true)))) :=
      seq_inv (byteWhere_inv _ _ _) (seq_inv (list_inv (skip_inv 2 0) (skip_prog 2 (by omega)))
        (option_inv (lenPrefixed_inv _ _ _)))
    have h3 := h2 r1 st1
    unfold seq at h3
    rw [h] at h3
    simp only [InvR] at h3
    omega
  · cases h

theorem doc_inv : Inv 2 (doc .capped) := by
  unfold doc
  refine seq_inv (skip_inv _ _) (seq_inv (lenPrefixed_inv _ _ _) (seq_inv ?_ (seq_inv ?_ (lenPrefixed_inv _ _ _))))
  · exact list_inv item_inv item_prog
  · exact option_inv (Inv.mono (by omega) (list_inv (skip_inv 4 0) (skip_prog 4 (by omega))))

end EchoVerif.CostLe
