/-
  Helper lemmas for Props/C15.lean over Model/Settle.lean: slot-map updates, frame and
  constant-write laws of patch ops, association-list updates, lane frame of a head commit.
-/
import EchoVerif.Model.Settle

set_option linter.unusedSimpArgs false
set_option linter.unusedVariables false

namespace EchoVerif.Settle

/-! ### slot maps -/

@[simp] theorem St.set_same (σ : St) (s : Slot) (v : Val) : (σ.set s v) s = v := by
  simp [St.set]

theorem St.set_other (σ : St) {s t : Slot} (v : Val) (h : t ≠ s) : (σ.set s v) t = σ t := by
  simp [St.set, h]

/-- frame: an op changes only its targets -/
theorem Op.apply_frame {σ σ' : St} {o : Op} (h : o.apply σ = some σ') {s : Slot}
    (hs : s ∉ o.targets) : σ' s = σ s := by
  cases o with
  | up n ty =>
    simp [Op.apply] at h; subst h
    simp [Op.targets] at hs
    exact St.set_other _ _ hs
  | del n =>
    simp [Op.apply] at h
    obtain ⟨_, h⟩ := h; subst h
    simp [Op.targets] at hs
    rw [St.set_other _ _ hs.2, St.set_other _ _ hs.1]
  | set n v =>
    simp [Op.apply] at h
    obtain ⟨_, h⟩ := h; subst h
    simp [Op.targets] at hs
    exact St.set_other _ _ hs

theorem applyOps_frame : ∀ {ops : List Op} {σ σ' : St}, applyOps σ ops = some σ' →
    ∀ s, (∀ o ∈ ops, s ∉ o.targets) → σ' s = σ s
  | [], σ, σ', h, s, _ => by simp [applyOps] at h; subst h; rfl
  | o :: os, σ, σ', h, s, hs => by
    simp only [applyOps] at h
    cases ho : o.apply σ with
    | none => simp [ho] at h
    | some σ1 =>
      simp [ho] at h
      have h1 := applyOps_frame h s (fun o' ho' => hs o' (List.mem_cons_of_mem _ ho'))
      rw [h1]
      exact Op.apply_frame ho (hs o (List.mem_cons_self))

/-- constant write: the value an op leaves on its targets does not depend on the state it ran on -/
theorem Op.apply_const {σ1 σ1' σ2 σ2' : St} {o : Op} (h1 : o.apply σ1 = some σ1')
    (h2 : o.apply σ2 = some σ2') {s : Slot} (hs : s ∈ o.targets) : σ1' s = σ2' s := by
  cases o with
  | up n ty =>
    simp [Op.apply] at h1 h2; subst h1; subst h2
    simp [Op.targets] at hs; subst hs; simp
  | del n =>
    simp [Op.apply] at h1 h2
    obtain ⟨_, h1⟩ := h1; obtain ⟨_, h2⟩ := h2; subst h1; subst h2
    simp [Op.targets] at hs
    rcases hs with hs | hs <;> subst hs <;> simp [St.set]
  | set n v =>
    simp [Op.apply] at h1 h2
    obtain ⟨_, h1⟩ := h1; obtain ⟨_, h2⟩ := h2; subst h1; subst h2
    simp [Op.targets] at hs; subst hs; simp

theorem applyOps_written_agree : ∀ {ops : List Op} {σ1 σ1' σ2 σ2' : St},
    applyOps σ1 ops = some σ1' → applyOps σ2 ops = some σ2' →
    ∀ s, s ∈ ops.flatMap Op.targets → σ1' s = σ2' s
  | [], _, _, _, _, _, _, s, hs => by simp at hs
  | o :: os, σ1, σ1', σ2, σ2', h1, h2, s, hs => by
    simp only [applyOps] at h1 h2
    cases ho1 : o.apply σ1 with
    | none => simp [ho1] at h1
    | some τ1 =>
      cases ho2 : o.apply σ2 with
      | none => simp [ho2] at h2
      | some τ2 =>
        simp [ho1] at h1; simp [ho2] at h2
        by_cases hin : s ∈ os.flatMap Op.targets
        · exact applyOps_written_agree h1 h2 s hin
        · have hso : s ∈ o.targets := by
            simp only [List.flatMap_cons, List.mem_append] at hs
            rcases hs with hs | hs
            · exact hs
            · exact absurd hs hin
          have hfr : ∀ o' ∈ os, s ∉ o'.targets := by
            intro o' ho' hc
            exact hin (List.mem_flatMap.mpr ⟨o', ho', hc⟩)
          rw [applyOps_frame h1 s hfr, applyOps_frame h2 s hfr]
          exact Op.apply_const ho1 ho2 hso

/-! ### association lists -/

theorem lookup_setKV_same {α : Type} (k : Nat) (v : α) : ∀ l : List (Nat × α), lookup k (setKV k v l) = some v
  | [] => by simp [setKV, lookup]
  | (k', v') :: rest => by
    by_cases h : k' = k
    · simp [setKV, h, lookup]
    · simp [setKV, h, lookup, lookup_setKV_same k v rest]

theorem lookup_setKV_ne {α : Type} {k k' : Nat} (v : α) (hne : k' ≠ k) :
    ∀ l : List (Nat × α), lookup k' (setKV k v l) = lookup k' l
  | [] => by simp [setKV, lookup, Ne.symm hne]
  | (k0, v0) :: rest => by
    by_cases h : k0 = k
    · subst h
      simp [setKV, lookup, Ne.symm hne]
    · by_cases h2 : k0 = k'
      · subst h2
        simp [setKV, h, lookup]
      · simp [setKV, h, lookup, h2, lookup_setKV_ne v hne rest]

theorem setKV_setKV {α : Type} (k : Nat) (v v' : α) : ∀ l : List (Nat × α), setKV k v (setKV k v' l) = setKV k v l
  | [] => by simp [setKV]
  | (k0, v0) :: rest => by
    by_cases h : k0 = k
    · simp [setKV, h]
    · simp [setKV, h, setKV_setKV k v v' rest]

theorem setKV_lookup {α : Type} {k : Nat} {v : α} : ∀ {l : List (Nat × α)}, lookup k l = some v → setKV k v l = l
  | [], h => by simp [lookup] at h
  | (k0, v0) :: rest, h => by
    by_cases h0 : k0 = k
    · simp [lookup, h0] at h
      subst h0; subst h
      simp [setKV]
    · simp [lookup, h0] at h
      simp [setKV, h0, setKV_lookup h]

theorem lookup_append_left {α : Type} {k : Nat} {v : α} : ∀ {l r : List (Nat × α)},
    lookup k l = some v → lookup k (l ++ r) = some v
  | [], _, h => by simp [lookup] at h
  | (k0, v0) :: rest, r, h => by
    by_cases h0 : k0 = k
    · simp [lookup, h0] at h ⊢; exact h
    · simp [lookup, h0] at h ⊢; exact lookup_append_left h

theorem lookup_append_none {α : Type} {k : Nat} : ∀ {l r : List (Nat × α)},
    lookup k l = none → lookup k (l ++ r) = lookup k r
  | [], _, _ => by simp
  | (k0, v0) :: rest, r, h => by
    by_cases h0 : k0 = k
    · simp [lookup, h0] at h
    · simp [lookup, h0] at h ⊢; exact lookup_append_none h

theorem lookup_append_ne {α : Type} {k k' : Nat} (v : α) (hne : k ≠ k') (l : List (Nat × α)) :
    lookup k (l ++ [(k', v)]) = lookup k l := by
  cases h : lookup k l with
  | some x => exact lookup_append_left h
  | none => rw [lookup_append_none h]; simp [lookup, Ne.symm hne]

/-! ### replay ignores the lane rewrite -/

theorem replay_map_rewrite (c : Nat) : ∀ (es : List Entry) (σ : St),
    replay σ (es.map (rewriteEntry c)) = replay σ es
  | [], σ => rfl
  | e :: es, σ => by
    simp only [List.map_cons, replay, rewriteEntry]
    cases e.patch with
    | none => rfl
    | some p =>
      simp only []
      cases applyOps σ p.ops with
      | none => rfl
      | some σ' => simp only []; exact replay_map_rewrite c es σ'

/-! ### one head commit touches one lane -/

theorem commitLane_frame (univ : List Slot) (w : Nat) (s : Rt × Pv) (a : Nat)
    (h : a ≠ w ∨ ∀ l, lookup a s.1.lanes = some l → l.pending = none) :
    lookup a (commitLane univ w s).1.lanes = lookup a s.1.lanes ∧
    lookup a (commitLane univ w s).2.hists = lookup a s.2.hists ∧
    (commitLane univ w s).1.strands = s.1.strands ∧ (commitLane univ w s).1.gtick = s.1.gtick ∧
    (commitLane univ w s).2.shells = s.2.shells ∧ (commitLane univ w s).2.plurals = s.2.plurals := by
  unfold commitLane
  cases hl : lookup w s.1.lanes with
  | none => simp
  | some l =>
    cases hh : lookup w s.2.hists with
    | none => simp
    | some hist =>
      cases hp : l.pending with
      | none => simp [hp]
      | some prog =>
        simp only [hp]
        cases ha : applyOps l.state (prog.patch l.state).ops with
        | none => simp
        | some σ' =>
          have hne : a ≠ w := by
            rcases h with h | h
            · exact h
            · intro heq
              subst heq
              have := h l hl
              rw [hp] at this
              cases this
          simp [lookup_setKV_ne _ hne]

/-! ### characterisation of one planner step -/

theorem planStep_tick (univ : List Slot) (plural : Bool) (basis : Basis) (a : PlanAcc) (e : Entry) :
    (planStep univ plural basis a e).1.tick = a.tick + 1 := by
  unfold planStep
  cases a.blocked <;> simp only []
  · cases e.kind.isLocal <;> simp only [if_true, if_false, Bool.false_eq_true]
    cases e.patch <;> simp only []
    rename_i p
    cases applyOps a.sim p.ops <;> simp only []
    split
    · rfl
    · split
      · rfl
      · split
        · rfl
        · split <;> rfl

/-- an import decision: the source entry has a patch, it applies to the simulation, and the
    simulation advances to the result; its tick is the accumulator's tick. -/
theorem planStep_imp {univ : List Slot} {plural : Bool} {basis : Basis} {a : PlanAcc} {e : Entry}
    {t : Nat} {root : List Val} {rev : Option Reval}
    (h : (planStep univ plural basis a e).2 = .imp t root rev) :
    t = a.tick ∧ ∃ p cand, e.patch = some p ∧ applyOps a.sim p.ops = some cand ∧
      (planStep univ plural basis a e).1.sim = cand ∧ root = rootOf univ cand ∧
      (∀ s ∈ entryOverlap basis p, a.sim s = cand s) := by
  unfold planStep at h ⊢
  cases hb : a.blocked with
  | some r => simp [hb] at h
  | none =>
    simp only [hb] at h ⊢
    cases hk : e.kind.isLocal with
    | false => simp [hk] at h
    | true =>
      simp only [hk, if_true] at h ⊢
      cases hp : e.patch with
      | none => simp [hp] at h
      | some p =>
        simp only [hp] at h ⊢
        cases ha : applyOps a.sim p.ops with
        | none => simp [ha] at h
        | some cand =>
          simp only [ha] at h ⊢
          split at h
          · simp at h
          · rename_i h1
            split at h
            · rename_i h2
              simp only [Decision.imp.injEq] at h
              refine ⟨h.1.symm, p, cand, rfl, ha, ?_, h.2.1.symm, ?_⟩
              · simp [h1, h2]
              · intro s hs
                simp [List.isEmpty_iff] at h2
                rw [h2] at hs
                cases hs
            · rename_i h2
              split at h
              · rename_i h3
                simp only [Decision.imp.injEq] at h
                refine ⟨h.1.symm, p, cand, rfl, ha, ?_, h.2.1.symm, ?_⟩
                · simp [h1, h2, h3]
                · intro s hs
                  have := List.all_eq_true.mp h3 s hs
                  simpa using this
              · split at h <;> simp at h

/-- a non-import decision leaves the simulation untouched -/
theorem planStep_nonimp {univ : List Slot} {plural : Bool} {basis : Basis} {a : PlanAcc} {e : Entry}
    (h : (planStep univ plural basis a e).2.isImport = false) :
    (planStep univ plural basis a e).1.sim = a.sim := by
  unfold planStep at h ⊢
  cases hb : a.blocked with
  | some r => simp
  | none =>
    simp only [hb] at h ⊢
    cases hk : e.kind.isLocal with
    | false => simp
    | true =>
      simp only [hk, if_true] at h ⊢
      cases hp : e.patch with
      | none => simp
      | some p =>
        simp only [hp] at h ⊢
        cases ha : applyOps a.sim p.ops with
        | none => simp
        | some cand =>
          simp only [ha] at h ⊢
          split
          · rfl
          · split
            · rename_i h1 h2
              simp [h1, h2, Decision.isImport] at h
            · split
              · rename_i h1 h2 h3
                simp [h1, h2, h3, Decision.isImport] at h
              · split <;> rfl

theorem Decision.isImport_cases (d : Decision) :
    (∃ t root rev, d = .imp t root rev) ∨ d.isImport = false := by
  cases d with
  | imp t root rev => exact Or.inl ⟨t, root, rev, rfl⟩
  | conf t r rev => exact Or.inr rfl
  | plur t sl => exact Or.inr rfl

/-! ### replay -/

theorem replay_append {σ1 σ2 : St} {p : Patch} : ∀ {es : List Entry} {e : Entry} {σ0 : St},
    replay σ0 es = some σ1 → e.patch = some p → applyOps σ1 p.ops = some σ2 →
    replay σ0 (es ++ [e]) = some σ2
  | [], e, σ0, h1, hp, ha => by
    simp [replay] at h1; subst h1
    simp [replay, hp, ha]
  | e0 :: es, e, σ0, h1, hp, ha => by
    simp only [replay, List.cons_append] at h1 ⊢
    cases hp0 : e0.patch with
    | none => simp [hp0] at h1
    | some p0 =>
      simp only [hp0] at h1 ⊢
      cases ha0 : applyOps σ0 p0.ops with
      | none => simp [ha0] at h1
      | some τ =>
        simp only [ha0] at h1 ⊢
        exact replay_append h1 hp ha

end EchoVerif.Settle
