/-
  Lemmas about the FIXED recovery loop (`recoverLoopT`, commit markers must tile the frame LSNs):
    A. on a well-formed log (`LogAt`) it succeeds and returns the whole log (so C10's prefix theorem
       carries over to the current code);
    B. soundness under re-arrangement: whatever frames and commit markers OF THE ORIGINAL LOG are
       handed to it — any deletions, duplications, re-orderings — a successful result is a contiguous
       run `ts[a .. a+k)` of the original transactions, complete with their frames.
-/
import EchoVerif.Lemmas.WalLog
import EchoVerif.Model.WalIntegrity
set_option linter.unusedSimpArgs false
set_option linter.unusedVariables false

namespace EchoVerif.Wal

/-! ### `minLsn` -/

theorem minLsn_eq_none {fs : List Frame} : minLsn fs = none ↔ fs = [] := by
  cases fs with
  | nil => simp [minLsn]
  | cons f fs =>
    simp only [minLsn]
    cases minLsn fs <;> simp

theorem minLsn_spec {fs : List Frame} {m : Nat} (h : minLsn fs = some m) :
    (∃ f ∈ fs, f.header.lsn = m) ∧ ∀ f ∈ fs, m ≤ f.header.lsn := by
  induction fs generalizing m with
  | nil => simp [minLsn] at h
  | cons f fs ih =>
    simp only [minLsn] at h
    cases hm : minLsn fs with
    | none =>
      rw [hm] at h
      have hnil := minLsn_eq_none.mp hm
      subst hnil
      simp only [Option.some.injEq] at h
      subst h
      simp
    | some m' =>
      rw [hm] at h
      simp only [Option.some.injEq] at h
      obtain ⟨⟨g, hg, hgl⟩, hall⟩ := ih hm
      constructor
      · by_cases hle : f.header.lsn ≤ m'
        · exact ⟨f, by simp, by omega⟩
        · exact ⟨g, by simp [hg], by omega⟩
      · intro x hx
        simp only [List.mem_cons] at hx
        rcases hx with rfl | hx
        · omega
        · have := hall x hx; omega

theorem minLsn_of_least {fs : List Frame} {m : Nat} (hmem : ∃ f ∈ fs, f.header.lsn = m)
    (hall : ∀ f ∈ fs, m ≤ f.header.lsn) : minLsn fs = some m := by
  cases h : minLsn fs with
  | none =>
    obtain ⟨f, hf, _⟩ := hmem
    rw [minLsn_eq_none.mp h] at hf
    simp at hf
  | some m' =>
    obtain ⟨⟨g, hg, hgl⟩, hall'⟩ := minLsn_spec h
    obtain ⟨f, hf, hfl⟩ := hmem
    have h1 := hall g hg
    have h2 := hall' f hf
    congr 1; omega

/-! ### more about `Chain` and `LogAt` -/

theorem Chain.le_max {cfg : Cfg} {H : HashFn} {b : Nat} {xs : List Frame} (h : Chain cfg H b xs) :
    ∀ f ∈ xs, f.header.lsn ≤ u64Max := by
  induction xs generalizing b with
  | nil => simp
  | cons x xs ih =>
    obtain ⟨_, hl, hb, hrest⟩ := h
    intro f hf
    simp only [List.mem_cons] at hf
    rcases hf with rfl | hf
    · omega
    · exact ih hrest f hf

theorem Chain.lsn_inj {cfg : Cfg} {H : HashFn} {b : Nat} {xs : List Frame} (h : Chain cfg H b xs) :
    ∀ f ∈ xs, ∀ g ∈ xs, f.header.lsn = g.header.lsn → f = g := by
  induction xs generalizing b with
  | nil => simp
  | cons x xs ih =>
    obtain ⟨_, hl, _, hrest⟩ := h
    intro f hf g hg hfg
    simp only [List.mem_cons] at hf hg
    rcases hf with rfl | hf <;> rcases hg with rfl | hg
    · rfl
    · have := hrest.lsn_range g hg; omega
    · have := hrest.lsn_range f hf; omega
    · exact ih hrest f hf g hg hfg

theorem LogAt.split {cfg : Cfg} {H : HashFn} {b : Nat} {A B : List Tx} (h : LogAt cfg H b (A ++ B)) :
    LogAt cfg H b A ∧ LogAt cfg H (b + (framesOfTxs A).length) B := by
  induction A generalizing b with
  | nil => simpa [LogAt, framesOfTxs] using h
  | cons t A ih =>
    obtain ⟨hv, hb, rest⟩ := h
    obtain ⟨h1, h2⟩ := ih rest
    refine ⟨⟨hv, hb, h1⟩, ?_⟩
    simp only [framesOfTxs, List.flatMap_cons, List.length_append] at h2 ⊢
    rwa [Nat.add_assoc] at h2

/-- where each transaction of a well-formed log sits -/
theorem LogAt.range {cfg : Cfg} {H : HashFn} {b : Nat} {ts : List Tx} (h : LogAt cfg H b ts) :
    ∀ t ∈ ts, b ≤ t.commit.firstLsn ∧ t.commit.firstLsn + t.frames.length ≤ b + (framesOfTxs ts).length
      ∧ 0 < t.frames.length ∧ t.commit.lastLsn + 1 = t.commit.firstLsn + t.frames.length
      ∧ validateTx cfg H t.frames t.commit = .ok () := by
  induction ts generalizing b with
  | nil => simp
  | cons u us ih =>
    obtain ⟨hv, hb, rest⟩ := h
    obtain ⟨hne, _, hlast⟩ := validateTx_inv hv
    have hpos : 0 < u.frames.length := List.length_pos_iff.mpr hne
    intro t ht
    simp only [List.mem_cons] at ht
    simp only [framesOfTxs, List.flatMap_cons, List.length_append]
    rcases ht with rfl | ht
    · refine ⟨by omega, by omega, hpos, by omega, hv⟩
    · obtain ⟨a1, a2, a3, a4, a5⟩ := ih rest t ht
      simp only [framesOfTxs] at a2
      exact ⟨by omega, by omega, a3, a4, a5⟩

theorem mem_framesOfTxs {ts : List Tx} {t : Tx} (ht : t ∈ ts) : ∀ f ∈ t.frames, f ∈ framesOfTxs ts := by
  intro f hf
  simp only [framesOfTxs, List.mem_flatMap]
  exact ⟨t, ht, hf⟩

/-- a marker that starts exactly where `B` starts is the marker of `B`'s first transaction -/
theorem LogAt.commit_at {cfg : Cfg} {H : HashFn} {b : Nat} {A B : List Tx} (h : LogAt cfg H b (A ++ B))
    {c : Commit} (hc : c ∈ (A ++ B).map (fun t => t.commit))
    (hfirst : c.firstLsn = b + (framesOfTxs A).length) :
    ∃ t B', B = t :: B' ∧ t.commit = c := by
  obtain ⟨hA, hB⟩ := h.split
  simp only [List.map_append, List.mem_append, List.mem_map] at hc
  rcases hc with ⟨t, ht, rfl⟩ | ⟨t, ht, rfl⟩
  · obtain ⟨_, h2, h3, _⟩ := hA.range t ht
    omega
  · cases B with
    | nil => simp at ht
    | cons u B' =>
      simp only [List.mem_cons] at ht
      rcases ht with rfl | ht
      · exact ⟨t, B', rfl, rfl⟩
      · obtain ⟨hv, hb, rest⟩ := hB
        obtain ⟨hne, _, _⟩ := validateTx_inv hv
        have hpos : 0 < u.frames.length := List.length_pos_iff.mpr hne
        obtain ⟨h1, _⟩ := rest.range t ht
        omega

/-! ### A. the tiled loop on a well-formed log -/

theorem minLsn_chain {cfg : Cfg} {H : HashFn} {b : Nat} {f : Frame} {fs : List Frame}
    (h : Chain cfg H b (f :: fs)) : minLsn (f :: fs) = some b := by
  apply minLsn_of_least
  · exact ⟨f, by simp, h.2.1⟩
  · intro g hg
    exact (h.lsn_range g hg).1

theorem recoverLoopT_log {cfg : Cfg} {H : HashFn} {base : Nat} (ts : List Tx) (pre post G : List Frame)
    (last : Option Nat)
    (hG : G = pre ++ framesOfTxs ts ++ post) (hchain : Chain cfg H base G)
    (hlog : LogAt cfg H (base + pre.length) ts)
    (hlast : (pre = [] ∧ last = none) ∨ (0 < pre.length ∧ last = some (base + pre.length - 1))) :
    recoverLoopT cfg H G last (ts.map (fun t => t.commit))
      = .ok (recoveredOf ts, if ts = [] then last else lastLsnOf ts) := by
  induction ts generalizing pre last with
  | nil => simp [recoverLoopT, recoveredOf]
  | cons t ts ih =>
    obtain ⟨hv, hfirst, hrest⟩ := hlog
    obtain ⟨hne, _, hlastlsn⟩ := validateTx_inv hv
    have hpos : 0 < t.frames.length := List.length_pos_iff.mpr hne
    have hG' : G = pre ++ t.frames ++ (framesOfTxs ts ++ post) := by
      rw [hG]; simp [framesOfTxs, List.append_assoc]
    have hsel : selectFrames G t.commit = t.frames := by
      rw [hG']; rw [hG'] at hchain
      exact selectFrames_exact hchain hv hfirst
    -- the expected first LSN
    have hexp : expectedFirst G last = some t.commit.firstLsn := by
      rcases hlast with ⟨hp, hl⟩ | ⟨hp, hl⟩
      · subst hp; subst hl
        simp only [List.nil_append, List.length_nil, Nat.add_zero] at hG' hfirst
        cases hf : t.frames with
        | nil => exact absurd hf hne
        | cons f fs =>
          simp only [expectedFirst]
          rw [hG', hf] at hchain ⊢
          simp only [List.cons_append] at hchain ⊢
          rw [minLsn_chain hchain, hfirst]
      · subst hl
        -- the first frame of `t` is in G with LSN base + pre.length ≤ u64::MAX
        cases hf : t.frames with
        | nil => exact absurd hf hne
        | cons f fs =>
          have hmem : f ∈ G := by rw [hG', hf]; simp
          have hmax := hchain.le_max f hmem
          have hfl : f.header.lsn = base + pre.length := by
            rw [hG', hf] at hchain
            rw [List.append_assoc, Chain.append] at hchain
            exact hchain.2.2.1
          simp only [expectedFirst, checkedNext]
          rw [if_neg (by omega), hfirst]
          congr 1; omega
    have hih := ih (pre ++ t.frames) (some t.commit.lastLsn)
      (by rw [hG]; simp [framesOfTxs, List.append_assoc])
      (by simpa [Nat.add_assoc] using hrest)
      (Or.inr ⟨by simp; omega, by simp only [List.length_append]; congr 1; omega⟩)
    simp only [List.map_cons, recoverLoopT, hexp, hsel, hv, hih, ne_eq, not_true_eq_false, ite_false]
    cases ts with
    | nil => simp [recoveredOf, lastLsnOf]
    | cons u us =>
      simp only [recoveredOf, lastLsnOf, List.getLast?_cons_cons, List.map_cons]
      simp

/-- `recover_from_frames_and_commits` (current code) on: all frames of the transactions `ts`, followed
    by `extra` LSN-consecutive frames that no commit marker covers, and the markers of `ts` -/
theorem recoverFCT_prefix {cfg : Cfg} {H : HashFn} {base : Nat} (mode : Mode) (ts : List Tx)
    (extra : List Frame) (hlog : LogAt cfg H base ts)
    (hchain : Chain cfg H base (framesOfTxs ts ++ extra)) :
    recoverFCT cfg H (framesOfTxs ts ++ extra) (ts.map (fun t => t.commit)) mode
      = .ok { txs := recoveredOf ts,
              tail := if extra = [] then .clean else tailOf mode (lastLsnOf ts) } := by
  have hloop := recoverLoopT_log (cfg := cfg) (H := H) (base := base) ts [] extra
    (framesOfTxs ts ++ extra) none (by simp) hchain (by simpa using hlog) (Or.inl ⟨rfl, rfl⟩)
  have hold := recoverFC_prefix mode ts extra hlog hchain
  have hl : (if ts = [] then (none : Option Nat) else lastLsnOf ts) = lastLsnOf ts := by
    by_cases h : ts = []
    · subst h; simp [lastLsnOf]
    · simp [h]
  rw [hl] at hloop
  -- the old and the new function differ only in the loop; both loops return the same pair here
  have hloop_old := recoverLoop_log (cfg := cfg) (H := H) (base := base) ts [] extra
    (framesOfTxs ts ++ extra) (by simp) hchain (by simpa using hlog)
  simp only [recoverFC, validateFrameOrder_chain hchain, hloop_old] at hold
  simp only [recoverFCT, validateFrameOrder_chain hchain, hloop]
  exact hold

/-! ### B. soundness of the tiled loop on frames / markers drawn from a well-formed log -/

theorem framesAt_unique {cfg : Cfg} {H : HashFn} {F : List Frame}
    (huniq : ∀ f ∈ F, ∀ g ∈ F, f.header.lsn = g.header.lsn → f = g) {c : Commit} :
    ∀ (xs ys : List Frame) (i : Nat), FramesAt cfg H c i xs → FramesAt cfg H c i ys → xs.length = ys.length →
      (∀ x ∈ xs, x ∈ F) → (∀ y ∈ ys, y ∈ F) → xs = ys := by
  intro xs
  induction xs with
  | nil =>
    intro ys i _ _ hl _ _
    cases ys with
    | nil => rfl
    | cons y ys => simp at hl
  | cons x xs ih =>
    intro ys i hx hy hl hxF hyF
    cases ys with
    | nil => simp at hl
    | cons y ys =>
      obtain ⟨_, _, lx, _, rx⟩ := hx
      obtain ⟨_, _, ly, _, ry⟩ := hy
      have hxy : x = y := huniq x (hxF x (by simp)) y (hyF y (by simp)) (by omega)
      have := ih ys (i + 1) rx ry (by simpa using hl) (fun a ha => hxF a (by simp [ha]))
        (fun a ha => hyF a (by simp [ha]))
      rw [hxy, this]

theorem selectFrames_sub (F' : List Frame) (c : Commit) : ∀ f ∈ selectFrames F' c, f ∈ F' := by
  intro f hf
  simp only [selectFrames, List.mem_filter] at hf
  exact hf.1

/-- a marker of the log, validated against frames of the log, selects exactly its own frames -/
theorem sel_of_member {cfg : Cfg} {H : HashFn} {base : Nat} {ts : List Tx} (hlog : LogAt cfg H base ts)
    {F' : List Frame} (hF : ∀ f ∈ F', f ∈ framesOfTxs ts) {t : Tx} (ht : t ∈ ts)
    (hv : validateTx cfg H (selectFrames F' t.commit) t.commit = .ok ()) :
    selectFrames F' t.commit = t.frames := by
  obtain ⟨hne, hfa, hlast⟩ := validateTx_inv hv
  obtain ⟨_, _, hpos, hl2, hv2⟩ := hlog.range t ht
  obtain ⟨hne2, hfa2, hlast2⟩ := validateTx_inv hv2
  have hpos1 : 0 < (selectFrames F' t.commit).length := List.length_pos_iff.mpr hne
  apply framesAt_unique (hlog.chain.lsn_inj) _ _ 0 hfa hfa2 (by omega)
  · intro x hx; exact hF x (selectFrames_sub F' _ x hx)
  · exact mem_framesOfTxs ht

theorem recoveredOf_cons (t : Tx) (ts : List Tx) : recoveredOf (t :: ts) = ⟨t.commit, t.frames⟩ :: recoveredOf ts := rfl

/-- the loop in state `Some(l)`: the markers consumed are those of the next transactions of the log -/
theorem recoverLoopT_sub {cfg : Cfg} {H : HashFn} {base : Nat} {ts : List Tx} (hlog : LogAt cfg H base ts)
    {F' : List Frame}
    (hselAll : ∀ t ∈ ts, validateTx cfg H (selectFrames F' t.commit) t.commit = .ok () →
      selectFrames F' t.commit = t.frames) :
    ∀ (C' : List Commit) (A B : List Tx) (l : Nat) (txs : List RecoveredTx) (l' : Option Nat),
      ts = A ++ B → l + 1 = base + (framesOfTxs A).length →
      (∀ c ∈ C', c ∈ ts.map (fun t => t.commit)) →
      recoverLoopT cfg H F' (some l) C' = .ok (txs, l') →
      txs = recoveredOf (B.take C'.length) ∧ (B.take C'.length).map (fun t => t.commit) = C'
        ∧ C'.length ≤ B.length := by
  intro C'
  induction C' with
  | nil =>
    intro A B l txs l' _ _ _ h
    simp only [recoverLoopT, Except.ok.injEq, Prod.mk.injEq] at h
    simp [h.1.symm, recoveredOf]
  | cons c cs ih =>
    intro A B l txs l' hts hl hC h
    simp only [recoverLoopT] at h
    split at h
    · cases h
    · rename_i hexp
      have hexp' : checkedNext l = some c.firstLsn := by simpa [expectedFirst] using hexp
      have hcf : c.firstLsn = l + 1 := by
        simp only [checkedNext] at hexp'
        split at hexp'
        · cases hexp'
        · simp only [Option.some.injEq] at hexp'; omega
      obtain ⟨t, B', hB, htc⟩ := LogAt.commit_at (hts ▸ hlog) (hts ▸ hC c (by simp)) (by omega)
      subst hB
      have htmem : t ∈ ts := by rw [hts]; simp
      split at h
      · cases h
      · rename_i hval
        have hv : validateTx cfg H (selectFrames F' t.commit) t.commit = .ok () := by
          rw [htc]
          cases hvv : validateTx cfg H (selectFrames F' c) c with
          | error e => rw [hvv] at hval; cases hval
          | ok u => rfl
        have hsel := hselAll t htmem hv
        obtain ⟨_, _, hpos, hl2, _⟩ := hlog.range t htmem
        split at h
        · cases h
        · rename_i txs' l'' hrec
          simp only [Except.ok.injEq, Prod.mk.injEq] at h
          have hih := ih (A ++ [t]) B' c.lastLsn txs' l'' (by rw [hts]; simp)
            (by
              simp only [framesOfTxs, List.flatMap_append, List.flatMap_cons, List.flatMap_nil,
                List.append_nil, List.length_append]
              simp only [framesOfTxs] at hl
              have hcc : t.commit.firstLsn = c.firstLsn := by rw [htc]
              rw [← htc]; omega)
            (fun c' hc' => hC c' (by simp [hc'])) hrec
          obtain ⟨h1, h2, h3⟩ := hih
          refine ⟨?_, ?_, ?_⟩
          · rw [← h.1, h1]
            simp only [List.length_cons, List.take_succ_cons, recoveredOf_cons]
            rw [← htc, hsel]
          · simp only [List.length_cons, List.take_succ_cons, List.map_cons, h2, htc]
          · simp only [List.length_cons]; omega

/-- the whole loop from the initial state: the result is a contiguous run of the log -/
theorem recoverLoopT_sub_none {cfg : Cfg} {H : HashFn} {base : Nat} {ts : List Tx} (hlog : LogAt cfg H base ts)
    {F' : List Frame}
    (hselAll : ∀ t ∈ ts, validateTx cfg H (selectFrames F' t.commit) t.commit = .ok () →
      selectFrames F' t.commit = t.frames)
    (C' : List Commit) (hC : ∀ c ∈ C', c ∈ ts.map (fun t => t.commit))
    (txs : List RecoveredTx) (l' : Option Nat)
    (h : recoverLoopT cfg H F' none C' = .ok (txs, l')) :
    ∃ A B, ts = A ++ B ∧ txs = recoveredOf (B.take C'.length)
      ∧ (B.take C'.length).map (fun t => t.commit) = C' ∧ C'.length ≤ B.length
      ∧ (C' ≠ [] → minLsn F' = some (base + (framesOfTxs A).length)) := by
  cases C' with
  | nil =>
    simp only [recoverLoopT, Except.ok.injEq, Prod.mk.injEq] at h
    exact ⟨[], ts, rfl, by simp [h.1.symm, recoveredOf], by simp, by simp, by simp⟩
  | cons c cs =>
    simp only [recoverLoopT] at h
    split at h
    · cases h
    · rename_i hexp
      have hexp' : minLsn F' = some c.firstLsn := by simpa [expectedFirst] using hexp
      have hcm := hC c (by simp)
      simp only [List.mem_map] at hcm
      obtain ⟨t, htmem, htc⟩ := hcm
      obtain ⟨A, B', hsplit⟩ := List.append_of_mem htmem
      have hfirst : t.commit.firstLsn = base + (framesOfTxs A).length := by
        have := (hsplit ▸ hlog).split.2
        exact this.2.1
      split at h
      · cases h
      · rename_i hval
        have hv : validateTx cfg H (selectFrames F' t.commit) t.commit = .ok () := by
          rw [htc]
          cases hvv : validateTx cfg H (selectFrames F' c) c with
          | error e => rw [hvv] at hval; cases hval
          | ok u => rfl
        have hsel := hselAll t htmem hv
        obtain ⟨_, _, hpos, hl2, _⟩ := hlog.range t htmem
        split at h
        · cases h
        · rename_i txs' l'' hrec
          simp only [Except.ok.injEq, Prod.mk.injEq] at h
          have hih := recoverLoopT_sub hlog hselAll cs (A ++ [t]) B' c.lastLsn txs' l''
            (by rw [hsplit]; simp)
            (by
              simp only [framesOfTxs, List.flatMap_append, List.flatMap_cons, List.flatMap_nil,
                List.append_nil, List.length_append]
              simp only [framesOfTxs] at hfirst
              rw [← htc]; omega)
            (fun c' hc' => hC c' (by simp [hc'])) hrec
          obtain ⟨h1, h2, h3⟩ := hih
          refine ⟨A, t :: B', hsplit, ?_, ?_, ?_, ?_⟩
          · rw [← h.1, h1]
            simp only [List.length_cons, List.take_succ_cons, recoveredOf_cons]
            rw [← htc, hsel]
          · simp only [List.length_cons, List.take_succ_cons, List.map_cons, h2, htc]
          · simp only [List.length_cons]; omega
          · intro _; rw [hexp', ← htc, hfirst]

end EchoVerif.Wal
