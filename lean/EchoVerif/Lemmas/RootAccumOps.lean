/-
  Lemmas about Model/RootAccum.lean: the accumulator's op interpreter follows the store's.

  `applyOp_acc`: on a state whose instance table and store set are in step (`AccWF`), every op the
  store ACCEPTS (`applyOp s o = .ok s'`) is accepted by the accumulator built from `s` (no
  `assert!`/`panic!` site fires) and leaves it literally equal to the accumulator built from `s'`.
  Lifted along `applyLoop` / `applyOps`, and combined with the static agreement
  `accContent_ofState`: the byte stream the accumulator hashes after the ops is the byte stream the
  store path hashes on the post-state (`accum_agrees_ops`).

  Method: each flat table of `Acc.ofState s` is the unique sorted table whose lookup at `(w, i)` is
  the store lookup `nodeAt/edgeAt/nattAt/eattAt s w i` (`acc_eq_ofState`, by `SMap.ext`).
-/
import EchoVerif.Lemmas.RootAccum
import EchoVerif.Lemmas.DiffFullMem

set_option linter.unusedSimpArgs false
set_option linter.unusedVariables false
set_option linter.unusedSectionVars false

namespace EchoVerif
namespace Root
open Graph SMap

/-- instance table and store set in step, every map sorted, instances filed under their own id -/
structure AccWF (s : WState) : Prop where
  sorted : s.SortedAll
  instSorted : SMap.Sorted s.instances
  keys : ∀ w, (SMap.find? w s.instances).isSome = (s.store? w).isSome
  warpKey : ∀ w inst, SMap.find? w s.instances = some inst → inst.warp = w

theorem wfi_accwf {s : WState} (h : WFI s) : AccWF s :=
  ⟨h.wf.sorted, h.wf.instSorted, h.keys, h.warpKey⟩

/-! ### flat tables are determined by their lookups -/

/-- lookup of one component of the store of warp `w` -/
def lookAt {ν : Type} (f : Store → SMap Nat ν) (s : WState) (w i : Nat) : Option ν :=
  match s.store? w with
  | none => none
  | some st => find? i (f st)

theorem nodeAt_look (s : WState) (w i : Nat) : nodeAt s w i = lookAt Store.nodes s w i := rfl
theorem edgeAt_look (s : WState) (w i : Nat) : edgeAt s w i = lookAt Store.edges s w i := rfl
theorem nattAt_look (s : WState) (w i : Nat) : nattAt s w i = lookAt Store.nodeAtt s w i := rfl
theorem eattAt_look (s : WState) (w i : Nat) : eattAt s w i = lookAt Store.edgeAtt s w i := rfl

/-- `f` picks one of the four (sorted) maps of a store -/
def Comp {ν : Type} (f : Store → SMap Nat ν) : Prop := ∀ st : Store, st.Sorted4 → Sorted (f st)

theorem comp_nodes : Comp Store.nodes := fun _ h => h.1
theorem comp_edges : Comp Store.edges := fun _ h => h.2.1
theorem comp_natt : Comp Store.nodeAtt := fun _ h => h.2.2.1
theorem comp_eatt : Comp Store.edgeAtt := fun _ h => h.2.2.2

theorem flat_sorted_of {ν : Type} {f : Store → SMap Nat ν} (hf : Comp f) {s : WState}
    (hs : s.SortedAll) : Sorted (flat f s.stores) :=
  flat_sorted f hs.1 (fun w st h => hf st (hs.2 w st h))

theorem find?_flat_look {ν : Type} {f : Store → SMap Nat ν} (hf : Comp f) {s : WState}
    (hs : s.SortedAll) (w i : Nat) : find? (w, i) (flat f s.stores) = lookAt f s w i := by
  rw [find?_flat f hs.1 (fun w st h => hf st (hs.2 w st h))]
  rfl

theorem flat_eq_of_look {ν : Type} {f : Store → SMap Nat ν} (hf : Comp f) {s : WState}
    (hs : s.SortedAll) {t : SMap NKey ν} (ht : Sorted t)
    (hl : ∀ w i, find? (w, i) t = lookAt f s w i) : t = flat f s.stores := by
  apply SMap.ext ht (flat_sorted_of hf hs)
  intro k
  obtain ⟨w, i⟩ := k
  rw [hl, find?_flat_look hf hs]

/-- the accumulator tracks the state: same instance table, sorted tables, store lookups -/
structure Tracks (a : Acc) (s : WState) : Prop where
  inst : a.instances = s.instances
  sn : Sorted a.nodes
  se : Sorted a.edges
  sna : Sorted a.nodeAtt
  sea : Sorted a.edgeAtt
  ln : ∀ w i, find? (w, i) a.nodes = nodeAt s w i
  le : ∀ w i, find? (w, i) a.edges = edgeAt s w i
  lna : ∀ w i, find? (w, i) a.nodeAtt = nattAt s w i
  lea : ∀ w i, find? (w, i) a.edgeAtt = eattAt s w i

theorem tracks_ofState {s : WState} (hs : s.SortedAll) : Tracks (Acc.ofState s) s where
  inst := rfl
  sn := flat_sorted_of comp_nodes hs
  se := flat_sorted_of comp_edges hs
  sna := flat_sorted_of comp_natt hs
  sea := flat_sorted_of comp_eatt hs
  ln := find?_flat_look comp_nodes hs
  le := find?_flat_look comp_edges hs
  lna := find?_flat_look comp_natt hs
  lea := find?_flat_look comp_eatt hs

/-- **an accumulator that tracks `s` IS `Acc.ofState s`** -/
theorem acc_eq_ofState {a : Acc} {s : WState} (hs : s.SortedAll) (h : Tracks a s) :
    a = Acc.ofState s := by
  obtain ⟨ai, an, ae, ana, aea⟩ := a
  obtain ⟨hi, sn, se, sna, sea, ln, le, lna, lea⟩ := h
  simp only at hi sn se sna sea ln le lna lea
  have h1 := flat_eq_of_look comp_nodes hs sn ln
  have h2 := flat_eq_of_look comp_edges hs se le
  have h3 := flat_eq_of_look comp_natt hs sna lna
  have h4 := flat_eq_of_look comp_eatt hs sea lea
  subst hi h1 h2 h3 h4
  rfl

/-! ### small facts -/

theorem ite_orKeep {V : Type} (w i w0 i0 : Nat) (v x : V) :
    (if ((w, i) : NKey) = (w0, i0) then v else x) =
      orKeep (if w0 = w ∧ i0 = i then some v else none) x := by
  by_cases h : w0 = w ∧ i0 = i
  · obtain ⟨rfl, rfl⟩ := h
    simp [orKeep]
  · rw [if_neg h, if_neg]
    · rfl
    · intro e
      simp only [Prod.mk.injEq] at e
      exact h ⟨e.1.symm, e.2.symm⟩

theorem accwf_of_skel {s s' : WState} (hw : AccWF s) (hi : s'.instances = s.instances)
    (hs : s'.SortedAll) (hk : ∀ w, (s'.store? w).isSome = (s.store? w).isSome) : AccWF s' where
  sorted := hs
  instSorted := by rw [hi]; exact hw.instSorted
  keys := by intro w; rw [hi, hk]; exact hw.keys w
  warpKey := by rw [hi]; exact hw.warpKey

/-- the accumulator's incident-edge scan = the store's -/
theorem any_incident_ofState {s : WState} (hs : s.SortedAll) {w : Nat} {st : Store}
    (hst : s.store? w = some st) (i : Nat) :
    (Acc.ofState s).edges.any (fun p => p.1.1 == w && (p.2.src == i || p.2.dst == i)) =
      st.hasIncident i := by
  rw [Bool.eq_iff_iff, List.any_eq_true]
  unfold Store.hasIncident
  rw [List.any_eq_true]
  constructor
  · rintro ⟨⟨⟨w', e⟩, r⟩, hm, hp⟩
    simp only [Bool.and_eq_true, beq_iff_eq] at hp
    obtain ⟨hw', hp⟩ := hp
    subst hw'
    obtain ⟨st2, hm2, hm3⟩ := (mem_flat Store.edges s.stores w' e r).mp hm
    have h2 := mem_find? hs.1 hm2
    have h3 : find? w' s.stores = some st := hst
    rw [h3] at h2
    cases h2
    exact ⟨(e, r), hm3, hp⟩
  · rintro ⟨⟨e, r⟩, hm, hp⟩
    refine ⟨((w, e), r), (mem_flat Store.edges s.stores w e r).mpr ⟨st, find?_mem hst, hm⟩, ?_⟩
    simp only [beq_self_eq_true, Bool.true_and]
    exact hp

/-- `set_attachment_internal` under an on-plane key, in terms of the per-location effects of the
    `SetAttachment` op -/
theorem setAttInternal_spec (a : Acc) (key : AttKey) (v : Option Att) (hp : key.planeValid = true)
    (hna : Sorted a.nodeAtt) (hea : Sorted a.edgeAtt) :
    (a.setAttInternal key v).instances = a.instances ∧
    (a.setAttInternal key v).nodes = a.nodes ∧
    (a.setAttInternal key v).edges = a.edges ∧
    Sorted (a.setAttInternal key v).nodeAtt ∧
    Sorted (a.setAttInternal key v).edgeAtt ∧
    (∀ w i, find? (w, i) (a.setAttInternal key v).nodeAtt =
      orKeep (effNatt w i (.setAtt key v)) (find? (w, i) a.nodeAtt)) ∧
    (∀ w i, find? (w, i) (a.setAttInternal key v).edgeAtt =
      orKeep (effEatt w i (.setAtt key v)) (find? (w, i) a.edgeAtt)) := by
  obtain ⟨owner, plane⟩ := key
  cases owner with
  | node w0 i0 =>
    cases plane with
    | beta => cases hp
    | alpha =>
      cases v with
      | some x =>
        refine ⟨rfl, rfl, rfl, sorted_insert _ _ hna, hea, ?_, ?_⟩
        · intro w i
          show find? (w, i) (SMap.insert (w0, i0) x a.nodeAtt) = _
          rw [find?_insert]
          exact ite_orKeep w i w0 i0 (some x) _
        · intro w i; rfl
      | none =>
        refine ⟨rfl, rfl, rfl, sorted_erase _ hna, hea, ?_, ?_⟩
        · intro w i
          show find? (w, i) (SMap.erase (w0, i0) a.nodeAtt) = _
          rw [find?_erase _ _ hna]
          exact ite_orKeep w i w0 i0 none _
        · intro w i; rfl
  | edge w0 i0 =>
    cases plane with
    | alpha => cases hp
    | beta =>
      cases v with
      | some x =>
        refine ⟨rfl, rfl, rfl, hna, sorted_insert _ _ hea, ?_, ?_⟩
        · intro w i; rfl
        · intro w i
          show find? (w, i) (SMap.insert (w0, i0) x a.edgeAtt) = _
          rw [find?_insert]
          exact ite_orKeep w i w0 i0 (some x) _
      | none =>
        refine ⟨rfl, rfl, rfl, hna, sorted_erase _ hea, ?_, ?_⟩
        · intro w i; rfl
        · intro w i
          show find? (w, i) (SMap.erase (w0, i0) a.edgeAtt) = _
          rw [find?_erase _ _ hea]
          exact ite_orKeep w i w0 i0 none _

/-! ### the five skeleton ops -/

theorem setAtt_planeValid {s s' : WState} {key : AttKey} {v : Option Att}
    (h : applyOp s (.setAtt key v) = .ok s') : key.planeValid = true := by
  simp only [applyOp, applySetAtt] at h
  cases hp : key.planeValid with
  | true => rfl
  | false => simp [hp] at h

theorem deleteNode_noIncident {s s' : WState} {w i : Nat}
    (h : applyOp s (.deleteNode w i) = .ok s') :
    ∃ st, s.store? w = some st ∧ st.hasIncident i = false := by
  simp only [applyOp] at h
  cases hst : s.store? w with
  | none => rw [hst] at h; cases h
  | some st =>
    refine ⟨st, rfl, ?_⟩
    rw [hst] at h
    simp only [Store.deleteNodeIsolated] at h
    cases hf : find? i st.nodes with
    | none => rw [hf] at h; cases h
    | some ty =>
      rw [hf] at h
      cases hi : st.hasIncident i with
      | false => rfl
      | true => simp [hi] at h

theorem applyOp_acc_skel {s s' : WState} {o : Op} (hw : AccWF s) (hsk : o.isSkel = true)
    (h : applyOp s o = .ok s') :
    (Acc.ofState s).applyOp o = some (Acc.ofState s') ∧ AccWF s' := by
  obtain ⟨hi, hs', hk, ln, le, lna, lea⟩ := applyOp_skel_laws hsk hw.sorted h
  refine ⟨?_, accwf_of_skel hw hi hs' hk⟩
  have T := tracks_ofState hw.sorted
  cases o with
  | openPortal => cases hsk
  | upsertInstance => cases hsk
  | deleteInstance => cases hsk
  | upsertNode w0 i0 ty =>
    simp only [Acc.applyOp]
    congr 1
    apply acc_eq_ofState hs'
    refine ⟨hi.symm, sorted_insert _ _ T.sn, T.se, T.sna, T.sea, ?_, ?_, ?_, ?_⟩
    · intro w i
      show find? (w, i) (SMap.insert (w0, i0) ty (Acc.ofState s).nodes) = _
      rw [find?_insert, ln, T.ln]
      exact ite_orKeep w i w0 i0 (some ty) _
    · intro w i; rw [le]; exact T.le w i
    · intro w i; rw [lna]; exact T.lna w i
    · intro w i; rw [lea]; exact T.lea w i
  | deleteNode w0 i0 =>
    obtain ⟨st, hst, hinc⟩ := deleteNode_noIncident h
    simp only [Acc.applyOp, any_incident_ofState hw.sorted hst, hinc, Bool.false_eq_true, if_false]
    congr 1
    apply acc_eq_ofState hs'
    refine ⟨hi.symm, sorted_erase _ T.sn, T.se, sorted_erase _ T.sna, T.sea, ?_, ?_, ?_, ?_⟩
    · intro w i
      show find? (w, i) (SMap.erase (w0, i0) (Acc.ofState s).nodes) = _
      rw [find?_erase _ _ T.sn, ln, T.ln]
      exact ite_orKeep w i w0 i0 none _
    · intro w i; rw [le]; exact T.le w i
    · intro w i
      show find? (w, i) (SMap.erase (w0, i0) (Acc.ofState s).nodeAtt) = _
      rw [find?_erase _ _ T.sna, lna, T.lna]
      exact ite_orKeep w i w0 i0 none _
    · intro w i; rw [lea]; exact T.lea w i
  | upsertEdge w0 id src dst ty =>
    simp only [Acc.applyOp]
    congr 1
    apply acc_eq_ofState hs'
    refine ⟨hi.symm, T.sn, sorted_insert _ _ T.se, T.sna, T.sea, ?_, ?_, ?_, ?_⟩
    · intro w i; rw [ln]; exact T.ln w i
    · intro w i
      show find? (w, i) (SMap.insert (w0, id) _ (Acc.ofState s).edges) = _
      rw [find?_insert, le, T.le]
      exact ite_orKeep w i w0 id (some _) _
    · intro w i; rw [lna]; exact T.lna w i
    · intro w i; rw [lea]; exact T.lea w i
  | deleteEdge w0 src id =>
    simp only [Acc.applyOp]
    congr 1
    apply acc_eq_ofState hs'
    refine ⟨hi.symm, T.sn, sorted_erase _ T.se, T.sna, sorted_erase _ T.sea, ?_, ?_, ?_, ?_⟩
    · intro w i; rw [ln]; exact T.ln w i
    · intro w i
      show find? (w, i) (SMap.erase (w0, id) (Acc.ofState s).edges) = _
      rw [find?_erase _ _ T.se, le, T.le]
      exact ite_orKeep w i w0 id none _
    · intro w i; rw [lna]; exact T.lna w i
    · intro w i
      show find? (w, i) (SMap.erase (w0, id) (Acc.ofState s).edgeAtt) = _
      rw [find?_erase _ _ T.sea, lea, T.lea]
      exact ite_orKeep w i w0 id none _
  | setAtt key v =>
    have hp := setAtt_planeValid h
    obtain ⟨e1, e2, e3, s4, s5, l6, l7⟩ :=
      setAttInternal_spec (Acc.ofState s) key v hp T.sna T.sea
    simp only [Acc.applyOp]
    congr 1
    apply acc_eq_ofState hs'
    refine ⟨e1.trans hi.symm, e2 ▸ T.sn, e3 ▸ T.se, s4, s5, ?_, ?_, ?_, ?_⟩
    · intro w i; rw [e2, ln]; exact T.ln w i
    · intro w i; rw [e3, le]; exact T.le w i
    · intro w i; rw [l6, lna, T.lna]
    · intro w i; rw [l7, lea, T.lea]

/-! ### instance-level ops -/

theorem store?_upsertWith (s : WState) (inst : Instance) (st0 : Store) (w : Nat) :
    (upsertInstanceWith s inst st0).store? w = if w = inst.warp then some st0 else s.store? w := by
  simp only [WState.store?, upsertInstanceWith, find?_insert]

theorem look_upsertWith {ν : Type} (f : Store → SMap Nat ν) (s : WState) (inst : Instance)
    (st0 : Store) (hst0 : ∀ i, find? i (f st0) = lookAt f s inst.warp i) (w i : Nat) :
    lookAt f (upsertInstanceWith s inst st0) w i = lookAt f s w i := by
  unfold lookAt
  rw [store?_upsertWith]
  by_cases hw : w = inst.warp
  · subst hw
    rw [if_pos rfl]
    exact hst0 i
  · rw [if_neg hw]

theorem accwf_upsertWith {s : WState} (hw : AccWF s) (inst : Instance) {st0 : Store}
    (h4 : st0.Sorted4) : AccWF (upsertInstanceWith s inst st0) where
  sorted := putStore_sortedAll (w := inst.warp) hw.sorted h4
  instSorted := sorted_insert _ _ hw.instSorted
  keys := by
    intro w
    rw [store?_upsertWith]
    show (find? w (SMap.insert inst.warp inst s.instances)).isSome = _
    rw [find?_insert]
    by_cases h : w = inst.warp
    · rw [if_pos h, if_pos h]; rfl
    · rw [if_neg h, if_neg h]; exact hw.keys w
  warpKey := by
    intro w i' h
    have h' : find? w (SMap.insert inst.warp inst s.instances) = some i' := h
    rw [find?_insert] at h'
    by_cases hc : w = inst.warp
    · rw [if_pos hc] at h'; cases h'; exact hc.symm
    · rw [if_neg hc] at h'; exact hw.warpKey w i' h'

theorem accwf_putStore {s : WState} (hw : AccWF s) {w : Nat} {st st' : Store}
    (hst : s.store? w = some st) (h4 : st'.Sorted4) : AccWF (s.putStore w st') where
  sorted := putStore_sortedAll hw.sorted h4
  instSorted := hw.instSorted
  keys := by
    intro w2
    rw [store?_putStore]
    by_cases h : w2 = w
    · subst h
      rw [if_pos rfl]
      show (find? w2 s.instances).isSome = _
      rw [hw.keys, hst]
      rfl
    · rw [if_neg h]; exact hw.keys w2
  warpKey := hw.warpKey

theorem applyOp_acc_upsertInstance {s s' : WState} {inst : Instance} (hw : AccWF s)
    (h : applyOp s (.upsertInstance inst) = .ok s') :
    (Acc.ofState s).applyOp (.upsertInstance inst) = some (Acc.ofState s') ∧ AccWF s' := by
  have T := tracks_ofState hw.sorted
  simp only [applyOp] at h
  cases hst : s.store? inst.warp with
  | some st =>
    rw [hst] at h
    cases h
    have h4 := hw.sorted.2 _ st hst
    have W := accwf_upsertWith hw inst h4
    refine ⟨?_, W⟩
    simp only [Acc.applyOp]
    congr 1
    apply acc_eq_ofState W.sorted
    refine ⟨rfl, T.sn, T.se, T.sna, T.sea, ?_, ?_, ?_, ?_⟩
    · intro w i
      rw [nodeAt_look, look_upsertWith _ _ _ _ (fun i => by simp only [lookAt, hst])]
      exact T.ln w i
    · intro w i
      rw [edgeAt_look, look_upsertWith _ _ _ _ (fun i => by simp only [lookAt, hst])]
      exact T.le w i
    · intro w i
      rw [nattAt_look, look_upsertWith _ _ _ _ (fun i => by simp only [lookAt, hst])]
      exact T.lna w i
    · intro w i
      rw [eattAt_look, look_upsertWith _ _ _ _ (fun i => by simp only [lookAt, hst])]
      exact T.lea w i
  | none =>
    rw [hst] at h
    cases h
    have h4 : Store.empty.Sorted4 := ⟨trivial, trivial, trivial, trivial⟩
    have W := accwf_upsertWith hw inst h4
    refine ⟨?_, W⟩
    simp only [Acc.applyOp]
    congr 1
    apply acc_eq_ofState W.sorted
    refine ⟨rfl, T.sn, T.se, T.sna, T.sea, ?_, ?_, ?_, ?_⟩
    · intro w i
      rw [nodeAt_look, look_upsertWith _ _ _ _ (fun i => by simp only [lookAt, hst]; rfl)]
      exact T.ln w i
    · intro w i
      rw [edgeAt_look, look_upsertWith _ _ _ _ (fun i => by simp only [lookAt, hst]; rfl)]
      exact T.le w i
    · intro w i
      rw [nattAt_look, look_upsertWith _ _ _ _ (fun i => by simp only [lookAt, hst]; rfl)]
      exact T.lna w i
    · intro w i
      rw [eattAt_look, look_upsertWith _ _ _ _ (fun i => by simp only [lookAt, hst]; rfl)]
      exact T.lea w i

theorem find?_filter_warp {ν : Type} {t : SMap NKey ν} (ht : Sorted t) (w0 w i : Nat) :
    find? (w, i) (t.filter (fun p => p.1.1 != w0)) = if w = w0 then none else find? (w, i) t := by
  have h := find?_filter_key (fun k : NKey => k.1 != w0) ht (w, i)
  simp only at h
  rw [h]
  by_cases hw : w = w0 <;> simp [hw]

theorem look_deleteInst {ν : Type} (f : Store → SMap Nat ν) {s : WState} (hs : Sorted s.stores)
    (w0 w i : Nat) :
    lookAt f { stores := SMap.erase w0 s.stores, instances := SMap.erase w0 s.instances } w i =
      if w = w0 then none else lookAt f s w i := by
  simp only [lookAt, WState.store?, find?_erase _ _ hs]
  by_cases hw : w = w0
  · rw [if_pos hw, if_pos hw]
  · rw [if_neg hw, if_neg hw]

theorem applyOp_acc_deleteInstance {s s' : WState} {w0 : Nat} (hw : AccWF s)
    (h : applyOp s (.deleteInstance w0) = .ok s') :
    (Acc.ofState s).applyOp (.deleteInstance w0) = some (Acc.ofState s') ∧ AccWF s' := by
  have T := tracks_ofState hw.sorted
  simp only [applyOp] at h
  cases hex : find? w0 s.instances with
  | none => rw [hex] at h; cases h
  | some ex =>
    rw [hex] at h
    cases h
    have hst : ∀ w, find? w (SMap.erase w0 s.stores) = if w = w0 then none else s.store? w := by
      intro w
      simp only [WState.store?, find?_erase _ _ hw.sorted.1]
    have W : AccWF { stores := SMap.erase w0 s.stores, instances := SMap.erase w0 s.instances } := by
      refine ⟨⟨sorted_erase _ hw.sorted.1, ?_⟩, sorted_erase _ hw.instSorted, ?_, ?_⟩
      · intro w st hf
        have hf' : find? w (SMap.erase w0 s.stores) = some st := hf
        rw [find?_erase _ _ hw.sorted.1] at hf'
        by_cases hc : w = w0
        · rw [if_pos hc] at hf'; cases hf'
        · rw [if_neg hc] at hf'; exact hw.sorted.2 w st hf'
      · intro w
        show (find? w (SMap.erase w0 s.instances)).isSome = (find? w (SMap.erase w0 s.stores)).isSome
        rw [hst]
        rw [find?_erase _ _ hw.instSorted]
        by_cases hc : w = w0
        · rw [if_pos hc, if_pos hc]; rfl
        · rw [if_neg hc, if_neg hc]; exact hw.keys w
      · intro w i' hf
        have hf' : find? w (SMap.erase w0 s.instances) = some i' := hf
        rw [find?_erase _ _ hw.instSorted] at hf'
        by_cases hc : w = w0
        · rw [if_pos hc] at hf'; cases hf'
        · rw [if_neg hc] at hf'; exact hw.warpKey w i' hf'
    refine ⟨?_, W⟩
    simp only [Acc.applyOp]
    congr 1
    apply acc_eq_ofState W.sorted
    refine ⟨rfl, sorted_filter _ T.sn, sorted_filter _ T.se, sorted_filter _ T.sna,
      sorted_filter _ T.sea, ?_, ?_, ?_, ?_⟩
    · intro w i
      show find? (w, i) ((Acc.ofState s).nodes.filter (fun p => p.1.1 != w0)) = _
      rw [find?_filter_warp T.sn, nodeAt_look, look_deleteInst _ hw.sorted.1, T.ln]; rfl
    · intro w i
      show find? (w, i) ((Acc.ofState s).edges.filter (fun p => p.1.1 != w0)) = _
      rw [find?_filter_warp T.se, edgeAt_look, look_deleteInst _ hw.sorted.1, T.le]; rfl
    · intro w i
      show find? (w, i) ((Acc.ofState s).nodeAtt.filter (fun p => p.1.1 != w0)) = _
      rw [find?_filter_warp T.sna, nattAt_look, look_deleteInst _ hw.sorted.1, T.lna]; rfl
    · intro w i
      show find? (w, i) ((Acc.ofState s).edgeAtt.filter (fun p => p.1.1 != w0)) = _
      rw [find?_filter_warp T.sea, eattAt_look, look_deleteInst _ hw.sorted.1, T.lea]; rfl

/-! ### `OpenPortal` -/

/-- the attachment owner is present (in store terms) -/
def ownerLook (s : WState) (key : AttKey) : Bool :=
  match key.owner with
  | .node w i => (nodeAt s w i).isSome
  | .edge w i => (edgeAt s w i).isSome

theorem validateOwner_ok {s : WState} {key : AttKey} {pw : Nat}
    (h : validateOwnerExists s key = .ok pw) :
    key.planeValid = true ∧ pw = ownerWarp key.owner ∧ ownerLook s key = true := by
  unfold validateOwnerExists at h
  cases hp : key.planeValid with
  | false => simp [hp] at h
  | true =>
    simp only [hp, Bool.not_true, Bool.false_eq_true, if_false] at h
    refine ⟨rfl, ?_⟩
    obtain ⟨owner, plane⟩ := key
    cases owner with
    | node w i =>
      simp only at h
      cases hst : s.store? w with
      | none => rw [hst] at h; cases h
      | some st =>
        rw [hst] at h
        simp only at h
        cases hf : find? i st.nodes with
        | none => rw [hf] at h; cases h
        | some ty =>
          rw [hf] at h
          cases h
          refine ⟨rfl, ?_⟩
          simp only [ownerLook, nodeAt, hst, hf]
          rfl
    | edge w i =>
      simp only at h
      cases hst : s.store? w with
      | none => rw [hst] at h; cases h
      | some st =>
        rw [hst] at h
        simp only at h
        cases hf : find? i st.edges with
        | none => rw [hf] at h; cases h
        | some ty =>
          rw [hf] at h
          cases h
          refine ⟨rfl, ?_⟩
          simp only [ownerLook, edgeAt, hst, hf]
          rfl

theorem ownerExists_ofState {s : WState} (hs : s.SortedAll) (key : AttKey) :
    (Acc.ofState s).ownerExists key = ownerLook s key := by
  have T := tracks_ofState hs
  unfold Acc.ownerExists ownerLook
  cases key.owner with
  | node w i => simp only [T.ln]
  | edge w i => simp only [T.le]

/-- with the owner present, `set_portal_slot` is a `SetAttachment` of the `Descend` value -/
theorem setPortalSlot_setAtt {s1 s' : WState} {key : AttKey} {cw : Nat}
    (hp : key.planeValid = true) (hl : ownerLook s1 key = true)
    (h : setPortalSlot s1 (ownerWarp key.owner) key cw = .ok s') :
    applyOp s1 (.setAtt key (some (.descend cw))) = .ok s' := by
  obtain ⟨owner, plane⟩ := key
  simp only [applyOp, applySetAtt, hp, Bool.not_true, Bool.false_eq_true, if_false]
  unfold setPortalSlot at h
  cases owner with
  | node w i =>
    simp only [ownerWarp] at h ⊢
    simp only [ownerLook, nodeAt] at hl
    cases hst : s1.store? w with
    | none => rw [hst] at h; cases h
    | some st =>
      rw [hst] at h hl
      simp only at h hl ⊢
      cases hf : find? i st.nodes with
      | none => rw [hf] at hl; cases hl
      | some ty => exact h
  | edge w i =>
    simp only [ownerWarp] at h ⊢
    simp only [ownerLook, edgeAt] at hl
    cases hst : s1.store? w with
    | none => rw [hst] at h; cases h
    | some st =>
      rw [hst] at h hl
      simp only at h hl ⊢
      cases hf : find? i st.edges with
      | none => rw [hf] at hl; cases hl
      | some ty => exact h

theorem ensure_require {s s1 : WState} {cw cr : Nat}
    (h : ensureChildRoot s cw cr .requireExisting = .ok s1) :
    s1 = s ∧ (nodeAt s cw cr).isSome = true := by
  unfold ensureChildRoot at h
  cases hst : s.store? cw with
  | none => rw [hst] at h; cases h
  | some st =>
    rw [hst] at h
    simp only at h
    cases hf : find? cr st.nodes with
    | none => rw [hf] at h; cases h
    | some ty =>
      rw [hf] at h
      cases h
      refine ⟨rfl, ?_⟩
      simp only [nodeAt, hst, hf]
      rfl

/-- what the state looks like between "child instance / child root ensured" and "slot written",
    for `PortalInit::Empty` — both when the instance existed and when it is created -/
structure MidEmpty (s s1 : WState) (key : AttKey) (cw cr rootTy : Nat) : Prop where
  wf : AccWF s1
  inst : s1.instances = SMap.insert cw { warp := cw, root := cr, parent := some key } s.instances
  ln : ∀ w i, nodeAt s1 w i = if ((w, i) : NKey) = (cw, cr) then some rootTy else nodeAt s w i
  le : ∀ w i, edgeAt s1 w i = edgeAt s w i
  lna : ∀ w i, nattAt s1 w i = nattAt s w i
  lea : ∀ w i, eattAt s1 w i = eattAt s w i

theorem nkey_ne_of_warp {w cw i cr : Nat} (h : w ≠ cw) : ¬ ((w, i) : NKey) = (cw, cr) := by
  intro e
  simp only [Prod.mk.injEq] at e
  exact h e.1

theorem mid_existing {s s1 : WState} {key : AttKey} {cw cr rootTy : Nat} {ex : Instance}
    (hw : AccWF s) (hex : find? cw s.instances = some ex) (hpar : ex.parent = some key)
    (hroot : ex.root = cr) (h : ensureChildRoot s cw cr (.empty rootTy) = .ok s1) :
    MidEmpty s s1 key cw cr rootTy := by
  have hexw := hw.warpKey cw ex hex
  have hinst : s.instances =
      SMap.insert cw { warp := cw, root := cr, parent := some key } s.instances := by
    symm
    apply insert_same hw.instSorted
    rw [hex]
    obtain ⟨a, b, c⟩ := ex
    simp only at hexw hpar hroot
    subst hexw hpar hroot
    rfl
  unfold ensureChildRoot at h
  cases hst : s.store? cw with
  | none => rw [hst] at h; cases h
  | some st =>
    rw [hst] at h
    simp only at h
    have h4 := hw.sorted.2 cw st hst
    cases hf : find? cr st.nodes with
    | none =>
      rw [hf] at h
      cases h
      refine ⟨accwf_putStore hw hst ⟨sorted_insert _ _ h4.1, h4.2.1, h4.2.2.1, h4.2.2.2⟩,
        hinst, ?_, ?_, ?_, ?_⟩
      · intro w i
        simp only [nodeAt, store?_putStore]
        by_cases hc : w = cw
        · subst hc
          rw [if_pos rfl]
          simp only [hst, find?_insert, Prod.mk.injEq, true_and]
        · rw [if_neg hc, if_neg (nkey_ne_of_warp hc)]
      · intro w i
        simp only [edgeAt, store?_putStore]
        by_cases hc : w = cw
        · subst hc; rw [if_pos rfl]; simp only [hst]
        · rw [if_neg hc]
      · intro w i
        simp only [nattAt, store?_putStore]
        by_cases hc : w = cw
        · subst hc; rw [if_pos rfl]; simp only [hst]
        · rw [if_neg hc]
      · intro w i
        simp only [eattAt, store?_putStore]
        by_cases hc : w = cw
        · subst hc; rw [if_pos rfl]; simp only [hst]
        · rw [if_neg hc]
    | some ty =>
      rw [hf] at h
      simp only at h
      by_cases hty : ty = rootTy
      · rw [if_pos hty] at h
        cases h
        refine ⟨hw, hinst, ?_, fun _ _ => rfl, fun _ _ => rfl, fun _ _ => rfl⟩
        intro w i
        by_cases hc : ((w, i) : NKey) = (cw, cr)
        · rw [if_pos hc]
          simp only [Prod.mk.injEq] at hc
          obtain ⟨rfl, rfl⟩ := hc
          simp only [nodeAt, hst, hf, hty]
        · rw [if_neg hc]
      · rw [if_neg hty] at h
        cases h

theorem mid_new {s : WState} {key : AttKey} {cw cr rootTy : Nat}
    (hw : AccWF s) (hex : find? cw s.instances = none) :
    MidEmpty s (upsertInstanceWith s { warp := cw, root := cr, parent := some key }
      { Store.empty with nodes := [(cr, rootTy)] }) key cw cr rootTy := by
  have hst : s.store? cw = none := by
    have := hw.keys cw
    rw [hex] at this
    cases h : s.store? cw with
    | none => rfl
    | some st => rw [h] at this; cases this
  have h4 : Store.Sorted4 { Store.empty with nodes := [(cr, rootTy)] } :=
    ⟨⟨trivial, trivial⟩, trivial, trivial, trivial⟩
  refine ⟨accwf_upsertWith hw _ h4, rfl, ?_, ?_, ?_, ?_⟩
  · intro w i
    simp only [nodeAt, store?_upsertWith]
    by_cases hc : w = cw
    · subst hc
      rw [if_pos rfl]
      simp only [hst, Prod.mk.injEq, true_and]
      show find? i [(cr, rootTy)] = _
      by_cases hi : i = cr
      · subst hi; rw [if_pos rfl]; exact find?_head
      · rw [if_neg hi]
        simp only [find?, if_neg hi]
        split <;> rfl
    · rw [if_neg hc, if_neg (nkey_ne_of_warp hc)]
  · intro w i
    rw [edgeAt_look, look_upsertWith _ _ _ _ (fun i => by simp only [lookAt, hst]; rfl)]; rfl
  · intro w i
    rw [nattAt_look, look_upsertWith _ _ _ _ (fun i => by simp only [lookAt, hst]; rfl)]; rfl
  · intro w i
    rw [eattAt_look, look_upsertWith _ _ _ _ (fun i => by simp only [lookAt, hst]; rfl)]; rfl

/-- the accumulator's two inserts of the `Empty` branch give the accumulator of the mid state -/
theorem mid_acc {s s1 : WState} {key : AttKey} {cw cr rootTy : Nat} (hw : AccWF s)
    (M : MidEmpty s s1 key cw cr rootTy) :
    ({ Acc.ofState s with
        instances := SMap.insert cw { warp := cw, root := cr, parent := some key }
          (Acc.ofState s).instances,
        nodes := SMap.insert (cw, cr) rootTy (Acc.ofState s).nodes } : Acc) = Acc.ofState s1 := by
  have T := tracks_ofState hw.sorted
  apply acc_eq_ofState M.wf.sorted
  refine ⟨M.inst.symm, sorted_insert _ _ T.sn, T.se, T.sna, T.sea, ?_, ?_, ?_, ?_⟩
  · intro w i
    show find? (w, i) (SMap.insert (cw, cr) rootTy (Acc.ofState s).nodes) = _
    rw [find?_insert, M.ln, T.ln]
  · intro w i; rw [M.le]; exact T.le w i
  · intro w i; rw [M.lna]; exact T.lna w i
  · intro w i; rw [M.lea]; exact T.lea w i

theorem mid_ownerLook {s s1 : WState} {key : AttKey} {cw cr rootTy : Nat}
    (M : MidEmpty s s1 key cw cr rootTy) {k : AttKey} (hl : ownerLook s k = true) :
    ownerLook s1 k = true := by
  obtain ⟨owner, plane⟩ := k
  cases owner with
  | node w i =>
    simp only [ownerLook] at hl ⊢
    rw [M.ln]
    split
    · rfl
    · exact hl
  | edge w i =>
    simp only [ownerLook] at hl ⊢
    rw [M.le]; exact hl

theorem applyOp_acc_openPortal {s s' : WState} {key : AttKey} {cw cr : Nat} {init : PortalInit}
    (hw : AccWF s) (h : applyOp s (.openPortal key cw cr init) = .ok s') :
    (Acc.ofState s).applyOp (.openPortal key cw cr init) = some (Acc.ofState s') ∧ AccWF s' := by
  simp only [applyOp, applyOpenPortal] at h
  cases hv : validateOwnerExists s key with
  | error e => rw [hv] at h; cases h
  | ok pw =>
    rw [hv] at h
    simp only at h
    obtain ⟨hp, hpw, hl⟩ := validateOwner_ok hv
    subst hpw
    have hoe : (Acc.ofState s).ownerExists key = true := by
      rw [ownerExists_ofState hw.sorted]; exact hl
    have hinstEq : (Acc.ofState s).instances = s.instances := rfl
    -- common tail: mid state `s1` tracked by `a1`, then the slot write
    have tail : ∀ (s1 : WState) (a1 : Acc), a1 = Acc.ofState s1 → AccWF s1 →
        ownerLook s1 key = true → setPortalSlot s1 (ownerWarp key.owner) key cw = .ok s' →
        a1.setAttInternal key (some (.descend cw)) = Acc.ofState s' ∧ AccWF s' := by
      intro s1 a1 ha1 hw1 hl1 hset
      have hset' := setPortalSlot_setAtt hp hl1 hset
      obtain ⟨r1, r2⟩ := applyOp_acc_skel hw1 rfl hset'
      simp only [Acc.applyOp, Option.some.injEq] at r1
      rw [ha1]
      exact ⟨r1, r2⟩
    cases hex : find? cw s.instances with
    | some ex =>
      rw [hex] at h
      simp only at h
      by_cases hpar : ex.parent = some key
      · by_cases hroot : ex.root = cr
        · have hc : (ex.parent ≠ some key || ex.root ≠ cr) = false := by simp [hpar, hroot]
          rw [hc] at h
          simp only [Bool.false_eq_true, if_false] at h
          cases he : ensureChildRoot s cw cr init with
          | error e => rw [he] at h; cases h
          | ok s1 =>
            rw [he] at h
            simp only at h
            cases init with
            | empty rootTy =>
              have M := mid_existing hw hex hpar hroot he
              obtain ⟨r1, r2⟩ := tail s1 _ (mid_acc hw M) M.wf (mid_ownerLook M hl) h
              refine ⟨?_, r2⟩
              simp only [Acc.applyOp, hoe, Bool.not_true, Bool.false_eq_true, if_false]
              exact congrArg some r1
            | requireExisting =>
              obtain ⟨e1, hn⟩ := ensure_require he
              subst e1
              obtain ⟨r1, r2⟩ := tail s1 _ rfl hw hl h
              refine ⟨?_, r2⟩
              have T := tracks_ofState hw.sorted
              have hnn : (find? (cw, cr) (Acc.ofState s1).nodes).isNone = false := by
                rw [T.ln]
                cases hx : nodeAt s1 cw cr with
                | none => rw [hx] at hn; cases hn
                | some _ => rfl
              simp only [Acc.applyOp, hoe, Bool.not_true, Bool.false_eq_true, if_false, hinstEq,
                hex, hpar, hroot, ne_eq, not_true_eq_false, hnn]
              exact congrArg some r1
        · have hc : (ex.parent ≠ some key || ex.root ≠ cr) = true := by simp [hroot]
          rw [hc] at h
          cases h
      · have hc : (ex.parent ≠ some key || ex.root ≠ cr) = true := by simp [hpar]
        rw [hc] at h
        cases h
    | none =>
      rw [hex] at h
      simp only at h
      cases init with
      | requireExisting => cases h
      | empty rootTy =>
        simp only at h
        have M := mid_new (key := key) (cr := cr) (rootTy := rootTy) hw hex
        obtain ⟨r1, r2⟩ := tail _ _ (mid_acc hw M) M.wf (mid_ownerLook M hl) h
        refine ⟨?_, r2⟩
        simp only [Acc.applyOp, hoe, Bool.not_true, Bool.false_eq_true, if_false]
        exact congrArg some r1

/-! ### every op, op lists, and the byte stream -/

/-- **applyOp_acc.** Every op the store accepts is accepted by the accumulator (no `assert!` /
    `panic!`), and the accumulator built from the pre-state becomes the accumulator built from the
    post-state; `AccWF` is kept. -/
theorem applyOp_acc {s s' : WState} {o : Op} (hw : AccWF s) (h : applyOp s o = .ok s') :
    (Acc.ofState s).applyOp o = some (Acc.ofState s') ∧ AccWF s' := by
  cases o with
  | openPortal key cw cr init => exact applyOp_acc_openPortal hw h
  | upsertInstance inst => exact applyOp_acc_upsertInstance hw h
  | deleteInstance w => exact applyOp_acc_deleteInstance hw h
  | upsertNode w i ty => exact applyOp_acc_skel hw rfl h
  | deleteNode w i => exact applyOp_acc_skel hw rfl h
  | upsertEdge w id src dst ty => exact applyOp_acc_skel hw rfl h
  | deleteEdge w src id => exact applyOp_acc_skel hw rfl h
  | setAtt key v => exact applyOp_acc_skel hw rfl h

theorem applyLoop_acc : ∀ (ops : List Op) {s s' : WState} {t t' : Bool}, AccWF s →
    applyLoop s t ops = .ok (s', t') →
    (Acc.ofState s).applyOps ops = some (Acc.ofState s') ∧ AccWF s'
  | [], s, s', t, t', hw, h => by
    simp only [applyLoop] at h
    cases h
    exact ⟨rfl, hw⟩
  | o :: rest, s, s', t, t', hw, h => by
    simp only [applyLoop] at h
    cases ha : applyOp s o with
    | error e => rw [ha] at h; cases h
    | ok s1 =>
      rw [ha] at h
      simp only at h
      obtain ⟨r1, w1⟩ := applyOp_acc hw ha
      obtain ⟨r2, w2⟩ := applyLoop_acc rest w1 h
      refine ⟨?_, w2⟩
      simp only [Acc.applyOps, r1]
      exact r2

/-- **applyOps_acc.** The same along `apply_ops_to_state` (the final portal validation only
    rejects; it does not change the state). -/
theorem applyOps_acc {s s' : WState} {ops : List Op} (hw : AccWF s) (h : applyOps s ops = .ok s') :
    (Acc.ofState s).applyOps ops = some (Acc.ofState s') ∧ AccWF s' := by
  obtain ⟨t, hl⟩ := applyOps_loop h
  exact applyLoop_acc ops hw hl

/-- **accum_agrees_ops.** After every op list the store accepts, the accumulator that interpreted
    the ops itself hashes byte for byte what the store path hashes on the post-state. -/
theorem accum_agrees_ops {s s' : WState} {ops : List Op} (hw : AccWF s)
    (h : applyOps s ops = .ok s') (r : NKey) :
    ∃ a', (Acc.ofState s).applyOps ops = some a' ∧ accBytesOf a' r = rootBytes s' r := by
  obtain ⟨r1, w1⟩ := applyOps_acc hw h
  refine ⟨_, r1, ?_⟩
  unfold accBytesOf rootBytes
  rw [accContent_ofState w1.sorted (fun w hi => by rw [← w1.keys]; exact hi) r]
  have e1 : accumTags = storeTags := by decide
  have e2 : Generated.RootTags.accumHasDomain = Generated.RootTags.storeHasDomain := by decide
  rw [e1, e2]

/-- static corollary: on an `AccWF` state the two streams agree (empty op list) -/
theorem accum_agrees_static {s : WState} (hw : AccWF s) (r : NKey) :
    accumBytes s r = rootBytes s r := by
  obtain ⟨a', h1, h2⟩ := accum_agrees_ops (ops := []) hw rfl r
  cases h1
  exact h2

/-! ### non-vacuity -/

/-- a two-instance state: warp 1 (root 10, node 11, edge 5 : 10→11 carrying a β portal into
    warp 2) and warp 2 (root 20) -/
def exState : WState :=
  { stores := [(1, { nodes := [(10, 7), (11, 7)], edges := [(5, { src := 10, dst := 11, ty := 3 })],
                     nodeAtt := [(10, .atom 1 [2])], edgeAtt := [(5, .descend 2)] }),
               (2, { nodes := [(20, 9)], edges := [], nodeAtt := [], edgeAtt := [] })],
    instances := [(1, { warp := 1, root := 10, parent := none }),
                  (2, { warp := 2, root := 20, parent := some (AttKey.edgeBeta 1 5) })] }

theorem exState_accwf : AccWF exState := by
  refine ⟨⟨sorted_of_pairwise (by decide), ?_⟩, sorted_of_pairwise (by decide), ?_, ?_⟩
  · intro w st h
    have hm := find?_mem h
    simp only [exState, List.mem_cons, Prod.mk.injEq, List.mem_nil_iff, or_false] at hm
    rcases hm with ⟨_, rfl⟩ | ⟨_, rfl⟩ <;>
      exact ⟨sorted_of_pairwise (by decide), sorted_of_pairwise (by decide),
        sorted_of_pairwise (by decide), sorted_of_pairwise (by decide)⟩
  · intro w
    by_cases h1 : w = 1
    · subst h1; decide
    · by_cases h2 : w = 2
      · subst h2; decide
      · have a : find? w exState.instances = none := by
          apply find?_none_of_not_mem
          intro v hv
          simp only [exState, List.mem_cons, Prod.mk.injEq, List.mem_nil_iff, or_false] at hv
          rcases hv with ⟨e, _⟩ | ⟨e, _⟩
          · exact h1 e
          · exact h2 e
        have b : exState.store? w = none := by
          apply find?_none_of_not_mem
          intro v hv
          simp only [exState, List.mem_cons, Prod.mk.injEq, List.mem_nil_iff, or_false] at hv
          rcases hv with ⟨e, _⟩ | ⟨e, _⟩
          · exact h1 e
          · exact h2 e
        rw [a, b]; rfl
  · intro w inst h
    have hm := find?_mem h
    simp only [exState, List.mem_cons, Prod.mk.injEq, List.mem_nil_iff, or_false] at hm
    rcases hm with ⟨rfl, rfl⟩ | ⟨rfl, rfl⟩ <;> rfl

example : AccWF exState := exState_accwf

def okB {α : Type} : Except Err α → Bool
  | .ok _ => true
  | .error _ => false

theorem okB_ex {α : Type} {x : Except Err α} (h : okB x = true) : ∃ a, x = .ok a := by
  cases x with
  | ok a => exact ⟨a, rfl⟩
  | error e => cases h

/-- the hypotheses of `accum_agrees_ops` are satisfiable with an op list that opens a new portal,
    deletes an edge that carries a portal's sibling, and drops an instance -/
example : ∃ s', applyOps exState
    [.upsertNode 2 21 4, .upsertEdge 2 6 20 21 3,
     .openPortal (AttKey.nodeAlpha 2 21) 3 30 (.empty 8)] = .ok s' := okB_ex (by decide)

end Root
end EchoVerif
