/-
  C01 (Radix path): payload hand-out of `PendingTx::drain_in_order`.
  The queue `(thin, fat)` of `RadixScheduler` refines a last-wins map keyed by `(scope, rule)`:
  every thin entry's handle points at the payload the map holds for its key, handles are pairwise
  distinct and in range.  Hence draining — whichever of the two sorts runs — returns exactly the
  map's values in ascending key order, i.e. the radix scheduler drains the same list as the legacy
  scheduler's `BTreeMap::into_values`.
-/
import EchoVerif.Props.C03
import EchoVerif.Lemmas.TickOrder

set_option linter.unusedSimpArgs false
set_option linter.unusedVariables false

namespace EchoVerif.Sched
open EchoVerif EchoVerif.Generated SMap

/-! ### generic: the sort of `drain_in_order` on any queue satisfying the invariant -/

theorem sortThin_canonical {P : Type} (q : PendingTx P) (hq : QInv q) :
    ∃ sorted, sortThin sortCfg q.thin = some sorted
      ∧ sorted.Perm q.thin
      ∧ sorted.Pairwise (fun a b => a.scope < b.scope ∨ (a.scope = b.scope ∧ a.rule < b.rule)) := by
  have hd := qinv_K_distinct hq
  have hb := hq.bounded
  have hkeys := List.pairwise_map.1 hq.distinct
  have fin : ∀ sorted : List Thin, sorted.Perm q.thin →
      sorted.Pairwise (fun a b => K a < K b) →
      sorted.Pairwise (fun a b => a.scope < b.scope ∨ (a.scope = b.scope ∧ a.rule < b.rule)) := by
    intro sorted hp hs
    have hk' : sorted.Pairwise (fun a b => a.key ≠ b.key) :=
      (hp.pairwise_iff (fun h => fun e => h e.symm)).2 hkeys
    refine List.Pairwise.imp_of_mem ?_ (pairwise_and hs hk')
    intro a b ha hb' ⟨hlt, hne⟩
    have := (K_lt_iff (hb a (hp.mem_iff.1 ha)) (hb b (hp.mem_iff.1 hb'))).1 hlt
    rcases this with h | ⟨h1, h | ⟨h2, _⟩⟩
    · exact Or.inl h
    · exact Or.inr ⟨h1, h⟩
    · exact absurd (by unfold Thin.key; rw [h1, h2]) hne
  unfold sortThin
  split
  · split
    · obtain ⟨h1, h2⟩ := smallSort_sorted q.thin hb
      have horder : sortCfg.order = [.scope, .rule, .nonce] := C03.layout_facts.2.2
      rw [horder]
      have hd' := (h1.pairwise_iff (fun h => fun e => h e.symm)).2 hd
      have hs := (pairwise_and h2 hd').imp (fun ⟨h, hne⟩ => Nat.lt_of_le_of_ne h hne)
      exact ⟨_, rfl, h1, fin _ h1 hs⟩
    · obtain ⟨l', h1, h2, h3, _⟩ := C03.radix_eq_lex q.thin hb hd
      exact ⟨l', h1, h2, fin _ h2 h3⟩
  · rename_i hlen
    refine ⟨_, rfl, List.Perm.refl _, ?_⟩
    match h : q.thin with
    | [] => exact List.Pairwise.nil
    | [x] => exact List.pairwise_singleton _ _
    | _ :: _ :: _ => rw [h] at hlen; simp at hlen

/-! ### `refresh` facts -/

theorem refresh_handles {scope rule n : Nat} : ∀ {l l' : List Thin} {h : Nat},
    refresh scope rule n l = some (h, l') → l'.map Thin.handle = l.map Thin.handle
  | [], _, _, hh => by cases hh
  | x :: xs, l', h, hh => by
    unfold refresh at hh
    split at hh
    · injection hh with hh; injection hh with _ h2; subst h2; rfl
    · cases hr : refresh scope rule n xs with
      | none => rw [hr] at hh; cases hh
      | some v =>
        obtain ⟨h', xs'⟩ := v
        rw [hr] at hh
        injection hh with hh; injection hh with _ h2; subst h2
        simp only [List.map_cons, refresh_handles hr]

/-- the refreshed entry exists in the old list, has the key and the returned handle -/
theorem refresh_hit {scope rule n : Nat} : ∀ {l l' : List Thin} {h : Nat},
    refresh scope rule n l = some (h, l') → ∃ t ∈ l, t.key = (scope, rule) ∧ t.handle = h
  | [], _, _, hh => by cases hh
  | x :: xs, l', h, hh => by
    unfold refresh at hh
    split at hh
    · rename_i hx
      injection hh with hh; injection hh with h1 _
      exact ⟨x, List.mem_cons_self, by unfold Thin.key; rw [hx.1, hx.2], h1⟩
    · cases hr : refresh scope rule n xs with
      | none => rw [hr] at hh; cases hh
      | some v =>
        obtain ⟨h', xs'⟩ := v
        rw [hr] at hh
        injection hh with hh; injection hh with h1 _
        obtain ⟨t, ht, hk, hh'⟩ := refresh_hit hr
        exact ⟨t, List.mem_cons_of_mem _ ht, hk, hh'.trans h1⟩

/-- every entry of the refreshed list has a twin (same key, same handle) in the old list -/
theorem refresh_mem {scope rule n : Nat} : ∀ {l l' : List Thin} {h : Nat},
    refresh scope rule n l = some (h, l') →
      ∀ t' ∈ l', ∃ t ∈ l, t.key = t'.key ∧ t.handle = t'.handle
  | [], _, _, hh => by cases hh
  | x :: xs, l', h, hh => by
    unfold refresh at hh
    split at hh
    · injection hh with hh; injection hh with _ h2; subst h2
      intro t' ht'
      rcases List.mem_cons.1 ht' with e | ht'
      · subst e; exact ⟨x, List.mem_cons_self, rfl, rfl⟩
      · exact ⟨t', List.mem_cons_of_mem _ ht', rfl, rfl⟩
    · cases hr : refresh scope rule n xs with
      | none => rw [hr] at hh; cases hh
      | some v =>
        obtain ⟨h', xs'⟩ := v
        rw [hr] at hh
        injection hh with hh; injection hh with _ h2; subst h2
        intro t' ht'
        rcases List.mem_cons.1 ht' with e | ht'
        · subst e; exact ⟨t', List.mem_cons_self, rfl, rfl⟩
        · obtain ⟨t, ht, hk⟩ := refresh_mem hr t' ht'
          exact ⟨t, List.mem_cons_of_mem _ ht, hk⟩

theorem eq_of_map_pairwise_ne {α β : Type} (f : α → β) : ∀ {l : List α},
    (l.map f).Pairwise (· ≠ ·) → ∀ a ∈ l, ∀ b ∈ l, f a = f b → a = b
  | [], _, a, ha, _, _, _ => by cases ha
  | x :: xs, hp, a, ha, b, hb, e => by
    rw [List.map_cons, List.pairwise_cons] at hp
    rcases List.mem_cons.1 ha with rfl | ha' <;> rcases List.mem_cons.1 hb with rfl | hb'
    · rfl
    · exact absurd e (hp.1 _ (List.mem_map_of_mem hb'))
    · exact absurd e.symm (hp.1 _ (List.mem_map_of_mem ha'))
    · exact eq_of_map_pairwise_ne f hp.2 a ha' b hb' e

/-! ### the payload invariant -/

/-- `(thin, fat)` refines the last-wins map `m` keyed by `(scope, rule)`. -/
structure QPay {P : Type} (q : PendingTx P) (m : SMap (Nat × Nat) P) : Prop where
  inv : QInv q
  sorted : Sorted m
  inRange : ∀ t ∈ q.thin, t.handle < q.fat.size
  hdist : (q.thin.map Thin.handle).Pairwise (· ≠ ·)
  pay : ∀ t ∈ q.thin, ∃ p, q.fat[t.handle]? = some (some p) ∧ find? t.key m = some p
  dom : ∀ k, find? k m ≠ none → k ∈ q.thin.map Thin.key

theorem qpay_empty {P : Type} : QPay ({} : PendingTx P) ([] : SMap (Nat × Nat) P) :=
  ⟨qinv_empty, trivial, fun t ht => absurd ht List.not_mem_nil, List.Pairwise.nil,
   fun t ht => absurd ht List.not_mem_nil, fun k h => absurd rfl h⟩

theorem enqueue_pay {P : Type} (q : PendingTx P) (m : SMap (Nat × Nat) P) (scope rule : Nat) (p : P)
    (hs : scope < 2 ^ 256) (hr : rule < 4294967296) (h : QPay q m) :
    QPay (q.enqueue scope rule p) (SMap.insert (scope, rule) p m) := by
  have hinv := enqueue_inv q scope rule p hs hr h.inv
  cases hf : refresh scope rule q.nextNonce q.thin with
  | some v =>
    obtain ⟨hd, thin'⟩ := v
    have hq : q.enqueue scope rule p =
        { nextNonce := (q.nextNonce + 1) % 4294967296, thin := thin',
          fat := q.fat.setIfInBounds hd (some p) } := by
      simp only [PendingTx.enqueue, hf]
    rw [hq] at hinv ⊢
    obtain ⟨t0, ht0, hk0, hh0⟩ := refresh_hit hf
    have hkeysd := List.pairwise_map.1 h.inv.distinct
    refine ⟨hinv, sorted_insert _ _ h.sorted, ?_, ?_, ?_, ?_⟩
    · intro t' ht'
      obtain ⟨t, ht, _, hh⟩ := refresh_mem hf t' ht'
      show t'.handle < (q.fat.setIfInBounds hd (some p)).size
      rw [Array.size_setIfInBounds, ← hh]; exact h.inRange t ht
    · show (thin'.map Thin.handle).Pairwise (· ≠ ·)
      rw [refresh_handles hf]; exact h.hdist
    · intro t' ht'
      obtain ⟨t, ht, hk, hh⟩ := refresh_mem hf t' ht'
      show ∃ p', (q.fat.setIfInBounds hd (some p))[t'.handle]? = some (some p') ∧
        find? t'.key (SMap.insert (scope, rule) p m) = some p'
      by_cases hkey : t'.key = (scope, rule)
      · -- the refreshed key: its handle is `hd`
        have ht0t : t0 = t := by
          apply eq_of_map_pairwise_ne Thin.key h.inv.distinct t0 ht0 t ht
          rw [hk0, hk, hkey]
        have hhd : t'.handle = hd := by rw [← hh, ← ht0t, hh0]
        refine ⟨p, ?_, ?_⟩
        · rw [hhd]
          apply Array.getElem?_setIfInBounds_self_of_lt
          rw [← hh0]; exact h.inRange t0 ht0
        · rw [hkey]; exact find?_insert_self _ _ _
      · -- another key: another handle
        have hne : hd ≠ t'.handle := by
          intro e
          have : t0 = t := eq_of_map_pairwise_ne Thin.handle h.hdist t0 ht0 t ht (by rw [hh0, hh, e])
          apply hkey; rw [← hk, ← this, hk0]
        obtain ⟨p', hp1, hp2⟩ := h.pay t ht
        refine ⟨p', ?_, ?_⟩
        · rw [Array.getElem?_setIfInBounds_ne hne, ← hh]; exact hp1
        · rw [find?_insert_ne p hkey m, ← hk]; exact hp2
    · intro k hk
      show k ∈ thin'.map Thin.key
      rw [refresh_keys hf]
      by_cases hkey : k = (scope, rule)
      · subst hkey; rw [← hk0]; exact List.mem_map_of_mem ht0
      · rw [find?_insert_ne p hkey m] at hk
        exact h.dom k hk
  | none =>
    have hq : q.enqueue scope rule p =
        { nextNonce := (q.nextNonce + 1) % 4294967296,
          thin := q.thin ++ [(⟨scope, rule, q.nextNonce, q.fat.size⟩ : Thin)],
          fat := q.fat.push (some p) } := by
      simp only [PendingTx.enqueue, hf]
    rw [hq] at hinv ⊢
    have hfresh := refresh_none hf
    refine ⟨hinv, sorted_insert _ _ h.sorted, ?_, ?_, ?_, ?_⟩
    · intro t ht
      show t.handle < (q.fat.push (some p)).size
      rw [Array.size_push]
      rcases List.mem_append.1 ht with ht | ht
      · exact Nat.lt_succ_of_lt (h.inRange t ht)
      · simp at ht; subst ht; exact Nat.lt_succ_self _
    · show ((q.thin ++ [(⟨scope, rule, q.nextNonce, q.fat.size⟩ : Thin)]).map Thin.handle).Pairwise (· ≠ ·)
      rw [List.map_append, List.pairwise_append]
      refine ⟨h.hdist, by simp, ?_⟩
      intro a ha b hb
      simp at hb; subst hb
      obtain ⟨t, ht, rfl⟩ := List.mem_map.1 ha
      exact Nat.ne_of_lt (h.inRange t ht)
    · intro t ht
      show ∃ p', (q.fat.push (some p))[t.handle]? = some (some p') ∧
        find? t.key (SMap.insert (scope, rule) p m) = some p'
      rcases List.mem_append.1 ht with ht | ht
      · obtain ⟨p', hp1, hp2⟩ := h.pay t ht
        refine ⟨p', ?_, ?_⟩
        · rw [Array.getElem?_push_lt (h.inRange t ht)]
          rw [Array.getElem?_eq_getElem (h.inRange t ht)] at hp1; exact hp1
        · rw [find?_insert_ne p (hfresh t ht) m]; exact hp2
      · simp at ht; subst ht
        refine ⟨p, ?_, ?_⟩
        · show (q.fat.push (some p))[q.fat.size]? = some (some p)
          exact Array.getElem?_push_size
        · show find? (scope, rule) (SMap.insert (scope, rule) p m) = some p
          exact find?_insert_self _ _ _
    · intro k hk
      show k ∈ (q.thin ++ [(⟨scope, rule, q.nextNonce, q.fat.size⟩ : Thin)]).map Thin.key
      rw [List.map_append, List.mem_append]
      by_cases hkey : k = (scope, rule)
      · subst hkey; right; simp [Thin.key]
      · rw [find?_insert_ne p hkey m] at hk
        exact Or.inl (h.dom k hk)

/-! ### payload hand-out -/

theorem takeAll_map {P : Type} (f : Thin → P) : ∀ (l : List Thin) (fat : Array (Option P)),
    (l.map Thin.handle).Pairwise (· ≠ ·) →
    (∀ t ∈ l, fat[t.handle]? = some (some (f t))) →
    takeAll l fat = some (l.map f)
  | [], _, _, _ => rfl
  | r :: rs, fat, hd, hp => by
    rw [List.map_cons, List.pairwise_cons] at hd
    have hr := hp r List.mem_cons_self
    have ih := takeAll_map f rs (fat.setIfInBounds r.handle none) hd.2 (by
      intro t ht
      have hne : r.handle ≠ t.handle := hd.1 _ (List.mem_map_of_mem ht)
      rw [Array.getElem?_setIfInBounds_ne hne]
      exact hp t (List.mem_cons_of_mem _ ht))
    simp only [takeAll, hr, ih, List.map_cons]

end EchoVerif.Sched

namespace EchoVerif.Sched
open EchoVerif EchoVerif.Generated SMap

/-- hand-out along any handle-distinct list whose entries point at `m`'s payloads: the result is
    the list of `(key, payload)` pairs of `m`, in the order of the list -/
theorem takeAll_pairs {P : Type} (m : SMap (Nat × Nat) P) : ∀ (l : List Thin) (fat : Array (Option P)),
    (l.map Thin.handle).Pairwise (· ≠ ·) →
    (∀ t ∈ l, ∃ p, fat[t.handle]? = some (some p) ∧ find? t.key m = some p) →
    ∃ pairs : List ((Nat × Nat) × P), takeAll l fat = some (pairs.map (·.2))
      ∧ pairs.map (·.1) = l.map Thin.key ∧ ∀ kv ∈ pairs, find? kv.1 m = some kv.2
  | [], _, _, _ => ⟨[], rfl, rfl, fun kv h => by cases h⟩
  | r :: rs, fat, hd, hp => by
    rw [List.map_cons, List.pairwise_cons] at hd
    obtain ⟨p, hr1, hr2⟩ := hp r List.mem_cons_self
    obtain ⟨pairs, h1, h2, h3⟩ := takeAll_pairs m rs (fat.setIfInBounds r.handle none) hd.2 (by
      intro t ht
      have hne : r.handle ≠ t.handle := hd.1 _ (List.mem_map_of_mem ht)
      rw [Array.getElem?_setIfInBounds_ne hne]
      exact hp t (List.mem_cons_of_mem _ ht))
    refine ⟨(r.key, p) :: pairs, ?_, ?_, ?_⟩
    · simp only [takeAll, hr1, h1, List.map_cons]
    · simp only [List.map_cons, h2]
    · intro kv hkv
      rcases List.mem_cons.1 hkv with e | hkv
      · subst e; exact hr2
      · exact h3 kv hkv

theorem sorted_of_pairwise {ν : Type} : ∀ {m : SMap (Nat × Nat) ν},
    (m.map (·.1)).Pairwise (fun a b => LinOrd.lt a b = true) → Sorted m
  | [], _ => trivial
  | [(k, v)], _ => ⟨trivial, trivial⟩
  | (k, v) :: (k', v') :: rest, h => by
    rw [List.map_cons, List.pairwise_cons] at h
    exact ⟨h.1 k' (by simp), sorted_of_pairwise h.2⟩

theorem key_lt_of {a b : Thin} (h : a.scope < b.scope ∨ (a.scope = b.scope ∧ a.rule < b.rule)) :
    LinOrd.lt a.key b.key = true := by
  show (decide (a.scope < b.scope) || (decide (a.scope = b.scope) && decide (a.rule < b.rule))) = true
  rcases h with h | ⟨h1, h2⟩
  · simp [h]
  · simp [h1, h2]

/-- **drain = the map's values.** A queue that refines the last-wins map `m` drains — on either
    sort path, never panicking — exactly `m`'s values in ascending key order. -/
theorem drain_eq_values {P : Type} (q : PendingTx P) (m : SMap (Nat × Nat) P) (h : QPay q m) :
    q.drain sortCfg = some (SMap.values m) := by
  obtain ⟨sorted, hs1, hs2, hs3⟩ := sortThin_canonical q h.inv
  have hdist : (sorted.map Thin.handle).Pairwise (· ≠ ·) :=
    ((hs2.map Thin.handle).pairwise_iff (fun hne e => hne e.symm)).2 h.hdist
  obtain ⟨pairs, h1, h2, h3⟩ := takeAll_pairs m sorted q.fat hdist
    (fun t ht => h.pay t (hs2.mem_iff.1 ht))
  have hps : Sorted pairs := by
    apply sorted_of_pairwise
    rw [h2, List.pairwise_map]
    exact hs3.imp key_lt_of
  have heq : pairs = m := by
    apply SMap.ext hps h.sorted
    intro k
    cases hf : find? k pairs with
    | some v => exact (h3 (k, v) (find?_mem hf)).symm
    | none =>
      cases hm : find? k m with
      | none => rfl
      | some v =>
        have hk : k ∈ q.thin.map Thin.key := h.dom k (by rw [hm]; exact fun e => by cases e)
        have hk' : k ∈ pairs.map (·.1) := by
          rw [h2]; exact (hs2.map Thin.key).mem_iff.2 hk
        obtain ⟨kv, hkv, rfl⟩ := List.mem_map.1 hk'
        have := mem_find? hps (k := kv.1) (v := kv.2) hkv
        rw [hf] at this; cases this
  unfold PendingTx.drain
  rw [hs1]
  show takeAll sorted q.fat = some (SMap.values m)
  rw [h1, heq]; rfl

end EchoVerif.Sched

namespace EchoVerif.Tick
open EchoVerif EchoVerif.Sched EchoVerif.Generated SMap Exec

/-- the radix scheduler's dedupe key -/
def rkeyOf (cp : TCand × Program) : Nat × Nat := (cp.1.shash, cp.1.rule)

/-- shifting the rule component by `ruleBase` (compact rule ↦ rule id) preserves the key order -/
def shiftKey (k : Nat × Nat) : Nat × Nat := (k.1, ruleBase + k.2)

theorem shift_lt (a b : Nat × Nat) : LinOrd.lt (shiftKey a) (shiftKey b) = LinOrd.lt a b := by
  show (decide (a.1 < b.1) || (decide (a.1 = b.1) && decide (ruleBase + a.2 < ruleBase + b.2)))
     = (decide (a.1 < b.1) || (decide (a.1 = b.1) && decide (a.2 < b.2)))
  have : (ruleBase + a.2 < ruleBase + b.2) ↔ (a.2 < b.2) := by omega
  simp only [this]

theorem shift_inj (a b : Nat × Nat) : shiftKey a = shiftKey b ↔ a = b := by
  obtain ⟨a1, a2⟩ := a; obtain ⟨b1, b2⟩ := b
  simp only [shiftKey, Prod.mk.injEq]
  constructor
  · rintro ⟨h1, h2⟩; exact ⟨h1, by omega⟩
  · rintro ⟨h1, h2⟩; exact ⟨h1, by omega⟩

/-- `insert` commutes with the order-preserving key shift -/
theorem insert_shift {ν : Type} (k : Nat × Nat) (v : ν) : ∀ m : SMap (Nat × Nat) ν,
    SMap.insert (shiftKey k) v (m.map (fun kv => (shiftKey kv.1, kv.2)))
      = (SMap.insert k v m).map (fun kv => (shiftKey kv.1, kv.2))
  | [] => rfl
  | (k', v') :: rest => by
    simp only [List.map_cons, SMap.insert, shift_lt]
    by_cases h1 : LinOrd.lt k k' = true
    · simp only [h1, if_true, List.map_cons]
    · simp only [h1, if_false, Bool.false_eq_true]
      by_cases h2 : k = k'
      · subst h2; simp only [if_true, List.map_cons]
      · have h2' : ¬ shiftKey k = shiftKey k' := fun e => h2 ((shift_inj k k').1 e)
        simp only [h2, h2', if_false, List.map_cons, insert_shift k v rest]

/-- the radix scheduler's last-wins map (key = (scope hash, compact rule)) -/
def radixQueue (matched : List (TCand × Program)) : SMap (Nat × Nat) (TCand × Program) :=
  matched.foldl (fun m cp => SMap.insert (rkeyOf cp) cp m) []

theorem legacyQueue_eq_shift (matched : List (TCand × Program)) :
    legacyQueue matched = (radixQueue matched).map (fun kv => (shiftKey kv.1, kv.2)) := by
  unfold legacyQueue radixQueue
  suffices h : ∀ (m : SMap (Nat × Nat) (TCand × Program)),
      matched.foldl (fun m cp => SMap.insert (cp.1.shash, ruleBase + cp.1.rule) cp m)
          (m.map (fun kv => (shiftKey kv.1, kv.2)))
        = (matched.foldl (fun m cp => SMap.insert (rkeyOf cp) cp m) m).map
            (fun kv => (shiftKey kv.1, kv.2)) from h []
  induction matched with
  | nil => intro m; rfl
  | cons x xs ih =>
    intro m
    rw [List.foldl_cons, List.foldl_cons, ← ih]
    congr 1
    exact insert_shift (rkeyOf x) x m

theorem legacyDrained_eq_radixValues (matched : List (TCand × Program)) :
    legacyDrained matched = SMap.values (radixQueue matched) := by
  unfold legacyDrained
  rw [legacyQueue_eq_shift]
  unfold SMap.values
  rw [List.map_map]; rfl

/-- the radix queue `(thin, fat)` after enqueuing `matched` refines `radixQueue matched` -/
theorem radix_fold_pay (matched : List (TCand × Program))
    (hb : ∀ cp ∈ matched, cp.1.shash < 2 ^ 256 ∧ cp.1.rule < 4294967296) :
    QPay (matched.foldl (fun (q : PendingTx (TCand × Program)) cp => q.enqueue cp.1.shash cp.1.rule cp) {})
      (radixQueue matched) := by
  unfold radixQueue
  suffices h : ∀ (q : PendingTx (TCand × Program)) (m : SMap (Nat × Nat) (TCand × Program)), QPay q m →
      QPay (matched.foldl (fun (q : PendingTx (TCand × Program)) cp => q.enqueue cp.1.shash cp.1.rule cp) q)
        (matched.foldl (fun m cp => SMap.insert (rkeyOf cp) cp m) m) from h _ _ qpay_empty
  induction matched with
  | nil => intro q m h; exact h
  | cons x xs ih =>
    intro q m h
    rw [List.foldl_cons, List.foldl_cons]
    apply ih (fun cp hcp => hb cp (List.mem_cons_of_mem _ hcp))
    exact enqueue_pay q m x.1.shash x.1.rule x (hb x List.mem_cons_self).1 (hb x List.mem_cons_self).2 h

/-- **radixDrained_eq_legacy.** For every arrival list (any order, any repetition, any batch size —
    either side of the extracted small-batch threshold) the `RadixScheduler` queue drains, without
    panicking, exactly the list the `LegacyScheduler`'s `BTreeMap` drains: the last-enqueued payload
    of every distinct `(scope hash, rule)` key in ascending key order. -/
theorem radixDrained_eq_legacy (matched : List (TCand × Program))
    (hb : ∀ cp ∈ matched, cp.1.shash < 2 ^ 256 ∧ cp.1.rule < 4294967296) :
    radixDrained sortCfg matched = some (legacyDrained matched) := by
  unfold radixDrained
  rw [drain_eq_values _ _ (radix_fold_pay matched hb), legacyDrained_eq_radixValues]

end EchoVerif.Tick

namespace EchoVerif.Tick
open EchoVerif EchoVerif.Sched EchoVerif.Generated SMap Exec Graph

/-- Order/duplication independence of a whole tick on BOTH scheduler paths. -/
theorem tick_set (cfg : Cfg) (hcfg : cfg.sort = sortCfg) (progOf : Nat → Nat → Option Program)
    (pre : WState) (radix : Bool) (xs ys : List TCand) (hco : Coherent xs)
    (hbx : ∀ c ∈ xs, c.shash < 2 ^ 256 ∧ c.rule < 4294967296)
    (hset : ∀ c, c ∈ xs ↔ c ∈ ys) :
    (tick cfg progOf pre radix xs).2 = (tick cfg progOf pre radix ys).2 := by
  cases radix with
  | false => exact tick_legacy_set cfg progOf pre xs ys hco hset
  | true =>
    unfold tick
    have hbad : (matchAll progOf pre xs).2.2 = (matchAll progOf pre ys).2.2 := by
      rw [Bool.eq_iff_iff, matchAll_bad, matchAll_bad]
      constructor
      · rintro ⟨c, hc, h⟩; exact ⟨c, (hset c).mp hc, h⟩
      · rintro ⟨c, hc, h⟩; exact ⟨c, (hset c).mpr hc, h⟩
    cases hbx' : (matchAll progOf pre xs).2.2 with
    | true =>
      have hby : (matchAll progOf pre ys).2.2 = true := by rw [← hbad, hbx']
      generalize hx : matchAll progOf pre xs = rx at hbx'
      generalize hy : matchAll progOf pre ys = ry at hby
      obtain ⟨b1, m1, f1⟩ := rx
      obtain ⟨b2, m2, f2⟩ := ry
      simp only at hbx' hby
      subst hbx'; subst hby
      rfl
    | false =>
      have hby : (matchAll progOf pre ys).2.2 = false := by rw [← hbad, hbx']
      have hq : legacyQueue (matchAll progOf pre xs).2.1 = legacyQueue (matchAll progOf pre ys).2.1 := by
        apply legacyQueue_set (keyInj_matched hco hbx')
        intro cp
        rw [mem_matchAll progOf pre xs hbx', mem_matchAll progOf pre ys hby, hset]
      have hb1 : ∀ cp ∈ (matchAll progOf pre xs).2.1, cp.1.shash < 2 ^ 256 ∧ cp.1.rule < 4294967296 :=
        fun cp hcp => hbx cp.1 ((mem_matchAll progOf pre xs hbx' cp).mp hcp).1
      have hb2 : ∀ cp ∈ (matchAll progOf pre ys).2.1, cp.1.shash < 2 ^ 256 ∧ cp.1.rule < 4294967296 :=
        fun cp hcp => hbx cp.1 ((hset cp.1).mpr ((mem_matchAll progOf pre ys hby cp).mp hcp).1)
      have hr1 := radixDrained_eq_legacy _ hb1
      have hr2 := radixDrained_eq_legacy _ hb2
      generalize hx : matchAll progOf pre xs = rx at hbx' hq hr1
      generalize hy : matchAll progOf pre ys = ry at hby hq hr2
      obtain ⟨b1, m1, f1⟩ := rx
      obtain ⟨b2, m2, f2⟩ := ry
      simp only at hbx' hby hq hr1 hr2
      subst hbx'; subst hby
      simp only [Bool.false_eq_true, if_false, commit, if_true, hcfg, hr1, hr2, legacyDrained, hq]

end EchoVerif.Tick
