/-
  Round-trip of the WAL commit-marker and frame codecs (`encode_commit`/`decode_commit`,
  `encode_frame`/`decode_frame`) on well-sized values.
-/
import EchoVerif.Lemmas.Wal
set_option linter.unusedSimpArgs false
set_option linter.unusedVariables false

namespace EchoVerif.Wal

theorem Rd.bind_apply {α β : Type} (m : Rd α) (f : α → Rd β) (bs : Bytes) :
    (m >>= f) bs = match m bs with
      | .error e => .error e
      | .ok (a, rest) => f a rest := rfl

theorem Rd.pure_apply {α : Type} (a : α) (bs : Bytes) : (pure a : Rd α) bs = .ok (a, bs) := rfl

theorem rdBytes_append (n : Nat) (a rest : Bytes) (h : a.length = n) :
    rdBytes n (a ++ rest) = .ok (a, rest) := by
  subst h
  simp [rdBytes]

theorem rdLE_append (k n : Nat) (rest : Bytes) (h : n < 256 ^ k) :
    rdLE k (le k n ++ rest) = .ok (n, rest) := by
  have hl := le_length k n
  simp only [rdLE, List.length_append, hl]
  rw [if_neg (by omega), List.take_left' hl, List.drop_left' hl, leNat_le, Nat.mod_eq_of_lt h]

theorem byte_eq_le (n : Nat) : byte n = le 1 n := by
  simp only [byte, le]
  congr 1
  apply UInt8.toNat_inj.mp
  simp [UInt8.toNat_ofNat']

theorem rdEnum_append (name : String) (ok : Nat → Bool) (n : Nat) (rest : Bytes) (h : n < 256)
    (hok : ok n = true) : rdEnum name ok (byte n ++ rest) = .ok (n, rest) := by
  rw [rdEnum, byte_eq_le, rdLE_append 1 n rest (by simpa using h)]
  simp [hok]

theorem rdKind_append (cfg : Cfg) (k : Kind) (rest : Bytes) (h : k.code < 256)
    (hl : cfg.label k.code = some k.label) : rdKind cfg (byte k.code ++ rest) = .ok (k, rest) := by
  rw [rdKind, byte_eq_le, rdLE_append 1 k.code rest (by simpa using h)]
  simp [hl]

theorem rdVec_append (b rest : Bytes) (h : b.length < 2 ^ 64) :
    rdVec (u64 b.length ++ (b ++ rest)) = .ok (b, rest) := by
  have : (256 : Nat) ^ 8 = 2 ^ 64 := by decide
  rw [rdVec, u64, rdLE_append 8 b.length _ (by omega)]
  simp only
  exact rdBytes_append _ _ _ rfl

/-- sizes under which a commit marker is encodable -/
structure CommitOK (cfg : Cfg) (c : Commit) : Prop where
  epoch : c.writerEpoch.length = 32
  txId : c.txId.length = 32
  kind : c.txKind < 256 ∧ cfg.txKindOk c.txKind = true
  first : c.firstLsn < 2 ^ 64
  last : c.lastLsn < 2 ^ 64
  count : c.recordCount < 2 ^ 64
  root : c.recordsRoot.length = 32
  froot : c.frontiersRoot.length = 32
  prev : c.prevCommitDigest.length = 32
  dur : c.durability < 256 ∧ cfg.durabilityOk c.durability = true
  schema : c.schemaVersion < 2 ^ 16
  digest : c.commitDigest.length = 32

theorem decodeCommit_encodeCommit (cfg : Cfg) (c : Commit) (h : CommitOK cfg c) :
    decodeCommit cfg (encodeCommit c) = .ok c := by
  have p64 : (256 : Nat) ^ 8 = 2 ^ 64 := by decide
  have p16 : (256 : Nat) ^ 2 = 2 ^ 16 := by decide
  have e : encodeCommit c = c.writerEpoch ++ (c.txId ++ (byte c.txKind ++ (u64 c.firstLsn ++ (u64 c.lastLsn
      ++ (u64 c.recordCount ++ (c.recordsRoot ++ (c.frontiersRoot ++ (c.prevCommitDigest
      ++ (byte c.durability ++ (u16 c.schemaVersion ++ (c.commitDigest ++ []))))))))))) := by
    simp [encodeCommit, List.append_assoc]
  rw [decodeCommit, e, parseCommit]
  simp only [Rd.bind_apply, Rd.pure_apply, u64, u16,
    rdBytes_append 32 _ _ h.epoch, rdBytes_append 32 _ _ h.txId,
    rdEnum_append _ _ _ _ h.kind.1 h.kind.2,
    rdLE_append 8 c.firstLsn _ (by rw [p64]; exact h.first), rdLE_append 8 c.lastLsn _ (by rw [p64]; exact h.last),
    rdLE_append 8 c.recordCount _ (by rw [p64]; exact h.count),
    rdBytes_append 32 _ _ h.root, rdBytes_append 32 _ _ h.froot, rdBytes_append 32 _ _ h.prev,
    rdEnum_append _ _ _ _ h.dur.1 h.dur.2, rdLE_append 2 c.schemaVersion _ (by rw [p16]; exact h.schema),
    rdBytes_append 32 _ _ h.digest]
  simp only [rdFinish, List.isEmpty_nil, if_true]
  rfl

theorem encodeCommit_length (cfg : Cfg) (c : Commit) (h : CommitOK cfg c) : (encodeCommit c).length = 220 := by
  simp [encodeCommit, byte, u64, u16, le_length, h.epoch, h.txId, h.root, h.froot, h.prev, h.digest]


/-- sizes under which a frame is encodable, and the frame passes its own integrity check -/
structure FrameOK (cfg : Cfg) (H : HashFn) (f : Frame) : Prop where
  ver : f.header.walVersion < 2 ^ 16
  epoch : f.header.writerEpoch.length = 32
  seg : f.header.segmentId < 2 ^ 64
  lsn : f.header.lsn < 2 ^ 64
  txId : f.header.txId.length = 32
  idx : f.header.localIndex < 2 ^ 32
  kind : f.header.kind.code < 256 ∧ cfg.label f.header.kind.code = some f.header.kind.label
  plen : f.header.payloadLen < 2 ^ 64
  pdig : f.header.payloadDigest.length = 32
  codec : f.header.codecId.length = 32
  schema : f.header.schemaId.length = 32
  sv : f.header.schemaVersion < 2 ^ 16
  ev : f.header.encodingVersion < 2 ^ 16
  dom : f.header.digestDomain.length = 32
  comp : f.header.compression < 256 ∧ cfg.compressionOk f.header.compression = true
  red : f.header.redaction < 256 ∧ cfg.redactionOk f.header.redaction = true
  prev : f.header.prevFrameDigest.length = 32
  hck : f.header.headerChecksum < 2 ^ 32
  psv : f.payloadSchemaVersion < 2 ^ 16
  bytes : f.payloadBytes.length < 2 ^ 64
  fck : f.frameChecksum < 2 ^ 32
  pkind : f.payloadKind = f.header.kind
  valid : validateIntegrity cfg H f = .ok ()

theorem encodeFrame_eq (f : Frame) : encodeFrame f = List.flatten
    [u16 f.header.walVersion, f.header.writerEpoch, u64 f.header.segmentId, u64 f.header.lsn, f.header.txId,
     u32 f.header.localIndex, byte f.header.kind.code, u64 f.header.payloadLen, f.header.payloadDigest,
     f.header.codecId, f.header.schemaId, u16 f.header.schemaVersion, u16 f.header.encodingVersion,
     f.header.digestDomain, byte f.header.compression, byte f.header.redaction, f.header.prevFrameDigest,
     u32 f.header.headerChecksum, u16 f.payloadSchemaVersion, u64 f.payloadBytes.length, f.payloadBytes,
     u32 f.frameChecksum] := by
  unfold encodeFrame
  simp only [List.flatten_cons, List.flatten_nil, List.append_assoc, List.append_nil]

theorem parseFrame_encodeFrame (cfg : Cfg) (H : HashFn) (f : Frame) (h : FrameOK cfg H f) :
    parseFrame cfg (encodeFrame f) = .ok (f, []) := by
  have p64 : (256 : Nat) ^ 8 = 2 ^ 64 := by decide
  have p32 : (256 : Nat) ^ 4 = 2 ^ 32 := by decide
  have p16 : (256 : Nat) ^ 2 = 2 ^ 16 := by decide
  rw [encodeFrame_eq]
  unfold parseFrame
  simp only [List.flatten_cons, List.flatten_nil, Rd.bind_apply, u16, u32, u64]
  rw [rdLE_append 2 f.header.walVersion _ (by rw [p16]; exact h.ver)]
  simp only [rdBytes_append 32 _ _ h.epoch]
  rw [rdLE_append 8 f.header.segmentId _ (by rw [p64]; exact h.seg)]
  simp only
  rw [rdLE_append 8 f.header.lsn _ (by rw [p64]; exact h.lsn)]
  simp only [rdBytes_append 32 _ _ h.txId]
  rw [rdLE_append 4 f.header.localIndex _ (by rw [p32]; exact h.idx)]
  simp only [rdKind_append cfg _ _ h.kind.1 h.kind.2]
  rw [rdLE_append 8 f.header.payloadLen _ (by rw [p64]; exact h.plen)]
  simp only [rdBytes_append 32 _ _ h.pdig, rdBytes_append 32 _ _ h.codec, rdBytes_append 32 _ _ h.schema]
  rw [rdLE_append 2 f.header.schemaVersion _ (by rw [p16]; exact h.sv)]
  simp only
  rw [rdLE_append 2 f.header.encodingVersion _ (by rw [p16]; exact h.ev)]
  simp only [rdBytes_append 32 _ _ h.dom, rdEnum_append _ _ _ _ h.comp.1 h.comp.2,
    rdEnum_append _ _ _ _ h.red.1 h.red.2, rdBytes_append 32 _ _ h.prev]
  rw [rdLE_append 4 f.header.headerChecksum _ (by rw [p32]; exact h.hck)]
  simp only
  rw [rdLE_append 2 f.payloadSchemaVersion _ (by rw [p16]; exact h.psv)]
  simp only
  have hv := rdVec_append f.payloadBytes (le 4 f.frameChecksum ++ []) h.bytes
  rw [u64] at hv
  rw [hv]
  simp only
  rw [rdLE_append 4 f.frameChecksum _ (by rw [p32]; exact h.fck)]
  simp only [rdFinish, List.isEmpty_nil, if_true]
  have hk := h.pkind
  obtain ⟨hd, pk, psv, pb, fc⟩ := f
  simp only at hk
  subst hk
  rfl

theorem decodeFrame_encodeFrame (cfg : Cfg) (H : HashFn) (f : Frame) (h : FrameOK cfg H f) :
    decodeFrame cfg H (encodeFrame f) = .ok f := by
  rw [decodeFrame, parseFrame_encodeFrame cfg H f h]
  simp only [h.valid]

theorem encodeFrame_length (cfg : Cfg) (H : HashFn) (f : Frame) (h : FrameOK cfg H f) :
    (encodeFrame f).length = 279 + f.payloadBytes.length := by
  rw [encodeFrame_eq]
  simp [byte, u64, u32, u16, le_length, h.epoch, h.txId, h.pdig, h.codec, h.schema, h.dom, h.prev]
  omega

end EchoVerif.Wal
