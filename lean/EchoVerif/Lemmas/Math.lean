/- Helper lemmas for C19 (binary32 bit-pattern model). -/
import EchoVerif.Model.Math
set_option linter.unusedSimpArgs false
namespace EchoVerif.Math

theorem canon_cases (b : Nat) :
    (isNaN b ∧ canon b = canonNaN) ∨ (¬ isNaN b ∧ isSubnormal b ∧ canon b = 0) ∨
    (¬ isNaN b ∧ ¬ isSubnormal b ∧ b = negZero ∧ canon b = 0) ∨
    (¬ isNaN b ∧ ¬ isSubnormal b ∧ b ≠ negZero ∧ canon b = b) := by
  unfold canon
  by_cases h1 : isNaN b
  · simp [h1]
  · by_cases h2 : isSubnormal b
    · simp [h1, h2]
    · by_cases h3 : b = negZero
      · exact Or.inr (Or.inr (Or.inl ⟨h1, h2, h3, by rw [if_neg h1, if_neg h2, if_pos h3]⟩))
      · exact Or.inr (Or.inr (Or.inr ⟨h1, h2, h3, by rw [if_neg h1, if_neg h2, if_neg h3]⟩))

theorem canon_closed (b : Nat) (hb : b < two32) : Canonical (canon b) := by
  rcases canon_cases b with ⟨h, e⟩ | ⟨h1, h, e⟩ | ⟨h1, h2, h, e⟩ | ⟨h1, h2, h, e⟩ <;> rw [e] <;>
    unfold Canonical isNaN isSubnormal expField mantField canonNaN negZero two32 at * <;> omega

theorem canon_fixes_canonical (b : Nat) (h : Canonical b) : canon b = b := by
  rcases canon_cases b with ⟨h, e⟩ | ⟨h1, h, e⟩ | ⟨h1, h2, h, e⟩ | ⟨h1, h2, h, e⟩ <;> rw [e] <;>
    unfold Canonical isNaN isSubnormal expField mantField canonNaN negZero two32 at * <;> omega

theorem canon_idempotent (b : Nat) (hb : b < two32) : canon (canon b) = canon b :=
  canon_fixes_canonical _ (canon_closed b hb)

theorem negBits_eq (b : Nat) :
    (2147483648 ≤ b ∧ negBits b = b - 2147483648) ∨ (b < 2147483648 ∧ negBits b = b + 2147483648) := by
  unfold negBits; by_cases h : 2147483648 ≤ b
  · exact Or.inl ⟨h, by rw [if_pos h]⟩
  · exact Or.inr ⟨by omega, by rw [if_neg h]⟩

theorem absBits_eq (b : Nat) :
    (2147483648 ≤ b ∧ absBits b = b - 2147483648) ∨ (b < 2147483648 ∧ absBits b = b) := by
  unfold absBits; by_cases h : 2147483648 ≤ b
  · exact Or.inl ⟨h, by rw [if_pos h]⟩
  · exact Or.inr ⟨by omega, by rw [if_neg h]⟩

theorem canonZero_eq (b : Nat) :
    ((b = 0 ∨ b = 2147483648) ∧ canonZero b = 0) ∨ (b ≠ 0 ∧ b ≠ 2147483648 ∧ canonZero b = b) := by
  unfold canonZero negZero; by_cases h : b = 0 ∨ b = 2147483648
  · exact Or.inl ⟨h, by rw [if_pos h]⟩
  · exact Or.inr ⟨by omega, by omega, by rw [if_neg h]⟩

theorem negBits_lt {x : Nat} (h : x < two32) : negBits x < two32 := by
  unfold two32 at *; rcases negBits_eq x with ⟨a, e⟩ | ⟨a, e⟩ <;> omega

theorem negBits_negBits {x : Nat} (h : x < two32) : negBits (negBits x) = x := by
  unfold two32 at *
  rcases negBits_eq x with ⟨a, e⟩ | ⟨a, e⟩ <;> rcases negBits_eq (negBits x) with ⟨a', e'⟩ | ⟨a', e'⟩ <;> omega

theorem absBits_negBits {x : Nat} (h : x < two32) : absBits (negBits x) = absBits x := by
  unfold two32 at *
  rcases negBits_eq x with ⟨a, e⟩ | ⟨a, e⟩ <;> rcases absBits_eq (negBits x) with ⟨a', e'⟩ | ⟨a', e'⟩ <;>
    rcases absBits_eq x with ⟨a'', e''⟩ | ⟨a'', e''⟩ <;> omega

theorem isFiniteB_negBits {x : Nat} (h : x < two32) : isFiniteB (negBits x) ↔ isFiniteB x := by
  unfold two32 isFiniteB expField at *
  rcases negBits_eq x with ⟨a, e⟩ | ⟨a, e⟩ <;> omega

theorem isNeg_negBits {x : Nat} (h : x < two32) : isNeg (negBits x) = !isNeg x := by
  unfold isNeg
  rcases negBits_eq x with ⟨a, e⟩ | ⟨a, e⟩
  · have h1 : ¬ 2147483648 ≤ negBits x := by unfold two32 at h; omega
    simp [a, h1]
  · have h1 : 2147483648 ≤ negBits x := by omega
    have h2 : ¬ 2147483648 ≤ x := by omega
    simp [h1, h2]

theorem canonZero_neg_canonZero {s : Nat} (h : s < two32) :
    canonZero (negBits (canonZero s)) = canonZero (negBits s) := by
  unfold two32 at *
  rcases canonZero_eq s with ⟨a, e⟩ | ⟨a, a', e⟩
  · rw [e]
    rcases negBits_eq s with ⟨b, f⟩ | ⟨b, f⟩ <;> rcases negBits_eq 0 with ⟨b', f'⟩ | ⟨b', f'⟩ <;>
      rcases canonZero_eq (negBits s) with ⟨c, g⟩ | ⟨c, c', g⟩ <;>
      rcases canonZero_eq (negBits 0) with ⟨d, k⟩ | ⟨d, d', k⟩ <;> omega
  · rw [e]

theorem canonZero_neg_canonZero_neg {s : Nat} (h : s < two32) :
    canonZero (negBits (canonZero (negBits s))) = canonZero s := by
  rw [canonZero_neg_canonZero (negBits_lt h), negBits_negBits h]

/-- sine is exactly odd at the level of `sin_cos_f32`, whatever the |x| pipeline computes. -/
theorem raw_sin_odd (core : Nat → Option (Nat × Nat)) (da : Bool) (x : Nat) (hx : x < two32)
    (hcore : ∀ a s c, core a = some (s, c) → s < two32) :
    (sinCosWith core da (negBits x)).map (·.1) =
      (sinCosWith core da x).map (fun p => canonZero (negBits p.1)) := by
  unfold sinCosWith
  by_cases hf : isFiniteB x
  · have hf' : isFiniteB (negBits x) := (isFiniteB_negBits hx).2 hf
    rw [if_neg (by simpa using hf'), if_neg (by simpa using hf), absBits_negBits hx, isNeg_negBits hx]
    cases hc : core (absBits x) with
    | none => rfl
    | some p =>
      obtain ⟨s, c⟩ := p
      have hs := hcore _ _ _ hc
      cases hn : isNeg x <;> simp [canonZero_neg_canonZero hs, canonZero_neg_canonZero_neg hs]
  · have hf' : ¬ isFiniteB (negBits x) := fun h => hf ((isFiniteB_negBits hx).1 h)
    rw [if_pos hf', if_pos hf]
    cases da <;> simp [canonZero, negBits, negZero]

theorem raw_cos_even (core : Nat → Option (Nat × Nat)) (da : Bool) (x : Nat) (hx : x < two32) :
    (sinCosWith core da (negBits x)).map (·.2) = (sinCosWith core da x).map (·.2) := by
  unfold sinCosWith
  by_cases hf : isFiniteB x
  · have hf' : isFiniteB (negBits x) := (isFiniteB_negBits hx).2 hf
    rw [if_neg (by simpa using hf'), if_neg (by simpa using hf), absBits_negBits hx]
    cases hc : core (absBits x) with
    | none => rfl
    | some p => rfl
  · have hf' : ¬ isFiniteB (negBits x) := fun h => hf ((isFiniteB_negBits hx).1 h)
    rw [if_pos hf', if_pos hf]

theorem expField_negBits {x : Nat} (hx : x < two32) : expField (negBits x) = expField x := by
  unfold expField two32 at *
  rcases negBits_eq x with ⟨a, e⟩ | ⟨a, e⟩ <;> rw [e]
  · have : x / 8388608 = (x - 2147483648) / 8388608 + 256 := by omega
    omega
  · have : (x + 2147483648) / 8388608 = x / 8388608 + 256 := by omega
    omega

theorem mantField_negBits {x : Nat} (hx : x < two32) : mantField (negBits x) = mantField x := by
  unfold mantField two32 at *
  rcases negBits_eq x with ⟨a, e⟩ | ⟨a, e⟩ <;> rw [e] <;> omega

theorem isNaN_negBits {x : Nat} (hx : x < two32) : isNaN (negBits x) ↔ isNaN x := by
  unfold isNaN; rw [expField_negBits hx, mantField_negBits hx]

theorem isSubnormal_negBits {x : Nat} (hx : x < two32) : isSubnormal (negBits x) ↔ isSubnormal x := by
  unfold isSubnormal; rw [expField_negBits hx, mantField_negBits hx]

theorem canon_negBits_cases {x : Nat} (hx : x < two32) :
    (canon (negBits x) = canonNaN ∧ canon x = canonNaN) ∨
    (canon x = 0 ∧ canon (negBits x) = 0) ∨
    (canon (negBits x) = negBits x ∧ canon x = x ∧ x ≠ 0) := by
  rcases canon_cases x with ⟨h, f⟩ | ⟨h1, h, f⟩ | ⟨h1, h2, h, f⟩ | ⟨h1, h2, h, f⟩
  · refine Or.inl ⟨?_, f⟩
    unfold canon; rw [if_pos ((isNaN_negBits hx).2 h)]
  · refine Or.inr (Or.inl ⟨f, ?_⟩)
    unfold canon
    rw [if_neg (fun k => h1 ((isNaN_negBits hx).1 k)), if_pos ((isSubnormal_negBits hx).2 h)]
  · refine Or.inr (Or.inl ⟨f, ?_⟩)
    rw [h]; decide
  · have n1 : ¬ isNaN (negBits x) := fun k => h1 ((isNaN_negBits hx).1 k)
    have n2 : ¬ isSubnormal (negBits x) := fun k => h2 ((isSubnormal_negBits hx).1 k)
    by_cases hz : x = 0
    · refine Or.inr (Or.inl ⟨f.trans hz, ?_⟩)
      rw [hz]; decide
    · refine Or.inr (Or.inr ⟨?_, f, hz⟩)
      have n3 : negBits x ≠ negZero := by
        unfold negZero two32 at *
        rcases negBits_eq x with ⟨a, e⟩ | ⟨a, e⟩ <;> omega
      unfold canon; rw [if_neg n1, if_neg n2, if_neg n3]

theorem canon_canonZero (b : Nat) : canon (canonZero b) = canon b := by
  rcases canonZero_eq b with ⟨a | a, e⟩ | ⟨a, a', e⟩ <;> rw [e]
  · rw [a]
  · rw [a]; decide

theorem canon_neg_canon {t : Nat} (ht : t < two32) : canon (negBits (canon t)) = canon (negBits t) := by
  rcases canon_negBits_cases ht with ⟨a, b⟩ | ⟨a, b⟩ | ⟨a, b, _⟩
  · rw [a, b]; decide
  · rw [a, b]; decide
  · rw [b]

theorem sinCosWith_fst_lt {core : Nat → Option (Nat × Nat)} {da : Bool} {x : Nat} {p : Nat × Nat}
    (hcore : ∀ a s c, core a = some (s, c) → s < two32)
    (h : sinCosWith core da x = some p) : p.1 < two32 := by
  unfold sinCosWith at h
  by_cases hf : isFiniteB x
  · rw [if_neg (by simpa using hf)] at h
    cases hc : core (absBits x) with
    | none => rw [hc] at h; cases h
    | some q =>
      obtain ⟨s, c⟩ := q
      rw [hc] at h
      have hs := hcore _ _ _ hc
      injection h with h
      rw [← h]
      show canonZero _ < two32
      have hlt : (if isNeg x = true then negBits s else s) < two32 := by
        cases isNeg x <;> simp [hs, negBits_lt hs]
      rcases canonZero_eq (if isNeg x = true then negBits s else s) with ⟨_, e⟩ | ⟨_, _, e⟩ <;> rw [e]
      · decide
      · exact hlt
  · rw [if_pos hf] at h
    cases da
    · injection h with h; rw [← h]; decide
    · cases h

/-- `F32Scalar::sin` is exactly odd (bit for bit, through `F32Scalar::neg`) on every input that is
    not stored as zero, for ANY |x| pipeline. -/
theorem sin_odd (core : Nat → Option (Nat × Nat)) (da : Bool) (x : Nat) (hx : x < two32)
    (hcore : ∀ a s c, core a = some (s, c) → s < two32) (hnz : canon x ≠ 0) :
    (scalarSinCosWith core da (negBits x)).map (·.1) =
      (scalarSinCosWith core da x).map (fun p => scalarNeg p.1) := by
  unfold scalarSinCosWith scalarNeg
  rcases canon_negBits_cases hx with ⟨a, b⟩ | ⟨a, b⟩ | ⟨a, b, _⟩
  · rw [a, b]; cases da <;> simp [sinCosWith, isFiniteB, expField, canonNaN, canon, isNaN, isSubnormal, mantField, negBits, negZero]
  · exact absurd a hnz
  · rw [a, b]
    have raw := raw_sin_odd core da x hx hcore
    cases h1 : sinCosWith core da x with
    | none => rw [h1] at raw; simp at raw; simp [raw]
    | some p =>
      rw [h1] at raw
      have hp := sinCosWith_fst_lt hcore h1
      cases h2 : sinCosWith core da (negBits x) with
      | none => rw [h2] at raw; simp at raw
      | some q =>
        rw [h2] at raw
        simp at raw
        simp [raw, canon_canonZero, canon_neg_canon hp]

theorem cos_even (core : Nat → Option (Nat × Nat)) (da : Bool) (x : Nat) (hx : x < two32) :
    (scalarSinCosWith core da (negBits x)).map (·.2) = (scalarSinCosWith core da x).map (·.2) := by
  unfold scalarSinCosWith
  rcases canon_negBits_cases hx with ⟨a, b⟩ | ⟨a, b⟩ | ⟨a, b, _⟩
  · rw [a, b]
  · rw [a, b]
  · rw [a, b]
    have raw := raw_cos_even core da x hx
    cases h1 : sinCosWith core da x with
    | none => rw [h1] at raw; simp at raw; simp [raw]
    | some p =>
      rw [h1] at raw
      cases h2 : sinCosWith core da (negBits x) with
      | none => rw [h2] at raw; simp at raw
      | some q => rw [h2] at raw; simp at raw; simp [raw]

/-! ## range of the trig assembly -/

/-! range -/
def MagLeOne (b : Nat) : Prop := b < two32 ∧ absBits b ≤ oneBits
instance (b : Nat) : Decidable (MagLeOne b) := by unfold MagLeOne; exact inferInstance

theorem magLeOne_neg {b : Nat} (h : MagLeOne b) : MagLeOne (negBits b) := by
  unfold MagLeOne at *
  exact ⟨negBits_lt h.1, by rw [absBits_negBits h.1]; exact h.2⟩

theorem magLeOne_canonZero {b : Nat} (h : MagLeOne b) : MagLeOne (canonZero b) := by
  rcases canonZero_eq b with ⟨_, e⟩ | ⟨_, _, e⟩ <;> rw [e]
  · decide
  · exact h

theorem assemble_range (q s c : Nat) (hs : MagLeOne s) (hc : MagLeOne c) :
    MagLeOne (assemble q s c).1 ∧ MagLeOne (assemble q s c).2 := by
  unfold assemble
  split <;> simp [hs, hc, magLeOne_neg]

/-- if the quarter-wave interpolation stays in [0,1] then sin and cos stay in [-1,1]. -/
theorem trig_range_of_interp (da : Bool) (lut : Nat → Option Nat) (segs : Nat)
    (hinterp : ∀ a v, sinQtrInterp da lut segs a = some v → MagLeOne v)
    (x s c : Nat) (h : sinCos da lut segs x = some (s, c)) : MagLeOne s ∧ MagLeOne c := by
  unfold sinCos sinCosWith at h
  by_cases hf : isFiniteB x
  · rw [if_neg (by simpa using hf)] at h
    cases hc : trigCore da lut segs (absBits x) with
    | none => rw [hc] at h; cases h
    | some p =>
      obtain ⟨s0, c0⟩ := p
      rw [hc] at h
      injection h with h
      injection h with h1 h2
      unfold trigCore at hc
      generalize reduceQuadrant (absBits x) = qa at hc
      simp only [] at hc
      split at hc
      · rename_i sv cv hs hcv
        injection hc with hc
        have r := assemble_range qa.1 sv cv (hinterp _ _ hs) (hinterp _ _ hcv)
        rw [hc] at r
        rw [← h1, ← h2]
        refine ⟨magLeOne_canonZero ?_, magLeOne_canonZero r.2⟩
        cases isNeg x <;> simp [r.1, magLeOne_neg r.1]
      · cases hc
  · rw [if_pos hf] at h
    cases da
    · injection h with h; injection h with h1 h2; rw [← h1, ← h2]; decide
    · cases h

/-! ## extracted table -/

def sortedLe : List Nat → Bool
  | [] => true
  | [_] => true
  | a :: b :: t => decide (a ≤ b) && sortedLe (b :: t)

/-- the checks on the extracted table, as one computable Boolean -/
def lutOk (segs segsF : Nat) (l : List Nat) : Bool :=
  l.length == segs + 1 && segsF == segs && l.head? == some 0 && l.getLast? == some oneBits &&
  l.all (fun v => decide (v ≤ oneBits)) && sortedLe l

theorem sortedLe_head_le : ∀ (a : Nat) (l : List Nat), sortedLe (a :: l) = true → ∀ x ∈ l, a ≤ x
  | _, [], _, x, hx => by cases hx
  | a, b :: t, h, x, hx => by
    simp only [sortedLe, Bool.and_eq_true, decide_eq_true_eq] at h
    rcases List.mem_cons.1 hx with rfl | hx
    · exact h.1
    · exact Nat.le_trans h.1 (sortedLe_head_le b t h.2 x hx)

theorem sortedLe_pairwise : ∀ (l : List Nat), sortedLe l = true → l.Pairwise (fun (a b : Nat) => a ≤ b)
  | [], _ => List.Pairwise.nil
  | [a], _ => List.pairwise_singleton _ _
  | a :: b :: t, h => by
    have h' := h
    simp only [sortedLe, Bool.and_eq_true, decide_eq_true_eq] at h'
    exact List.Pairwise.cons (sortedLe_head_le a (b :: t) h) (sortedLe_pairwise (b :: t) h'.2)

/-! ## Q32.32 -/

def InI64 (v : Int) : Prop := i64Min ≤ v ∧ v ≤ i64Max

theorem sat64_range (v : Int) : InI64 (sat64 v) := by
  unfold InI64 sat64 i64Min i64Max
  by_cases h1 : (9223372036854775807 : Int) < v
  · rw [if_pos h1]; omega
  · rw [if_neg h1]
    by_cases h2 : v < -9223372036854775808
    · rw [if_pos h2]; omega
    · rw [if_neg h2]; omega

theorem sat64_id {v : Int} (h : InI64 v) : sat64 v = v := by
  unfold InI64 sat64 i64Min i64Max at *
  rw [if_neg (by omega), if_neg (by omega)]

theorem fxMul_range (a b : Int) : InI64 (fxMul a b) := sat64_range _
theorem fxAdd_range (a b : Int) : InI64 (fxAdd a b) := sat64_range _
theorem fxSub_range (a b : Int) : InI64 (fxSub a b) := sat64_range _

theorem fxDiv_range (a b : Int) : InI64 (fxDiv a b) := by
  unfold fxDiv
  by_cases hb : b = 0
  · rw [if_pos hb]
    by_cases ha : a = 0
    · rw [if_pos ha]; unfold InI64 i64Min i64Max; omega
    · rw [if_neg ha]
      by_cases hn : a < 0
      · rw [if_pos hn]; unfold InI64 i64Min i64Max; omega
      · rw [if_neg hn]; unfold InI64 i64Min i64Max; omega
  · rw [if_neg hb]; exact sat64_range _

theorem fxNeg_range {a : Int} (h : InI64 a) : InI64 (fxNeg a) := by
  unfold fxNeg InI64 i64Min i64Max at *
  by_cases e : a = -9223372036854775808
  · rw [if_pos e]; omega
  · rw [if_neg e]; omega

theorem fxFromF32_range (b : Nat) : InI64 (fxFromF32 b) := by
  unfold fxFromF32
  by_cases h1 : isNaN b
  · rw [if_pos h1]; unfold InI64 i64Min i64Max; omega
  · rw [if_neg h1]
    by_cases h2 : expField b = 255
    · rw [if_pos h2]; cases isNeg b <;> simp [InI64, i64Min, i64Max]
    · rw [if_neg h2]
      simp only []
      by_cases h3 : expField b = 0 ∧ mantField b = 0
      · rw [if_pos h3]; unfold InI64 i64Min i64Max; omega
      · rw [if_neg h3]; exact sat64_range _

/-- the division-by-zero policy of `DFix64::div_raw` -/
theorem fx_div_zero_policy (a : Int) :
    fxDiv a 0 = if a = 0 then 0 else if a < 0 then i64Min else i64Max := by
  unfold fxDiv; rw [if_pos rfl]

/-- `mul_raw` rounds the exact 128-bit product to the NEAREST Q32.32 value, ties to EVEN. -/
theorem roundQ32_nearest_even (p : Int) :
    (-2147483648 ≤ roundQ32 p * 4294967296 - p ∧ roundQ32 p * 4294967296 - p ≤ 2147483648) ∧
    ((roundQ32 p * 4294967296 - p = 2147483648 ∨ roundQ32 p * 4294967296 - p = -2147483648) →
      roundQ32 p % 2 = 0) := by
  unfold roundQ32
  simp only []
  by_cases hc : 2147483648 < p.natAbs % 4294967296 ∨
      (p.natAbs % 4294967296 = 2147483648 ∧ p.natAbs / 4294967296 % 2 = 1)
  · rw [if_pos hc]
    by_cases hn : p < 0
    · rw [if_pos hn]; omega
    · rw [if_neg hn]; omega
  · rw [if_neg hc]
    by_cases hn : p < 0
    · rw [if_pos hn]; omega
    · rw [if_neg hn]; omega

instance (b : Nat) : Decidable (Canonical b) := by unfold Canonical; exact inferInstance

theorem natAbs_lt_of_i64 {raw : Int} (h : i64Min ≤ raw ∧ raw ≤ i64Max) : raw.natAbs < 2 ^ 64 := by
  unfold i64Min i64Max at h; omega

/-- `to_f32` never produces −0 (for raw ≠ 0 the exponent field is ≥ 95), a subnormal, ∞ or NaN. -/
theorem fxToF32_canonical (raw : Int) (h : i64Min ≤ raw ∧ raw ≤ i64Max) :
    Canonical (fxToF32 raw) ∧ isFiniteB (fxToF32 raw) := by
  unfold fxToF32
  by_cases h0 : raw = 0
  · rw [if_pos h0]; decide
  · rw [if_neg h0]
    simp only []
    have hk : raw.natAbs.log2 < 64 := (Nat.log2_lt (by omega)).2 (natAbs_lt_of_i64 h)
    generalize raw.natAbs.log2 = k at *
    generalize (if 23 < k then roundShiftRight 128 raw.natAbs (k - 23) else raw.natAbs * 2 ^ (23 - k)) = sig0
    have hm : ∀ s : Nat, s % 8388608 < 8388608 := fun s => Nat.mod_lt _ (by decide)
    by_cases hs : 16777216 ≤ sig0
    · rw [if_pos hs, if_pos hs]
      have := hm (sig0 / 2)
      generalize sig0 / 2 % 8388608 = m at *
      have he : ((k : Int) - 32 + 1 + 127).toNat = k + 96 := by omega
      rw [he]
      by_cases hn : raw < 0
      · rw [if_pos hn]
        unfold Canonical isFiniteB isNaN isSubnormal expField mantField two32 negZero canonNaN
        omega
      · rw [if_neg hn]
        unfold Canonical isFiniteB isNaN isSubnormal expField mantField two32 negZero canonNaN
        omega
    · rw [if_neg hs, if_neg hs]
      have := hm sig0
      generalize sig0 % 8388608 = m at *
      have he : ((k : Int) - 32 + 127).toNat = k + 95 := by omega
      rw [he]
      by_cases hn : raw < 0
      · rw [if_pos hn]
        unfold Canonical isFiniteB isNaN isSubnormal expField mantField two32 negZero canonNaN
        omega
      · rw [if_neg hn]
        unfold Canonical isFiniteB isNaN isSubnormal expField mantField two32 negZero canonNaN
        omega

/-! ## xoroshiro128+ -/

theorem rotr_rotl (x : BitVec 64) (k : Nat) (hk : k < 64) : (x.rotateLeft k).rotateRight k = x := by
  apply BitVec.eq_of_getLsbD_eq
  intro i hi
  rw [BitVec.getLsbD_rotateRight, BitVec.getLsbD_rotateLeft]
  have hm : k % 64 = k := Nat.mod_eq_of_lt hk
  by_cases h : i < 64 - k
  · have h1 : ¬ (k + i < k) := by omega
    have h2 : k + i < 64 := by omega
    have h3 : k + i - k = i := by omega
    simp [h, hi, h1, h2, h3, hm]
  · have h1 : i - (64 - k) < k := by omega
    have h3 : 64 - k + (i - (64 - k)) = i := by omega
    simp [h, hi, h1, h3, hm]

theorem rotl_rotr (x : BitVec 64) (k : Nat) (hk : k < 64) : (x.rotateRight k).rotateLeft k = x := by
  apply BitVec.eq_of_getLsbD_eq
  intro i hi
  rw [BitVec.getLsbD_rotateLeft, BitVec.getLsbD_rotateRight]
  have hm : k % 64 = k := Nat.mod_eq_of_lt hk
  by_cases h : i < k
  · have h1 : ¬ (64 - k + i < 64 - k) := by omega
    have h2 : 64 - k + i < 64 := by omega
    have h3 : 64 - k + i - (64 - k) = i := by omega
    simp [h, hi, h1, h2, h3, hm]
  · have h1 : i - k < 64 - k := by omega
    have h3 : k + (i - k) = i := by omega
    simp [h, hi, h1, h3, hm]

/-- inverse of the xoroshiro128+ state transition -/
def Prng.unstep (p : Prng) : Prng :=
  let t := p.s1.rotateRight 36
  let s0 := (p.s0 ^^^ t ^^^ (t <<< 14)).rotateRight 55
  { s0 := s0, s1 := t ^^^ s0 }

theorem xor_cancel_right (a b : BitVec 64) : a ^^^ b ^^^ b = a := by
  rw [BitVec.xor_assoc, BitVec.xor_self, BitVec.xor_zero]

theorem xor_cancel2 (a t u : BitVec 64) : a ^^^ t ^^^ u ^^^ t ^^^ u = a := by
  rw [BitVec.xor_assoc (a ^^^ t) u t, BitVec.xor_comm u t, ← BitVec.xor_assoc (a ^^^ t) t u,
    xor_cancel_right, xor_cancel_right]

theorem unstep_step (p : Prng) : (p.step).unstep = p := by
  obtain ⟨a, b⟩ := p
  simp only [Prng.step, Prng.unstep, rotr_rotl _ 36 (by decide)]
  rw [xor_cancel2, rotr_rotl _ 55 (by decide)]
  congr 1
  rw [BitVec.xor_assoc, BitVec.xor_self, BitVec.xor_zero]

theorem step_unstep (p : Prng) : (p.unstep).step = p := by
  obtain ⟨a, b⟩ := p
  simp only [Prng.step, Prng.unstep]
  rw [xor_cancel_right, rotl_rotr _ 55 (by decide), rotl_rotr _ 36 (by decide), xor_cancel2]

/-! ## soft-float results are 32-bit patterns -/

theorem clampInf_le (b : Nat) : clampInf b ≤ 0x7f800000 := by
  unfold clampInf; by_cases h : 0x7f800000 ≤ b
  · rw [if_pos h]; omega
  · rw [if_neg h]; omega

theorem roundPos_le (n d : Nat) : roundPos n d ≤ 0x7f800000 := by
  unfold roundPos; exact clampInf_le _

theorem signed_lt {s : Bool} {m : Nat} (h : m ≤ 0x7f800000) : signed s m < two32 := by
  unfold signed two32; cases s <;> simp <;> omega

theorem roundDyadic_lt (s : Bool) (m : Nat) (e : Int) : roundDyadic s m e < two32 := by
  unfold roundDyadic
  apply signed_lt
  by_cases h : 0 ≤ e
  · rw [if_pos h]; exact roundPos_le _ _
  · rw [if_neg h]; exact roundPos_le _ _

theorem sumResult_lt (s : Int) (sa sb : Bool) (e : Int) : sumResult s sa sb e < two32 := by
  unfold sumResult
  by_cases h : s = 0
  · rw [if_pos h]; cases sa <;> cases sb <;> decide
  · rw [if_neg h]; exact roundDyadic_lt _ _ _

theorem dyadicResult_lt (neg : Bool) (m : Nat) (e : Int) : dyadicResult neg m e < two32 := by
  unfold dyadicResult
  by_cases h : m = 0
  · rw [if_pos h]; exact signed_lt (by decide)
  · rw [if_neg h]; exact roundDyadic_lt _ _ _

theorem divResult_lt (neg : Bool) (ma : Nat) (ea : Int) (mb : Nat) (eb : Int) :
    divResult neg ma ea mb eb < two32 := by
  unfold divResult
  by_cases h : mb = 0
  · rw [if_pos h]
    by_cases h' : ma = 0
    · rw [if_pos h']; decide
    · rw [if_neg h']; exact signed_lt (by decide)
  · rw [if_neg h]
    by_cases h' : ma = 0
    · rw [if_pos h']; exact signed_lt (by decide)
    · rw [if_neg h']; exact signed_lt (roundPos_le _ _)

theorem fadd_lt (a b : Nat) : fadd a b < two32 := by
  unfold fadd
  split <;> try (first | (exact (by decide : canonNaN < two32)) | (exact signed_lt (by decide)) | (exact sumResult_lt _ _ _ _))
  · rename_i sa sb _ _
    by_cases h : sa = sb
    · rw [if_pos h]; exact signed_lt (by decide)
    · rw [if_neg h]; decide

theorem fsub_lt (a b : Nat) : fsub a b < two32 := fadd_lt _ _

theorem fmul_lt (a b : Nat) : fmul a b < two32 := by
  unfold fmul
  split <;> try (first | (exact (by decide : canonNaN < two32)) | (exact signed_lt (by decide)) | (exact dyadicResult_lt _ _ _))
  · rename_i mb _ _ _
    by_cases h : mb = 0
    · rw [if_pos h]; decide
    · rw [if_neg h]; exact signed_lt (by decide)
  · rename_i ma _ _ _ _
    by_cases h : ma = 0
    · rw [if_pos h]; decide
    · rw [if_neg h]; exact signed_lt (by decide)

theorem fdiv_lt (a b : Nat) : fdiv a b < two32 := by
  unfold fdiv
  split <;> first | (exact (by decide : canonNaN < two32)) | (exact signed_lt (by decide)) | (exact divResult_lt _ _ _ _ _)

theorem rawOp_lt (op : RawOp) {a b : Nat} (ha : a < two32) : rawOp op a b < two32 := by
  cases op
  · exact fadd_lt _ _
  · exact fsub_lt _ _
  · exact fmul_lt _ _
  · exact fdiv_lt _ _
  · exact negBits_lt ha

end EchoVerif.Math
