/-
  C03: one radix pass (histogram, exclusive prefix sums, scatter into an array) is the stable
  bucket concatenation.
-/
import EchoVerif.Lemmas.Radix

set_option linter.unusedSimpArgs false
set_option linter.unusedVariables false

namespace EchoVerif.Sched
open EchoVerif

section
variable (d : Thin → Nat)

def bucket (src : List Thin) (b : Nat) : List Thin := src.filter (fun r => d r == b)
def cnt (src : List Thin) (b : Nat) : Nat := (bucket d src b).length
def pre (src : List Thin) (m : Nat) : List Thin := (List.range m).flatMap (bucket d src)
def start (src : List Thin) (m : Nat) : Nat := (pre d src m).length

theorem bucketConcat_eq_pre (src : List Thin) : bucketConcat d src = pre d src B := rfl

theorem pre_succ (src : List Thin) (m : Nat) : pre d src (m + 1) = pre d src m ++ bucket d src m := by
  unfold pre; rw [List.range_succ, List.flatMap_append]; simp

theorem start_succ (src : List Thin) (m : Nat) : start d src (m + 1) = start d src m + cnt d src m := by
  unfold start cnt; rw [pre_succ, List.length_append]

theorem start_mono (src : List Thin) {m m' : Nat} (h : m ≤ m') : start d src m ≤ start d src m' := by
  induction h with
  | refl => exact Nat.le_refl _
  | step _ ih => rw [start_succ]; omega

theorem start_B (src : List Thin) (hd : ∀ r ∈ src, d r < B) : start d src B = src.length := by
  unfold start; rw [← bucketConcat_eq_pre]; exact (bucketConcat_perm d src hd).length_eq

theorem start_eq_sum (src : List Thin) (m : Nat) :
    start d src m = ((List.range m).map (cnt d src)).sum := by
  induction m with
  | zero => rfl
  | succ m ih => rw [start_succ, ih, List.range_succ, List.map_append, List.sum_append]; simp

theorem bucket_append (l1 l2 : List Thin) (b : Nat) :
    bucket d (l1 ++ l2) b = bucket d l1 b ++ bucket d l2 b := by
  unfold bucket; rw [List.filter_append]

theorem cnt_append (l1 l2 : List Thin) (b : Nat) : cnt d (l1 ++ l2) b = cnt d l1 b + cnt d l2 b := by
  unfold cnt; rw [bucket_append, List.length_append]

theorem cnt_single (r : Thin) (b : Nat) : cnt d [r] b = if d r = b then 1 else 0 := by
  unfold cnt bucket; by_cases h : d r = b <;> simp [List.filter_cons, h]

theorem bucket_snoc (l : List Thin) (r : Thin) (b : Nat) :
    bucket d (l ++ [r]) b = if d r = b then bucket d l b ++ [r] else bucket d l b := by
  rw [bucket_append]; unfold bucket; by_cases h : d r = b <;> simp [List.filter_cons, h]

/-! ### histogram -/

theorem hist_fold (src : List Thin) : ∀ (c : Array Nat) (b : Nat),
    (src.foldl (fun c r => c.modify (d r) (· + 1)) c)[b]? = c[b]?.map (· + cnt d src b) := by
  induction src with
  | nil => intro c b; simp [cnt, bucket]
  | cons r rs ih =>
    intro c b
    rw [List.foldl_cons, ih, Array.getElem?_modify]
    have hc : cnt d (r :: rs) b = (if d r = b then 1 else 0) + cnt d rs b := by
      have := cnt_append d [r] rs b
      rw [cnt_single] at this; simpa using this
    rw [hc]
    by_cases h : d r = b
    · simp only [h, if_true]
      cases c[b]? with
      | none => rfl
      | some v => simp only [Option.map_some]; congr 1; omega
    · simp only [h, if_false]
      cases c[b]? with
      | none => rfl
      | some v => simp

theorem histogram_get (src : List Thin) (b : Nat) :
    (histogram d src)[b]? = if b < B then some (cnt d src b) else none := by
  unfold histogram
  rw [hist_fold, Array.getElem?_replicate]
  by_cases h : b < B <;> simp [h]

/-! ### prefix sums -/

def scanStep (acc : Array Nat × Nat) (t : Nat) : Array Nat × Nat := (acc.1.push acc.2, acc.2 + t)

theorem scan_get : ∀ (ts : List Nat) (out : Array Nat) (sum : Nat) (j : Nat),
    ((ts.foldl scanStep (out, sum)).1)[j]? =
      if j < out.size then out[j]?
      else if j < out.size + ts.length then some (sum + (ts.take (j - out.size)).sum) else none := by
  intro ts
  induction ts with
  | nil =>
    intro out sum j
    by_cases h : j < out.size
    · simp [h]
    · simp only [List.foldl_nil, h, if_false, List.length_nil, Nat.add_zero]
      exact Array.getElem?_eq_none (by omega)
  | cons t ts ih =>
    intro out sum j
    rw [List.foldl_cons]
    show ((ts.foldl scanStep (out.push sum, sum + t)).1)[j]? = _
    rw [ih, Array.size_push, Array.getElem?_push]
    by_cases h1 : j < out.size
    · have : j ≠ out.size := by omega
      simp [h1, this, show j < out.size + 1 by omega]
    · by_cases h2 : j = out.size
      · subst h2; simp
      · have h3 : ¬ j < out.size + 1 := by omega
        simp only [h1, h3, if_false, List.length_cons]
        by_cases h4 : j < out.size + 1 + ts.length
        · have h5 : j < out.size + (ts.length + 1) := by omega
          simp only [h4, h5, if_true]
          have : j - out.size = (j - (out.size + 1)) + 1 := by omega
          rw [this, List.take_succ_cons, List.sum_cons]
          congr 1; omega
        · have h5 : ¬ j < out.size + (ts.length + 1) := by omega
          simp [h4, h5]

theorem prefixSums_get (src : List Thin) (b : Nat) (hb : b < B) :
    (prefixSums (histogram d src))[b]? = some (start d src b) := by
  have hl : (histogram d src).toList = (List.range B).map (cnt d src) := by
    apply List.ext_getElem?
    intro i
    rw [Array.getElem?_toList, histogram_get, List.getElem?_map]
    by_cases h : i < B
    · rw [List.getElem?_range h]; simp [h]
    · rw [List.getElem?_eq_none (by simp; omega)]; simp [h]
  unfold prefixSums
  have : (histogram d src).foldl (fun (acc : Array Nat × Nat) t => (acc.1.push acc.2, acc.2 + t)) (#[], 0)
      = (histogram d src).toList.foldl scanStep (#[], 0) := by
    rw [Array.foldl_toList]; rfl
  rw [this, scan_get, hl]
  simp only [Array.size_empty, Nat.not_lt_zero, if_false, List.length_map, List.length_range,
    Nat.zero_add, hb, if_true, Nat.sub_zero]
  rw [← List.map_take, List.take_range, Nat.min_eq_left (Nat.le_of_lt hb), start_eq_sum]

/-! ### scatter -/

/-- Loop invariant of the scatter phase after the prefix `done` of `src` has been placed. -/
structure SInv (src done : List Thin) (st : Array Nat × Array Thin) : Prop where
  counts : ∀ b, b < B → st.1[b]? = some (start d src b + cnt d done b)
  size : st.2.size = src.length
  placed : ∀ b, b < B → ∀ j, j < cnt d done b →
    st.2[start d src b + j]? = (bucket d done b)[j]?

theorem scatterStep_inv (src done rest : List Thin) (r : Thin) (hsrc : src = done ++ r :: rest)
    (hd : ∀ x ∈ src, d x < B) (st : Array Nat × Array Thin) (h : SInv d src done st) :
    ∃ st', scatterStep d st r = some st' ∧ SInv d src (done ++ [r]) st' := by
  have hb0 : d r < B := hd r (by rw [hsrc]; simp)
  have hcnt : cnt d src (d r) = cnt d done (d r) + 1 + cnt d rest (d r) := by
    rw [hsrc, cnt_append, show r :: rest = [r] ++ rest from rfl, cnt_append, cnt_single]; simp; omega
  have hle : ∀ b, cnt d done b ≤ cnt d src b := by
    intro b; rw [hsrc, cnt_append]; omega
  have hend : ∀ b, b < B → start d src b + cnt d src b ≤ src.length := by
    intro b hb
    rw [← start_succ, ← start_B d src hd]; exact start_mono d src (by omega)
  have hidx : start d src (d r) + cnt d done (d r) < src.length := by
    have := hend (d r) hb0; omega
  refine ⟨(st.1.setIfInBounds (d r) (start d src (d r) + cnt d done (d r) + 1),
           st.2.setIfInBounds (start d src (d r) + cnt d done (d r)) r), ?_, ?_⟩
  · unfold scatterStep
    rw [h.counts (d r) hb0]
    simp only [h.size, hidx, if_true]
  · have hsz1 : d r < st.1.size := by
      have := h.counts (d r) hb0
      exact (Array.getElem?_eq_some_iff.1 this).1
    constructor
    · intro b hb
      simp only
      rw [Array.getElem?_setIfInBounds, cnt_append, cnt_single]
      by_cases hbb : d r = b
      · subst hbb; simp [hsz1]; omega
      · simp only [hbb, if_false, Nat.add_zero]; exact h.counts b hb
    · simp only [Array.size_setIfInBounds]; exact h.size
    · intro b hb j hj
      simp only
      rw [Array.getElem?_setIfInBounds, bucket_snoc]
      rw [cnt_append, cnt_single] at hj
      by_cases hbb : d r = b
      · subst hbb
        simp only [if_true] at hj ⊢
        by_cases hjj : j = cnt d done (d r)
        · subst hjj
          have : start d src (d r) + cnt d done (d r) < st.2.size := by rw [h.size]; exact hidx
          simp only [if_true, this]
          unfold cnt; simp
        · have hne : ¬ (start d src (d r) + cnt d done (d r) = start d src (d r) + j) := by omega
          simp only [hne, if_false]
          have hj' : j < cnt d done (d r) := by omega
          rw [h.placed (d r) hb j hj', List.getElem?_append_left (by unfold cnt at hj'; exact hj')]
      · simp only [hbb, if_false, Nat.add_zero] at hj ⊢
        have hne : ¬ (start d src (d r) + cnt d done (d r) = start d src b + j) := by
          rcases Nat.lt_or_gt_of_ne hbb with hlt | hgt
          · -- d r < b
            have h1 : start d src (d r + 1) ≤ start d src b := start_mono d src hlt
            rw [start_succ] at h1; omega
          · -- b < d r
            have h1 : start d src (b + 1) ≤ start d src (d r) := start_mono d src hgt
            rw [start_succ] at h1
            have := hle b; omega
        simp only [hne, if_false]
        exact h.placed b hb j hj

theorem scatter_inv (src : List Thin) (hd : ∀ x ∈ src, d x < B) : ∀ (rest done : List Thin)
    (st : Array Nat × Array Thin), src = done ++ rest → SInv d src done st →
    ∃ st', scatter d rest st = some st' ∧ SInv d src src st' := by
  intro rest
  induction rest with
  | nil => intro done st hsrc h; simp at hsrc; subst hsrc; exact ⟨st, rfl, h⟩
  | cons r rest ih =>
    intro done st hsrc h
    obtain ⟨st1, h1, h2⟩ := scatterStep_inv d src done rest r hsrc hd st h
    obtain ⟨st', h3, h4⟩ := ih (done ++ [r]) st1 (by rw [hsrc]; simp) h2
    exact ⟨st', by simp only [scatter, h1]; exact h3, h4⟩

theorem placed_all (src : List Thin) (hd : ∀ x ∈ src, d x < B) (st : Array Nat × Array Thin)
    (h : SInv d src src st) : st.2.toList = pre d src B := by
  have key : ∀ m, m ≤ B → ∀ p, p < start d src m → st.2[p]? = (pre d src m)[p]? := by
    intro m
    induction m with
    | zero => intro _ p hp; simp [start, pre] at hp
    | succ m ih =>
      intro hm p hp
      rw [pre_succ]
      by_cases hlt : p < start d src m
      · rw [ih (by omega) p hlt, List.getElem?_append_left (by unfold start at hlt; exact hlt)]
      · rw [start_succ] at hp
        have hp' : p = start d src m + (p - start d src m) := by omega
        rw [hp', h.placed m (by omega) (p - start d src m) (by omega)]
        rw [List.getElem?_append_right (by unfold start; omega)]
        congr 1; unfold start; omega
  apply List.ext_getElem?
  intro p
  rw [Array.getElem?_toList]
  by_cases hp : p < start d src B
  · exact key B (Nat.le_refl _) p hp
  · have h1 : st.2.size ≤ p := by rw [h.size, ← start_B d src hd]; omega
    have h2 : (pre d src B).length ≤ p := by unfold start at hp; omega
    rw [Array.getElem?_eq_none h1, List.getElem?_eq_none h2]

end

/-- **counting_pass_stable** (helper form): histogram + exclusive prefix sums + scatter equals the
    stable bucket concatenation, and never indexes out of bounds. -/
theorem countingPass_eq (d : Thin → Nat) (src : List Thin) (hd : ∀ r ∈ src, d r < B) :
    countingPass d src = some (bucketConcat d src) := by
  have h0 : SInv d src [] (prefixSums (histogram d src), Array.replicate src.length Thin.zero) := by
    constructor
    · intro b hb; simp only; rw [prefixSums_get d src b hb]; simp [cnt, bucket]
    · simp
    · intro b _ j hj; simp [cnt, bucket] at hj
  obtain ⟨st', h1, h2⟩ := scatter_inv d src hd src [] _ (by simp) h0
  unfold countingPass
  rw [h1]
  simp only
  rw [placed_all d src hd st' h2, bucketConcat_eq_pre]

theorem passOK : PassOK := countingPass_eq

end EchoVerif.Sched
