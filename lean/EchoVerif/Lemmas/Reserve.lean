/-
  Lemmas for C03 (reservation / conflict predicates): marked sets are the union of the accepted
  footprints; table-level and footprint-level readings of the three predicates.
-/
import EchoVerif.Model.Sched

set_option linter.unusedSimpArgs false
set_option linter.unusedVariables false

namespace EchoVerif.Sched
open EchoVerif EchoVerif.Footprint

theorem intersects_iff {a b : List Res} : intersects a b = true ↔ ∃ k, k ∈ a ∧ k ∈ b := by
  simp [intersects, List.any_eq_true]

theorem intersects_comm (a b : List Res) : intersects a b = intersects b a := by
  rw [Bool.eq_iff_iff, intersects_iff, intersects_iff]
  constructor <;> (rintro ⟨k, h1, h2⟩; exact ⟨k, h2, h1⟩)

theorem mem_add {act : Active} {m m' : MSet} {ks : List Res} {k : Res} :
    k ∈ (Active.add act m ks).get m' ↔ (m' = m ∧ k ∈ ks) ∨ k ∈ act.get m' := by
  cases m <;> cases m' <;> simp [Active.add, Active.get]

theorem mem_markAll {tbl : HasTable} {c : Footprint} {k : Res} {m : MSet} : ∀ {act : Active},
    k ∈ (markAll tbl act c).get m ↔ k ∈ act.get m ∨ ∃ s, (s, m) ∈ tbl ∧ k ∈ c.get s := by
  unfold markAll
  induction tbl with
  | nil => intro act; simp
  | cons sm rest ih =>
    intro act
    simp only [List.foldl_cons]
    rw [ih, mem_add]
    obtain ⟨s0, m0⟩ := sm
    constructor
    · rintro (⟨⟨rfl, hk⟩ | hk⟩ | ⟨s, hs, hk⟩)
      · exact Or.inr ⟨s0, List.mem_cons_self, hk⟩
      · exact Or.inl hk
      · exact Or.inr ⟨s, List.mem_cons_of_mem _ hs, hk⟩
    · rintro (hk | ⟨s, hs, hk⟩)
      · exact Or.inl (Or.inr hk)
      · rcases List.mem_cons.1 hs with h | h
        · injection h with h1 h2; subst h1; subst h2
          exact Or.inl (Or.inl ⟨rfl, hk⟩)
        · exact Or.inr ⟨s, h, hk⟩

/-- Table-level relation of `has_conflict` composed with `mark_all`: candidate set `s` is checked
    against a marked set into which the prior's set `t` was marked. -/
def hmRel (has mark : HasTable) (s t : FSet) : Bool :=
  has.any (fun sm => sm.1 == s && mark.any (fun tn => tn.1 == t && tn.2 == sm.2))

/-- Table-level relation of a two-footprint predicate `P(c, a)`: `c.s` is intersected with `a.t`
    (rows written `a.t ∩ c.s` count as well — `intersects` is symmetric). -/
def pairRel (tbl : PairTable) (s t : FSet) : Bool :=
  tbl.any (fun r => (r.1 == .a && r.2.1 == s && r.2.2.1 == .b && r.2.2.2 == t)
                 || (r.1 == .b && r.2.1 == t && r.2.2.1 == .a && r.2.2.2 == s))

/-- no row compares a footprint with itself -/
def pairTableWf (tbl : PairTable) : Bool := tbl.all (fun r => r.1 != r.2.2.1)

/-- Footprint-level reading of a table-level relation. -/
def relSem (rel : FSet → FSet → Bool) (c a : Footprint) : Prop :=
  ∃ s t, rel s t = true ∧ intersects (c.get s) (a.get t) = true

theorem pairConflict_iff {tbl : PairTable} (hwf : pairTableWf tbl = true) (c a : Footprint) :
    pairConflict tbl c a = true ↔ relSem (pairRel tbl) c a := by
  unfold pairConflict relSem pairRel
  simp only [List.any_eq_true, pairTableWf, List.all_eq_true] at *
  constructor
  · rintro ⟨⟨x, s, y, t⟩, hr, hi⟩
    have hne := hwf _ hr
    cases x <;> cases y <;> simp at hne
    · exact ⟨s, t, ⟨(Side.a, s, Side.b, t), hr, by simp⟩, by simpa [pick] using hi⟩
    · refine ⟨t, s, ⟨(Side.b, s, Side.a, t), hr, by simp⟩, ?_⟩
      rw [intersects_comm]; simpa [pick] using hi
  · rintro ⟨s, t, ⟨⟨x, s', y, t'⟩, hr, hrow⟩, hi⟩
    refine ⟨_, hr, ?_⟩
    simp only [Bool.or_eq_true, Bool.and_eq_true, beq_iff_eq] at hrow
    rcases hrow with ⟨⟨⟨hx, hs⟩, hy⟩, ht⟩ | ⟨⟨⟨hx, hs⟩, hy⟩, ht⟩
    · subst hx hs hy ht; simpa [pick] using hi
    · subst hx hs hy ht
      rw [intersects_comm]; simpa [pick] using hi

/-- The marked sets are exactly the union of the accepted footprints (through `mark`). -/
def MarkedInv (mark : HasTable) (act : Active) (acc : List Footprint) : Prop :=
  ∀ m k, k ∈ act.get m ↔ ∃ a ∈ acc, ∃ s, (s, m) ∈ mark ∧ k ∈ a.get s

theorem markedInv_empty (mark : HasTable) : MarkedInv mark Active.empty [] := by
  intro m k; cases m <;> simp [Active.empty, Active.get]

theorem markedInv_mark {mark : HasTable} {act : Active} {acc : List Footprint} (c : Footprint)
    (h : MarkedInv mark act acc) : MarkedInv mark (markAll mark act c) (acc ++ [c]) := by
  intro m k
  rw [mem_markAll, h m k]
  constructor
  · rintro (⟨a, ha, s, hs, hk⟩ | ⟨s, hs, hk⟩)
    · exact ⟨a, List.mem_append_left _ ha, s, hs, hk⟩
    · exact ⟨c, by simp, s, hs, hk⟩
  · rintro ⟨a, ha, s, hs, hk⟩
    rcases List.mem_append.1 ha with ha | ha
    · exact Or.inl ⟨a, ha, s, hs, hk⟩
    · simp at ha; subst ha; exact Or.inr ⟨s, hs, hk⟩

theorem hasConflict_iff {has mark : HasTable} {act : Active} {acc : List Footprint}
    (h : MarkedInv mark act acc) (c : Footprint) :
    hasConflict has act c = true ↔ ∃ a ∈ acc, relSem (hmRel has mark) c a := by
  unfold hasConflict relSem hmRel
  simp only [List.any_eq_true, intersects_iff, Bool.and_eq_true, beq_iff_eq]
  constructor
  · rintro ⟨⟨s, m⟩, hsm, k, hk1, hk2⟩
    obtain ⟨a, ha, t, ht, hk3⟩ := (h m k).1 hk2
    exact ⟨a, ha, s, t, ⟨(s, m), hsm, rfl, (t, m), ht, rfl, rfl⟩, k, hk1, hk3⟩
  · rintro ⟨a, ha, s, t, ⟨⟨s', m⟩, hsm, hs, ⟨t', m'⟩, ht, ht1, hm⟩, k, hk1, hk3⟩
    simp only at hs ht1 hm; subst hs ht1 hm
    exact ⟨(s', m'), hsm, k, hk1, (h m' k).2 ⟨a, ha, t', ht, hk3⟩⟩

/-- `greedy` only looks at the predicate on (candidate, accepted) pairs. -/
theorem greedy_congr {f g : Footprint → Footprint → Bool} : ∀ (cs acc : List Footprint),
    (∀ c ∈ cs, ∀ a, a ∈ acc ∨ a ∈ cs → f c a = g c a) → greedy f acc cs = greedy g acc cs := by
  intro cs
  induction cs with
  | nil => intros; rfl
  | cons c cs ih =>
    intro acc h
    have hall : (acc.all fun a => !f c a) = (acc.all fun a => !g c a) := by
      rw [Bool.eq_iff_iff, List.all_eq_true, List.all_eq_true]
      constructor
      · intro hh a ha; rw [← h c List.mem_cons_self a (Or.inl ha)]; exact hh a ha
      · intro hh a ha; rw [h c List.mem_cons_self a (Or.inl ha)]; exact hh a ha
    simp only [greedy, hall]
    split
    · congr 1
      apply ih
      intro c' hc' a ha
      apply h c' (List.mem_cons_of_mem _ hc') a
      rcases ha with ha | ha
      · rcases List.mem_append.1 ha with ha | ha
        · exact Or.inl ha
        · simp at ha; subst ha; exact Or.inr List.mem_cons_self
      · exact Or.inr (List.mem_cons_of_mem _ ha)
    · congr 1
      apply ih
      intro c' hc' a ha
      apply h c' (List.mem_cons_of_mem _ hc') a
      rcases ha with ha | ha
      · exact Or.inl ha
      · exact Or.inr (List.mem_cons_of_mem _ ha)

end EchoVerif.Sched

namespace EchoVerif.Sched
open EchoVerif EchoVerif.Footprint

theorem FSet.mem_all (s : FSet) : s ∈ FSet.all := by cases s <;> simp [FSet.all]

/-- Boolean form of `relSem`. -/
def relB (rel : FSet → FSet → Bool) (c a : Footprint) : Bool :=
  FSet.all.any (fun s => FSet.all.any (fun t => rel s t && intersects (c.get s) (a.get t)))

theorem relB_iff {rel : FSet → FSet → Bool} {c a : Footprint} :
    relB rel c a = true ↔ relSem rel c a := by
  unfold relB relSem
  simp only [List.any_eq_true, Bool.and_eq_true]
  constructor
  · rintro ⟨s, _, t, _, h1, h2⟩; exact ⟨s, t, h1, h2⟩
  · rintro ⟨s, t, h1, h2⟩; exact ⟨s, FSet.mem_all s, t, FSet.mem_all t, h1, h2⟩

theorem relB_congr {r1 r2 : FSet → FSet → Bool} (h : ∀ s t, r1 s t = r2 s t) (c a : Footprint) :
    relB r1 c a = relB r2 c a := by
  have : r1 = r2 := funext fun s => funext fun t => h s t
  rw [this]

theorem pairConflict_eq_relB {tbl : PairTable} (hwf : pairTableWf tbl = true) (c a : Footprint) :
    pairConflict tbl c a = relB (pairRel tbl) c a := by
  rw [Bool.eq_iff_iff, pairConflict_iff hwf, relB_iff]

theorem relB_symm {rel : FSet → FSet → Bool} (hs : ∀ s t, rel s t = rel t s) (c a : Footprint) :
    relB rel c a = relB rel a c := by
  rw [Bool.eq_iff_iff, relB_iff, relB_iff]
  constructor <;>
  · rintro ⟨s, t, h1, h2⟩
    exact ⟨t, s, by rw [hs]; exact h1, by rw [intersects_comm]; exact h2⟩

theorem noConflict_eq {has mark : HasTable} {act : Active} {acc : List Footprint}
    (h : MarkedInv mark act acc) (c : Footprint) :
    (acc.all fun a => !relB (hmRel has mark) c a) = !hasConflict has act c := by
  rw [Bool.eq_iff_iff]
  simp only [List.all_eq_true, Bool.not_eq_true', Bool.not_eq_eq_eq_not, Bool.not_true]
  constructor
  · intro hh
    cases hc : hasConflict has act c with
    | false => rfl
    | true =>
      obtain ⟨a, ha, hr⟩ := (hasConflict_iff h c).1 hc
      have := hh a ha
      rw [relB_iff.2 hr] at this; cases this
  · intro hh a ha
    cases hr : relB (hmRel has mark) c a with
    | false => rfl
    | true =>
      have := (hasConflict_iff h c).2 ⟨a, ha, relB_iff.1 hr⟩
      rw [hh] at this; cases this

/-- The radix scheduler's decisions are the greedy independent set w.r.t. the relation its two
    tables induce — for every marked state that is the union of some accepted list. -/
theorem radix_reserveAll_eq_greedy (cfg : ConflictCfg) : ∀ (cs : List Footprint) (act : Active)
    (acc : List Footprint), MarkedInv cfg.mark act acc →
    reserveAll (radixReserve cfg) act cs = greedy (relB (hmRel cfg.has cfg.mark)) acc cs := by
  intro cs
  induction cs with
  | nil => intros; rfl
  | cons c cs ih =>
    intro act acc h
    simp only [reserveAll, greedy, noConflict_eq h c, radixReserve]
    cases hc : hasConflict cfg.has act c with
    | true => simp [ih act acc h]
    | false => simp [ih _ _ (markedInv_mark c h)]

/-- accepted candidates of a decision list -/
def acceptedOf : List Bool → List Footprint → List Footprint
  | b :: bs, c :: cs => if b then c :: acceptedOf bs cs else acceptedOf bs cs
  | _, _ => []

theorem radix_reserveState_inv (cfg : ConflictCfg) : ∀ (cs : List Footprint) (act : Active)
    (acc : List Footprint), MarkedInv cfg.mark act acc →
    MarkedInv cfg.mark (reserveState (radixReserve cfg) act cs)
      (acc ++ acceptedOf (reserveAll (radixReserve cfg) act cs) cs) := by
  intro cs
  induction cs with
  | nil => intro act acc h; simpa [reserveState, reserveAll, acceptedOf] using h
  | cons c cs ih =>
    intro act acc h
    simp only [reserveState, reserveAll, acceptedOf, radixReserve]
    cases hc : hasConflict cfg.has act c with
    | true => simpa using ih act acc h
    | false =>
      have := ih _ _ (markedInv_mark c h)
      simpa [List.append_assoc] using this

theorem legacy_reserveAll_eq_greedy (cfg : ConflictCfg) : ∀ (cs fr : List Footprint),
    reserveAll (legacyReserve cfg) fr cs
      = greedy (fun c a => !independent cfg.indepMask cfg.indep c a) fr cs := by
  intro cs
  induction cs with
  | nil => intros; rfl
  | cons c cs ih =>
    intro fr
    simp only [reserveAll, greedy, legacyReserve, Bool.not_not]
    split <;> simp [ih]

/-! ### receipts -/

theorem exists_of_not_all_not {α : Type} {f : α → Bool} : ∀ {l : List α},
    ¬ (l.all (fun a => !f a) = true) → ∃ a ∈ l, f a = true
  | [], h => by simp at h
  | x :: xs, h => by
    cases hx : f x with
    | true => exact ⟨x, List.mem_cons_self, hx⟩
    | false =>
      have h' : ¬ (xs.all (fun a => !f a) = true) := by
        intro hh; apply h; simp [List.all_cons, hx, hh]
      obtain ⟨a, ha, hfa⟩ := exists_of_not_all_not h'
      exact ⟨a, List.mem_cons_of_mem _ ha, hfa⟩

theorem blockers_nonempty {α β : Type} {f : α → Bool} {g : α → β} {l : List α}
    (h : ¬ (l.all (fun a => !f a) = true)) : ((l.filter f).map g).isEmpty = false := by
  obtain ⟨a, ha, hfa⟩ := exists_of_not_all_not h
  have hm : a ∈ l.filter f := List.mem_filter.2 ⟨ha, hfa⟩
  cases hf : l.filter f with
  | nil => rw [hf] at hm; cases hm
  | cons x xs => simp

theorem receiptLoop_eq_greedyRows {σ : Type} (reserve : σ → Footprint → σ × Bool)
    (confl : Footprint → Footprint → Bool) (Inv : σ → List Footprint → Prop)
    (hdec : ∀ s acc c, Inv s acc → (reserve s c).2 = acc.all (fun a => !confl c a))
    (hacc : ∀ s acc c, Inv s acc → (reserve s c).2 = true → Inv (reserve s c).1 (acc ++ [c]))
    (hrej : ∀ s acc c, Inv s acc → (reserve s c).2 = false → Inv (reserve s c).1 acc) :
    ∀ (cs : List Footprint) (s : σ) (reserved : List (Nat × Footprint)) (idx : Nat),
      Inv s (reserved.map (·.2)) →
      receiptLoop reserve confl ⟨s, reserved, idx⟩ cs = some (greedyRows confl reserved idx cs) := by
  intro cs
  induction cs with
  | nil => intros; rfl
  | cons c cs ih =>
    intro s reserved idx hinv
    have hd : (reserve s c).2 = reserved.all (fun a => !confl c a.2) := by
      rw [hdec s _ c hinv, List.all_map]; rfl
    simp only [receiptLoop, greedyRows]
    cases hr : (reserve s c).2 with
    | true =>
      have hinv' := hacc s _ c hinv hr
      rw [hr] at hd
      rw [← hd]
      simp only [if_true]
      rw [ih _ _ _ (by simpa using hinv')]
    | false =>
      have hinv' := hrej s _ c hinv hr
      rw [hr] at hd
      have hne : ((reserved.filter fun p => confl c p.2).map (·.1)).isEmpty = false :=
        blockers_nonempty (by rw [← hd]; simp)
      rw [← hd]
      simp only [hne, Bool.false_eq_true, if_false]
      rw [ih _ _ _ hinv']

/-! ### the built receipt satisfies `try_from_retained_parts` -/

theorem strictlyIncreasing_of_pairwise : ∀ {l : List Nat}, l.Pairwise (· < ·) → strictlyIncreasing l = true
  | [], _ => rfl
  | [_], _ => rfl
  | a :: b :: rest, h => by
    rw [List.pairwise_cons] at h
    simp only [strictlyIncreasing, Bool.and_eq_true, decide_eq_true_eq]
    exact ⟨h.1 b List.mem_cons_self, strictlyIncreasing_of_pairwise h.2⟩

/-- `acc` lists applied entries of `pre`, in increasing index order. -/
def AccOk (pre : List Row) (acc : List (Nat × Footprint)) : Prop :=
  (acc.map (·.1)).Pairwise (· < ·) ∧ ∀ a ∈ acc, ∃ bl, pre[a.1]? = some (true, bl)

theorem greedyRows_wf (confl : Footprint → Footprint → Bool) : ∀ (cs : List Footprint)
    (pre : List Row) (acc : List (Nat × Footprint)), AccOk pre acc →
    rowsWfFrom pre (greedyRows confl acc pre.length cs) = true := by
  intro cs
  induction cs with
  | nil => intros; rfl
  | cons c cs ih =>
    intro pre acc hok
    simp only [greedyRows]
    split
    · -- accepted
      simp only [rowsWfFrom, Bool.and_eq_true]
      refine ⟨by simp [rowOk, strictlyIncreasing], ?_⟩
      have hlen : (pre ++ [((true, []) : Row)]).length = pre.length + 1 := by simp
      rw [← hlen]
      apply ih
      constructor
      · rw [List.map_append, List.pairwise_append]
        refine ⟨hok.1, by simp, ?_⟩
        intro i hi j hj
        simp at hj; subst hj
        obtain ⟨a, ha, rfl⟩ := List.mem_map.1 hi
        obtain ⟨bl, hb⟩ := hok.2 a ha
        have := (List.getElem?_eq_some_iff.1 hb).1
        exact this
      · intro a ha
        rcases List.mem_append.1 ha with ha | ha
        · obtain ⟨bl, hb⟩ := hok.2 a ha
          have hlt := (List.getElem?_eq_some_iff.1 hb).1
          exact ⟨bl, by rw [List.getElem?_append_left hlt]; exact hb⟩
        · simp at ha; subst ha
          exact ⟨[], by simp⟩
    · -- rejected
      rename_i hrej
      simp only [rowsWfFrom, Bool.and_eq_true]
      constructor
      · simp only [rowOk, Bool.and_eq_true, Bool.false_eq_true, if_false]
        refine ⟨⟨?_, ?_⟩, ?_⟩
        · -- some blocker
          have := blockers_nonempty (f := fun p => confl c p.2) (g := fun (p : Nat × Footprint) => p.1) hrej
          simp [this]
        · apply strictlyIncreasing_of_pairwise
          exact hok.1.sublist (List.Sublist.map _ List.filter_sublist)
        · rw [List.all_eq_true]
          intro b hb
          obtain ⟨a, ha, rfl⟩ := List.mem_map.1 hb
          obtain ⟨bl, hbl⟩ := hok.2 a (List.mem_filter.1 ha).1
          rw [hbl]
      · have hlen : (pre ++ [((false, (acc.filter fun a => confl c a.2).map (·.1)) : Row)]).length
            = pre.length + 1 := by simp
        rw [← hlen]
        apply ih
        refine ⟨hok.1, ?_⟩
        intro a ha
        obtain ⟨bl, hb⟩ := hok.2 a ha
        have hlt := (List.getElem?_eq_some_iff.1 hb).1
        exact ⟨bl, by rw [List.getElem?_append_left hlt]; exact hb⟩

end EchoVerif.Sched
