/-
  Lemmas for C03 (sorting): bucket concatenation is a stable pass; LSD radix over digits
  least→most significant sorts by the whole key; `cmp_thin` is the order of the key value;
  a strictly sorted permutation is unique.
-/
import EchoVerif.Model.Sched

set_option linter.unusedSimpArgs false
set_option linter.unusedVariables false

namespace EchoVerif.Sched
open EchoVerif

/-- The whole sort key as one number: 16 scope digits, 2 rule digits, 2 nonce digits (base 65536,
    most significant first). -/
def K (t : Thin) : Nat := (t.scope * 4294967296 + t.rule) * 4294967296 + t.nonce

/-- field widths of `RewriteThin` -/
def Bounded (t : Thin) : Prop := t.scope < 2 ^ 256 ∧ t.rule < 4294967296 ∧ t.nonce < 4294967296

theorem K_lt_iff {a b : Thin} (ha : Bounded a) (hb : Bounded b) :
    K a < K b ↔ a.scope < b.scope ∨ (a.scope = b.scope ∧
      (a.rule < b.rule ∨ (a.rule = b.rule ∧ a.nonce < b.nonce))) := by
  unfold K; obtain ⟨_, h1, h2⟩ := ha; obtain ⟨_, h3, h4⟩ := hb; omega

theorem K_inj {a b : Thin} (ha : Bounded a) (hb : Bounded b) (h : K a = K b) :
    a.scope = b.scope ∧ a.rule = b.rule ∧ a.nonce = b.nonce := by
  unfold K at h; obtain ⟨_, h1, h2⟩ := ha; obtain ⟨_, h3, h4⟩ := hb; omega

theorem K_lt_pow {a : Thin} (ha : Bounded a) : K a < 65536 ^ 20 := by
  unfold K; obtain ⟨h0, h1, h2⟩ := ha
  have e1 : (2:Nat) ^ 256 = 115792089237316195423570985008687907853269984665640564039457584007913129639936 := by decide
  have e2 : (65536:Nat) ^ 20 = 2135987035920910082395021706169552114602704522356652769947041607822219725780640550022962086936576 := by decide
  rw [e2]; rw [e1] at h0; omega

/-- Position (0 = least significant) of a pass's digit inside `K`. -/
def PassSpec.pos : PassSpec → Nat
  | .u32le .nonce idx => idx
  | .u32le .rule idx => 2 + idx
  | .u32le .scope _ => 0
  | .scopeBE pair => 4 + (15 - pair)

theorem digit_eq_pos (p : PassSpec) (hv : p.valid = true) (t : Thin)
    (hr : t.rule < 4294967296) (hn : t.nonce < 4294967296) :
    p.digit t = K t / 65536 ^ p.pos % 65536 := by
  cases p with
  | u32le f idx =>
    simp only [PassSpec.valid, Bool.and_eq_true, bne_iff_ne, ne_eq, decide_eq_true_eq] at hv
    obtain ⟨hf, hidx⟩ := hv
    have : idx = 0 ∨ idx = 1 := by omega
    cases f with
    | scope => exact absurd rfl hf
    | rule =>
      rcases this with rfl | rfl
      · simp only [PassSpec.digit, Thin.field, PassSpec.pos, K]
        have : (65536:Nat) ^ (2 + 0) = 4294967296 := by decide
        rw [this]; simp only [Nat.pow_zero, Nat.div_one]; omega
      · simp only [PassSpec.digit, Thin.field, PassSpec.pos, K]
        have : (65536:Nat) ^ (2 + 1) = 281474976710656 := by decide
        rw [this]; simp only [Nat.pow_one]; omega
    | nonce =>
      rcases this with rfl | rfl
      · simp only [PassSpec.digit, Thin.field, PassSpec.pos, K, Nat.pow_zero, Nat.div_one]; omega
      · simp only [PassSpec.digit, Thin.field, PassSpec.pos, K, Nat.pow_one]; omega
  | scopeBE pair =>
    simp only [PassSpec.digit, PassSpec.pos]
    rw [Nat.pow_add, ← Nat.div_div_eq_div_mul]
    have : K t / 65536 ^ 4 = t.scope := by
      have e : (65536:Nat) ^ 4 = 18446744073709551616 := by decide
      rw [e]; unfold K; omega
    rw [this]

/-! ### one pass -/

theorem filter_or_perm {α : Type} (p q : α → Bool) (hd : ∀ a, ¬ (p a = true ∧ q a = true)) :
    ∀ l : List α, (l.filter p ++ l.filter q).Perm (l.filter fun a => p a || q a)
  | [] => by simp
  | x :: xs => by
    have ih := filter_or_perm p q hd xs
    cases hp : p x <;> cases hq : q x
    · simpa [List.filter_cons, hp, hq] using ih
    · simp only [List.filter_cons, hp, hq, Bool.false_eq_true, if_false, if_true, Bool.or_true]
      exact (List.perm_middle).trans (List.Perm.cons x ih)
    · simp only [List.filter_cons, hp, hq, Bool.false_eq_true, if_false, if_true, Bool.or_false,
        List.cons_append]
      exact List.Perm.cons x ih
    · exact absurd ⟨hp, hq⟩ (hd x)

theorem bucketsUpTo_perm (d : Thin → Nat) (l : List Thin) : ∀ n : Nat,
    ((List.range n).flatMap fun b => l.filter fun r => d r == b).Perm (l.filter fun r => decide (d r < n))
  | 0 => by simp
  | n + 1 => by
    rw [List.range_succ, List.flatMap_append]
    simp only [List.flatMap_cons, List.flatMap_nil, List.append_nil]
    have h1 := (bucketsUpTo_perm d l n).append_right (l.filter fun r => d r == n)
    refine h1.trans ?_
    have h2 := filter_or_perm (fun r => decide (d r < n)) (fun r => d r == n)
      (by intro a ⟨h1, h2⟩; simp at h1 h2; omega) l
    refine h2.trans ?_
    have : (fun r => decide (d r < n) || d r == n) = fun r => decide (d r < n + 1) := by
      funext r
      rw [Bool.eq_iff_iff]; simp; omega
    rw [this]

/-- A pass permutes its input (all digits are below the bucket count). -/
theorem bucketConcat_perm (d : Thin → Nat) (l : List Thin) (hd : ∀ r ∈ l, d r < B) :
    (bucketConcat d l).Perm l := by
  unfold bucketConcat
  refine (bucketsUpTo_perm d l B).trans ?_
  rw [List.filter_eq_self.2]
  intro a ha; simpa using hd a ha

/-- A pass is a *stable* sort by its digit: ordered by digit, and any relation that held between
    an earlier and a later element still holds between elements of the same bucket. -/
theorem bucketConcat_pairwise (d : Thin → Nat) (l : List Thin) (R S : Thin → Thin → Prop)
    (hR : l.Pairwise R)
    (hsame : ∀ a b, d a = d b → R a b → S a b)
    (hlt : ∀ a b, d a < d b → S a b) :
    (bucketConcat d l).Pairwise S := by
  unfold bucketConcat
  rw [List.pairwise_flatMap]
  constructor
  · intro b _
    have := hR.filter (fun r => d r == b)
    refine List.Pairwise.imp_of_mem ?_ this
    intro x y hx hy hxy
    have hx := (List.mem_filter.1 hx).2
    have hy := (List.mem_filter.1 hy).2
    simp at hx hy
    exact hsame x y (by omega) hxy
  · refine List.Pairwise.imp ?_ List.pairwise_lt_range
    intro b1 b2 hb x hx y hy
    have hx := (List.mem_filter.1 hx).2
    have hy := (List.mem_filter.1 hy).2
    simp at hx hy
    exact hlt x y (by omega)

/-- LSD step on a numeric key: sorted by the low `i` digits, then a stable pass on digit `i`,
    gives sorted by the low `i+1` digits. -/
theorem lsd_step (key : Thin → Nat) (d : Thin → Nat) (i : Nat) (l : List Thin)
    (hd : ∀ r ∈ l, d r = key r / 65536 ^ i % 65536)
    (hs : l.Pairwise fun a b => key a % 65536 ^ i ≤ key b % 65536 ^ i) :
    (bucketConcat d l).Pairwise fun a b => key a % 65536 ^ (i + 1) ≤ key b % 65536 ^ (i + 1) := by
  -- carry membership through the relation so that `hd` is usable
  have hs' : l.Pairwise fun a b => (a ∈ l ∧ b ∈ l) ∧ key a % 65536 ^ i ≤ key b % 65536 ^ i := by
    refine List.Pairwise.imp_of_mem ?_ hs
    intro a b ha hb h; exact ⟨⟨ha, hb⟩, h⟩
  have hmem : ∀ x ∈ bucketConcat d l, x ∈ l := by
    intro x hx
    unfold bucketConcat at hx
    obtain ⟨b, _, hb⟩ := List.mem_flatMap.1 hx
    exact (List.mem_filter.1 hb).1
  have key_step : ∀ a b, a ∈ l → b ∈ l →
      (d a = d b → key a % 65536 ^ i ≤ key b % 65536 ^ i →
        key a % 65536 ^ (i + 1) ≤ key b % 65536 ^ (i + 1)) ∧
      (d a < d b → key a % 65536 ^ (i + 1) ≤ key b % 65536 ^ (i + 1)) := by
    intro a b ha hb
    rw [Nat.mod_pow_succ, Nat.mod_pow_succ, ← hd a ha, ← hd b hb]
    constructor
    · intro e h; rw [e]; omega
    · intro h
      have hpos : 0 < 65536 ^ i := Nat.pow_pos (by decide)
      have h1 : key a % 65536 ^ i < 65536 ^ i := Nat.mod_lt _ hpos
      have h2 : 65536 ^ i * (d a + 1) ≤ 65536 ^ i * d b := Nat.mul_le_mul_left _ h
      rw [Nat.mul_add, Nat.mul_one] at h2
      omega
  have := bucketConcat_pairwise d l _
    (fun a b => (a ∈ l ∧ b ∈ l) → key a % 65536 ^ (i + 1) ≤ key b % 65536 ^ (i + 1)) hs'
    (fun a b e h _ => (key_step a b h.1.1 h.1.2).1 e h.2)
    (fun a b h hm => (key_step a b hm.1 hm.2).2 h)
  refine List.Pairwise.imp_of_mem ?_ this
  intro a b ha hb h
  exact h ⟨hmem a ha, hmem b hb⟩

/-! ### uniqueness of the strictly sorted permutation -/

theorem eq_of_perm_of_strict {α : Type} (key : α → Nat) : ∀ {l₁ l₂ : List α}, l₁.Perm l₂ →
    l₁.Pairwise (fun a b => key a < key b) → l₂.Pairwise (fun a b => key a < key b) → l₁ = l₂
  | [], l₂, hp, _, _ => by simpa using hp.symm.eq_nil
  | a :: t₁, [], hp, _, _ => by simpa using hp.eq_nil
  | a :: t₁, b :: t₂, hp, h1, h2 => by
    rw [List.pairwise_cons] at h1 h2
    have hab : a = b := by
      have ha : a ∈ b :: t₂ := hp.mem_iff.1 List.mem_cons_self
      have hb : b ∈ a :: t₁ := hp.mem_iff.2 List.mem_cons_self
      rcases List.mem_cons.1 ha with e | ha'
      · exact e
      · rcases List.mem_cons.1 hb with e | hb'
        · exact e.symm
        · have := h1.1 b hb'; have := h2.1 a ha'; omega
    subst hab
    rw [eq_of_perm_of_strict key hp.cons_inv h1.2 h2.2]

theorem pairwise_and {α : Type} {R S : α → α → Prop} : ∀ {l : List α},
    l.Pairwise R → l.Pairwise S → l.Pairwise fun a b => R a b ∧ S a b
  | [], _, _ => List.Pairwise.nil
  | x :: xs, h1, h2 => by
    rw [List.pairwise_cons] at *
    exact ⟨fun y hy => ⟨h1.1 y hy, h2.1 y hy⟩, pairwise_and h1.2 h2.2⟩

/-! ### `cmp_thin` -/

theorem cmpThin_srn (a b : Thin) :
    cmpThin [.scope, .rule, .nonce] a b =
      if a.scope < b.scope then .lt else if b.scope < a.scope then .gt
      else if a.rule < b.rule then .lt else if b.rule < a.rule then .gt
      else if a.nonce < b.nonce then .lt else if b.nonce < a.nonce then .gt else .eq := by
  have cmp : ∀ x y : Nat, compare x y = if x < y then .lt else if y < x then .gt else .eq := by
    intro x y
    rcases Nat.lt_trichotomy x y with h | h | h
    · rw [Nat.compare_eq_lt.2 h]; simp [h]
    · subst h; rw [Nat.compare_eq_eq.2 rfl]; simp
    · rw [Nat.compare_eq_gt.2 h]; simp [h, Nat.lt_asymm h]
  simp only [cmpThin, Thin.field, cmp]
  by_cases h1 : a.scope < b.scope
  · simp [h1]
  by_cases h2 : b.scope < a.scope
  · simp [h1, h2]
  simp only [h1, h2, if_false]
  by_cases h3 : a.rule < b.rule
  · simp [h3]
  by_cases h4 : b.rule < a.rule
  · simp [h3, h4]
  simp only [h3, h4, if_false]
  by_cases h5 : a.nonce < b.nonce
  · simp [h5]
  by_cases h6 : b.nonce < a.nonce
  · simp [h5, h6]
  simp [h5, h6]

/-- `cmp_thin` is the order of the key value `K`. -/
theorem leThin_iff {a b : Thin} (ha : Bounded a) (hb : Bounded b) :
    leThin [.scope, .rule, .nonce] a b = true ↔ K a ≤ K b := by
  unfold leThin
  rw [cmpThin_srn]
  unfold K; obtain ⟨_, h1, h2⟩ := ha; obtain ⟨_, h3, h4⟩ := hb
  repeat' split
  all_goals simp
  all_goals omega

end EchoVerif.Sched

namespace EchoVerif.Sched
open EchoVerif

/-- "One counting pass is the stable bucket concatenation" (proved as `counting_pass_stable`). -/
def PassOK : Prop := ∀ (d : Thin → Nat) (src : List Thin), (∀ r ∈ src, d r < B) →
  countingPass d src = some (bucketConcat d src)

/-- Layout facts, decidable on the extracted table: pass `i` exists, its helper index is in
    range, and it buckets on digit position `i` of the key (least significant first). -/
def layoutOK (layout : List PassSpec) (n : Nat) : Bool :=
  (List.range n).all fun i =>
    match layout[i]? with
    | some sp => sp.valid && sp.pos == i
    | none => false

theorem PassSpec.digit_lt (p : PassSpec) (t : Thin) : p.digit t < B := by
  cases p <;> simp only [PassSpec.digit, B] <;> exact Nat.mod_lt _ (by decide)

theorem pairwise_of_forall {α : Type} {R : α → α → Prop} (h : ∀ a b, R a b) : ∀ l : List α, l.Pairwise R
  | [] => List.Pairwise.nil
  | x :: xs => List.pairwise_cons.2 ⟨fun y _ => h x y, pairwise_of_forall h xs⟩

theorem radixPasses_sorted (hp : PassOK) (layout : List PassSpec) (n : Nat)
    (hl : layoutOK layout n = true) : ∀ (k i : Nat), i + k ≤ n → ∀ l : List Thin,
    (∀ r ∈ l, Bounded r) → l.Pairwise (fun a b => K a % 65536 ^ i ≤ K b % 65536 ^ i) →
    ∃ l', radixPasses layout (List.range' i k) l = some l' ∧ l'.Perm l ∧
      l'.Pairwise (fun a b => K a % 65536 ^ (i + k) ≤ K b % 65536 ^ (i + k)) := by
  intro k
  induction k with
  | zero => intro i _ l _ hs; exact ⟨l, rfl, List.Perm.refl _, hs⟩
  | succ k ih =>
    intro i hik l hb hs
    rw [List.range'_succ]
    have hi : i < n := by omega
    have hli := (List.all_eq_true.1 hl) i (List.mem_range.2 hi)
    cases hsp : layout[i]? with
    | none => rw [hsp] at hli; cases hli
    | some sp =>
      rw [hsp] at hli
      simp only [Bool.and_eq_true, beq_iff_eq] at hli
      obtain ⟨hv, hpos⟩ := hli
      have hdig : ∀ r ∈ l, sp.digit r = K r / 65536 ^ i % 65536 := by
        intro r hr; rw [digit_eq_pos sp hv r (hb r hr).2.1 (hb r hr).2.2, hpos]
      have hc := hp sp.digit l (fun r _ => sp.digit_lt r)
      have hperm := bucketConcat_perm sp.digit l (fun r _ => sp.digit_lt r)
      have hs1 := lsd_step K sp.digit i l hdig hs
      obtain ⟨l', h1, h2, h3⟩ := ih (i + 1) (by omega) (bucketConcat sp.digit l)
        (fun r hr => hb r (hperm.mem_iff.1 hr)) hs1
      refine ⟨l', ?_, h2.trans hperm, ?_⟩
      · simp only [radixPasses, hsp, hv, if_true, hc]; exact h1
      · have : i + 1 + k = i + (k + 1) := by omega
        rw [← this]; exact h3

/-- LSD radix sort with a layout that passes `layoutOK … 20`: a permutation, ascending in `K`. -/
theorem radixSort_sorted (hp : PassOK) (layout : List PassSpec) (hl : layoutOK layout 20 = true)
    (l : List Thin) (hb : ∀ r ∈ l, Bounded r) :
    ∃ l', radixSort layout 20 l = some l' ∧ l'.Perm l ∧ l'.Pairwise (fun a b => K a ≤ K b) := by
  unfold radixSort
  split
  · rename_i h
    refine ⟨l, rfl, List.Perm.refl _, ?_⟩
    match l, h with
    | [], _ => exact List.Pairwise.nil
    | [x], _ => exact List.pairwise_singleton _ _
    | _ :: _ :: _, h => simp at h
  · obtain ⟨l', h1, h2, h3⟩ := radixPasses_sorted hp layout 20 hl 20 0 (by omega) l hb
      (pairwise_of_forall (fun a b => by simp [Nat.mod_one]) l)
    rw [List.range_eq_range']
    refine ⟨l', h1, h2, ?_⟩
    refine List.Pairwise.imp_of_mem ?_ h3
    intro a b ha hb' h
    have ha := K_lt_pow (hb a (h2.mem_iff.1 ha))
    have hb'' := K_lt_pow (hb b (h2.mem_iff.1 hb'))
    simp only [Nat.zero_add] at h
    rwa [Nat.mod_eq_of_lt ha, Nat.mod_eq_of_lt hb''] at h

/-- The comparison sort: a permutation, ascending in `K`. -/
theorem smallSort_sorted (l : List Thin) (hb : ∀ r ∈ l, Bounded r) :
    (smallSort [.scope, .rule, .nonce] l).Perm l ∧
    (smallSort [.scope, .rule, .nonce] l).Pairwise (fun a b => K a ≤ K b) := by
  unfold smallSort
  refine ⟨List.mergeSort_perm _ _, ?_⟩
  -- mergeSort needs a total preorder on *all* of `Thin`; restrict to the bounded elements of `l`
  -- by sorting the subtype-free way: use the order `K`-comparison extended by boundedness
  have key : ∀ a b : Thin, leThin [.scope, .rule, .nonce] a b = true ↔
      (a.scope < b.scope ∨ (a.scope = b.scope ∧ (a.rule < b.rule ∨ (a.rule = b.rule ∧ a.nonce ≤ b.nonce)))) := by
    intro a b
    unfold leThin; rw [cmpThin_srn]
    repeat' split
    all_goals simp
    all_goals omega
  have htrans : ∀ a b c : Thin, leThin [.scope, .rule, .nonce] a b = true →
      leThin [.scope, .rule, .nonce] b c = true → leThin [.scope, .rule, .nonce] a c = true := by
    intro a b c; rw [key, key, key]; omega
  have htotal : ∀ a b : Thin, (leThin [.scope, .rule, .nonce] a b || leThin [.scope, .rule, .nonce] b a) = true := by
    intro a b; rw [Bool.or_eq_true, key, key]; omega
  have hs := List.pairwise_mergeSort htrans htotal l
  refine List.Pairwise.imp_of_mem ?_ hs
  intro a b ha hb' h
  have hpa := hb a ((List.mergeSort_perm l _).mem_iff.1 ha)
  have hpb := hb b ((List.mergeSort_perm l _).mem_iff.1 hb')
  exact (leThin_iff hpa hpb).1 h

end EchoVerif.Sched
