import EchoVerif.Lemmas.TickLegacy
import EchoVerif.Lemmas.WfCheck
set_option linter.unusedSimpArgs false
set_option linter.unusedVariables false
namespace EchoVerif
namespace Tick
open Graph Exec SMap

/-- The candidates of one tick are coherent: the scheduler key `(scope hash, rule)` identifies the
    candidate (scope-hash collision-freedom on this tick's candidates; explicit hypothesis). -/
def Coherent (cs : List TCand) : Prop :=
  ∀ a ∈ cs, ∀ b ∈ cs, a.shash = b.shash → a.rule = b.rule → a = b

theorem keyInj_matched {progOf : Nat → Nat → Option Program} {pre : WState} {cs : List TCand}
    (hco : Coherent cs) (hb : (matchAll progOf pre cs).2.2 = false) :
    KeyInj (matchAll progOf pre cs).2.1 := by
  intro a ha b hb' hk
  have ha' := (mem_matchAll progOf pre cs hb a).mp ha
  have hb'' := (mem_matchAll progOf pre cs hb b).mp hb'
  simp only [keyOf, Prod.mk.injEq] at hk
  have h1 : a.1 = b.1 := hco a.1 ha'.1 b.1 hb''.1 hk.1 (by omega)
  obtain ⟨ac, ap⟩ := a
  obtain ⟨bc, bp⟩ := b
  simp only at h1 ha' hb''
  subst h1
  have := ha'.2.symm.trans hb''.2
  cases this; rfl

theorem tick_legacy_set (cfg : Cfg) (progOf : Nat → Nat → Option Program) (pre : WState)
    (xs ys : List TCand) (hco : Coherent xs) (hset : ∀ c, c ∈ xs ↔ c ∈ ys) :
    (tick cfg progOf pre false xs).2 = (tick cfg progOf pre false ys).2 := by
  unfold tick
  have hbad : (matchAll progOf pre xs).2.2 = (matchAll progOf pre ys).2.2 := by
    rw [Bool.eq_iff_iff, matchAll_bad, matchAll_bad]
    constructor
    · rintro ⟨c, hc, h⟩; exact ⟨c, (hset c).mp hc, h⟩
    · rintro ⟨c, hc, h⟩; exact ⟨c, (hset c).mpr hc, h⟩
  cases hbx : (matchAll progOf pre xs).2.2 with
  | true =>
    have hby : (matchAll progOf pre ys).2.2 = true := by rw [← hbad, hbx]
    generalize hx : matchAll progOf pre xs = rx at hbx
    generalize hy : matchAll progOf pre ys = ry at hby
    obtain ⟨b1, m1, f1⟩ := rx
    obtain ⟨b2, m2, f2⟩ := ry
    simp only at hbx hby
    subst hbx; subst hby
    rfl
  | false =>
    have hby : (matchAll progOf pre ys).2.2 = false := by rw [← hbad, hbx]
    have hq : legacyQueue (matchAll progOf pre xs).2.1 = legacyQueue (matchAll progOf pre ys).2.1 := by
      apply legacyQueue_set (keyInj_matched hco hbx)
      intro cp
      rw [mem_matchAll progOf pre xs hbx, mem_matchAll progOf pre ys hby, hset]
    generalize hx : matchAll progOf pre xs = rx at hbx hq
    generalize hy : matchAll progOf pre ys = ry at hby hq
    obtain ⟨b1, m1, f1⟩ := rx
    obtain ⟨b2, m2, f2⟩ := ry
    simp only at hbx hby hq
    subst hbx; subst hby
    simp only [Bool.false_eq_true, if_false, commit, legacyDrained, hq]

end Tick
end EchoVerif
