/-
  Instance-level ops (OpenPortal / UpsertWarpInstance / DeleteWarpInstance) in the per-location
  "last effect wins" framework of Lemmas/Graph.lean: effect functions for the instance table, the
  store set and the four location planes, the one-step laws and the loop law over ARBITRARY op
  lists whose OpenPortal ops create fresh child instances (`PFresh`). Used by C04 `diff_apply`.
-/
import EchoVerif.Lemmas.StateExt

set_option linter.unusedSimpArgs false
set_option linter.unusedVariables false
set_option linter.unusedSectionVars false

namespace EchoVerif
namespace Graph
open SMap

def instAt (s : WState) (w : Nat) : Option Instance := find? w s.instances
def stEx (s : WState) (w : Nat) : Bool := (s.store? w).isSome

/-! ### effects of every op on every kind of location -/

def effInst (w : Nat) : Op → Option (Option Instance)
  | .openPortal key cw cr _ =>
    if cw = w then some (some { warp := cw, root := cr, parent := some key }) else none
  | .upsertInstance inst => if inst.warp = w then some (some inst) else none
  | .deleteInstance w' => if w' = w then some none else none
  | _ => none

def effSt (w : Nat) : Op → Option Bool
  | .openPortal _ cw _ _ => if cw = w then some true else none
  | .upsertInstance inst => if inst.warp = w then some true else none
  | .deleteInstance w' => if w' = w then some false else none
  | _ => none

def effNodeI (w i : Nat) : Op → Option (Option Nat)
  | .openPortal _ cw cr (.empty ty) => if cw = w ∧ cr = i then some (some ty) else none
  | .deleteInstance w' => if w' = w then some none else none
  | o => effNode w i o

def effEdgeI (w i : Nat) : Op → Option (Option EdgeRec)
  | .deleteInstance w' => if w' = w then some none else none
  | o => effEdge w i o

def effNattI (w i : Nat) : Op → Option (Option Att)
  | .openPortal key cw _ _ => match key.owner with
    | .node w' i' => if w' = w ∧ i' = i then some (some (.descend cw)) else none
    | .edge _ _ => none
  | .deleteInstance w' => if w' = w then some none else none
  | o => effNatt w i o

def effEattI (w i : Nat) : Op → Option (Option Att)
  | .openPortal key cw _ _ => match key.owner with
    | .edge w' i' => if w' = w ∧ i' = i then some (some (.descend cw)) else none
    | .node _ _ => none
  | .deleteInstance w' => if w' = w then some none else none
  | o => effEatt w i o

/-- An OpenPortal op is *fresh* in `s` when its child warp has neither instance nor store. -/
def Fresh (s : WState) : Op → Prop
  | .openPortal _ cw _ _ => find? cw s.instances = none ∧ s.store? cw = none
  | _ => True

/-- The conclusion of the one-step law. -/
structure StepLaws (s s' : WState) (o : Op) : Prop where
  sorted : s'.SortedAll
  isorted : Sorted s'.instances
  inst : ∀ w, instAt s' w = orKeep (effInst w o) (instAt s w)
  st : ∀ w, stEx s' w = orKeep (effSt w o) (stEx s w)
  node : ∀ w i, nodeAt s' w i = orKeep (effNodeI w i o) (nodeAt s w i)
  edge : ∀ w i, edgeAt s' w i = orKeep (effEdgeI w i o) (edgeAt s w i)
  natt : ∀ w i, nattAt s' w i = orKeep (effNattI w i o) (nattAt s w i)
  eatt : ∀ w i, eattAt s' w i = orKeep (effEattI w i o) (eattAt s w i)

theorem stepLaws_skel {s s' : WState} {o : Op} (hsk : o.isSkel = true) (hs : s.SortedAll)
    (hi : Sorted s.instances) (h : applyOp s o = .ok s') : StepLaws s s' o := by
  obtain ⟨i1, s1, k1, n1, e1, a1, b1⟩ := applyOp_skel_laws hsk hs h
  have e0 : (∀ w, effInst w o = none) ∧ (∀ w, effSt w o = none) ∧
      (∀ w i, effNodeI w i o = effNode w i o) ∧ (∀ w i, effEdgeI w i o = effEdge w i o) ∧
      (∀ w i, effNattI w i o = effNatt w i o) ∧ (∀ w i, effEattI w i o = effEatt w i o) := by
    cases o <;> first | (cases hsk; done) | exact ⟨fun _ => rfl, fun _ => rfl, fun _ _ => rfl, fun _ _ => rfl, fun _ _ => rfl, fun _ _ => rfl⟩
  obtain ⟨f1, f2, f3, f4, f5, f6⟩ := e0
  refine ⟨s1, by rw [i1]; exact hi, ?_, ?_, ?_, ?_, ?_, ?_⟩
  · intro w; simp only [instAt, i1, f1, orKeep]
  · intro w; simp only [stEx, k1, f2, orKeep]
  · intro w i; rw [f3]; exact n1 w i
  · intro w i; rw [f4]; exact e1 w i
  · intro w i; rw [f5]; exact a1 w i
  · intro w i; rw [f6]; exact b1 w i

theorem store?_upsertWith (s : WState) (inst : Instance) (st : Store) (w : Nat) :
    (upsertInstanceWith s inst st).store? w = if w = inst.warp then some st else s.store? w := by
  simp only [WState.store?, upsertInstanceWith, find?_insert]

theorem empty_sorted4 : Store.empty.Sorted4 := ⟨trivial, trivial, trivial, trivial⟩

theorem upsertWith_sortedAll {s : WState} {inst : Instance} {st : Store} (hs : s.SortedAll)
    (h4 : st.Sorted4) : (upsertInstanceWith s inst st).SortedAll := by
  refine ⟨sorted_insert _ _ hs.1, ?_⟩
  intro w2 st2 h
  have := store?_upsertWith s inst st w2
  simp only [WState.store?] at this
  rw [this] at h
  split at h
  · cases h; exact h4
  · exact hs.2 w2 st2 h

theorem stepLaws_upsertWith {s : WState} {inst : Instance} {st0 : Store} (hs : s.SortedAll)
    (hi : Sorted s.instances)
    (hcase : s.store? inst.warp = some st0 ∨ (s.store? inst.warp = none ∧ st0 = Store.empty)) :
    StepLaws s (upsertInstanceWith s inst st0) (.upsertInstance inst) := by
  have hst : ∀ w, (upsertInstanceWith s inst st0).store? w
        = if w = inst.warp then some st0 else s.store? w := fun w => store?_upsertWith s inst _ w
  have h4 : st0.Sorted4 := by
    rcases hcase with hx | ⟨_, hx⟩
    · exact hs.2 _ st0 hx
    · rw [hx]; exact empty_sorted4
  refine ⟨upsertWith_sortedAll hs h4, sorted_insert _ _ hi, ?_, ?_, ?_, ?_, ?_, ?_⟩
  · intro w
    simp only [instAt, upsertInstanceWith, find?_insert, effInst]
    by_cases hw : w = inst.warp
    · subst hw; simp [orKeep]
    · simp [orKeep, hw, Ne.symm hw]
  · intro w
    simp only [stEx, hst, effSt]
    by_cases hw : w = inst.warp
    · subst hw; simp [orKeep]
    · simp [orKeep, hw, Ne.symm hw]
  all_goals intro w i
  · simp only [nodeAt, hst]
    by_cases hw : w = inst.warp
    · subst hw
      rcases hcase with hx | ⟨hx, he⟩
      · simp [orKeep, effNodeI, effNode, hx]
      · simp [orKeep, effNodeI, effNode, hx, he, Store.empty, find?]
    · simp [orKeep, hw, effNodeI, effNode]
  · simp only [edgeAt, hst]
    by_cases hw : w = inst.warp
    · subst hw
      rcases hcase with hx | ⟨hx, he⟩
      · simp [orKeep, effEdgeI, effEdge, hx]
      · simp [orKeep, effEdgeI, effEdge, hx, he, Store.empty, find?]
    · simp [orKeep, hw, effEdgeI, effEdge]
  · simp only [nattAt, hst]
    by_cases hw : w = inst.warp
    · subst hw
      rcases hcase with hx | ⟨hx, he⟩
      · simp [orKeep, effNattI, effNatt, hx]
      · simp [orKeep, effNattI, effNatt, hx, he, Store.empty, find?]
    · simp [orKeep, hw, effNattI, effNatt]
  · simp only [eattAt, hst]
    by_cases hw : w = inst.warp
    · subst hw
      rcases hcase with hx | ⟨hx, he⟩
      · simp [orKeep, effEattI, effEatt, hx]
      · simp [orKeep, effEattI, effEatt, hx, he, Store.empty, find?]
    · simp [orKeep, hw, effEattI, effEatt]

theorem stepLaws_UI {s s' : WState} {inst : Instance} (hs : s.SortedAll)
    (hi : Sorted s.instances) (h : applyOp s (.upsertInstance inst) = .ok s') :
    StepLaws s s' (.upsertInstance inst) := by
  cases hx : s.store? inst.warp with
  | none =>
    simp only [applyOp, hx] at h; cases h
    exact stepLaws_upsertWith hs hi (Or.inr ⟨hx, rfl⟩)
  | some st =>
    simp only [applyOp, hx] at h; cases h
    exact stepLaws_upsertWith hs hi (Or.inl hx)

theorem stepLaws_DI {s s' : WState} {w0 : Nat} (hs : s.SortedAll)
    (hi : Sorted s.instances) (h : applyOp s (.deleteInstance w0) = .ok s') :
    StepLaws s s' (.deleteInstance w0) := by
  simp only [applyOp] at h
  cases hx : find? w0 s.instances with
  | none => rw [hx] at h; cases h
  | some inst0 =>
    rw [hx] at h; cases h
    have hst : ∀ w, WState.store? { stores := SMap.erase w0 s.stores, instances := SMap.erase w0 s.instances } w
        = if w = w0 then none else s.store? w := by
      intro w; simp only [WState.store?, find?_erase _ _ hs.1]
    refine ⟨⟨sorted_erase _ hs.1, ?_⟩, sorted_erase _ hi, ?_, ?_, ?_, ?_, ?_, ?_⟩
    · intro w2 st2 h2
      have := hst w2
      simp only [WState.store?] at this
      rw [this] at h2
      split at h2
      · cases h2
      · exact hs.2 w2 st2 h2
    · intro w
      simp only [instAt, find?_erase _ _ hi, effInst]
      by_cases hw : w = w0
      · subst hw; simp [orKeep]
      · simp [orKeep, hw, Ne.symm hw]
    · intro w
      simp only [stEx, hst, effSt]
      by_cases hw : w = w0
      · subst hw; simp [orKeep]
      · simp [orKeep, hw, Ne.symm hw]
    all_goals intro w i
    · simp only [nodeAt, hst, effNodeI]
      by_cases hw : w = w0
      · subst hw; simp [orKeep]
      · simp [orKeep, hw, Ne.symm hw]
    · simp only [edgeAt, hst, effEdgeI]
      by_cases hw : w = w0
      · subst hw; simp [orKeep]
      · simp [orKeep, hw, Ne.symm hw]
    · simp only [nattAt, hst, effNattI]
      by_cases hw : w = w0
      · subst hw; simp [orKeep]
      · simp [orKeep, hw, Ne.symm hw]
    · simp only [eattAt, hst, effEattI]
      by_cases hw : w = w0
      · subst hw; simp [orKeep]
      · simp [orKeep, hw, Ne.symm hw]

theorem validateOwnerExists_ok {s : WState} {k : AttKey} {pw : Nat}
    (h : validateOwnerExists s k = .ok pw) :
    pw = ownerWarp k.owner ∧ k.planeValid = true ∧ ∃ st, s.store? pw = some st := by
  unfold validateOwnerExists at h
  cases hp : k.planeValid with
  | false => simp [hp] at h
  | true =>
    simp only [hp, Bool.not_true, Bool.false_eq_true, if_false] at h
    obtain ⟨owner, plane⟩ := k
    cases owner with
    | node w i =>
      simp only at h
      cases hst : s.store? w with
      | none => rw [hst] at h; cases h
      | some st =>
        rw [hst] at h; simp only at h
        cases hn : find? i st.nodes with
        | none => rw [hn] at h; cases h
        | some ty => rw [hn] at h; cases h; exact ⟨rfl, rfl, st, hst⟩
    | edge w i =>
      simp only at h
      cases hst : s.store? w with
      | none => rw [hst] at h; cases h
      | some st =>
        rw [hst] at h; simp only at h
        cases hn : find? i st.edges with
        | none => rw [hn] at h; cases h
        | some ty => rw [hn] at h; cases h; exact ⟨rfl, rfl, st, hst⟩

theorem find?_single {ν : Type} (k i : Nat) (v : ν) :
    find? i ([(k, v)] : SMap Nat ν) = if k = i then some v else none := by
  simp only [find?]
  by_cases h : i = k
  · subst h; simp [LinOrd.lt_irrefl]
  · have h' : ¬ k = i := fun e => h e.symm
    simp [h, h']

theorem stepLaws_OP {s s' : WState} {key : AttKey} {cw cr : Nat} {init : PortalInit}
    (hs : s.SortedAll) (hi : Sorted s.instances) (hf : Fresh s (.openPortal key cw cr init))
    (h : applyOp s (.openPortal key cw cr init) = .ok s') :
    StepLaws s s' (.openPortal key cw cr init) := by
  obtain ⟨hfi, hfs⟩ := hf
  simp only [applyOp, applyOpenPortal] at h
  cases hv : validateOwnerExists s key with
  | error e => rw [hv] at h; cases h
  | ok pw =>
    rw [hv] at h
    simp only [hfi] at h
    obtain ⟨hpw, hplane, stp, hstp⟩ := validateOwnerExists_ok hv
    cases init with
    | requireExisting => cases h
    | empty ty =>
      simp only at h
      have hne : pw ≠ cw := by intro e; rw [e, hfs] at hstp; cases hstp
      have hne' : cw ≠ pw := fun e => hne e.symm
      -- the state after creating the child
      have hs1 : ∀ w, (upsertInstanceWith s { warp := cw, root := cr, parent := some key }
          { Store.empty with nodes := [(cr, ty)] }).store? w
          = if w = cw then some { Store.empty with nodes := [(cr, ty)] } else s.store? w :=
        fun w => store?_upsertWith s _ _ w
      have hchild4 : ({ Store.empty with nodes := [(cr, ty)] } : Store).Sorted4 :=
        ⟨⟨trivial, trivial⟩, trivial, trivial, trivial⟩
      have hsa1 := upsertWith_sortedAll (inst := { warp := cw, root := cr, parent := some key }) hs hchild4
      have h4p : stp.Sorted4 := hs.2 _ stp hstp
      simp only [setPortalSlot, hs1, if_neg hne, hstp] at h
      obtain ⟨owner, plane⟩ := key
      cases owner with
      | node w0 i0 =>
        simp only [ownerWarp] at hpw
        subst hpw
        simp only at h
        cases h
        have hst : ∀ w, WState.store? (WState.putStore (upsertInstanceWith s { warp := cw, root := cr, parent := some { owner := .node pw i0, plane := plane } }
            { Store.empty with nodes := [(cr, ty)] }) pw { stp with nodeAtt := SMap.insert i0 (.descend cw) stp.nodeAtt }) w
            = if w = pw then some { stp with nodeAtt := SMap.insert i0 (.descend cw) stp.nodeAtt }
              else if w = cw then some { Store.empty with nodes := [(cr, ty)] } else s.store? w := by
          intro w; rw [store?_putStore, hs1]
        refine ⟨putStore_sortedAll hsa1 ⟨h4p.1, h4p.2.1, sorted_insert _ _ h4p.2.2.1, h4p.2.2.2⟩,
          sorted_insert _ _ hi, ?_, ?_, ?_, ?_, ?_, ?_⟩
        · intro w
          simp only [instAt, WState.putStore, upsertInstanceWith, find?_insert, effInst]
          by_cases hw : w = cw
          · subst hw; simp [orKeep]
          · simp [orKeep, hw, Ne.symm hw]
        · intro w
          simp only [stEx, hst, effSt]
          by_cases hw : w = pw
          · subst hw; simp [orKeep, hne', hstp]
          · by_cases hw2 : w = cw
            · subst hw2; simp [orKeep, hw]
            · simp [orKeep, hw, hw2, Ne.symm hw2]
        all_goals intro w i
        · simp only [nodeAt, hst, effNodeI]
          by_cases hw : w = pw
          · subst hw; simp [orKeep, hne', hstp]
          · by_cases hw2 : w = cw
            · subst hw2
              simp only [hw, if_false, if_true, true_and, find?_single, hfs]
              by_cases hc : cr = i <;> simp [orKeep, hc]
            · simp [orKeep, hw, hw2, Ne.symm hw2]
        · simp only [edgeAt, hst, effEdgeI, effEdge]
          by_cases hw : w = pw
          · subst hw; simp [orKeep, hstp]
          · by_cases hw2 : w = cw
            · subst hw2; simp [orKeep, hw, hfs, Store.empty, find?]
            · simp [orKeep, hw, hw2]
        · simp only [nattAt, hst, effNattI]
          by_cases hw : w = pw
          · subst hw
            simp only [if_true, true_and, find?_insert, hstp]
            by_cases hc : i = i0
            · subst hc; simp [orKeep]
            · simp [orKeep, hc, Ne.symm hc]
          · by_cases hw2 : w = cw
            · subst hw2; simp [orKeep, hw, Ne.symm hw, hfs, Store.empty, find?]
            · simp [orKeep, hw, hw2, Ne.symm hw]
        · simp only [eattAt, hst, effEattI]
          by_cases hw : w = pw
          · subst hw; simp [orKeep, hstp]
          · by_cases hw2 : w = cw
            · subst hw2; simp [orKeep, hw, hfs, Store.empty, find?]
            · simp [orKeep, hw, hw2]
      | edge w0 i0 =>
        simp only [ownerWarp] at hpw
        subst hpw
        simp only at h
        cases h
        have hst : ∀ w, WState.store? (WState.putStore (upsertInstanceWith s { warp := cw, root := cr, parent := some { owner := .edge pw i0, plane := plane } }
            { Store.empty with nodes := [(cr, ty)] }) pw { stp with edgeAtt := SMap.insert i0 (.descend cw) stp.edgeAtt }) w
            = if w = pw then some { stp with edgeAtt := SMap.insert i0 (.descend cw) stp.edgeAtt }
              else if w = cw then some { Store.empty with nodes := [(cr, ty)] } else s.store? w := by
          intro w; rw [store?_putStore, hs1]
        refine ⟨putStore_sortedAll hsa1 ⟨h4p.1, h4p.2.1, h4p.2.2.1, sorted_insert _ _ h4p.2.2.2⟩,
          sorted_insert _ _ hi, ?_, ?_, ?_, ?_, ?_, ?_⟩
        · intro w
          simp only [instAt, WState.putStore, upsertInstanceWith, find?_insert, effInst]
          by_cases hw : w = cw
          · subst hw; simp [orKeep]
          · simp [orKeep, hw, Ne.symm hw]
        · intro w
          simp only [stEx, hst, effSt]
          by_cases hw : w = pw
          · subst hw; simp [orKeep, hne', hstp]
          · by_cases hw2 : w = cw
            · subst hw2; simp [orKeep, hw]
            · simp [orKeep, hw, hw2, Ne.symm hw2]
        all_goals intro w i
        · simp only [nodeAt, hst, effNodeI]
          by_cases hw : w = pw
          · subst hw; simp [orKeep, hne', hstp]
          · by_cases hw2 : w = cw
            · subst hw2
              simp only [hw, if_false, if_true, true_and, find?_single, hfs]
              by_cases hc : cr = i <;> simp [orKeep, hc]
            · simp [orKeep, hw, hw2, Ne.symm hw2]
        · simp only [edgeAt, hst, effEdgeI, effEdge]
          by_cases hw : w = pw
          · subst hw; simp [orKeep, hstp]
          · by_cases hw2 : w = cw
            · subst hw2; simp [orKeep, hw, hfs, Store.empty, find?]
            · simp [orKeep, hw, hw2]
        · simp only [nattAt, hst, effNattI]
          by_cases hw : w = pw
          · subst hw; simp [orKeep, hstp]
          · by_cases hw2 : w = cw
            · subst hw2; simp [orKeep, hw, hfs, Store.empty, find?]
            · simp [orKeep, hw, hw2]
        · simp only [eattAt, hst, effEattI]
          by_cases hw : w = pw
          · subst hw
            simp only [if_true, true_and, find?_insert, hstp]
            by_cases hc : i = i0
            · subst hc; simp [orKeep]
            · simp [orKeep, hc, Ne.symm hc]
          · by_cases hw2 : w = cw
            · subst hw2; simp [orKeep, hw, Ne.symm hw, hfs, Store.empty, find?]
            · simp [orKeep, hw, hw2, Ne.symm hw]

/-- The one-step law for every op (OpenPortal ops must be fresh). -/
theorem stepLaws {s s' : WState} {o : Op} (hs : s.SortedAll) (hi : Sorted s.instances)
    (hf : Fresh s o) (h : applyOp s o = .ok s') : StepLaws s s' o := by
  cases o with
  | openPortal key cw cr init => exact stepLaws_OP hs hi hf h
  | upsertInstance inst => exact stepLaws_UI hs hi h
  | deleteInstance w => exact stepLaws_DI hs hi h
  | upsertNode w i ty => exact stepLaws_skel rfl hs hi h
  | deleteNode w i => exact stepLaws_skel rfl hs hi h
  | upsertEdge w id src dst ty => exact stepLaws_skel rfl hs hi h
  | deleteEdge w src id => exact stepLaws_skel rfl hs hi h
  | setAtt key v => exact stepLaws_skel rfl hs hi h

/-! ### the loop -/

/-- the op creates an instance/store for `w`. -/
def Op.creates (w : Nat) : Op → Bool
  | .openPortal _ cw _ _ => cw == w
  | .upsertInstance inst => inst.warp == w
  | _ => false

def Op.portalChild : Op → Option Nat
  | .openPortal _ cw _ _ => some cw
  | _ => none

/-- Every OpenPortal of the list is fresh in `s`, and nothing before it in the list creates its
    child. -/
def PFresh (s : WState) (l : List Op) : Prop :=
  (∀ o ∈ l, ∀ cw, o.portalChild = some cw → find? cw s.instances = none ∧ s.store? cw = none) ∧
  l.Pairwise (fun o1 o2 => ∀ cw, o2.portalChild = some cw → o1.creates cw = false)

theorem effInst_not_creates {o : Op} {w : Nat} (h : o.creates w = false) :
    effInst w o = none ∨ effInst w o = some none := by
  cases o <;> simp [Op.creates, effInst] at h ⊢
  · exact h
  · exact h
  · rename_i w'; by_cases hw : w' = w <;> simp [hw]

theorem effSt_not_creates {o : Op} {w : Nat} (h : o.creates w = false) :
    effSt w o = none ∨ effSt w o = some false := by
  cases o <;> simp [Op.creates, effSt] at h ⊢
  · exact h
  · exact h
  · rename_i w'; by_cases hw : w' = w <;> simp [hw]

theorem fresh_of_pfresh {s : WState} {o : Op} {l : List Op} (h : PFresh s (o :: l)) : Fresh s o := by
  cases o with
  | openPortal key cw cr init => exact h.1 _ List.mem_cons_self cw rfl
  | _ => trivial

theorem pfresh_step {s s1 : WState} {o : Op} {l : List Op} (h : PFresh s (o :: l))
    (hl : StepLaws s s1 o) : PFresh s1 l := by
  obtain ⟨h1, h2⟩ := h
  cases h2 with
  | cons hhead htail =>
    refine ⟨?_, htail⟩
    intro o2 ho2 cw hc
    obtain ⟨g1, g2⟩ := h1 o2 (List.mem_cons_of_mem _ ho2) cw hc
    have hnc := hhead o2 ho2 cw hc
    constructor
    · have := hl.inst cw
      simp only [instAt] at this
      rw [this, g1]
      rcases effInst_not_creates hnc with e | e <;> rw [e] <;> rfl
    · have := hl.st cw
      simp only [stEx, g2] at this
      rcases effSt_not_creates hnc with e | e <;> rw [e] at this <;> simp [orKeep] at this <;> exact this

/-- The op loop over an arbitrary op list with fresh portals: every location (instance table,
    store set, nodes, edges, both attachment planes) ends at its last effect. -/
theorem applyLoop_full : ∀ (l : List Op) (s : WState) (t : Bool) (c : WState) (t' : Bool),
    s.SortedAll → Sorted s.instances → PFresh s l → applyLoop s t l = .ok (c, t') →
    c.SortedAll ∧ Sorted c.instances ∧
    (∀ w, instAt c w = lastEff (effInst w) l (instAt s w)) ∧
    (∀ w, stEx c w = lastEff (effSt w) l (stEx s w)) ∧
    (∀ w i, nodeAt c w i = lastEff (effNodeI w i) l (nodeAt s w i)) ∧
    (∀ w i, edgeAt c w i = lastEff (effEdgeI w i) l (edgeAt s w i)) ∧
    (∀ w i, nattAt c w i = lastEff (effNattI w i) l (nattAt s w i)) ∧
    (∀ w i, eattAt c w i = lastEff (effEattI w i) l (eattAt s w i))
  | [], s, t, c, t', hs, hi, _, h => by
    simp only [applyLoop] at h; cases h
    exact ⟨hs, hi, fun _ => rfl, fun _ => rfl, fun _ _ => rfl, fun _ _ => rfl, fun _ _ => rfl,
      fun _ _ => rfl⟩
  | o :: l, s, t, c, t', hs, hi, hp, h => by
    simp only [applyLoop] at h
    cases ha : applyOp s o with
    | error e => rw [ha] at h; cases h
    | ok s1 =>
      rw [ha] at h
      simp only at h
      have L := stepLaws hs hi (fresh_of_pfresh hp) ha
      obtain ⟨c1, c2, c3, c4, c5, c6, c7, c8⟩ :=
        applyLoop_full l s1 _ c t' L.sorted L.isorted (pfresh_step hp L) h
      refine ⟨c1, c2, ?_, ?_, ?_, ?_, ?_, ?_⟩
      · intro w; rw [c3, L.inst]; rfl
      · intro w; rw [c4, L.st]; rfl
      · intro w i; rw [c5, L.node]; rfl
      · intro w i; rw [c6, L.edge]; rfl
      · intro w i; rw [c7, L.natt]; rfl
      · intro w i; rw [c8, L.eatt]; rfl

/-- The portal-topology flag is set once an OpenPortal / instance op was applied. -/
theorem applyLoop_flag : ∀ (l : List Op) (s : WState) (t : Bool) (c : WState) (t' : Bool),
    applyLoop s t l = .ok (c, t') → (t = true ∨ ∃ o ∈ l, o.isSkel = false) → t' = true
  | [], s, t, c, t', h, ht => by
    simp only [applyLoop] at h; cases h
    rcases ht with ht | ⟨o, ho, _⟩
    · exact ht
    · cases ho
  | o :: l, s, t, c, t', h, ht => by
    simp only [applyLoop] at h
    cases ha : applyOp s o with
    | error e => rw [ha] at h; cases h
    | ok s1 =>
      rw [ha] at h
      simp only at h
      apply applyLoop_flag l s1 _ c t' h
      rcases ht with ht | ⟨o', ho', hk⟩
      · left; simp [ht]
      · cases ho' with
        | head =>
          left
          cases o <;> first | (cases hk; done) | simp [touchesPortal]
        | tail _ hm => right; exact ⟨o', hm, hk⟩

end Graph
end EchoVerif
