/- C19: monotonicity of the RNE soft-float rounding and the range of the quarter-wave lerp. -/
import EchoVerif.Lemmas.Math
set_option linter.unusedSimpArgs false
namespace EchoVerif.Math

/-! ## the value function `V` is strictly increasing in the pattern -/

theorem two_pow_pos (k : Nat) : 0 < 2 ^ k := Nat.pow_pos (by decide)

theorem V_lt_succ (x : Nat) : V x < V (x + 1) := by
  unfold V mm ee
  by_cases hr : x % 8388608 + 1 < 8388608
  · have h1 : (x + 1) / 8388608 = x / 8388608 := by omega
    have h2 : (x + 1) % 8388608 = x % 8388608 + 1 := by omega
    rw [h1, h2]
    apply Nat.mul_lt_mul_of_pos_right _ (two_pow_pos _)
    by_cases h0 : x / 8388608 = 0
    · rw [if_pos h0, if_pos h0]; omega
    · rw [if_neg h0, if_neg h0]; omega
  · have h1 : (x + 1) / 8388608 = x / 8388608 + 1 := by omega
    have h2 : (x + 1) % 8388608 = 0 := by omega
    have h3 : x % 8388608 = 8388607 := by omega
    rw [h1, h2, h3]
    generalize x / 8388608 = q
    have hq1 : ¬ (q + 1 = 0) := by omega
    rw [if_neg hq1]
    by_cases h0 : q = 0
    · rw [if_pos h0, h0]; decide
    · rw [if_neg h0]
      obtain ⟨r, rfl⟩ : ∃ r, q = r + 1 := ⟨q - 1, by omega⟩
      have e1 : r + 1 + 1 - 1 = r + 1 := by omega
      have e2 : r + 1 - 1 = r := by omega
      rw [e1, e2, Nat.pow_succ]
      have := two_pow_pos r
      generalize 2 ^ r = P at *
      omega

theorem V_lt {x y : Nat} (h : x < y) : V x < V y := by
  induction y with
  | zero => omega
  | succ y ih =>
    rcases Nat.lt_or_eq_of_le (Nat.lt_succ_iff.1 h) with h' | rfl
    · exact Nat.lt_trans (ih h') (V_lt_succ y)
    · exact V_lt_succ x

theorem V_mono {x y : Nat} (h : x ≤ y) : V x ≤ V y := by
  rcases Nat.lt_or_eq_of_le h with h' | rfl
  · exact Nat.le_of_lt (V_lt h')
  · exact Nat.le_refl _

theorem le_of_V_le {x y : Nat} (h : V x ≤ V y) : x ≤ y := by
  apply Nat.le_of_not_lt
  intro hlt
  exact absurd (V_lt hlt) (by omega)

theorem lt_of_V_lt {x y : Nat} (h : V x < V y) : x < y := by
  apply Nat.lt_of_not_le
  intro hle
  exact absurd (V_mono hle) (by omega)

/-! ## rounding never crosses a representable value -/

theorem floorLoop_inv (N d : Nat) : ∀ (k p : Nat), V p * d ≤ N → V (floorLoop N d k p) * d ≤ N
  | 0, _, h => h
  | k + 1, p, h => by
    unfold floorLoop
    apply floorLoop_inv N d k
    unfold floorStep
    by_cases hc : V (p + 2 ^ k) * d ≤ N
    · rw [if_pos hc]; exact hc
    · rw [if_neg hc]; exact h

theorem V_zero : V 0 = 0 := by decide

theorem floorPat_le (n d : Nat) : V (floorPat n d) * d ≤ n * 2 ^ 149 := by
  unfold floorPat
  simp only []
  by_cases hc : V (fastFloor n d) * d ≤ n * 2 ^ 149 ∧ n * 2 ^ 149 < V (fastFloor n d + 1) * d
  · rw [if_pos hc]; exact hc.1
  · rw [if_neg hc]
    apply floorLoop_inv
    rw [V_zero]; omega

theorem clampInf_le_self (b : Nat) : clampInf b ≤ b := by
  unfold clampInf; by_cases h : 0x7f800000 ≤ b
  · rw [if_pos h]; exact h
  · rw [if_neg h]; exact Nat.le_refl _

/-- KEY LEMMA (monotonicity of RNE against representable bounds): if the exact value `n/d` is at
    most the value of the pattern `b`, so is its rounding. -/
theorem roundPos_le_of_le {n d b : Nat} (hd : 0 < d) (h : n * 2 ^ 149 ≤ V b * d) : roundPos n d ≤ b := by
  unfold roundPos
  simp only []
  have hp := floorPat_le n d
  generalize floorPat n d = p at *
  apply Nat.le_trans (clampInf_le_self _)
  have hpb : p ≤ b := by
    apply Nat.le_of_not_lt
    intro hlt
    have := Nat.mul_lt_mul_of_pos_right (V_lt hlt) hd
    omega
  rcases Nat.lt_or_eq_of_le hpb with hlt | rfl
  · by_cases hc : V p * d + V (p + 1) * d < 2 * (n * 2 ^ 149) ∨
        (V p * d + V (p + 1) * d = 2 * (n * 2 ^ 149) ∧ p % 2 = 1)
    · rw [if_pos hc]; omega
    · rw [if_neg hc]; omega
  · have := Nat.mul_lt_mul_of_pos_right (V_lt_succ p) hd
    rw [if_neg (by omega)]
    exact Nat.le_refl _

/-- the same for `m · 2^e`, with a free scale `K` chosen by the caller so that `e + K ≥ 0`. -/
theorem roundDyadic_le {m : Nat} {e : Int} {b : Nat} (K : Nat) (hK : 0 ≤ e + K)
    (h : m * 2 ^ (e + K).toNat * 2 ^ 149 ≤ V b * 2 ^ K) : roundDyadic false m e ≤ b := by
  unfold roundDyadic signed
  simp only [Bool.false_eq_true, if_false]
  by_cases he : 0 ≤ e
  · rw [if_pos he]
    apply roundPos_le_of_le (by decide)
    have : (e + K).toNat = e.toNat + K := by omega
    rw [this, Nat.pow_add] at h
    rw [Nat.mul_one]
    apply Nat.le_of_mul_le_mul_right _ (two_pow_pos K)
    calc m * 2 ^ e.toNat * 2 ^ 149 * 2 ^ K = m * (2 ^ e.toNat * 2 ^ K) * 2 ^ 149 := by
          simp only [Nat.mul_assoc, Nat.mul_comm, Nat.mul_left_comm]
      _ ≤ V b * 2 ^ K := h
  · rw [if_neg he]
    apply roundPos_le_of_le (two_pow_pos _)
    obtain ⟨j, h1, h2⟩ : ∃ j, (e + K).toNat = j ∧ K = j + (-e).toNat := ⟨_, rfl, by omega⟩
    rw [h1] at h
    rw [h2, Nat.pow_add] at h
    apply Nat.le_of_mul_le_mul_right _ (two_pow_pos j)
    calc m * 2 ^ 149 * 2 ^ j = m * 2 ^ j * 2 ^ 149 := by
          simp only [Nat.mul_assoc, Nat.mul_comm, Nat.mul_left_comm]
      _ ≤ V b * (2 ^ j * 2 ^ (-e).toNat) := h
      _ = V b * 2 ^ (-e).toNat * 2 ^ j := by
          simp only [Nat.mul_assoc, Nat.mul_comm, Nat.mul_left_comm]

/-! ## non-negative finite patterns: decoding, and bounds for `+ − ×` against representable values -/

/-- non-negative finite pattern (+0 included). -/
def NF (x : Nat) : Prop := x < 0x7f800000
instance (x : Nat) : Decidable (NF x) := by unfold NF; exact inferInstance

theorem decode_NF {x : Nat} (hx : NF x) : decode x = .fin false (mm x) ((ee x : Int) - 149) := by
  unfold NF at hx
  unfold decode isNeg expField mantField mm ee
  have h1 : x / 8388608 % 256 = x / 8388608 := by omega
  have h2 : ¬ (2147483648 ≤ x) := by omega
  have h3 : ¬ (x / 8388608 = 255) := by omega
  simp only [h1, h2, h3, decide_false, if_false]
  by_cases h0 : x / 8388608 = 0
  · simp [h0]
  · simp only [h0, if_false]
    congr 1
    omega

theorem decode_neg_NF {y : Nat} (hy : NF y) :
    decode (negBits y) = .fin true (mm y) ((ee y : Int) - 149) := by
  unfold NF at hy
  have hn : negBits y = y + 2147483648 := by unfold negBits; rw [if_neg (by omega)]
  rw [hn]
  unfold decode isNeg expField mantField mm ee
  have h1 : (y + 2147483648) / 8388608 % 256 = y / 8388608 := by omega
  have h1' : (y + 2147483648) % 8388608 = y % 8388608 := by omega
  have h2 : (2147483648 ≤ y + 2147483648) := by omega
  have h3 : ¬ (y / 8388608 = 255) := by omega
  simp only [h1, h1', h2, h3, decide_true, if_false]
  by_cases h0 : y / 8388608 = 0
  · simp [h0]
  · have he : ((y / 8388608 : Nat) : Int) - 150 = ((y / 8388608 - 1 : Nat) : Int) - 149 := by omega
    simp only [h0, if_false, he]

theorem pow_split {a b : Nat} (h : a ≤ b) : 2 ^ b = 2 ^ (b - a) * 2 ^ a := by
  rw [← Nat.pow_add]; congr 1; omega

theorem sumResult_le {s : Int} {n : Nat} (hs : s = (n : Int)) (sb : Bool) {e : Int} {b : Nat} (K : Nat)
    (hK : 0 ≤ e + K) (h : n * 2 ^ (e + K).toNat * 2 ^ 149 ≤ V b * 2 ^ K) :
    sumResult s false sb e ≤ b := by
  subst hs
  unfold sumResult
  by_cases h0 : (n : Int) = 0
  · rw [if_pos h0]; simp
  · rw [if_neg h0]
    have hd : decide ((n : Int) < 0) = false := by simp
    rw [hd, Int.natAbs_natCast]
    exact roundDyadic_le K hK h

/-- `x + y` (both non-negative finite): if the exact sum is at most the value of `b`, so is the
    rounded sum. -/
theorem fadd_NF_le {x y b : Nat} (hx : NF x) (hy : NF y) (h : V x + V y ≤ V b) : fadd x y ≤ b := by
  unfold fadd
  rw [decode_NF hx, decode_NF hy]
  simp only []
  unfold V at h
  generalize mm x = mx at *
  generalize mm y = my at *
  generalize ee x = ex at *
  generalize ee y = ey at *
  by_cases hle : ex ≤ ey
  · have c1 : ((ex : Int) - 149 ≤ (ey : Int) - 149) := by omega
    have t1 : ((ex : Int) - 149 - ((ex : Int) - 149)).toNat = 0 := by omega
    have t2 : ((ey : Int) - 149 - ((ex : Int) - 149)).toNat = ey - ex := by omega
    simp only [if_pos c1, t1, t2, Bool.false_eq_true, if_false, Nat.pow_zero, Nat.mul_one, Int.one_mul]
    apply sumResult_le (n := mx + my * 2 ^ (ey - ex)) (by push_cast; rfl) false 149 (by omega)
    have t3 : ((ex : Int) - 149 + (149 : Nat)).toNat = ex := by omega
    rw [t3]
    apply Nat.mul_le_mul_right
    rw [pow_split hle] at h
    calc (mx + my * 2 ^ (ey - ex)) * 2 ^ ex = mx * 2 ^ ex + my * (2 ^ (ey - ex) * 2 ^ ex) := by
          rw [Nat.add_mul, Nat.mul_assoc]
      _ ≤ _ := h
  · have hle' : ey ≤ ex := by omega
    have c1 : ¬ ((ex : Int) - 149 ≤ (ey : Int) - 149) := by omega
    have t1 : ((ey : Int) - 149 - ((ey : Int) - 149)).toNat = 0 := by omega
    have t2 : ((ex : Int) - 149 - ((ey : Int) - 149)).toNat = ex - ey := by omega
    simp only [if_neg c1, t1, t2, Bool.false_eq_true, if_false, Nat.pow_zero, Nat.mul_one, Int.one_mul]
    apply sumResult_le (n := mx * 2 ^ (ex - ey) + my) (by push_cast; rfl) false 149 (by omega)
    have t3 : ((ey : Int) - 149 + (149 : Nat)).toNat = ey := by omega
    rw [t3]
    apply Nat.mul_le_mul_right
    rw [pow_split hle'] at h
    calc (mx * 2 ^ (ex - ey) + my) * 2 ^ ey = mx * (2 ^ (ex - ey) * 2 ^ ey) + my * 2 ^ ey := by
          rw [Nat.add_mul, Nat.mul_assoc]
      _ ≤ _ := h

/-- `x − y` (both non-negative finite, `y ≤ x`): the result is non-negative, and at most `b` whenever the
    exact difference is at most the value of `b`. -/
theorem fsub_NF_le {x y b : Nat} (hx : NF x) (hy : NF y) (hyx : V y ≤ V x) (h : V x - V y ≤ V b) :
    fsub x y ≤ b := by
  unfold fsub fadd
  rw [decode_NF hx, decode_neg_NF hy]
  simp only []
  unfold V at h hyx
  generalize mm x = mx at *
  generalize mm y = my at *
  generalize ee x = ex at *
  generalize ee y = ey at *
  by_cases hle : ex ≤ ey
  · have c1 : ((ex : Int) - 149 ≤ (ey : Int) - 149) := by omega
    have t1 : ((ex : Int) - 149 - ((ex : Int) - 149)).toNat = 0 := by omega
    have t2 : ((ey : Int) - 149 - ((ex : Int) - 149)).toNat = ey - ex := by omega
    simp only [if_pos c1, t1, t2, Bool.false_eq_true, if_false, if_true, Nat.pow_zero, Nat.mul_one, Int.one_mul]
    rw [pow_split hle, ← Nat.mul_assoc] at h hyx
    have hyx' : my * 2 ^ (ey - ex) ≤ mx := Nat.le_of_mul_le_mul_right hyx (two_pow_pos ex)
    apply sumResult_le (n := mx - my * 2 ^ (ey - ex)) (by omega) true 149 (by omega)
    have t3 : ((ex : Int) - 149 + (149 : Nat)).toNat = ex := by omega
    rw [t3]
    apply Nat.mul_le_mul_right
    rw [Nat.sub_mul]
    exact h
  · have hle' : ey ≤ ex := by omega
    have c1 : ¬ ((ex : Int) - 149 ≤ (ey : Int) - 149) := by omega
    have t1 : ((ey : Int) - 149 - ((ey : Int) - 149)).toNat = 0 := by omega
    have t2 : ((ex : Int) - 149 - ((ey : Int) - 149)).toNat = ex - ey := by omega
    simp only [if_neg c1, t1, t2, Bool.false_eq_true, if_false, if_true, Nat.pow_zero, Nat.mul_one, Int.one_mul]
    rw [pow_split hle', ← Nat.mul_assoc] at h hyx
    have hyx' : my ≤ mx * 2 ^ (ex - ey) := Nat.le_of_mul_le_mul_right hyx (two_pow_pos ey)
    apply sumResult_le (n := mx * 2 ^ (ex - ey) - my) (by omega) true 149 (by omega)
    have t3 : ((ey : Int) - 149 + (149 : Nat)).toNat = ey := by omega
    rw [t3]
    apply Nat.mul_le_mul_right
    rw [Nat.sub_mul]
    exact h

/-- `x · y` (both non-negative finite): if the exact product is at most the value of `b`, so is the
    rounded product. -/
theorem fmul_NF_le {x y b : Nat} (hx : NF x) (hy : NF y) (h : V x * V y ≤ V b * 2 ^ 149) :
    fmul x y ≤ b := by
  unfold fmul
  rw [decode_NF hx, decode_NF hy]
  simp only []
  unfold V at h
  generalize mm x = mx at *
  generalize mm y = my at *
  generalize ee x = ex at *
  generalize ee y = ey at *
  unfold dyadicResult
  by_cases h0 : mx * my = 0
  · rw [if_pos h0]; simp [signed]
  · rw [if_neg h0]
    have hb : (false != false) = false := rfl
    rw [hb]
    apply roundDyadic_le 298 (by omega)
    have t3 : ((ex : Int) - 149 + ((ey : Int) - 149) + (298 : Nat)).toNat = ex + ey := by omega
    rw [t3]
    have e298 : (2 : Nat) ^ 298 = 2 ^ 149 * 2 ^ 149 := by rw [← Nat.pow_add]
    rw [e298, ← Nat.mul_assoc]
    apply Nat.mul_le_mul_right
    calc mx * my * 2 ^ (ex + ey) = mx * 2 ^ ex * (my * 2 ^ ey) := by
          rw [Nat.pow_add]; simp only [Nat.mul_assoc, Nat.mul_comm, Nat.mul_left_comm]
      _ ≤ _ := h

/-! ## sign / class facts used by the lerp -/

/-- "non-negative and not NaN" (+∞ allowed). -/
def Pos (x : Nat) : Prop := x ≤ 0x7f800000
instance (x : Nat) : Decidable (Pos x) := by unfold Pos; exact inferInstance

theorem roundDyadic_false_pos (m : Nat) (e : Int) : roundDyadic false m e ≤ 0x7f800000 := by
  unfold roundDyadic signed
  simp only [Bool.false_eq_true, if_false]
  by_cases h : 0 ≤ e
  · rw [if_pos h]; exact roundPos_le _ _
  · rw [if_neg h]; exact roundPos_le _ _

theorem fmul_NF_pos {x y : Nat} (hx : NF x) (hy : NF y) : Pos (fmul x y) := by
  unfold Pos fmul
  rw [decode_NF hx, decode_NF hy]
  simp only []
  unfold dyadicResult
  have hb : (false != false) = false := rfl
  rw [hb]
  by_cases h0 : mm x * mm y = 0
  · rw [if_pos h0]; simp [signed]
  · rw [if_neg h0]; exact roundDyadic_false_pos _ _

theorem decode_inf : decode 0x7f800000 = .inf false := by
  simp [decode, isNeg, expField, mantField]

theorem fdiv_pos {u y : Nat} (hu : Pos u) (hy : NF y) (hm : mm y ≠ 0) : Pos (fdiv u y) := by
  unfold Pos at *
  unfold fdiv
  have hb : (false != false) = false := rfl
  rcases Nat.lt_or_eq_of_le hu with hlt | rfl
  · rw [decode_NF (show NF u from hlt), decode_NF hy]
    simp only [hb]
    unfold divResult
    rw [if_neg hm]
    by_cases h0 : mm u = 0
    · rw [if_pos h0]; simp [signed]
    · rw [if_neg h0]
      simp only [signed, Bool.false_eq_true, if_false]
      exact roundPos_le _ _
  · rw [decode_inf, decode_NF hy]
    simp [signed]

theorem not_isNaN_of_pos {x : Nat} (h : Pos x) : ¬ isNaN x := by
  unfold Pos at h; unfold isNaN expField mantField; omega

theorem ordKey_pos {x : Nat} (h : Pos x) : ordKey x = (x : Int) := by
  unfold Pos at h; unfold ordKey; rw [if_neg (by omega)]

theorem fle_pos {x y : Nat} (hx : Pos x) (hy : Pos y) : fle x y = decide (x ≤ y) := by
  unfold fle
  rw [if_neg (by intro h; rcases h with h | h; exact not_isNaN_of_pos hx h; exact not_isNaN_of_pos hy h),
    ordKey_pos hx, ordKey_pos hy]
  simp

theorem flt_pos {x y : Nat} (hx : Pos x) (hy : Pos y) : flt x y = decide (x < y) := by
  unfold flt
  rw [if_neg (by intro h; rcases h with h | h; exact not_isNaN_of_pos hx h; exact not_isNaN_of_pos hy h),
    ordKey_pos hx, ordKey_pos hy]
  simp

/-- the argument check of `sin_qtr_interp` (`(0.0..=FRAC_PI_2).contains`) passes exactly for −0 and the
    non-negative patterns up to FRAC_PI_2. -/
theorem range_check {a : Nat} (h : (fle 0 a && fle a fracPi2) = true) : a = negZero ∨ a ≤ fracPi2 := by
  rw [Bool.and_eq_true] at h
  obtain ⟨h1, h2⟩ := h
  unfold fle at h1 h2
  by_cases hn : isNaN a
  · rw [if_pos (Or.inr hn)] at h1; cases h1
  · have n0 : ¬ isNaN 0 := by decide
    have n1 : ¬ isNaN fracPi2 := by decide
    rw [if_neg (by intro h; rcases h with h | h; exact n0 h; exact hn h)] at h1
    rw [if_neg (by intro h; rcases h with h | h; exact hn h; exact n1 h)] at h2
    simp only [decide_eq_true_eq] at h1 h2
    unfold ordKey at h1 h2
    unfold negZero fracPi2 at *
    by_cases hs : 2147483648 ≤ a
    · rw [if_pos hs] at h1
      simp at h1
      left; omega
    · rw [if_neg hs] at h2
      simp at h2
      right; omega

/-- `t as usize` of a non-negative finite pattern is the floor of its value. -/
theorem truncNat_NF {t : Nat} (ht : NF t) :
    truncNat t * 2 ^ 149 ≤ V t ∧ V t < (truncNat t + 1) * 2 ^ 149 := by
  unfold truncNat V
  rw [decode_NF ht]
  simp only []
  generalize mm t = m
  generalize ee t = k
  by_cases hk : 149 ≤ k
  · have c : (0 : Int) ≤ (k : Int) - 149 := by omega
    have t1 : ((k : Int) - 149).toNat = k - 149 := by omega
    rw [if_pos c, t1, pow_split hk, ← Nat.mul_assoc]
    generalize m * 2 ^ (k - 149) = A
    exact ⟨Nat.le_refl _, Nat.mul_lt_mul_of_pos_right (by omega) (two_pow_pos _)⟩
  · have c : ¬ (0 : Int) ≤ (k : Int) - 149 := by omega
    have t1 : (-((k : Int) - 149)).toNat = 149 - k := by omega
    have hk' : k ≤ 149 := by omega
    rw [if_neg c, t1, pow_split hk']
    have hp := two_pow_pos (149 - k)
    generalize 2 ^ (149 - k) = P at *
    have hq := two_pow_pos k
    generalize 2 ^ k = Q at *
    have d1 := Nat.div_add_mod m P
    have d2 := Nat.mod_lt m hp
    constructor
    · rw [← Nat.mul_assoc]
      apply Nat.mul_le_mul_right
      rw [Nat.mul_comm]; omega
    · rw [← Nat.mul_assoc]
      apply Nat.mul_lt_mul_of_pos_right _ hq
      rw [Nat.add_mul, Nat.mul_comm (m / P) P]; omega

theorem V_one : V oneBits = 2 ^ 149 := by decide

theorem magLeOne_of_le {v : Nat} (h : v ≤ oneBits) : MagLeOne v := by
  unfold MagLeOne two32 oneBits at *
  rcases absBits_eq v with ⟨a, e⟩ | ⟨a, e⟩ <;> omega

/-! ## the quarter-wave interpolation -/

/-- what the kernel checks on the extracted table and on `0..segs` (all decidable). -/
structure InterpFacts (lut : Nat → Option Nat) (segs : Nat) : Prop where
  segF_nf : NF (ofNatF segs)
  segF_val : V (ofNatF segs) = segs * 2 ^ 149
  idx : ∀ i, i < segs → NF (ofNatF i) ∧ V (ofNatF i) = i * 2 ^ 149
  tab : ∀ i, i < segs → ∃ y0 y1, lut i = some y0 ∧ lut (i + 1) = some y1 ∧ NF y0 ∧
    NF (fsub y1 y0) ∧ V y0 + V (fsub y1 y0) ≤ 2 ^ 149
  negz : ∀ da, sinQtrInterp da lut segs negZero = some 0

theorem fracPi2_nf : NF fracPi2 := by decide
theorem fracPi2_mm : mm fracPi2 ≠ 0 := by decide

/-- inside the argument range the interpolation never panics (table index in range) and its result
    is a non-negative pattern `≤ 1.0`. -/
theorem interp_in_range {lut : Nat → Option Nat} {segs : Nat} (F : InterpFacts lut segs) (da : Bool)
    {a : Nat} (hr : (fle 0 a && fle a fracPi2) = true) :
    ∃ v, sinQtrInterp da lut segs a = some v ∧ v ≤ oneBits := by
  rcases range_check hr with rfl | hle
  · exact ⟨0, F.negz da, by decide⟩
  · have ha : NF a := by unfold NF; unfold fracPi2 at hle; omega
    unfold sinQtrInterp
    rw [hr]
    simp only [Bool.not_true, Bool.false_eq_true, if_false]
    have hu : Pos (fmul a (ofNatF segs)) := fmul_NF_pos ha F.segF_nf
    have ht : Pos (fdiv (fmul a (ofNatF segs)) fracPi2) := fdiv_pos hu fracPi2_nf fracPi2_mm
    generalize fdiv (fmul a (ofNatF segs)) fracPi2 = t at *
    have hsp : Pos (ofNatF segs) := Nat.le_of_lt F.segF_nf
    rw [fle_pos hsp ht]
    by_cases hc : ofNatF segs ≤ t
    · rw [decide_eq_true hc]; exact ⟨oneBits, rfl, Nat.le_refl _⟩
    · rw [decide_eq_false hc]
      simp only [Bool.false_eq_true, if_false]
      have htn : NF t := by unfold NF; have := F.segF_nf; unfold NF at this; omega
      have hfl := truncNat_NF htn
      have hVt : V t < segs * 2 ^ 149 := by rw [← F.segF_val]; exact V_lt (by omega)
      have hi : truncNat t < segs := by
        apply Nat.lt_of_mul_lt_mul_right (a := 2 ^ 149)
        omega
      generalize truncNat t = i0 at *
      obtain ⟨hfi, hvi⟩ := F.idx i0 hi
      obtain ⟨y0, y1, e0, e1, hy0, hD, hsum⟩ := F.tab i0 hi
      rw [e0, e1]
      simp only []
      refine ⟨_, rfl, ?_⟩
      -- frac = t − i0 ∈ [0, 1]
      have hfrac : fsub t (ofNatF i0) ≤ oneBits := by
        apply fsub_NF_le htn hfi (by omega)
        rw [V_one]; omega
      generalize fsub t (ofNatF i0) = frac at *
      have hfn : NF frac := by unfold NF; unfold oneBits at hfrac; omega
      have hVf : V frac ≤ 2 ^ 149 := by rw [← V_one]; exact V_mono hfrac
      generalize fsub y1 y0 = D at *
      -- p = frac · D ≤ D
      have hp : fmul frac D ≤ D := by
        apply fmul_NF_le hfn hD
        rw [Nat.mul_comm]
        exact Nat.mul_le_mul_left _ hVf
      have hpn : NF (fmul frac D) := by unfold NF at *; omega
      have hVp : V (fmul frac D) ≤ V D := V_mono hp
      apply fadd_NF_le hy0 hpn
      rw [V_one]; omega

theorem interp_range {lut : Nat → Option Nat} {segs : Nat} (F : InterpFacts lut segs) (da : Bool)
    (a v : Nat) (h : sinQtrInterp da lut segs a = some v) : MagLeOne v := by
  by_cases hr : (fle 0 a && fle a fracPi2) = true
  · obtain ⟨w, hw, hle⟩ := interp_in_range F da hr
    rw [hw] at h; injection h with h; rw [← h]; exact magLeOne_of_le hle
  · unfold sinQtrInterp at h
    rw [Bool.not_eq_true] at hr
    rw [hr] at h
    simp only [Bool.not_false, if_true] at h
    cases da
    · simp at h; rw [← h]; decide
    · simp at h

/-- `sin_qtr_interp` panics exactly when debug assertions are on and the argument check fails. -/
theorem interp_none_iff {lut : Nat → Option Nat} {segs : Nat} (F : InterpFacts lut segs) (da : Bool)
    (a : Nat) : sinQtrInterp da lut segs a = none ↔ (da = true ∧ (fle 0 a && fle a fracPi2) = false) := by
  by_cases hr : (fle 0 a && fle a fracPi2) = true
  · obtain ⟨w, hw, _⟩ := interp_in_range F da hr
    rw [hw, hr]; simp
  · rw [Bool.not_eq_true] at hr
    unfold sinQtrInterp
    rw [hr]
    cases da <;> simp

/-- one segment of the table, as the kernel checks it: `i as f32` exact; `y0 ≤ y1` non-negative finite;
    and a WITNESS pattern `d` (candidate for `y1 − y0`, computed by `fastFloor`, not trusted) that is
    non-negative finite, at least the exact difference, with `y0 + d ≤ 1` exactly. -/
def rowOk (i y0 y1 : Nat) : Bool :=
  decide (NF (ofNatF i)) && V (ofNatF i) == i * 2 ^ 149 && decide (NF y0) && decide (NF y1) &&
  decide (V y0 ≤ V y1) &&
  (let d := fastFloor (V y1 - V y0) (2 ^ 149)
   decide (NF d) && decide (V y1 - V y0 ≤ V d) && decide (V y0 + V d ≤ 2 ^ 149))

/-- all adjacent pairs of the table, in one linear pass. -/
def rowsOk : Nat → List Nat → Bool
  | i, y0 :: y1 :: rest => rowOk i y0 y1 && rowsOk (i + 1) (y1 :: rest)
  | _, _ => true

theorem rowsOk_sound : ∀ (l : List Nat) (k : Nat), rowsOk k l = true → ∀ j, j + 1 < l.length →
    ∃ y0 y1, l[j]? = some y0 ∧ l[j + 1]? = some y1 ∧ rowOk (k + j) y0 y1 = true
  | [], _, _, j, hj => by simp at hj
  | [_], _, _, j, hj => by simp at hj
  | a :: b :: t, k, h, j, hj => by
    simp only [rowsOk, Bool.and_eq_true] at h
    cases j with
    | zero => exact ⟨a, b, rfl, rfl, h.1⟩
    | succ j =>
      have hj' : j + 1 < (b :: t).length := by simp at hj ⊢; omega
      obtain ⟨y0, y1, e0, e1, hr⟩ := rowsOk_sound (b :: t) (k + 1) h.2 j hj'
      refine ⟨y0, y1, by simpa using e0, by simpa using e1, ?_⟩
      have : k + (j + 1) = k + 1 + j := by omega
      rw [this]; exact hr

theorem rowOk_facts {i y0 y1 : Nat} (h : rowOk i y0 y1 = true) :
    (NF (ofNatF i) ∧ V (ofNatF i) = i * 2 ^ 149) ∧
    NF y0 ∧ NF (fsub y1 y0) ∧ V y0 + V (fsub y1 y0) ≤ 2 ^ 149 := by
  simp only [rowOk, Bool.and_eq_true, decide_eq_true_eq, beq_iff_eq] at h
  obtain ⟨⟨⟨⟨⟨h1, h2⟩, h3⟩, h4⟩, h5⟩, ⟨h6, h7⟩, h8⟩ := h
  generalize fastFloor (V y1 - V y0) (2 ^ 149) = d at *
  have hle : fsub y1 y0 ≤ d := fsub_NF_le h4 h3 h5 h7
  have hV := V_mono hle
  refine ⟨⟨h1, h2⟩, h3, ?_, by omega⟩
  unfold NF at *; omega

def interpCheck (arr : Array Nat) (segs : Nat) : Bool :=
  arr.size == segs + 1 && decide (NF (ofNatF segs)) && V (ofNatF segs) == segs * 2 ^ 149 &&
  rowsOk 0 arr.toList &&
  sinQtrInterp true (fun i => arr[i]?) segs negZero == some 0 &&
  sinQtrInterp false (fun i => arr[i]?) segs negZero == some 0

theorem interpCheck_sound {arr : Array Nat} {segs : Nat} (h : interpCheck arr segs = true) :
    InterpFacts (fun i => arr[i]?) segs := by
  simp only [interpCheck, Bool.and_eq_true, decide_eq_true_eq, beq_iff_eq] at h
  obtain ⟨⟨⟨⟨⟨h0, h1⟩, h2⟩, h3⟩, h4⟩, h5⟩ := h
  have rows : ∀ i, i < segs → ∃ y0 y1, arr[i]? = some y0 ∧ arr[i + 1]? = some y1 ∧ rowOk i y0 y1 = true := by
    intro i hi
    have := rowsOk_sound arr.toList 0 h3 i (by simp; omega)
    simpa using this
  refine ⟨h1, h2, ?_, ?_, ?_⟩
  · intro i hi
    obtain ⟨y0, y1, _, _, hr⟩ := rows i hi
    exact (rowOk_facts hr).1
  · intro i hi
    obtain ⟨y0, y1, e0, e1, hr⟩ := rows i hi
    exact ⟨y0, y1, e0, e1, (rowOk_facts hr).2⟩
  · intro da; cases da
    · exact h5
    · exact h4

/-! ## range reduction: the argument check of `sin_qtr_interp` can never fail on a finite angle -/

theorem tau_nf : NF tauBits := by decide

/-- `|x| % TAU` is a non-negative pattern strictly below TAU (so at most its predecessor). -/
theorem fmod_tau_le {ax : Nat} (h : NF ax) : fmod ax tauBits ≤ 0x40c90fda := by
  have hax : ee ax < 128 → ax ≤ 0x40c90fda := by unfold ee; omega
  have hVax : V ax = mm ax * 2 ^ ee ax := rfl
  unfold fmod
  rw [decode_NF h, decode_NF tau_nf]
  simp only []
  have hmt : mm tauBits = 13176795 := by decide
  have hkt : ee tauBits = 128 := by decide
  have hV : V 0x40c90fda = 13176794 * 2 ^ 128 := by decide +kernel
  generalize mm tauBits = mt at *
  generalize ee tauBits = kt at *
  generalize mm ax = ma at *
  generalize ee ax = k at *
  subst hmt hkt
  rw [if_neg (by decide)]
  unfold dyadicResult
  by_cases hle : k ≤ 128
  · have c1 : ((k : Int) - 149 ≤ ((128 : Nat) : Int) - 149) := by omega
    have t1 : ((k : Int) - 149 - ((k : Int) - 149)).toNat = 0 := by omega
    have t2 : (((128 : Nat) : Int) - 149 - ((k : Int) - 149)).toNat = 128 - k := by omega
    simp only [if_pos c1, t1, t2, Nat.pow_zero, Nat.mul_one]
    have hm1 : ma % (13176795 * 2 ^ (128 - k)) ≤ ma := Nat.mod_le _ _
    have hm2 : ma % (13176795 * 2 ^ (128 - k)) < 13176795 * 2 ^ (128 - k) :=
      Nat.mod_lt _ (Nat.mul_pos (by decide) (two_pow_pos _))
    generalize ma % (13176795 * 2 ^ (128 - k)) = rem at *
    by_cases h0 : rem = 0
    · rw [if_pos h0]; simp [signed]
    · rw [if_neg h0]
      apply roundDyadic_le 149 (by omega)
      have t3 : ((k : Int) - 149 + (149 : Nat)).toNat = k := by omega
      rw [t3]
      apply Nat.mul_le_mul_right
      by_cases hk : k = 128
      · subst hk
        rw [hV]
        apply Nat.mul_le_mul_right
        simp at hm2; omega
      · have hmono := V_mono (hax (by omega))
        rw [hVax] at hmono
        exact Nat.le_trans (Nat.mul_le_mul_right _ hm1) hmono
  · have c1 : ¬ ((k : Int) - 149 ≤ ((128 : Nat) : Int) - 149) := by omega
    have t1 : (((128 : Nat) : Int) - 149 - (((128 : Nat) : Int) - 149)).toNat = 0 := by omega
    have t2 : ((k : Int) - 149 - (((128 : Nat) : Int) - 149)).toNat = k - 128 := by omega
    simp only [if_neg c1, t1, t2, Nat.pow_zero, Nat.mul_one]
    have hm2 : ma * 2 ^ (k - 128) % 13176795 < 13176795 := Nat.mod_lt _ (by decide)
    generalize ma * 2 ^ (k - 128) % 13176795 = rem at *
    by_cases h0 : rem = 0
    · rw [if_pos h0]; simp [signed]
    · rw [if_neg h0]
      apply roundDyadic_le 149 (by omega)
      have t3 : (((128 : Nat) : Int) - 149 + (149 : Nat)).toNat = 128 := by omega
      rw [t3]
      apply Nat.mul_le_mul_right
      rw [hV]
      apply Nat.mul_le_mul_right
      omega

theorem frac3Pi2_val : frac3Pi2 = 0x4096cbe4 := by decide +kernel

/-- the in-quadrant angle produced by the comparison-based split is a non-negative pattern `≤ π/2`. -/
theorem reduce_range {ax : Nat} (h : NF ax) : (reduceQuadrant ax).2 ≤ fracPi2 := by
  unfold reduceQuadrant
  have hr := fmod_tau_le h
  generalize fmod ax tauBits = r at *
  have hp : Pos r := by unfold Pos; omega
  have hn : NF r := by unfold NF; omega
  simp only []
  rw [flt_pos hp (by decide : Pos 0)]
  have hz : decide (r < 0) = false := by simp
  rw [hz]
  simp only [Bool.false_eq_true, if_false]
  rw [frac3Pi2_val]
  rw [flt_pos hp (by decide : Pos fracPi2), flt_pos hp (by decide : Pos piBits),
    flt_pos hp (by decide : Pos 0x4096cbe4)]
  have nf1 : NF fracPi2 := by decide
  have nf2 : NF piBits := by decide
  have nf3 : NF 0x4096cbe4 := by decide
  have v1 : V 0x40490fda ≤ V fracPi2 + V fracPi2 := by decide +kernel
  have v2 : V 0x4096cbe3 ≤ V piBits + V fracPi2 := by decide +kernel
  have v3 : V 0x40c90fda ≤ V 0x4096cbe4 + V fracPi2 := by decide +kernel
  by_cases h0 : r < fracPi2
  · rw [decide_eq_true h0]; simp only [if_true]; omega
  · rw [decide_eq_false h0]; simp only [Bool.false_eq_true, if_false]
    by_cases h1 : r < piBits
    · rw [decide_eq_true h1]; simp only [if_true]
      have hm := V_mono (show r ≤ 0x40490fda by unfold piBits at h1; omega)
      exact fsub_NF_le hn nf1 (V_mono (by omega)) (by omega)
    · rw [decide_eq_false h1]; simp only [Bool.false_eq_true, if_false]
      by_cases h2 : r < 0x4096cbe4
      · rw [decide_eq_true h2]; simp only [if_true]
        have hm := V_mono (show r ≤ 0x4096cbe3 by omega)
        exact fsub_NF_le hn nf2 (V_mono (by omega)) (by omega)
      · rw [decide_eq_false h2]; simp only [Bool.false_eq_true, if_false]
        have hm := V_mono hr
        exact fsub_NF_le hn nf3 (V_mono (by omega)) (by omega)

theorem range_check_of_le {a : Nat} (h : a ≤ fracPi2) : (fle 0 a && fle a fracPi2) = true := by
  have hp : Pos a := by unfold Pos; unfold fracPi2 at h; omega
  rw [fle_pos (by decide : Pos 0) hp, fle_pos hp (by decide : Pos fracPi2)]
  simp [h]

/-- on a non-negative finite |angle| the whole |x| pipeline returns, in either profile: neither
    argument check of `sin_qtr_interp` can fail and the table index is in range. -/
theorem trigCore_isSome {lut : Nat → Option Nat} {segs : Nat} (F : InterpFacts lut segs) (da : Bool)
    {ax : Nat} (h : NF ax) : trigCore da lut segs ax ≠ none := by
  unfold trigCore
  have ha := reduce_range h
  generalize reduceQuadrant ax = qa at *
  have nf1 : NF fracPi2 := by decide
  have han : NF qa.2 := by unfold NF; unfold fracPi2 at ha; omega
  have hb : fsub fracPi2 qa.2 ≤ fracPi2 := fsub_NF_le nf1 han (V_mono ha) (Nat.sub_le _ _)
  obtain ⟨s, hs, _⟩ := interp_in_range F da (range_check_of_le ha)
  obtain ⟨c, hc, _⟩ := interp_in_range F da (range_check_of_le hb)
  simp only [hs, hc]
  intro k; cases k

theorem absBits_NF {x : Nat} (hx : x < two32) (hf : isFiniteB x) : NF (absBits x) := by
  unfold NF; unfold two32 at hx; unfold isFiniteB expField at hf
  rcases absBits_eq x with ⟨a, e⟩ | ⟨a, e⟩ <;> omega

/-- FULL totality of `sin_cos_f32`: it panics iff the angle is non-finite and debug assertions are on. -/
theorem sinCos_none_iff {lut : Nat → Option Nat} {segs : Nat} (F : InterpFacts lut segs) (da : Bool)
    {x : Nat} (hx : x < two32) : sinCos da lut segs x = none ↔ (¬ isFiniteB x ∧ da = true) := by
  unfold sinCos sinCosWith
  by_cases hf : isFiniteB x
  · rw [if_neg (by simpa using hf)]
    cases hc : trigCore da lut segs (absBits x) with
    | none => exact absurd hc (trigCore_isSome F da (absBits_NF hx hf))
    | some p => simp [hf]
  · rw [if_pos hf]
    cases da <;> simp [hf]

end EchoVerif.Math
