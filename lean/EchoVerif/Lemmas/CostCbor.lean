/-
  Lemmas for the ABI CBOR cost model (C13): invariants carried through `items`/`entries`/`decValue`.
-/
import EchoVerif.Model.CostCbor

set_option linter.unusedSimpArgs false
set_option linter.unusedVariables false

namespace EchoVerif.CostCbor

/-! ### heads consume what they report -/

theorem readUint_ok {n : Nat} {bs : Bytes} {v : Nat} {r : Bytes}
    (h : readUint n bs = .ok (v, r)) : r.length + n = bs.length := by
  unfold readUint at h
  split at h
  · cases h
  · rename_i hs
    rw [shorter_iff] at hs
    cases h
    simp [List.length_drop]
    omega

theorem readUint_err {n : Nat} {bs : Bytes} {e : Err}
    (h : readUint n bs = .error e) : e = .incomplete := by
  unfold readUint at h
  split at h
  · cases h; rfl
  · cases h

theorem readLen_ok {info : Nat} {bs : Bytes} {v : Nat} {r : Bytes}
    (h : readLen info bs = .ok (v, r)) : r.length ≤ bs.length := by
  unfold readLen at h
  repeat' split at h
  all_goals first
    | (cases h; done)
    | (cases h; omega)
    | (cases h; rename_i hu; have := readUint_ok hu; omega)
    | (cases h; rename_i hu _; have := readUint_ok hu; omega)

theorem readLen_err {info : Nat} {bs : Bytes} {e : Err}
    (h : readLen info bs = .error e) : e ≠ .fuel := by
  unfold readLen at h
  repeat' split at h
  all_goals first
    | (cases h; done)
    | (cases h; decide)
    | (cases h; rename_i hu; have := readUint_err hu; subst this; decide)

theorem floatCheck_ne_fuel {w v : Nat} {e : Err} (h : floatCheck w v = some e) : e ≠ .fuel := by
  intro he
  subst he
  revert h
  unfold floatCheck
  simp only
  repeat' split
  all_goals simp

theorem keyCheck_ne_fuel {last : Option Bytes} {kb : Bytes} {e : Err}
    (h : keyCheck last kb = some e) : e ≠ .fuel := by
  intro he
  subst he
  revert h
  unfold keyCheck
  repeat' split
  all_goals simp

/-- What a head guarantees about the bytes it leaves (`n` = length of the input of the call). -/
def HeadOk (n : Nat) : Head → Prop
  | .done (.ok r) c => 1 + c + r.length ≤ n
  | .done (.error e) c => c = 0 ∧ e ≠ .fuel
  | .arr _ rest => rest.length + 1 ≤ n
  | .map _ rest => rest.length + 1 ≤ n

theorem headInt_ok (neg : Bool) (info : Nat) (rest : Bytes) :
    HeadOk (rest.length + 1) (headInt neg info rest) := by
  unfold headInt
  split
  · rename_i n r hu
    have := readLen_ok hu
    split
    · exact ⟨rfl, by decide⟩
    · simp only [HeadOk]; omega
  · rename_i e hu
    exact ⟨rfl, readLen_err hu⟩

theorem headStr_ok (text : Bool) (info : Nat) (rest : Bytes) :
    HeadOk (rest.length + 1) (headStr text info rest) := by
  unfold headStr
  split
  · rename_i n r hu
    have := readLen_ok hu
    split
    · exact ⟨rfl, by decide⟩
    · rename_i hs
      rw [shorter_iff] at hs
      split
      · exact ⟨rfl, by decide⟩
      · simp only [HeadOk, List.length_drop]; omega
  · rename_i e hu
    exact ⟨rfl, readLen_err hu⟩

theorem headArr_ok (info : Nat) (rest : Bytes) : HeadOk (rest.length + 1) (headArr info rest) := by
  unfold headArr
  split
  · rename_i n r hu
    have := readLen_ok hu
    simp only [HeadOk]; omega
  · rename_i e hu
    exact ⟨rfl, readLen_err hu⟩

theorem headMap_ok (info : Nat) (rest : Bytes) : HeadOk (rest.length + 1) (headMap info rest) := by
  unfold headMap
  split
  · rename_i n r hu
    have := readLen_ok hu
    simp only [HeadOk]; omega
  · rename_i e hu
    exact ⟨rfl, readLen_err hu⟩

theorem headFloat_ok (w : Nat) (rest : Bytes) : HeadOk (rest.length + 1) (headFloat w rest) := by
  unfold headFloat
  split
  · rename_i v r hu
    have := readUint_ok hu
    split
    · rename_i e hf
      exact ⟨rfl, floatCheck_ne_fuel hf⟩
    · simp only [HeadOk]; omega
  · rename_i e hu
    have := readUint_err hu
    subst this
    exact ⟨rfl, by decide⟩

theorem headSimple_ok (info : Nat) (rest : Bytes) : HeadOk (rest.length + 1) (headSimple info rest) := by
  unfold headSimple
  repeat' split
  all_goals first
    | exact headFloat_ok _ _
    | exact ⟨rfl, by decide⟩
    | (simp only [HeadOk]; omega)

theorem dispatch_ok (major info : Nat) (rest : Bytes) :
    HeadOk (rest.length + 1) (dispatch major info rest) := by
  unfold dispatch
  repeat' split
  all_goals first
    | exact headInt_ok _ _ _
    | exact headStr_ok _ _ _
    | exact headArr_ok _ _
    | exact headMap_ok _ _
    | exact headSimple_ok _ _
    | exact ⟨rfl, by decide⟩

theorem decHead_ok : ∀ bs : Bytes, HeadOk bs.length (decHead bs)
  | [] => ⟨rfl, by decide⟩
  | b0 :: rest => dispatch_ok _ _ rest

/-! ### invariant 1: the reserve budget (needs `capRule = .reserve`) -/

/-- `alloc + reserve` is conserved by a decoding step -/
def Bud (f : Bytes → St → R) : Prop :=
  ∀ bs st, (f bs st).1.alloc + (f bs st).1.reserve = st.alloc + st.reserve

theorem items_bud {dv : Bytes → St → R} (h : Bud dv) : ∀ n, Bud (items dv n)
  | 0 => fun _ _ => rfl
  | n + 1 => fun bs st => by
    have h1 := h bs st
    unfold items
    split
    · rename_i st' rest heq
      rw [heq] at h1
      have ih := items_bud h n rest st'
      simp only at h1
      omega
    · rename_i st' e heq
      rw [heq] at h1
      exact h1

theorem entry_bud {dv : Bytes → St → R} (h : Bud dv) (last : Option Bytes) (bs : Bytes) (st : St) :
    (entry dv last bs st).1.alloc + (entry dv last bs st).1.reserve = st.alloc + st.reserve := by
  have h1 := h bs st
  unfold entry
  split
  · rename_i st1 e heq
    rw [heq] at h1; exact h1
  · rename_i st1 r1 heq
    rw [heq] at h1
    simp only at h1
    split
    · exact h1
    · have h2 := h r1 st1
      split
      · rename_i st2 e heq2
        rw [heq2] at h2; simp only at h2 ⊢; omega
      · rename_i st2 r2 heq2
        rw [heq2] at h2; simp only at h2 ⊢; omega

theorem entries_bud {dv : Bytes → St → R} (h : Bud dv) : ∀ n last, Bud (entries dv n last)
  | 0, _ => fun _ _ => rfl
  | n + 1, last => fun bs st => by
    have h1 := entry_bud h last bs st
    unfold entries
    split
    · rename_i st2 e heq
      rw [heq] at h1; exact h1
    · rename_i st2 r2 kb heq
      rw [heq] at h1
      have ih := entries_bud h n (some kb) r2 st2
      simp only at h1
      omega

theorem reserveFor_bud {p : Params} (hp : p.capRule = .reserve) (len : Nat) (st : St) :
    (reserveFor p len st).alloc + (reserveFor p len st).reserve = st.alloc + st.reserve := by
  unfold reserveFor
  rw [hp]
  simp only
  have : min len st.reserve ≤ st.reserve := Nat.min_le_right _ _
  omega

theorem decValue_bud {p : Params} (hp : p.capRule = .reserve) :
    ∀ room depth, Bud (decValue p room depth)
  | 0, depth => fun bs st => by
    unfold decValue
    split <;> simp [tick]
  | room + 1, depth => fun bs st => by
    unfold decValue
    split
    · simp [tick]
    · have := items_bud (decValue_bud hp room (depth + 1)) ‹_› ‹_› (reserveFor p ‹_› (tick st depth))
      have h2 := reserveFor_bud hp ‹_› (tick st depth)
      simp only [tick] at this h2 ⊢
      omega
    · have := entries_bud (decValue_bud hp room (depth + 1)) ‹_› none ‹_› (reserveFor p ‹_› (tick st depth))
      have h2 := reserveFor_bud hp ‹_› (tick st depth)
      simp only [tick] at this h2 ⊢
      omega

/-! ### invariant 2: nesting depth (any parameters) -/

/-- a step never records a depth above `B` -/
def Dp (B : Nat) (f : Bytes → St → R) : Prop :=
  ∀ bs st, (f bs st).1.maxDepth ≤ max st.maxDepth B

theorem items_dp {B : Nat} {dv : Bytes → St → R} (h : Dp B dv) : ∀ n, Dp B (items dv n)
  | 0 => fun _ st => Nat.le_max_left _ _
  | n + 1 => fun bs st => by
    have h1 := h bs st
    unfold items
    split
    · rename_i st' rest heq
      rw [heq] at h1
      have ih := items_dp h n rest st'
      simp only at h1
      omega
    · rename_i st' e heq
      rw [heq] at h1
      exact h1

theorem entry_dp {B : Nat} {dv : Bytes → St → R} (h : Dp B dv) (last : Option Bytes) (bs : Bytes)
    (st : St) : (entry dv last bs st).1.maxDepth ≤ max st.maxDepth B := by
  have h1 := h bs st
  unfold entry
  split
  · rename_i st1 e heq
    rw [heq] at h1; exact h1
  · rename_i st1 r1 heq
    rw [heq] at h1
    simp only at h1
    split
    · exact h1
    · have h2 := h r1 st1
      split
      · rename_i st2 e heq2
        rw [heq2] at h2; simp only at h2 ⊢; omega
      · rename_i st2 r2 heq2
        rw [heq2] at h2; simp only at h2 ⊢; omega

theorem entries_dp {B : Nat} {dv : Bytes → St → R} (h : Dp B dv) : ∀ n last, Dp B (entries dv n last)
  | 0, _ => fun _ st => Nat.le_max_left _ _
  | n + 1, last => fun bs st => by
    have h1 := entry_dp h last bs st
    unfold entries
    split
    · rename_i st2 e heq
      rw [heq] at h1; exact h1
    · rename_i st2 r2 kb heq
      rw [heq] at h1
      have ih := entries_dp h n (some kb) r2 st2
      simp only at h1
      omega

theorem reserveFor_maxDepth (p : Params) (len : Nat) (st : St) :
    (reserveFor p len st).maxDepth = st.maxDepth := by
  unfold reserveFor
  split <;> rfl

theorem decValue_dp (p : Params) : ∀ room depth, Dp (depth + room) (decValue p room depth)
  | 0, depth => fun bs st => by
    unfold decValue
    split <;> simp [tick] <;> omega
  | room + 1, depth => fun bs st => by
    unfold decValue
    split
    · simp [tick]; omega
    · have := items_dp (decValue_dp p room (depth + 1)) ‹_› ‹_› (reserveFor p ‹_› (tick st depth))
      rw [reserveFor_maxDepth] at this
      simp only [tick] at this ⊢
      omega
    · have := entries_dp (decValue_dp p room (depth + 1)) ‹_› none ‹_› (reserveFor p ‹_› (tick st depth))
      rw [reserveFor_maxDepth] at this
      simp only [tick] at this ⊢
      omega

/-! ### invariant 3: work (calls + copied bytes) is paid for by consumed input (any parameters) -/

def W (st : St) : Nat := st.steps + st.copied

/-- on success the work done is at most the bytes consumed; on failure at most the bytes
    available plus one (the failing call itself) -/
def WkR (n w : Nat) : R → Prop
  | (st', .ok rest) => W st' + rest.length ≤ w + n
  | (st', .error _) => W st' ≤ w + n + 1

def Wk (f : Bytes → St → R) : Prop := ∀ bs st, WkR bs.length (W st) (f bs st)

theorem items_wk {dv : Bytes → St → R} (h : Wk dv) : ∀ n, Wk (items dv n)
  | 0 => fun bs st => by simp [items, WkR]
  | n + 1 => fun bs st => by
    have h1 := h bs st
    unfold items
    split
    · rename_i st' rest heq
      rw [heq] at h1
      have ih := items_wk h n rest st'
      simp only [WkR] at h1
      generalize items dv n rest st' = r at ih ⊢
      obtain ⟨st2, _ | _⟩ := r <;> simp only [WkR] at ih ⊢ <;> omega
    · rename_i st' e heq
      rw [heq] at h1
      exact h1

/-- `entry` seen as a step (forgetting the key bytes) -/
def WkE (n w : Nat) : St × Except Err (Bytes × Bytes) → Prop
  | (st', .ok (rest, _)) => W st' + rest.length ≤ w + n
  | (st', .error _) => W st' ≤ w + n + 1

theorem entry_wk {dv : Bytes → St → R} (h : Wk dv) (last : Option Bytes) (bs : Bytes) (st : St) :
    WkE bs.length (W st) (entry dv last bs st) := by
  have h1 := h bs st
  unfold entry
  split
  · rename_i st1 e heq
    rw [heq] at h1; exact h1
  · rename_i st1 r1 heq
    rw [heq] at h1
    simp only [WkR] at h1
    split
    · simp only [WkE]; omega
    · have h2 := h r1 st1
      split
      · rename_i st2 e heq2
        rw [heq2] at h2; simp only [WkR, WkE] at h2 ⊢; omega
      · rename_i st2 r2 heq2
        rw [heq2] at h2; simp only [WkR, WkE] at h2 ⊢; omega

theorem entries_wk {dv : Bytes → St → R} (h : Wk dv) : ∀ n last, Wk (entries dv n last)
  | 0, _ => fun bs st => by simp [entries, WkR]
  | n + 1, last => fun bs st => by
    have h1 := entry_wk h last bs st
    unfold entries
    split
    · rename_i st2 e heq
      rw [heq] at h1; exact h1
    · rename_i st2 r2 kb heq
      rw [heq] at h1
      have ih := entries_wk h n (some kb) r2 st2
      simp only [WkE] at h1
      generalize entries dv n (some kb) r2 st2 = r at ih ⊢
      obtain ⟨st3, _ | _⟩ := r <;> simp only [WkR] at ih ⊢ <;> omega

theorem reserveFor_W (p : Params) (len : Nat) (st : St) : W (reserveFor p len st) = W st := by
  unfold reserveFor
  split <;> rfl

theorem decValue_wk (p : Params) : ∀ room depth, Wk (decValue p room depth)
  | 0, depth => fun bs st => by
    have hh := decHead_ok bs
    unfold decValue
    split
    · rename_i r c heq
      rw [heq] at hh
      cases r with
      | ok rest => simp only [HeadOk] at hh; simp only [WkR, W, tick]; omega
      | error e => simp only [HeadOk] at hh; simp only [WkR, W, tick]; omega
    · simp only [WkR, W, tick]; omega
    · simp only [WkR, W, tick]; omega
  | room + 1, depth => fun bs st => by
    have hh := decHead_ok bs
    unfold decValue
    split
    · rename_i r c heq
      rw [heq] at hh
      cases r with
      | ok rest => simp only [HeadOk] at hh; simp only [WkR, W, tick]; omega
      | error e => simp only [HeadOk] at hh; simp only [WkR, W, tick]; omega
    · rename_i len rest heq
      rw [heq] at hh
      simp only [HeadOk] at hh
      have := items_wk (decValue_wk p room (depth + 1)) len rest (reserveFor p len (tick st depth))
      rw [reserveFor_W] at this
      generalize items (decValue p room (depth + 1)) len rest (reserveFor p len (tick st depth)) = r at this ⊢
      obtain ⟨st2, _ | _⟩ := r <;> simp only [WkR, W, tick] at this ⊢ <;> omega
    · rename_i len rest heq
      rw [heq] at hh
      simp only [HeadOk] at hh
      have := entries_wk (decValue_wk p room (depth + 1)) len none rest (reserveFor p len (tick st depth))
      rw [reserveFor_W] at this
      generalize entries (decValue p room (depth + 1)) len none rest (reserveFor p len (tick st depth)) = r at this ⊢
      obtain ⟨st2, _ | _⟩ := r <;> simp only [WkR, W, tick] at this ⊢ <;> omega

/-! ### invariant 4: the recursion parameter is never the reason to stop (needs the nesting check) -/

def Nf (f : Bytes → St → R) : Prop := ∀ bs st, (f bs st).2 ≠ .error .fuel

theorem items_nf {dv : Bytes → St → R} (h : Nf dv) : ∀ n, Nf (items dv n)
  | 0 => fun bs st => by simp [items]
  | n + 1 => fun bs st => by
    have h1 := h bs st
    unfold items
    split
    · rename_i st' rest heq
      exact items_nf h n rest st'
    · rename_i st' e heq
      rw [heq] at h1
      exact h1

theorem entry_nf {dv : Bytes → St → R} (h : Nf dv) (last : Option Bytes) (bs : Bytes) (st : St) :
    (entry dv last bs st).2 ≠ .error .fuel := by
  have h1 := h bs st
  unfold entry
  split
  · rename_i st1 e heq
    rw [heq] at h1
    intro hc; cases hc; exact h1 rfl
  · rename_i st1 r1 heq
    split
    · rename_i e hk
      have := keyCheck_ne_fuel hk
      intro hc
      cases hc
      exact this rfl
    · have h2 := h r1 st1
      split
      · rename_i st2 e heq2
        rw [heq2] at h2
        intro hc; cases hc; exact h2 rfl
      · simp

theorem entries_nf {dv : Bytes → St → R} (h : Nf dv) : ∀ n last, Nf (entries dv n last)
  | 0, _ => fun bs st => by simp [entries]
  | n + 1, last => fun bs st => by
    have h1 := entry_nf h last bs st
    unfold entries
    split
    · rename_i st2 e heq
      rw [heq] at h1
      intro hc; cases hc; exact h1 rfl
    · rename_i st2 r2 kb heq
      exact entries_nf h n (some kb) r2 st2

theorem decValue_nf {p : Params} (hp : p.depthChecked = true) : ∀ room depth, Nf (decValue p room depth)
  | 0, depth => fun bs st => by
    have hh := decHead_ok bs
    unfold decValue
    split
    · rename_i r c heq
      rw [heq] at hh
      cases r with
      | ok rest => simp
      | error e =>
        simp only [HeadOk] at hh
        intro hc
        cases hc
        exact hh.2 rfl
    · simp [noRoom, hp]
    · simp [noRoom, hp]
  | room + 1, depth => fun bs st => by
    have hh := decHead_ok bs
    unfold decValue
    split
    · rename_i r c heq
      rw [heq] at hh
      cases r with
      | ok rest => simp
      | error e =>
        simp only [HeadOk] at hh
        intro hc
        cases hc
        exact hh.2 rfl
    · exact items_nf (decValue_nf hp room (depth + 1)) _ _ _
    · exact entries_nf (decValue_nf hp room (depth + 1)) _ _ _ _

end EchoVerif.CostCbor
