//! C15 — speculative lanes fork faithfully and settle lawfully.
//! Real code: `WorldlineRuntime::{fork_strand, ingest}`, `SchedulerCoordinator::super_tick`,
//! `SettlementService::{plan_with_policy, settle_with_policy}`, `ProvenanceService::{entry, len,
//! replay_worldline_state, replay_worldline_state_at}`; hooks `echo_verif::c09::{fingerprint,
//! set_global_tick}`.
//!
//! Case line (after the stream token):
//!   U nperm neph  L nlanes  O n {op}
//!   op   := ing wl prog | pass | fork sid src tick child head shared | plan sid pol | settle sid pol fail
//!   prog := I n {instr}  R n {slot}  W n {slot}
//!   instr:= up n ty | del n | set n v | clr n | cp s d          slot := n<k> | a<k>
//!   fail := - | a<k> (global tick overflows before decision k) | sh (shell assembly refuses: zero policy id)
//! Universe: nodes 1..nperm exist initially (type 1, reachable from the root), nperm+1..nperm+neph do not.
//! Every tick is one intent whose bytes are the program text; the rule `cmd/c15` interprets it with the
//! declared footprint = reads/writes of the instructions + the extra R/W slots.
use crate::prng::Rng;
use crate::util::{small_id, Toks};
use crate::{OracleOut, Stream, Tier};
use std::collections::{BTreeMap, BTreeSet};
use warp_core::echo_verif::c09 as hook;
use warp_core::{
    make_edge_id, make_intent_kind, make_node_id, make_type_id, make_warp_id, ActorId, AdmissionScopeId,
    AtomPayload, AttachmentKey, AttachmentOwner, AttachmentValue, AuthorityBinding, AuthorityDomainId,
    AuthorityDomainRef, CausalAuthority, CausalPosture, ConflictPolicy, ConflictReason, EdgeRecord, Engine,
    EngineBuilder, Footprint, ForkStrandRequest, GraphStore, GraphView, HeadId, HistoryError, InboxPolicy,
    IngressDisposition, IngressEnvelope, IngressTarget, MemberBlindingSalt, NodeId, NodeKey, NodeRecord,
    OriginId, PatternGraph, PlaybackMode, PluralSettlementPolicy, PostureDerivation, ProvenanceEventKind,
    ProvenanceService, ProvenanceStore, RetentionContractId, RetentionPosture, RewriteRule, RuntimeError,
    SchedulerCoordinator, SealStrength, SettlementDecision, SettlementError, SettlementPlan, SettlementPolicy,
    SettlementService, SlotId, StrandError, StrandId, StrandOverlapRevalidation, StrandRevalidationState,
    TickDelta, TypeId, WarpOp, WorldlineId, WorldlineRuntime, WorldlineState, WorldlineTick, WriterHead,
    WriterHeadKey,
};

pub fn streams() -> Vec<Stream> {
    vec![Stream { name: "C15.run", gen: gen_run, imp: imp_run, oracle: oracle_run }]
}

// ---------------------------------------------------------------------------------------------
// case
// ---------------------------------------------------------------------------------------------

#[derive(Clone, Copy, Debug, PartialEq, Eq, PartialOrd, Ord)]
enum Slot {
    Node(u64),
    Att(u64),
}

#[derive(Clone, Debug)]
enum Instr {
    Up(u64, u64),
    Del(u64),
    Set(u64, u64),
    Clr(u64),
    Cp(u64, u64),
}

#[derive(Clone, Debug, Default)]
struct Prog {
    instrs: Vec<Instr>,
    xr: Vec<Slot>,
    xw: Vec<Slot>,
}

#[derive(Clone, Copy, Debug, PartialEq, Eq)]
enum Fail {
    None,
    At(u64),
    Shell,
}

#[derive(Clone, Debug)]
enum Op {
    Ing(u64, Prog),
    Pass,
    Fork { sid: u64, src: u64, tick: u64, child: u64, head: u64, shared: bool },
    Plan(u64, bool),
    Settle(u64, bool, Fail),
}

struct Case {
    nperm: u64,
    neph: u64,
    nl: u64,
    ops: Vec<Op>,
}

fn expect(t: &mut Toks, lit: &str) -> Result<(), String> {
    let x = t.next()?;
    if x == lit {
        Ok(())
    } else {
        Err(format!("expected {lit} got {x}"))
    }
}

fn parse_slot(t: &mut Toks) -> Result<Slot, String> {
    let s = t.next()?;
    let n: u64 = s.get(1..).and_then(|x| x.parse().ok()).ok_or_else(|| format!("bad slot {s}"))?;
    match s.as_bytes().first() {
        Some(b'n') => Ok(Slot::Node(n)),
        Some(b'a') => Ok(Slot::Att(n)),
        _ => Err(format!("bad slot {s}")),
    }
}

fn parse_prog(t: &mut Toks) -> Result<Prog, String> {
    let mut p = Prog::default();
    expect(t, "I")?;
    for _ in 0..t.num()? {
        p.instrs.push(match t.next()? {
            "up" => Instr::Up(t.num()?, t.num()?),
            "del" => Instr::Del(t.num()?),
            "set" => Instr::Set(t.num()?, t.num()?),
            "clr" => Instr::Clr(t.num()?),
            "cp" => Instr::Cp(t.num()?, t.num()?),
            x => return Err(format!("bad instr {x}")),
        });
    }
    expect(t, "R")?;
    for _ in 0..t.num()? {
        p.xr.push(parse_slot(t)?);
    }
    expect(t, "W")?;
    for _ in 0..t.num()? {
        p.xw.push(parse_slot(t)?);
    }
    Ok(p)
}

fn parse_case(t: &mut Toks) -> Result<Case, String> {
    expect(t, "U")?;
    let nperm = t.num()?;
    let neph = t.num()?;
    expect(t, "L")?;
    let nl = t.num()?;
    expect(t, "O")?;
    let n = t.num()?;
    let mut ops = Vec::new();
    for _ in 0..n {
        ops.push(match t.next()? {
            "ing" => {
                let wl = t.num()?;
                Op::Ing(wl, parse_prog(t)?)
            }
            "pass" => Op::Pass,
            "fork" => Op::Fork {
                sid: t.num()?,
                src: t.num()?,
                tick: t.num()?,
                child: t.num()?,
                head: t.num()?,
                shared: t.num()? != 0,
            },
            "plan" => Op::Plan(t.num()?, t.num()? != 0),
            "settle" => {
                let sid = t.num()?;
                let pol = t.num()? != 0;
                let f = t.next()?;
                let fail = if f == "-" {
                    Fail::None
                } else if f == "sh" {
                    Fail::Shell
                } else if let Some(k) = f.strip_prefix('a').and_then(|x| x.parse().ok()) {
                    Fail::At(k)
                } else {
                    return Err(format!("bad fail {f}"));
                };
                Op::Settle(sid, pol, fail)
            }
            x => return Err(format!("bad op {x}")),
        });
    }
    if !t.done() {
        return Err("trailing tokens".into());
    }
    if nperm + neph > 12 || nl == 0 || nl > 3 {
        return Err("bad universe".into());
    }
    Ok(Case { nperm, neph, nl, ops })
}

fn prog_ok(n: u64, p: &Prog) -> bool {
    let ok_n = |k: u64| 1 <= k && k <= n;
    let ok_s = |s: &Slot| match s {
        Slot::Node(k) | Slot::Att(k) => ok_n(*k),
    };
    let mut seen = BTreeSet::new();
    for i in &p.instrs {
        let (tgt, ok) = match i {
            Instr::Up(k, ty) => (*k, ok_n(*k) && *ty < 200),
            Instr::Del(k) | Instr::Clr(k) => (*k, ok_n(*k)),
            Instr::Set(k, v) => (*k, ok_n(*k) && *v < 256),
            Instr::Cp(s, d) => (*d, ok_n(*s) && ok_n(*d)),
        };
        if !ok || !seen.insert(tgt) {
            return false;
        }
    }
    p.xr.iter().all(ok_s) && p.xw.iter().all(ok_s)
}

// ---------------------------------------------------------------------------------------------
// program text (intent bytes) and the interpreting rule
// ---------------------------------------------------------------------------------------------

fn slot_tok(s: &Slot) -> String {
    match s {
        Slot::Node(n) => format!("n{n}"),
        Slot::Att(n) => format!("a{n}"),
    }
}

fn prog_text(p: &Prog) -> String {
    let mut s = format!("I {}", p.instrs.len());
    for i in &p.instrs {
        s.push_str(&match i {
            Instr::Up(n, ty) => format!(" up {n} {ty}"),
            Instr::Del(n) => format!(" del {n}"),
            Instr::Set(n, v) => format!(" set {n} {v}"),
            Instr::Clr(n) => format!(" clr {n}"),
            Instr::Cp(a, b) => format!(" cp {a} {b}"),
        });
    }
    s.push_str(&format!(" R {}", p.xr.len()));
    for x in &p.xr {
        s.push(' ');
        s.push_str(&slot_tok(x));
    }
    s.push_str(&format!(" W {}", p.xw.len()));
    for x in &p.xw {
        s.push(' ');
        s.push_str(&slot_tok(x));
    }
    s
}

fn nid(n: u64) -> NodeId {
    NodeId(small_id(0x100 + n))
}
fn tyid(k: u64) -> TypeId {
    TypeId(small_id(0x7000 + k))
}
fn small_of(b: &[u8; 32]) -> u64 {
    u64::from_be_bytes(b[24..32].try_into().unwrap())
}
fn att_val(v: u64) -> AttachmentValue {
    AttachmentValue::Atom(AtomPayload::new(TypeId(small_id(0x55)), bytes::Bytes::from(vec![v as u8])))
}

fn program_of(view: &GraphView<'_>, scope: &NodeId) -> Option<Prog> {
    match view.node_attachment(scope) {
        Some(AttachmentValue::Atom(a)) => {
            let s = std::str::from_utf8(&a.bytes).ok()?;
            let rest = s.strip_prefix("P15 ")?;
            let mut t = Toks::new(rest);
            t.num().ok()?; // sequence number (makes every intent unique)
            let p = parse_prog(&mut t).ok()?;
            if t.done() {
                Some(p)
            } else {
                None
            }
        }
        _ => None,
    }
}

fn rule_matcher(view: GraphView<'_>, scope: &NodeId) -> bool {
    program_of(&view, scope).is_some()
}

fn instr_reads(i: &Instr) -> Vec<Slot> {
    match i {
        Instr::Up(..) => vec![],
        Instr::Del(n) | Instr::Set(n, _) | Instr::Clr(n) => vec![Slot::Node(*n)],
        Instr::Cp(s, d) => vec![Slot::Node(*d), Slot::Att(*s)],
    }
}
fn instr_writes(i: &Instr) -> Vec<Slot> {
    match i {
        Instr::Up(n, _) => vec![Slot::Node(*n)],
        Instr::Del(n) => vec![Slot::Node(*n), Slot::Att(*n)],
        Instr::Set(n, _) | Instr::Clr(n) => vec![Slot::Att(*n)],
        Instr::Cp(_, d) => vec![Slot::Att(*d)],
    }
}

fn rule_footprint(view: GraphView<'_>, scope: &NodeId) -> Footprint {
    let mut f = Footprint::default();
    f.factor_mask = u64::MAX;
    let w = view.warp_id();
    f.a_read.insert(AttachmentKey::node_alpha(NodeKey { warp_id: w, local_id: *scope }));
    if let Some(p) = program_of(&view, scope) {
        let mut rd = p.xr.clone();
        let mut wr = p.xw.clone();
        for i in &p.instrs {
            rd.extend(instr_reads(i));
            wr.extend(instr_writes(i));
        }
        for s in rd {
            match s {
                Slot::Node(n) => {
                    f.n_read.insert_with_warp(w, nid(n));
                }
                Slot::Att(n) => {
                    f.a_read.insert(AttachmentKey::node_alpha(NodeKey { warp_id: w, local_id: nid(n) }));
                }
            }
        }
        for s in wr {
            match s {
                Slot::Node(n) => {
                    f.n_write.insert_with_warp(w, nid(n));
                }
                Slot::Att(n) => {
                    f.a_write.insert(AttachmentKey::node_alpha(NodeKey { warp_id: w, local_id: nid(n) }));
                }
            }
        }
    }
    f
}

fn rule_executor(view: GraphView<'_>, scope: &NodeId, delta: &mut TickDelta) {
    let w = view.warp_id();
    let key = |n: u64| NodeKey { warp_id: w, local_id: nid(n) };
    if let Some(p) = program_of(&view, scope) {
        for i in &p.instrs {
            match i {
                Instr::Up(n, ty) => delta.push(WarpOp::UpsertNode { node: key(*n), record: NodeRecord { ty: tyid(*ty) } }),
                Instr::Del(n) => {
                    if view.node(&nid(*n)).is_some() {
                        delta.push(WarpOp::DeleteNode { node: key(*n) });
                    }
                }
                Instr::Set(n, v) => {
                    if view.node(&nid(*n)).is_some() {
                        delta.push(WarpOp::SetAttachment { key: AttachmentKey::node_alpha(key(*n)), value: Some(att_val(*v)) });
                    }
                }
                Instr::Clr(n) => {
                    if view.node(&nid(*n)).is_some() {
                        delta.push(WarpOp::SetAttachment { key: AttachmentKey::node_alpha(key(*n)), value: None });
                    }
                }
                Instr::Cp(s, d) => {
                    if view.node(&nid(*d)).is_some() {
                        let v = view.node_attachment(&nid(*s)).cloned();
                        delta.push(WarpOp::SetAttachment { key: AttachmentKey::node_alpha(key(*d)), value: v });
                    }
                }
            }
        }
    }
}

fn rule() -> RewriteRule {
    RewriteRule {
        id: small_id(0xC15),
        name: "cmd/c15",
        left: PatternGraph { nodes: vec![] },
        matcher: rule_matcher,
        executor: rule_executor,
        compute_footprint: rule_footprint,
        factor_mask: 0,
        conflict_policy: ConflictPolicy::Abort,
        join_fn: None,
    }
}

// ---------------------------------------------------------------------------------------------
// world
// ---------------------------------------------------------------------------------------------

fn wlid(n: u64) -> WorldlineId {
    WorldlineId::from_bytes(small_id(n))
}
fn hkey(wl: u64, hid: u64) -> WriterHeadKey {
    WriterHeadKey { worldline_id: wlid(wl), head_id: HeadId::from_bytes(small_id(hid)) }
}
fn sid_of(n: u64) -> StrandId {
    StrandId::from_bytes(small_id(0x5000 + n))
}

struct World {
    rt: WorldlineRuntime,
    prov: ProvenanceService,
    eng: Engine,
    n: u64,
    lanes: BTreeMap<u64, u64>, // wl -> head id
    pending: BTreeSet<u64>,
    strands: BTreeMap<u64, (u64, u64, u64)>, // sid -> (parent, fork tick, child)
    seq: u64,
}

fn posture(shared: bool) -> RetentionPosture {
    let origin = OriginId::from_bytes([0x51; 32]);
    let authority = AuthorityDomainRef::new(origin, AuthorityDomainId::from_bytes([0x52; 32]));
    let p = if shared { CausalPosture::Shared } else { CausalPosture::AuthorOnly };
    RetentionPosture::new(
        p,
        PostureDerivation::ExplicitIntent,
        CausalAuthority::new(
            origin,
            ActorId::from_bytes([0x53; 32]),
            authority,
            AuthorityBinding::LocalUnbound { origin },
            SealStrength::Advisory,
        )
        .unwrap(),
        RetentionContractId::from_bytes([0x54; 32]),
        shared.then_some(AdmissionScopeId::from_bytes([0x55; 32])),
    )
    .unwrap()
}

fn build(c: &Case) -> Result<World, String> {
    let warp = make_warp_id("root");
    let root = make_node_id("root");
    let mut store = GraphStore::new(warp);
    store.insert_node(root, NodeRecord { ty: make_type_id("world") });
    for k in 1..=c.nperm {
        store.insert_node(nid(k), NodeRecord { ty: tyid(1) });
        store.insert_edge(
            root,
            EdgeRecord { id: make_edge_id(&format!("c15-root-{k}")), from: root, to: nid(k), ty: make_type_id("c15-edge") },
        );
    }
    let state = WorldlineState::from_root_store(store.clone(), root).map_err(|e| format!("state: {e:?}"))?;
    let mut eng = EngineBuilder::new(store, root).build();
    eng.register_rule(rule()).map_err(|e| format!("rule: {e:?}"))?;
    let mut rt = WorldlineRuntime::new();
    let mut prov = ProvenanceService::new();
    let mut lanes = BTreeMap::new();
    for wl in 1..=c.nl {
        rt.register_worldline(wlid(wl), state.clone()).map_err(|e| format!("wl: {e:?}"))?;
        rt.register_writer_head(WriterHead::with_routing(hkey(wl, 1), PlaybackMode::Play, InboxPolicy::AcceptAll, None, false))
            .map_err(|e| format!("head: {e:?}"))?;
        prov.register_worldline(wlid(wl), &state).map_err(|e| format!("prov: {e:?}"))?;
        lanes.insert(wl, 1);
    }
    Ok(World { rt, prov, eng, n: c.nperm + c.neph, lanes, pending: BTreeSet::new(), strands: BTreeMap::new(), seq: 0 })
}

#[derive(Clone, Debug, PartialEq, Eq)]
enum RealVal {
    Node(Option<NodeRecord>),
    Att(Option<AttachmentValue>),
}

fn state_of(w: &World, wl: u64) -> Option<&WorldlineState> {
    w.rt.worldlines().get(&wlid(wl)).map(|f| f.state())
}

fn real_val(st: &WorldlineState, s: &SlotId) -> Option<RealVal> {
    match s {
        SlotId::Node(k) => Some(RealVal::Node(st.store(&k.warp_id).and_then(|g| g.node(&k.local_id)).cloned())),
        SlotId::Attachment(k) => match k.owner {
            AttachmentOwner::Node(nk) => {
                Some(RealVal::Att(st.store(&nk.warp_id).and_then(|g| g.node_attachment(&nk.local_id)).cloned()))
            }
            AttachmentOwner::Edge(ek) => {
                Some(RealVal::Att(st.store(&ek.warp_id).and_then(|g| g.edge_attachment(&ek.local_id)).cloned()))
            }
        },
        _ => None,
    }
}

fn vals_tok(st: &WorldlineState, n: u64) -> String {
    let g = st.store(&st.root().warp_id);
    let mut out = Vec::new();
    for k in 1..=n {
        out.push(match g.and_then(|g| g.node(&nid(k))) {
            Some(r) => {
                let v = small_of(&r.ty.0);
                if (0x7000..0x7100).contains(&v) {
                    format!("{}", v - 0x7000)
                } else {
                    "?".into()
                }
            }
            None => "-".into(),
        });
    }
    for k in 1..=n {
        out.push(match g.and_then(|g| g.node_attachment(&nid(k))) {
            Some(AttachmentValue::Atom(a)) if a.bytes.len() == 1 => format!("{}", a.bytes[0]),
            Some(_) => "?".into(),
            None => "-".into(),
        });
    }
    out.join(",")
}

fn dump(w: &World) -> String {
    let mut s = String::new();
    for (wl, _) in &w.lanes {
        match state_of(w, *wl) {
            Some(st) => s.push_str(&format!(
                " | {} {} {} {}",
                wl,
                w.prov.len(wlid(*wl)).unwrap_or(u64::MAX),
                u8::from(w.pending.contains(wl)),
                vals_tok(st, w.n)
            )),
            None => s.push_str(&format!(" | {wl} ?")),
        }
    }
    s.push_str(&format!(
        " | g={} sh={} st={}",
        w.rt.global_tick().as_u64(),
        w.prov.braid_shells().count(),
        w.rt.strands().len()
    ));
    s
}

/// universe slot of a real slot id (None = outside the universe: root, ingress event nodes, …)
fn uni_slot(s: &SlotId, n: u64) -> Option<Slot> {
    let idx = |id: &NodeId| {
        let v = small_of(&id.0);
        if id.0[..24].iter().all(|b| *b == 0) && v > 0x100 && v <= 0x100 + n {
            Some(v - 0x100)
        } else {
            None
        }
    };
    match s {
        SlotId::Node(k) => idx(&k.local_id).map(Slot::Node),
        SlotId::Attachment(k) => match k.owner {
            AttachmentOwner::Node(nk) => idx(&nk.local_id).map(Slot::Att),
            AttachmentOwner::Edge(_) => None,
        },
        _ => None,
    }
}

fn slots_tok(slots: &[SlotId], n: u64) -> String {
    let mut v: Vec<Slot> = slots.iter().filter_map(|s| uni_slot(s, n)).collect();
    v.sort();
    v.dedup();
    if v.is_empty() {
        "-".into()
    } else {
        v.iter().map(slot_tok).collect::<Vec<_>>().join(".")
    }
}

fn ops_tok(ops: &[WarpOp], n: u64) -> String {
    let mut v: Vec<(u8, u64, String)> = Vec::new();
    for op in ops {
        match op {
            WarpOp::DeleteNode { node } => {
                if let Some(Slot::Node(k)) = uni_slot(&SlotId::Node(*node), n) {
                    v.push((0, k, format!("d{k}")));
                }
            }
            WarpOp::UpsertNode { node, record } => {
                if let Some(Slot::Node(k)) = uni_slot(&SlotId::Node(*node), n) {
                    v.push((1, k, format!("u{k}={}", small_of(&record.ty.0).wrapping_sub(0x7000))));
                }
            }
            WarpOp::SetAttachment { key, value } => {
                if let Some(Slot::Att(k)) = uni_slot(&SlotId::Attachment(*key), n) {
                    let val = match value {
                        Some(AttachmentValue::Atom(a)) if a.bytes.len() == 1 => format!("{}", a.bytes[0]),
                        Some(_) => "?".into(),
                        None => "-".into(),
                    };
                    v.push((2, k, format!("s{k}={val}")));
                }
            }
            _ => {}
        }
    }
    v.sort();
    if v.is_empty() {
        "-".into()
    } else {
        v.into_iter().map(|x| x.2).collect::<Vec<_>>().join(",")
    }
}

fn reason_tok(r: ConflictReason) -> &'static str {
    match r {
        ConflictReason::ChannelPolicyConflict => "channel",
        ConflictReason::UnsupportedImport => "unsupported",
        ConflictReason::BaseDivergence => "basediv",
        ConflictReason::ParentFootprintOverlap => "overlap",
        ConflictReason::QuantumMismatch => "quantum",
        ConflictReason::PluralUpstream => "pluralup",
    }
}

fn reval_tok(r: &Option<StrandOverlapRevalidation>, n: u64) -> String {
    match r {
        None => String::new(),
        Some(StrandOverlapRevalidation::Clean { overlapping_slots }) => format!(":c={}", slots_tok(overlapping_slots, n)),
        Some(StrandOverlapRevalidation::Obstructed { overlapping_slots }) => format!(":o={}", slots_tok(overlapping_slots, n)),
        Some(StrandOverlapRevalidation::Conflict { overlapping_slots }) => format!(":x={}", slots_tok(overlapping_slots, n)),
    }
}

fn plan_tok(pl: &SettlementPlan, n: u64) -> String {
    let basis = match &pl.basis_report.parent_revalidation {
        StrandRevalidationState::AtAnchor => "anchor".to_string(),
        StrandRevalidationState::ParentAdvancedDisjoint { .. } => "disj".to_string(),
        StrandRevalidationState::RevalidationRequired { overlapping_slots, .. } => {
            format!("reval:{}", slots_tok(overlapping_slots, n))
        }
    };
    let mut s = format!("basis={} n={}", basis, pl.decisions.len());
    for d in &pl.decisions {
        s.push(' ');
        s.push_str(&match d {
            SettlementDecision::ImportCandidate(c) => {
                format!("i{}{}", c.source_ref.worldline_tick.as_u64(), reval_tok(&c.overlap_revalidation, n))
            }
            SettlementDecision::ConflictArtifact(c) => format!(
                "c{}:{}{}",
                c.source_ref.worldline_tick.as_u64(),
                reason_tok(c.reason),
                reval_tok(&c.overlap_revalidation, n)
            ),
            SettlementDecision::PluralAlternative(p) => {
                format!("p{}:{}", p.source_ref.worldline_tick.as_u64(), slots_tok(&p.overlapping_slots, n))
            }
        });
    }
    s
}

fn settle_err_tok(e: &SettlementError) -> String {
    match e {
        SettlementError::StrandNotFound(_) => "nostrand".into(),
        SettlementError::NonSharedStrand { .. } => "nonshared".into(),
        SettlementError::Runtime(r) => match **r {
            RuntimeError::GlobalTickOverflow => "goverflow".into(),
            RuntimeError::UnknownWorldline(_) => "unkwl".into(),
            _ => "runtime".into(),
        },
        SettlementError::Apply { .. } => "apply".into(),
        SettlementError::ImportedStateRootMismatch { .. } => "rootmismatch".into(),
        SettlementError::SourceEntryMissingPatch { .. } => "nopatch".into(),
        SettlementError::BraidShell(b) => match b {
            warp_core::BraidShellError::PluralArtifactAlreadyBound { .. } => "pluralbound".into(),
            warp_core::BraidShellError::EmptyPolicyId => "shell".into(),
            _ => "shell-other".into(),
        },
        SettlementError::History(_) => "history".into(),
        SettlementError::Replay(_) => "replay".into(),
        SettlementError::StrandBasis(_) => "basis".into(),
        SettlementError::RuntimeProvenanceDrift { .. } => "drift".into(),
        SettlementError::StaleStrandHandle { .. } => "stale".into(),
        SettlementError::ForkTickOverflow(_) => "forkoverflow".into(),
    }
}

fn fork_err_tok(e: &RuntimeError) -> String {
    match e {
        RuntimeError::UnknownWorldline(_) => "unkwl".into(),
        RuntimeError::DuplicateWorldline(_) => "dupwl".into(),
        RuntimeError::Provenance(HistoryError::WorldlineAlreadyExists(_)) => "dupwl".into(),
        RuntimeError::Provenance(HistoryError::HistoryUnavailable { .. }) => "tick".into(),
        RuntimeError::Strand(StrandError::AlreadyExists(_)) => "dupstrand".into(),
        RuntimeError::DuplicateHead(_) => "duphead".into(),
        other => {
            let s = format!("{other:?}");
            if s.starts_with("Replay") {
                "tick".into()
            } else {
                format!("other:{}", s.chars().take(24).filter(|c| c.is_ascii_alphanumeric()).collect::<String>())
            }
        }
    }
}

fn policy(pol: bool, fail: Fail) -> SettlementPolicy {
    let mut p = if pol {
        SettlementPolicy::allow_plural_over_footprint_overlap(small_id(0xB01))
    } else {
        SettlementPolicy::default()
    };
    if fail == Fail::Shell {
        p = SettlementPolicy {
            policy_id: [0; 32],
            plural: if pol { PluralSettlementPolicy::AllowOverFootprintOverlap } else { PluralSettlementPolicy::Refused },
            member_blinding_salt: MemberBlindingSalt::from_bytes([7; 32]),
        };
    }
    p
}

// ---------------------------------------------------------------------------------------------
// op execution on the real code (shared by impl and oracle)
// ---------------------------------------------------------------------------------------------

type Fp = Vec<(String, String)>;

struct Obs {
    out: String,
    fails: Vec<(String, String)>,
    tags: Vec<String>,
    settled: bool,
}

fn fp(w: &World) -> Fp {
    hook::fingerprint(&w.rt, &w.prov, &w.eng)
}

fn fp_diff(a: &Fp, b: &Fp) -> Vec<String> {
    let ma: BTreeMap<_, _> = a.iter().cloned().collect();
    let mb: BTreeMap<_, _> = b.iter().cloned().collect();
    let mut out = Vec::new();
    for k in ma.keys().chain(mb.keys()) {
        if ma.get(k) != mb.get(k) && !out.contains(k) {
            out.push(k.clone());
        }
    }
    out
}

/// fingerprint components owned by a lane
fn lane_comp(c: &str, wl: u64) -> bool {
    let h = format!("{:04x}", wl);
    c == format!("front.{h}") || c == format!("prov.{h}") || c.starts_with(&format!("head.{h}:"))
}

fn movement_slots(w: &World, parent: u64, from: u64) -> Vec<SlotId> {
    let mut out = Vec::new();
    let len = w.prov.len(wlid(parent)).unwrap_or(0);
    for t in from..len {
        if let Ok(e) = w.prov.entry(wlid(parent), WorldlineTick::from_raw(t)) {
            if let Some(p) = &e.patch {
                out.extend(p.out_slots.iter().copied());
            }
        }
    }
    out
}

fn op_targets(op: &WarpOp) -> Vec<SlotId> {
    match op {
        WarpOp::UpsertNode { node, .. } => vec![SlotId::Node(*node)],
        WarpOp::DeleteNode { node } => vec![SlotId::Node(*node), SlotId::Attachment(AttachmentKey::node_alpha(*node))],
        WarpOp::SetAttachment { key, .. } => vec![SlotId::Attachment(*key)],
        _ => vec![],
    }
}

fn run_op(w: &mut World, op: &Op, check: bool) -> Obs {
    let mut o = Obs { out: String::new(), fails: Vec::new(), tags: Vec::new(), settled: false };
    match op {
        Op::Ing(wl, p) => {
            if !prog_ok(w.n, p) {
                o.out = "ing badprog".into();
                return o;
            }
            let Some(head) = w.lanes.get(wl).copied() else {
                o.out = "ing unk".into();
                return o;
            };
            if w.pending.contains(wl) {
                o.out = "ing busy".into();
                return o;
            }
            w.seq += 1;
            let bytes = format!("P15 {} {}", w.seq, prog_text(p)).into_bytes();
            let env = IngressEnvelope::local_intent(IngressTarget::ExactHead { key: hkey(*wl, head) }, make_intent_kind("c15"), bytes);
            match w.rt.ingest(env) {
                Ok(IngressDisposition::Accepted { .. }) => {
                    w.pending.insert(*wl);
                    o.out = "ing acc".into();
                }
                Ok(_) => o.out = "ing dup".into(),
                Err(e) => o.out = format!("ing err {e:?}").replace(' ', "_"),
            }
        }
        Op::Pass => {
            let before = if check { Some(fp(w)) } else { None };
            let committed: Vec<u64> = w.pending.iter().copied().collect();
            let r = SchedulerCoordinator::super_tick(&mut w.rt, &mut w.prov, &mut w.eng);
            match r {
                Ok(recs) => {
                    let mut s = format!("pass {}", recs.len());
                    if recs.len() != committed.len() {
                        o.fails.push(("C15.pass.unexpected-records".into(), format!("{} records for {} pending", recs.len(), committed.len())));
                    }
                    for wl in &committed {
                        let len = w.prov.len(wlid(*wl)).unwrap_or(0);
                        match len.checked_sub(1).and_then(|t| w.prov.entry(wlid(*wl), WorldlineTick::from_raw(t)).ok()) {
                            Some(e) => match &e.patch {
                                Some(p) => s.push_str(&format!(
                                    " {}:in={}:out={}:ops={}",
                                    wl,
                                    slots_tok(&p.in_slots, w.n),
                                    slots_tok(&p.out_slots, w.n),
                                    ops_tok(&p.ops, w.n)
                                )),
                                None => s.push_str(&format!(" {wl}:nopatch")),
                            },
                            None => s.push_str(&format!(" {wl}:none")),
                        }
                    }
                    w.pending.clear();
                    s.push_str(&dump(w));
                    o.out = s;
                    if let Some(b) = before {
                        // lanes_isolated: a lane without pending work is untouched by the pass
                        let a = fp(w);
                        for c in fp_diff(&b, &a) {
                            for (wl, _) in &w.lanes {
                                if !committed.contains(wl) && lane_comp(&c, *wl) {
                                    o.fails.push((format!("C15.isolation.{}", c.split('.').next().unwrap_or("?")), format!("pass on {committed:?} changed {c}")));
                                }
                            }
                            if c == "strands" || c == "prov.shells" {
                                o.fails.push((format!("C15.isolation.{c}"), "pass changed strand registry / shells".into()));
                            }
                        }
                        if committed.len() >= 2 {
                            o.tags.push("pass.multi-lane".into());
                        }
                    }
                }
                Err(e) => {
                    o.out = format!("pass err {e:?}").chars().take(60).collect::<String>().replace(' ', "_");
                    o.fails.push(("C15.pass.unexpected-error".into(), o.out.clone()));
                }
            }
        }
        Op::Fork { sid, src, tick, child, head, shared } => {
            let before = if check { Some(fp(w)) } else { None };
            let heads_before: Vec<WriterHeadKey> = w.rt.heads().iter().map(|(k, _)| *k).collect();
            // validity judged from the request alone: existing source tick, fresh lane and strand ids
            let valid = w.lanes.contains_key(src)
                && *tick < w.prov.len(wlid(*src)).unwrap_or(0)
                && !w.lanes.contains_key(child)
                && !w.strands.contains_key(sid);
            let rq = ForkStrandRequest {
                strand_id: sid_of(*sid),
                source_lane_id: wlid(*src),
                fork_tick: WorldlineTick::from_raw(*tick),
                child_worldline_id: wlid(*child),
                writer_heads: vec![WriterHead::with_routing(hkey(*child, *head), PlaybackMode::Play, InboxPolicy::AcceptAll, None, false)],
                retention_posture: posture(*shared),
            };
            match w.rt.fork_strand(&mut w.prov, rq) {
                Ok(rc) => {
                    w.lanes.insert(*child, *head);
                    w.strands.insert(*sid, (*src, *tick, *child));
                    let basis = state_of(w, *child).map(|st| vals_tok(st, w.n)).unwrap_or_default();
                    o.out = format!(
                        "fork ok {} {} {} {} {} basis={}{}",
                        sid,
                        small_of(rc.fork_basis_ref.source_lane_id.as_bytes()),
                        rc.fork_basis_ref.fork_tick.as_u64(),
                        small_of(rc.child_worldline_id.as_bytes()),
                        rc.writer_heads.first().map(|k| small_of(k.head_id.as_bytes())).unwrap_or(0),
                        basis,
                        dump(w)
                    );
                    o.tags.push(format!("fork.ok.{}", if *tick + 1 == w.prov.len(wlid(*src)).unwrap_or(0) { "tip" } else { "past" }));
                    if let Some(b) = before {
                        fork_oracle(w, &mut o, &b, &heads_before, *src, *tick, *child, &rc);
                    }
                }
                Err(e) => {
                    o.out = format!("fork err {}", fork_err_tok(&e));
                    o.tags.push(format!("fork.err.{}", fork_err_tok(&e)));
                    if check && valid {
                        o.fails.push(("C15.fork.valid-fork-refused".into(), format!("fork at existing tick {tick} with fresh ids failed: {}", fork_err_tok(&e))));
                    }
                    if let Some(b) = before {
                        let d = fp_diff(&b, &fp(w));
                        if !d.is_empty() {
                            o.fails.push(("C15.fork.failed-fork-leaves-residue".into(), format!("changed {d:?}")));
                        }
                    }
                }
            }
        }
        Op::Plan(sid, pol) => {
            let before = if check { Some(fp(w)) } else { None };
            let p = policy(*pol, Fail::None);
            match SettlementService::plan_with_policy(&w.rt, &w.prov, sid_of(*sid), &p) {
                Ok(pl) => {
                    o.out = format!("plan {}", plan_tok(&pl, w.n));
                    if check {
                        plan_tags(&pl, &mut o);
                        match SettlementService::plan_with_policy(&w.rt, &w.prov, sid_of(*sid), &p) {
                            Ok(pl2) if pl2 == pl => {}
                            _ => o.fails.push(("C15.plan.not-deterministic".into(), "second plan differs".into())),
                        }
                        plan_latch_oracle(&pl, &mut o);
                        basis_oracle(w, *sid, &pl, &mut o);
                    }
                }
                Err(e) => o.out = format!("plan err {}", settle_err_tok(&e)),
            }
            if let Some(b) = before {
                let d = fp_diff(&b, &fp(w));
                if !d.is_empty() {
                    o.fails.push(("C15.plan.side-effect".into(), format!("changed {d:?}")));
                }
            }
        }
        Op::Settle(sid, pol, fail) => settle_op(w, &mut o, *sid, *pol, *fail, check),
    }
    o
}

/// live-basis classification recomputed from provenance alone: parent out-slots after the anchor that
/// occur in the closed (read ∪ write) footprint of the strand suffix.
fn basis_oracle(w: &World, sid: u64, pl: &SettlementPlan, o: &mut Obs) {
    let Some((parent, tick, child)) = w.strands.get(&sid).copied() else { return };
    let plen = w.prov.len(wlid(parent)).unwrap_or(0);
    let clen = w.prov.len(wlid(child)).unwrap_or(0);
    let mut closed: BTreeSet<SlotId> = BTreeSet::new();
    for t in (tick + 1)..clen {
        if let Ok(e) = w.prov.entry(wlid(child), WorldlineTick::from_raw(t)) {
            if let Some(p) = &e.patch {
                closed.extend(p.in_slots.iter().copied());
                closed.extend(p.out_slots.iter().copied());
            }
        }
    }
    let mut ov: Vec<SlotId> = movement_slots(w, parent, tick + 1).into_iter().filter(|s| closed.contains(s)).collect();
    ov.sort();
    ov.dedup();
    let ok = match &pl.basis_report.parent_revalidation {
        StrandRevalidationState::AtAnchor => plen == tick + 1,
        StrandRevalidationState::ParentAdvancedDisjoint { .. } => plen > tick + 1 && ov.is_empty(),
        StrandRevalidationState::RevalidationRequired { overlapping_slots, .. } => {
            let mut got = overlapping_slots.clone();
            got.sort();
            got.dedup();
            plen > tick + 1 && !ov.is_empty() && got == ov
        }
    };
    if !ok {
        o.fails.push((
            "C15.plan.basis-misclassified".into(),
            format!("reported {} but parent-movement ∩ closed footprint = {}", plan_tok(pl, w.n).split(' ').next().unwrap_or(""), slots_tok(&ov, w.n)),
        ));
    }
}

fn plan_tags(pl: &SettlementPlan, o: &mut Obs) {
    o.tags.push(match &pl.basis_report.parent_revalidation {
        StrandRevalidationState::AtAnchor => "basis.anchor".into(),
        StrandRevalidationState::ParentAdvancedDisjoint { .. } => "basis.disjoint".into(),
        StrandRevalidationState::RevalidationRequired { .. } => "basis.reval".into(),
    });
    for d in &pl.decisions {
        o.tags.push(match d {
            SettlementDecision::ImportCandidate(c) => {
                if c.overlap_revalidation.is_some() {
                    "dec.import-clean-overlap".into()
                } else {
                    "dec.import".into()
                }
            }
            SettlementDecision::ConflictArtifact(c) => format!(
                "dec.conflict.{}{}",
                reason_tok(c.reason),
                match &c.overlap_revalidation {
                    Some(StrandOverlapRevalidation::Obstructed { .. }) => ".obstructed",
                    _ => "",
                }
            ),
            SettlementDecision::PluralAlternative(_) => "dec.plural".into(),
        });
    }
}

fn plan_latch_oracle(pl: &SettlementPlan, o: &mut Obs) {
    let mut blocked = false;
    for d in &pl.decisions {
        let imp = matches!(d, SettlementDecision::ImportCandidate(_));
        if blocked && imp {
            o.fails.push(("C15.plan.import-past-latch".into(), "an import follows a conflict/plural decision".into()));
        }
        if !imp {
            blocked = true;
        }
    }
    if pl.decisions.iter().filter(|d| matches!(d, SettlementDecision::PluralAlternative(_))).count() > 1 {
        o.fails.push(("C15.plan.two-plurals".into(), "more than one plural alternative in one plan".into()));
    }
}

#[allow(clippy::too_many_arguments)]
fn fork_oracle(
    w: &World,
    o: &mut Obs,
    before: &Fp,
    heads_before: &[WriterHeadKey],
    src: u64,
    tick: u64,
    child: u64,
    rc: &warp_core::ForkStrandReceipt,
) {
    // parent (and every pre-existing lane) untouched
    for c in fp_diff(before, &fp(w)) {
        if c.starts_with("front.") || c.starts_with("prov.") || c.starts_with("head.") {
            if !lane_comp(&c, child) {
                o.fails.push(("C15.fork.touches-other-lane".into(), format!("fork changed {c}")));
            }
        } else if c != "strands" {
            o.fails.push(("C15.fork.touches-component".into(), format!("fork changed {c}")));
        }
    }
    // fresh heads
    for k in &rc.writer_heads {
        if heads_before.contains(k) {
            o.fails.push(("C15.fork.shared-head".into(), "child head key existed before the fork".into()));
        }
        if k.worldline_id != wlid(child) {
            o.fails.push(("C15.fork.head-on-wrong-lane".into(), "child head not on the child worldline".into()));
        }
    }
    // exact prefix
    let clen = w.prov.len(wlid(child)).unwrap_or(u64::MAX);
    if clen != tick + 1 {
        o.fails.push(("C15.fork.prefix-length".into(), format!("child history has {clen} entries, expected {}", tick + 1)));
    }
    for t in 0..=tick {
        let a = w.prov.entry(wlid(src), WorldlineTick::from_raw(t));
        let b = w.prov.entry(wlid(child), WorldlineTick::from_raw(t));
        match (a, b) {
            (Ok(mut a), Ok(b)) => {
                // rewrite the lane ids and compare everything else
                a.worldline_id = b.worldline_id;
                if let Some(ha) = a.head_key.as_mut() {
                    if ha.worldline_id == wlid(src) {
                        ha.worldline_id = wlid(child);
                    }
                }
                if let Some(hb) = b.head_key.as_ref() {
                    if heads_before.contains(hb) {
                        o.fails.push(("C15.fork.shared-head".into(), format!("child entry {t} is attributed to a pre-existing head")));
                    }
                }
                for p in a.parents.iter_mut() {
                    if p.worldline_id == wlid(src) {
                        p.worldline_id = wlid(child);
                    }
                }
                if a != b {
                    o.fails.push(("C15.fork.prefix-entry-differs".into(), format!("entry {t} differs beyond lane ids")));
                }
            }
            _ => o.fails.push(("C15.fork.prefix-entry-missing".into(), format!("entry {t}"))),
        }
    }
    // basis facts
    if let Ok(e) = w.prov.entry(wlid(src), WorldlineTick::from_raw(tick)) {
        if rc.fork_basis_ref.commit_hash != e.expected.commit_hash || rc.fork_basis_ref.boundary_hash != e.expected.state_root {
            o.fails.push(("C15.fork.basis-ref".into(), "receipt basis does not name the source entry".into()));
        }
        if let Some(st) = state_of(w, child) {
            if st.state_root() != e.expected.state_root {
                o.fails.push(("C15.fork.child-state-not-basis".into(), "child frontier root differs from the basis boundary".into()));
            }
        }
    }
    // replay of every prefix agrees
    if let (Some(ps), Some(cs)) = (state_of(w, src), state_of(w, child)) {
        for t in 0..=(tick + 1) {
            let a = w.prov.replay_worldline_state_at(wlid(src), ps, WorldlineTick::from_raw(t)).map(|s| s.state_root());
            let b = w.prov.replay_worldline_state_at(wlid(child), cs, WorldlineTick::from_raw(t)).map(|s| s.state_root());
            match (a, b) {
                (Ok(a), Ok(b)) if a == b => {}
                _ => o.fails.push(("C15.fork.replay-differs".into(), format!("replay at {t}"))),
            }
        }
    }
}

fn settle_op(w: &mut World, o: &mut Obs, sid: u64, pol: bool, fail: Fail, check: bool) {
    let p = policy(pol, fail);
    let g0 = w.rt.global_tick().as_u64();
    if let Fail::At(k) = fail {
        hook::set_global_tick(&mut w.rt, u64::MAX - k);
    }
    let before = if check { Some(fp(w)) } else { None };
    let strand = w.strands.get(&sid).copied();
    let pre_plan = if check { SettlementService::plan_with_policy(&w.rt, &w.prov, sid_of(sid), &p).ok() } else { None };
    if let Some(pp) = &pre_plan {
        basis_oracle(w, sid, pp, o);
    }
    // pre-settle facts for the oracle
    let mut mv: Vec<(SlotId, Option<RealVal>)> = Vec::new();
    let mut parent_root_before = None;
    if let (true, Some((parent, tick, _))) = (check, strand) {
        if let Some(st) = state_of(w, parent) {
            parent_root_before = Some(st.state_root());
            for s in movement_slots(w, parent, tick + 1) {
                if !mv.iter().any(|(x, _)| *x == s) {
                    mv.push((s, real_val(st, &s)));
                }
            }
        }
    }
    let r = SettlementService::settle_with_policy(&mut w.rt, &mut w.prov, sid_of(sid), &p);
    match r {
        Ok(res) => {
            let nd = res.plan.decisions.len() as u64;
            if let Fail::At(_) = fail {
                hook::set_global_tick(&mut w.rt, g0 + nd);
            }
            o.out = format!(
                "settle ok i={} c={} p={} sh={} {}{}",
                res.appended_imports.len(),
                res.appended_conflicts.len(),
                res.appended_plurals.len(),
                u8::from(res.braid_shell.is_some()),
                plan_tok(&res.plan, w.n),
                dump(w)
            );
            o.settled = nd > 0;
            if !check {
                return;
            }
            plan_tags(&res.plan, o);
            plan_latch_oracle(&res.plan, o);
            o.tags.push(format!("settle.ok.{}", if nd == 0 { "empty" } else { "nonempty" }));
            if let Some(pp) = &pre_plan {
                if *pp != res.plan {
                    o.fails.push(("C15.settle.plan-differs".into(), "settle executed a plan different from plan()".into()));
                }
            }
            let Some((parent, tick, child)) = strand else { return };
            let (Some(ps), Some(cs)) = (state_of(w, parent), state_of(w, child)) else { return };
            // never_overwrite: slots the parent wrote after the fork keep the parent's values
            for (s, v) in &mv {
                if real_val(ps, s) != *v {
                    o.fails.push((
                        "C15.settle.overwrites-parent-movement".into(),
                        format!("slot {} changed by settlement", slots_tok(&[*s], w.n)),
                    ));
                }
            }
            // no import => parent state unchanged
            if res.appended_imports.is_empty() && parent_root_before != Some(ps.state_root()) {
                o.fails.push(("C15.settle.artifact-changes-state".into(), "conflict/plural artifacts changed the parent root".into()));
            }
            // import_takes_strand_values: slots written by the imported entries = strand values at that point
            let imported: Vec<u64> = res
                .plan
                .decisions
                .iter()
                .filter_map(|d| match d {
                    SettlementDecision::ImportCandidate(c) => Some(c.source_ref.worldline_tick.as_u64()),
                    _ => None,
                })
                .collect();
            if let Some(last) = imported.last() {
                let strand_then = w.prov.replay_worldline_state_at(wlid(child), cs, WorldlineTick::from_raw(last + 1));
                match strand_then {
                    Ok(ss) => {
                        let mut stale_read = false;
                        for t in &imported {
                            if let Ok(e) = w.prov.entry(wlid(child), WorldlineTick::from_raw(*t)) {
                                if let Some(pt) = &e.patch {
                                    for op in &pt.ops {
                                        for s in op_targets(op) {
                                            if real_val(ps, &s) != real_val(&ss, &s) {
                                                o.fails.push((
                                                    "C15.settle.import-value-differs".into(),
                                                    format!("slot {} of imported tick {t}", slots_tok(&[s], w.n)),
                                                ));
                                            }
                                        }
                                    }
                                    if pt.in_slots.iter().any(|s| mv.iter().any(|(m, _)| m == s) && !pt.out_slots.contains(s)) {
                                        stale_read = true;
                                    }
                                }
                            }
                        }
                        if stale_read {
                            o.tags.push("settle.import-with-stale-read".into());
                        }
                    }
                    Err(_) => o.fails.push(("C15.settle.strand-replay-failed".into(), "strand history does not replay".into())),
                }
            }
            // parent stays verifiable from its own history
            match w.prov.replay_worldline_state(wlid(parent), ps) {
                Ok(rs) if rs.state_root() == ps.state_root() => {}
                Ok(_) => o.fails.push(("C15.settle.parent-replay-root-differs".into(), "replayed parent root != live root".into())),
                Err(e) => o.fails.push((
                    "C15.settle.parent-replay-fails".into(),
                    format!("{e:?}").chars().take(80).collect::<String>(),
                )),
            }
            // strand lane untouched by settlement; only the target lane, gtick, shells change
            if let Some(b) = &before {
                for c in fp_diff(b, &fp(w)) {
                    let ok = lane_comp(&c, parent) && !c.starts_with("head.") || c == "gtick" || c == "prov.shells";
                    if !ok {
                        o.fails.push(("C15.settle.touches-foreign-component".into(), format!("settle changed {c}")));
                    }
                }
            }
            // appended entry kinds
            let plen = w.prov.len(wlid(parent)).unwrap_or(0);
            if nd > 0 {
                for (i, d) in res.plan.decisions.iter().enumerate() {
                    let t = plen - nd + i as u64;
                    let k = w.prov.entry(wlid(parent), WorldlineTick::from_raw(t)).map(|e| e.event_kind);
                    let ok = matches!(
                        (d, &k),
                        (SettlementDecision::ImportCandidate(_), Ok(ProvenanceEventKind::MergeImport { .. }))
                            | (SettlementDecision::ConflictArtifact(_), Ok(ProvenanceEventKind::ConflictArtifact { .. }))
                            | (SettlementDecision::PluralAlternative(_), Ok(ProvenanceEventKind::PluralArtifact { .. }))
                    );
                    if !ok {
                        o.fails.push(("C15.settle.appended-kind".into(), format!("entry {t} kind does not match decision {i}")));
                    }
                }
            }
        }
        Err(e) => {
            let tok = settle_err_tok(&e);
            if check {
                // settle_atomic: every component equals its pre-settle value
                if let Some(b) = &before {
                    let d = fp_diff(b, &fp(w));
                    if !d.is_empty() {
                        o.fails.push(("C15.settle.failed-settle-leaves-residue".into(), format!("after err {tok}: changed {d:?}")));
                    }
                }
                let expected = match fail {
                    // `a<k>` with k >= #decisions injects nothing: the honest errors of a plain settle remain possible
                    Fail::At(_) => tok == "goverflow" || tok == "nostrand" || tok == "nonshared" || tok == "pluralbound",
                    Fail::Shell => tok == "shell" || tok == "nostrand" || tok == "nonshared",
                    Fail::None => tok == "nostrand" || tok == "nonshared" || tok == "pluralbound",
                };
                if !expected {
                    o.fails.push(("C15.settle.unexpected-error".into(), format!("{tok}: {e:?}").chars().take(120).collect::<String>()));
                }
                o.tags.push(format!("settle.err.{tok}"));
            }
            if let Fail::At(_) = fail {
                hook::set_global_tick(&mut w.rt, g0);
            }
            o.out = format!("settle err {}{}", tok, dump(w));
        }
    }
}

fn imp_run(t: &mut Toks) -> Result<String, String> {
    let c = parse_case(t)?;
    let mut w = build(&c)?;
    let mut outs = Vec::new();
    for op in &c.ops {
        outs.push(run_op(&mut w, op, false).out);
    }
    Ok(outs.join(" ; "))
}

fn oracle_run(t: &mut Toks, _tier: Tier) -> Result<OracleOut, String> {
    let c = parse_case(t)?;
    let mut w = build(&c)?;
    let mut out = OracleOut::default();
    for (i, op) in c.ops.iter().enumerate() {
        let o = run_op(&mut w, op, true);
        for (k, what) in o.fails {
            out.fails.push((k, format!("op {i}: {what}")));
        }
        out.tags.extend(o.tags);
        out.nontrivial |= o.settled;
    }
    out.tags.sort();
    out.tags.dedup();
    Ok(out)
}

// ---------------------------------------------------------------------------------------------
// generator
// ---------------------------------------------------------------------------------------------

fn gen_prog(rng: &mut Rng, nperm: u64, n: u64, focus: &[u64]) -> Prog {
    let mut p = Prog::default();
    let k = 1 + rng.below(3);
    let mut used = BTreeSet::new();
    for _ in 0..k {
        // small universe + a focus set so that parent and strand collide often
        let node = if !focus.is_empty() && rng.below(3) != 0 { focus[rng.below(focus.len() as u64) as usize] } else { 1 + rng.below(n) };
        if !used.insert(node) {
            continue;
        }
        let eph = node > nperm;
        p.instrs.push(match rng.below(if eph { 6 } else { 5 }) {
            0 => Instr::Up(node, 1 + rng.below(3)),
            1 | 2 => Instr::Set(node, 1 + rng.below(4)),
            3 => Instr::Clr(node),
            4 => Instr::Cp(1 + rng.below(n), node),
            _ => Instr::Del(node),
        });
    }
    let slot = |rng: &mut Rng| if rng.below(2) == 0 { Slot::Node(1 + rng.below(n)) } else { Slot::Att(1 + rng.below(n)) };
    if rng.below(4) == 0 {
        p.xr.push(slot(rng));
    }
    if rng.below(6) == 0 {
        p.xw.push(slot(rng));
    }
    p
}

fn ing_tok(wl: u64, p: &Prog) -> String {
    format!("ing {} {}", wl, prog_text(p))
}

fn render(nperm: u64, neph: u64, nl: u64, ops: &[String]) -> String {
    format!("U {} {} L {} O {} {}", nperm, neph, nl, ops.len(), ops.join(" "))
}

/// one structured scenario: base ticks, fork at tick k, interleaved parent/strand ticks, plan, settle.
fn gen_scenario(rng: &mut Rng, big: bool) -> String {
    let nperm = 2 + rng.below(3);
    let neph = rng.below(3);
    let n = nperm + neph;
    let nl = 1 + rng.below(2);
    let mut ops: Vec<String> = Vec::new();
    let base_ticks = 1 + rng.below(3);
    let focus: Vec<u64> = (0..2).map(|_| 1 + rng.below(n)).collect();
    for _ in 0..base_ticks {
        ops.push(ing_tok(1, &gen_prog(rng, nperm, n, &focus)));
        ops.push("pass".into());
    }
    // fork at every tick over the stream: the fork tick is uniform over the existing ticks (+ invalid ones)
    let mut lanes = vec![1u64];
    let mut lens: BTreeMap<u64, u64> = BTreeMap::new();
    lens.insert(1, base_ticks);
    let mut strands: Vec<(u64, u64, u64)> = Vec::new(); // sid, parent, child
    let nstrands = 1 + rng.below(if big { 3 } else { 2 });
    let mut next_child = 10;
    for s in 0..nstrands {
        let sid = 1 + s;
        // chained strands: later strands may fork from an earlier strand's child
        let src = lanes[rng.below(lanes.len() as u64) as usize];
        let len = lens[&src];
        let tick = match rng.below(10) {
            0 => len,     // one past the tip: invalid
            1 => len + 3, // far invalid
            _ => rng.below(len),
        };
        let child = if rng.below(12) == 0 { src } else { next_child };
        let shared = rng.below(10) != 0;
        ops.push(format!("fork {} {} {} {} {} {}", sid, src, tick, child, 1 + rng.below(2), u8::from(shared)));
        if tick < len && child != src {
            lanes.push(child);
            lens.insert(child, tick + 1);
            strands.push((sid, src, child));
            next_child += 1;
        }
        // interleaved ticks
        let rounds = 1 + rng.below(if big { 5 } else { 3 });
        for _ in 0..rounds {
            let mode = rng.below(4);
            let mut any = false;
            for &wl in &lanes {
                let go = match mode {
                    0 => true,
                    _ => rng.below(2) == 0,
                };
                if go {
                    ops.push(ing_tok(wl, &gen_prog(rng, nperm, n, &focus)));
                    *lens.get_mut(&wl).unwrap() += 1;
                    any = true;
                }
            }
            if nl > 1 && rng.below(3) == 0 {
                ops.push(ing_tok(2, &gen_prog(rng, nperm, n, &focus)));
                any = true;
            }
            if any || rng.below(4) == 0 {
                ops.push("pass".into());
            }
        }
        // settle some strand
        if !strands.is_empty() {
            let (sid, parent, _child) = strands[rng.below(strands.len() as u64) as usize];
            let pol = rng.below(2);
            if rng.below(2) == 0 {
                ops.push(format!("plan {sid} {pol}"));
            }
            let fail = match rng.below(8) {
                0 => format!("a{}", rng.below(3)),
                1 => "sh".into(),
                _ => "-".into(),
            };
            ops.push(format!("settle {sid} {pol} {fail}"));
            if fail != "-" {
                // retry without the failure
                ops.push(format!("settle {sid} {pol} -"));
            }
            // the model tracks lengths; the generator only needs an upper bound for fork ticks
            *lens.get_mut(&parent).unwrap() += 0;
            if rng.below(4) == 0 {
                ops.push(format!("settle {sid} {} -", rng.below(2)));
            }
        }
        if rng.below(6) == 0 {
            ops.push(format!("plan {} 0", 1 + rng.below(4)));
        }
    }
    render(nperm, neph, nl, &ops)
}

/// hand-shaped footprints: disjoint / read-overlap / write-overlap (same / different value) / obstructed
fn gen_shapes() -> Vec<String> {
    let mut out = Vec::new();
    let base = "ing 1 I 1 set 1 1 R 0 W 0 pass";
    let fork = "fork 1 1 0 10 1 1";
    let strand_ticks: [(&str, &str); 6] = [
        ("disjoint", "ing 10 I 1 set 2 5 R 0 W 0"),
        ("read-overlap", "ing 10 I 1 cp 1 2 R 0 W 0"),
        ("write-same", "ing 10 I 1 set 1 9 R 0 W 0"),
        ("write-diff", "ing 10 I 1 set 1 7 R 0 W 0"),
        ("obstructed", "ing 10 I 1 set 3 4 R 0 W 0"),
        ("two-entries", "ing 10 I 1 set 2 5 R 0 W 0 pass ing 10 I 1 set 1 7 R 0 W 0 pass ing 10 I 1 set 2 6 R 0 W 0"),
    ];
    let parent_ticks: [(&str, &str); 4] = [
        ("none", ""),
        ("p-set1", "ing 1 I 1 set 1 9 R 0 W 0 pass"),
        ("p-other", "ing 1 I 1 set 2 3 R 0 W 0 pass"),
        ("p-del3", "ing 1 I 1 del 3 R 0 W 0 pass"),
    ];
    for (_, st) in &strand_ticks {
        for (_, pt) in &parent_ticks {
            for pol in 0..2 {
                for fail in ["-", "a0", "a1", "sh"] {
                    // node 3 is ephemeral: created in the base history so that the parent can delete it
                    let s = format!(
                        "{base} ing 1 I 1 up 3 2 R 0 W 0 pass {f2} {st} pass {pt} plan 1 {pol} settle 1 {pol} {fail} settle 1 {pol} - plan 1 {pol}",
                        f2 = fork.replace("fork 1 1 0", "fork 1 1 1")
                    );
                    let toks: Vec<&str> = s.split_whitespace().collect();
                    let nops = toks.iter().filter(|t| matches!(**t, "ing" | "pass" | "fork" | "plan" | "settle")).count();
                    out.push(format!("U 2 1 L 1 O {} {}", nops, toks.join(" ")));
                }
            }
        }
    }
    out
}

fn gen_run(rng: &mut Rng, tier: Tier) -> Vec<String> {
    let mut out = Vec::new();
    let shapes = gen_shapes();
    let (n, keep) = match tier {
        Tier::Quick => (260, 64),
        Tier::Thorough => (4000, shapes.len()),
    };
    for (i, s) in shapes.into_iter().enumerate() {
        if i % (192 / keep.min(192)).max(1) == 0 || tier == Tier::Thorough {
            out.push(s);
        }
    }
    for i in 0..n {
        out.push(gen_scenario(rng, i % 3 == 0));
    }
    out
}
