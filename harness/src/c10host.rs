//! C10.host — the REAL `TrustedRuntimeHost` over the filesystem WAL (fixture as in the repository's
//! tests/trusted_runtime_host_loop_tests.rs: contract package "reference-counter", one worldline per
//! envelope).  Case = op list: `s<i>[:a|f|m]` submit envelope i (fault: append_frame / flush_commit /
//! commit_marker_synced), `t<i>[:a|f|m]` stage + tick envelope i, `k` kill (drop) + fresh host +
//! `enable_runtime_wal`.  Output: one answer per op (`ackNew/ackDup/err/out/idle`), after every `k` and at
//! the end the recovered submissions / decided outcomes by envelope index.
#![allow(dead_code)]
use crate::c10::Scratch;
use crate::prng::Rng;
use crate::util::Toks;
use crate::{OracleOut, Stream, Tier};
use echo_registry_api::{ArgDef, ContractArtifactVerificationPolicy, ObjectDef, OpDef, OpKind, RegistryInfo, RegistryProvider};
use std::path::{Path, PathBuf};
use warp_core::causal_wal::{FilesystemWalFaultPlan, FilesystemWalFaultTarget};
use warp_core::{
    make_head_id, make_intent_kind, make_node_id, make_type_id, AuthoredObserverPlan, ContractMutationHandler,
    ContractPackageIdentity, ContractQueryObserver, ContractQueryObserverResult, EngineBuilder, GraphStore, GraphView,
    Hash, InboxPolicy, IngressEnvelope, IngressTarget, IntentOutcome, NodeId, NodeRecord, ObserverPlanId,
    OpticAdmissionTicket, OpticArtifactHandle, PatternGraph, PlaybackMode, SchedulerKind, TickDelta, TrustedRuntimeHost,
    TrustedRuntimeWalConfig, WarpOp, WorldlineId, WorldlineRuntime, WorldlineState, WriterHead, WriterHeadKey,
    OPTIC_ADMISSION_TICKET_KIND, OPTIC_ARTIFACT_HANDLE_KIND,
};

pub fn streams() -> Vec<Stream> {
    vec![
        Stream { name: "C10.host", gen: gen_host, imp: imp_host, oracle: oracle_host },
        // oracle-only: workloads on which the unchanged code leaves an unrecoverable WAL (known finding C10-K1:
        // writer epochs are not part of the abstract host model, so there is no model output to compare)
        Stream { name: "C10.hostx", gen: gen_hostx, imp: |_| Ok("-".into()), oracle: oracle_hostx },
    ]
}

const NW: usize = 3;
const SCHEMA_SHA256_HEX: &str = "0123456789abcdef0123456789abcdef0123456789abcdef0123456789abcdef";
const MUTATION_OP_ID: u32 = 6001;
const QUERY_OP_ID: u32 = 6002;
const MUTATION_VARS: &[u8] = b"amount=7";
const RESULT_TYPE: &str = "test/reference-host/result";
const RESULT_BYTES: &[u8] = b"value=7";
const MUTATION_RULE_NAME: &str = "cmd/contract/0123456789abcdef0123456789abcdef0123456789abcdef0123456789abcdef/6001/increment";
const MUTATION_RULE_ID_LABEL: &str = "rule:cmd/contract/0123456789abcdef0123456789abcdef0123456789abcdef0123456789abcdef/6001/increment";

static INCREMENT_ARGS: &[ArgDef] = &[ArgDef { name: "input", ty: "IncrementInput", required: true, list: false }];
static OPS: &[OpDef] = &[
    OpDef { kind: OpKind::Mutation, name: "increment", op_id: MUTATION_OP_ID, args: INCREMENT_ARGS, result_ty: "CounterValue", directives_json: "{}", footprint_certificate: None },
    OpDef { kind: OpKind::Query, name: "counterWindow", op_id: QUERY_OP_ID, args: INCREMENT_ARGS, result_ty: "CounterWindow", directives_json: "{}", footprint_certificate: None },
];

struct StaticRegistry;
impl RegistryProvider for StaticRegistry {
    fn info(&self) -> RegistryInfo {
        RegistryInfo { echo_abi_version: 1, codec_id: "cbor-canon-v1", registry_version: 1, schema_sha256_hex: SCHEMA_SHA256_HEX, wesley_generator_version: "echo-wesley-gen/0.1.0", helper_api_version: 1 }
    }
    fn op_by_id(&self, op_id: u32) -> Option<&'static OpDef> {
        OPS.iter().find(|op| op.op_id == op_id)
    }
    fn all_ops(&self) -> &'static [OpDef] {
        OPS
    }
    fn all_enums(&self) -> &'static [echo_registry_api::EnumDef] {
        &[]
    }
    fn all_objects(&self) -> &'static [ObjectDef] {
        &[]
    }
}

fn empty_engine() -> warp_core::Engine {
    let mut store = GraphStore::default();
    let root = make_node_id("root");
    store.insert_node(root, NodeRecord { ty: make_type_id("world") });
    EngineBuilder::new(store, root).scheduler(SchedulerKind::Radix).workers(1).build()
}

fn result_node_id(scope: &NodeId) -> NodeId {
    let mut hasher = blake3::Hasher::new();
    hasher.update(b"test.reference-runtime-host.result-node");
    hasher.update(scope.as_bytes());
    NodeId(hasher.finalize().into())
}

fn contract_execute(view: GraphView<'_>, scope: &NodeId, delta: &mut TickDelta) {
    if warp_core::eint_vars_for_op(view, scope, MUTATION_OP_ID) != Some(MUTATION_VARS) {
        return;
    }
    let warp_id = view.warp_id();
    let result = result_node_id(scope);
    delta.push(WarpOp::UpsertNode { node: warp_core::NodeKey { warp_id, local_id: result }, record: NodeRecord { ty: make_type_id(RESULT_TYPE) } });
    delta.push(WarpOp::SetAttachment {
        key: warp_core::AttachmentKey::node_alpha(warp_core::NodeKey { warp_id, local_id: result }),
        value: Some(warp_core::AttachmentValue::Atom(warp_core::AtomPayload::new(make_type_id(RESULT_TYPE), bytes::Bytes::copy_from_slice(RESULT_BYTES)))),
    });
}

fn contract_matches(view: GraphView<'_>, scope: &NodeId) -> bool {
    warp_core::eint_vars_for_op(view, scope, MUTATION_OP_ID) == Some(MUTATION_VARS)
}

fn contract_footprint(view: GraphView<'_>, scope: &NodeId) -> warp_core::Footprint {
    let mut footprint = warp_core::runtime_ingress_eint_read_footprint(view, scope);
    let warp_id = view.warp_id();
    let result = result_node_id(scope);
    footprint.n_write.insert_with_warp(warp_id, result);
    footprint.a_write.insert(warp_core::AttachmentKey::node_alpha(warp_core::NodeKey { warp_id, local_id: result }));
    footprint
}

fn contract_rule() -> warp_core::RewriteRule {
    warp_core::RewriteRule {
        id: make_type_id(MUTATION_RULE_ID_LABEL).0,
        name: MUTATION_RULE_NAME,
        left: PatternGraph { nodes: vec![] },
        matcher: contract_matches,
        executor: contract_execute,
        compute_footprint: contract_footprint,
        factor_mask: 0,
        conflict_policy: warp_core::ConflictPolicy::Abort,
        join_fn: None,
    }
}

fn package() -> warp_core::InstalledContractPackage<'static> {
    static REGISTRY: StaticRegistry = StaticRegistry;
    warp_core::InstalledContractPackage {
        identity: ContractPackageIdentity { package_name: "reference-counter", package_version: "0.1.0", artifact_hash_hex: "bbbbbbbbbbbbbbbbbbbbbbbbbbbbbbbbbbbbbbbbbbbbbbbbbbbbbbbbbbbbbbbb" },
        registry: &REGISTRY,
        verification_policy: ContractArtifactVerificationPolicy {
            echo_abi_version: 1,
            codec_id: "cbor-canon-v1",
            registry_version: 1,
            schema_sha256_hex: SCHEMA_SHA256_HEX,
            wesley_generator_version: "echo-wesley-gen/0.1.0",
            helper_api_version: 1,
            footprint_certificates: &[],
            require_mutation_footprint_certificates: false,
        },
        mutation_handlers: vec![ContractMutationHandler { op_id: MUTATION_OP_ID, rule: contract_rule() }],
        inverse_handlers: vec![],
        query_observers: vec![ContractQueryObserver::new(
            QUERY_OP_ID,
            AuthoredObserverPlan { plan_id: ObserverPlanId::from_bytes([11; 32]), artifact_hash: [12; 32], schema_hash: [13; 32], state_schema_hash: [14; 32], update_law_hash: [15; 32], emission_law_hash: [16; 32] },
            |_| Ok(ContractQueryObserverResult::complete(b"window-value=7".to_vec())),
        )],
    }
}

fn worldline(i: usize) -> WorldlineId {
    WorldlineId::from_bytes([i as u8 + 1; 32])
}

fn runtime() -> WorldlineRuntime {
    let mut runtime = WorldlineRuntime::new();
    for i in 0..NW {
        runtime.register_worldline(worldline(i), WorldlineState::empty()).expect("worldline");
        runtime
            .register_writer_head(WriterHead::with_routing(
                WriterHeadKey { worldline_id: worldline(i), head_id: make_head_id(&format!("default-{i}")) },
                PlaybackMode::Play,
                InboxPolicy::AcceptAll,
                None,
                true,
            ))
            .expect("head");
    }
    runtime
}

fn envelope(i: usize) -> IngressEnvelope {
    IngressEnvelope::local_intent(
        IngressTarget::DefaultWriter { worldline_id: worldline(i) },
        make_intent_kind("echo.intent/eint-v1"),
        echo_wasm_abi::pack_intent_v1(MUTATION_OP_ID, MUTATION_VARS).expect("EINT"),
    )
}

fn ticket(seed: u8) -> OpticAdmissionTicket {
    OpticAdmissionTicket {
        kind: OPTIC_ADMISSION_TICKET_KIND.to_owned(),
        artifact_handle: OpticArtifactHandle { kind: OPTIC_ARTIFACT_HANDLE_KIND.to_owned(), id: format!("reference-host-{seed}") },
        artifact_hash: format!("artifact-hash-{seed}"),
        operation_id: format!("operation-{seed}"),
        requirements_digest: format!("requirements-{seed}"),
        canonical_variables_digest: vec![seed],
        basis_request_digest: [seed; 32],
        aperture_request_digest: [seed.wrapping_add(1); 32],
        budget_request_digest: [seed.wrapping_add(2); 32],
        law_witness_digest: [seed.wrapping_add(3); 32],
        ticket_digest: [seed.wrapping_add(4); 32],
    }
}

/// fresh process: new host, `enable_runtime_wal` on the root, package installed
fn open_host(root: &Path) -> Result<TrustedRuntimeHost, String> {
    let mut host = TrustedRuntimeHost::new(runtime(), empty_engine()).map_err(|e| format!("new: {e:?}"))?;
    host.enable_runtime_wal(TrustedRuntimeWalConfig::filesystem(root)).map_err(|e| format!("enable_runtime_wal: {e:?}"))?;
    host.register_contract_package(package()).map_err(|e| format!("package: {e:?}"))?;
    Ok(host)
}

#[derive(Clone, Copy, PartialEq, Debug)]
enum Op {
    Submit(usize, u8),
    Tick(usize, u8),
    Kill,
}

fn parse_ops(t: &mut Toks) -> Result<Vec<Op>, String> {
    let n = t.num()? as usize;
    let mut ops = Vec::new();
    for _ in 0..n {
        let tok = t.next()?;
        if tok == "k" {
            ops.push(Op::Kill);
            continue;
        }
        let (head, fault) = match tok.split_once(':') {
            Some((h, f)) => (h, f.as_bytes()[0]),
            None => (tok, b'-'),
        };
        let i: usize = head[1..].parse().map_err(|_| format!("bad op {tok}"))?;
        if i >= NW || !matches!(fault, b'-' | b'a' | b'f' | b'm') {
            return Err(format!("bad op {tok}"));
        }
        ops.push(match head.as_bytes()[0] {
            b's' => Op::Submit(i, fault),
            b't' => Op::Tick(i, fault),
            _ => return Err(format!("bad op {tok}")),
        });
    }
    Ok(ops)
}

fn plan(fault: u8) -> Option<FilesystemWalFaultPlan> {
    match fault {
        b'a' => Some(FilesystemWalFaultPlan::fail_next(FilesystemWalFaultTarget::AppendFrame)),
        b'f' => Some(FilesystemWalFaultPlan::fail_next(FilesystemWalFaultTarget::FlushCommit)),
        b'm' => Some(FilesystemWalFaultPlan::fail_next(FilesystemWalFaultTarget::CommitMarkerSynced)),
        _ => None,
    }
}

/// what the run handed out / what recovery must reproduce
#[derive(Default)]
struct Run {
    answers: Vec<String>,
    /// envelope index → (submission id, ingress id) acknowledged
    acked: Vec<Option<(Hash, Hash)>>,
    /// envelope index → outcome observed after `tick_once` returned Ok
    published: Vec<Option<IntentOutcome>>,
    /// submission ids ever seen (deterministic per envelope), to name recovered entries
    sids: Vec<Option<Hash>>,
    fails: Vec<(String, String)>,
    segment_len_after_op: Vec<u64>,
}

fn segment_file(root: &Path) -> PathBuf {
    warp_core::causal_wal::canonical_segment_path(root, warp_core::causal_wal::WalSegmentId::from_raw(1))
}

/// recovered view of a root through a FRESH host: (accepted indices, decided indices), plus property checks
fn recovered_view(root: &Path, run: &mut Run, label: &str, check: bool) -> Result<(TrustedRuntimeHost, String), String> {
    let mut host = match open_host(root) {
        Ok(h) => h,
        Err(e) => {
            run.fails.push((format!("C10.host.recovery-failed.{label}"), e.clone()));
            return Err(e);
        }
    };
    let recovery = host.runtime_wal().ok_or("no wal")?.recover_read_only().map_err(|e| format!("recover_read_only: {e:?}"))?;
    let mut acc = Vec::new();
    let mut out = Vec::new();
    for i in 0..NW {
        let Some(sid) = run.sids[i] else { continue };
        if recovery.submissions.get(&sid).is_some() {
            acc.push(i.to_string());
        }
        if recovery.receipts.receipt_by_submission.get(&sid).is_some() {
            out.push(i.to_string());
        }
    }
    if check {
        for i in 0..NW {
            if let Some((sid, ingress)) = run.acked[i] {
                match recovery.submissions.get(&sid) {
                    None => run.fails.push((format!("C10.host.ack-lost.{label}"), format!("acknowledged submission of envelope {i} is not recovered"))),
                    Some(e) => {
                        if e.acceptance.submission_id != sid || e.acceptance.canonical_envelope_digest != ingress {
                            run.fails.push((format!("C10.host.ack-identity-changed.{label}"), format!("envelope {i}")));
                        }
                    }
                }
            }
            if let Some(published) = &run.published[i] {
                let sid = run.sids[i].ok_or("published without sid")?;
                let now = host.app().observe_intent_outcome(&sid);
                if &now != published {
                    run.fails.push((format!("C10.host.outcome-changed.{label}"), format!("envelope {i}: published outcome differs after recovery (receipt / state root)")));
                }
            }
        }
        let root_ok = recovery.recomputed_indexes_root().map(|r| r == recovery.certificate.recovered_indexes_root).unwrap_or(false);
        if !root_ok {
            run.fails.push((format!("C10.host.indexes-root-mismatch.{label}"), "certificate root is not reproduced".into()));
        }
    }
    Ok((host, format!("R[acc={};out={}]", acc.join(","), out.join(","))))
}

fn run_ops(ops: &[Op], root: &Path, check: bool) -> Result<Run, String> {
    let mut run = Run { acked: vec![None; NW], published: vec![None; NW], sids: vec![None; NW], ..Default::default() };
    let mut host = open_host(root)?;
    for (n, op) in ops.iter().enumerate() {
        match *op {
            Op::Submit(i, fault) => {
                if let Some(p) = plan(fault) {
                    host.inject_runtime_wal_filesystem_fault_for_test(p).map_err(|e| format!("{e:?}"))?;
                }
                let commits_before = host.runtime_wal().map(|w| w.commits().len()).unwrap_or(0);
                let env = envelope(i);
                let ingress = env.ingress_id();
                let r = host.app().submit_intent_with_runtime_wal_ack(env);
                let _ = host.inject_runtime_wal_filesystem_fault_for_test(FilesystemWalFaultPlan::default());
                match r {
                    Ok(h) => {
                        let commits_after = host.runtime_wal().map(|w| w.commits().len()).unwrap_or(0);
                        if let Some((sid0, _)) = run.acked[i] {
                            if sid0 != h.submission_id {
                                run.fails.push(("C10.host.retry-new-identity".into(), format!("op {n}: envelope {i} acknowledged with a different submission id")));
                            }
                            if commits_after != commits_before {
                                run.fails.push(("C10.host.retry-appended".into(), format!("op {n}: retry of acknowledged envelope {i} appended a transaction")));
                            }
                        }
                        run.answers.push(if commits_after == commits_before { "ackDup".into() } else { "ackNew".into() });
                        run.acked[i] = Some((h.submission_id, ingress));
                        run.sids[i] = Some(h.submission_id);
                    }
                    Err(_) => run.answers.push("err".into()),
                }
            }
            Op::Tick(i, fault) => {
                let known = run.sids[i].filter(|sid| !matches!(host.app().observe_intent_outcome(sid), IntentOutcome::Unknown { .. }));
                match known {
                    None => run.answers.push("idle".into()),
                    Some(sid) => {
                        if !matches!(host.app().observe_intent_outcome(&sid), IntentOutcome::Pending { .. }) {
                            run.answers.push("idle".into());
                        } else {
                            let _ = host.stage_installed_contract_submission(sid, &ticket(50 + i as u8));
                            if let Some(p) = plan(fault) {
                                host.inject_runtime_wal_filesystem_fault_for_test(p).map_err(|e| format!("{e:?}"))?;
                            }
                            let r = host.tick_once();
                            let _ = host.inject_runtime_wal_filesystem_fault_for_test(FilesystemWalFaultPlan::default());
                            let now = host.app().observe_intent_outcome(&sid);
                            match (r, &now) {
                                (Ok(_), IntentOutcome::Applied { .. }) | (Ok(_), IntentOutcome::Rejected { .. }) => {
                                    run.published[i] = Some(now.clone());
                                    run.answers.push("out".into());
                                }
                                (Ok(_), _) => run.answers.push("idle".into()),
                                (Err(_), IntentOutcome::Pending { .. }) => run.answers.push("err".into()),
                                (Err(_), _) => {
                                    run.fails.push(("C10.host.outcome-visible-after-failed-tick".into(), format!("op {n}: tick_once failed but the outcome of envelope {i} is observable")));
                                    run.answers.push("err".into());
                                }
                            }
                        }
                    }
                }
            }
            Op::Kill => {
                drop(host);
                let (h, view) = recovered_view(root, &mut run, &format!("op{n}"), check)?;
                host = h;
                run.answers.push(view);
            }
        }
        run.segment_len_after_op.push(std::fs::metadata(segment_file(root)).map(|m| m.len()).unwrap_or(0));
    }
    drop(host);
    let (_, view) = recovered_view(root, &mut run, "end", check)?;
    run.answers.push(view);
    Ok(run)
}

fn imp_host(t: &mut Toks) -> Result<String, String> {
    let ops = parse_ops(t)?;
    let root = Scratch::new("host");
    let run = run_ops(&ops, &root.0, false)?;
    Ok(run.answers.join(" "))
}

fn copy_dir(from: &Path, to: &Path) -> std::io::Result<()> {
    std::fs::create_dir_all(to)?;
    for e in std::fs::read_dir(from)? {
        let e = e?;
        let p = e.path();
        let q = to.join(e.file_name());
        if p.is_dir() {
            copy_dir(&p, &q)?;
        } else if e.file_name().to_string_lossy() != "writer.lock" {
            std::fs::copy(&p, &q)?;
        }
    }
    Ok(())
}

fn oracle_host(t: &mut Toks, tier: Tier) -> Result<OracleOut, String> {
    let ops = parse_ops(t)?;
    let root = Scratch::new("host-o");
    let mut run = run_ops(&ops, &root.0, true)?;
    let mut o = OracleOut::default();
    // the root as the workload left it (the retry / continue block below opens further writer epochs)
    let snapshot = Scratch::new("host-snap");
    copy_dir(&root.0, &snapshot.0).map_err(|e| e.to_string())?;
    // retry every acknowledged envelope on the recovered host: duplicate, same identity, nothing appended
    {
        let mut host = open_host(&root.0)?;
        for i in 0..NW {
            if let Some((sid, _)) = run.acked[i] {
                let before = host.runtime_wal().map(|w| w.commits().len()).unwrap_or(0);
                match host.app().submit_intent_with_runtime_wal_ack(envelope(i)) {
                    Ok(h) => {
                        let after = host.runtime_wal().map(|w| w.commits().len()).unwrap_or(0);
                        if !h.duplicate || h.submission_id != sid || after != before {
                            run.fails.push(("C10.host.retry-not-deduplicated".into(), format!("envelope {i}: duplicate={} same-id={} appended={}", h.duplicate, h.submission_id == sid, after - before)));
                        }
                    }
                    Err(e) => run.fails.push(("C10.host.retry-rejected".into(), format!("envelope {i}: {e:?}"))),
                }
            }
        }
        // continue: a pending acknowledged submission can still be decided after recovery
        for i in 0..NW {
            if let (Some((sid, _)), None) = (run.acked[i], &run.published[i]) {
                let _ = host.stage_installed_contract_submission(sid, &ticket(50 + i as u8));
                if host.tick_once().is_ok() && matches!(host.app().observe_intent_outcome(&sid), IntentOutcome::Pending { .. } | IntentOutcome::Unknown { .. }) {
                    run.fails.push(("C10.host.continue-stuck".into(), format!("envelope {i} stays undecided after recovery + tick")));
                }
                o.tags.push("continued".into());
                break;
            }
        }
    }
    // byte cuts of the segment (root copied WITHOUT the lock file; the writer-epoch ledger is the final one,
    // i.e. possibly NEWER than the truncated segment — recovery must still open): everything acknowledged /
    // published at an operation boundary whose segment length is <= the cut must be recovered.
    let seg = segment_file(&snapshot.0);
    let bytes = std::fs::read(&seg).map_err(|e| e.to_string())?;
    let stride = if tier == Tier::Thorough { 1 } else { 97 };
    let mut cuts: Vec<usize> = (0..=bytes.len()).step_by(stride).collect();
    for l in &run.segment_len_after_op {
        for d in [-1i64, 0, 1] {
            let c = *l as i64 + d;
            if c >= 0 && c as usize <= bytes.len() {
                cuts.push(c as usize);
            }
        }
    }
    cuts.sort();
    cuts.dedup();
    let mut last_count = 0usize;
    for m in cuts {
        let copy = Scratch::new("host-cut");
        copy_dir(&snapshot.0, &copy.0).map_err(|e| e.to_string())?;
        let seg2 = segment_file(&copy.0);
        std::fs::write(&seg2, &bytes[..m]).map_err(|e| e.to_string())?;
        let host = match open_host(&copy.0) {
            Ok(h) => h,
            Err(e) => {
                run.fails.push(("C10.host.cut-recovery-failed".into(), format!("cut {m}/{}: {e}", bytes.len())));
                continue;
            }
        };
        let rec = host.runtime_wal().ok_or("no wal")?.recover_read_only().map_err(|e| format!("cut {m}: {e:?}"))?;
        let count = rec.certificate.committed_transactions_replayed as usize;
        if count < last_count {
            run.fails.push(("C10.host.cut-not-monotone".into(), format!("cut {m}: {count} < {last_count}")));
        }
        last_count = count;
        if m == bytes.len() {
            for i in 0..NW {
                if let Some((sid, _)) = run.acked[i] {
                    if rec.submissions.get(&sid).is_none() {
                        run.fails.push(("C10.host.ack-lost.cut-full".into(), format!("envelope {i}")));
                    }
                }
            }
        }
    }
    o.nontrivial = run.acked.iter().any(|a| a.is_some()) && ops.iter().any(|op| *op == Op::Kill);
    for a in &run.answers {
        if !a.starts_with("R[") {
            o.tags.push(a.clone());
        }
    }
    if ops.iter().any(|op| matches!(op, Op::Submit(_, f) | Op::Tick(_, f) if *f != b'-')) {
        o.tags.push("fault".into());
    }
    o.fails = run.fails;
    Ok(o)
}

fn gen_host_all(rng: &mut Rng, tier: Tier) -> Vec<String> {
    let n = if tier == Tier::Thorough { 60 } else { 10 };
    let mut out = vec![
        // every operation boundary of submit, tick, retry
        "9 s0 k t0 k s0 k s1 t1 k".to_string(),
        "8 s0:a k s0:f k s0:m k s0 k".to_string(),
        "9 s0 t0:a k t0:f k t0:m k t0 k".to_string(),
    ];
    let faults = ["", "", "", ":a", ":f", ":m"];
    for _ in 0..n {
        let len = 3 + rng.below(8) as usize;
        let mut ops: Vec<String> = Vec::new();
        while ops.len() < len {
            let i = rng.below(NW as u64);
            let f = faults[rng.below(faults.len() as u64) as usize];
            match rng.below(5) {
                0 | 1 => ops.push(format!("s{i}{f}")),
                2 | 3 => {
                    ops.push(format!("t{i}{f}"));
                    // a failed tick leaves the ingress staged in memory; the process is restarted before the
                    // next operation (two staged worldlines cannot be ticked through the filesystem store)
                    if !f.is_empty() {
                        ops.push("k".into());
                    }
                }
                _ => ops.push("k".into()),
            }
        }
        out.push(format!("{} {}", ops.len(), ops.join(" ")));
    }
    out
}

fn survives(line: &str) -> bool {
    let mut t = Toks::new(line);
    let Ok(ops) = parse_ops(&mut t) else { return false };
    let root = Scratch::new("host-g");
    run_ops(&ops, &root.0, false).is_ok()
}

fn gen_host(rng: &mut Rng, tier: Tier) -> Vec<String> {
    gen_host_all(rng, tier).into_iter().filter(|l| survives(l)).collect()
}

fn gen_hostx(rng: &mut Rng, tier: Tier) -> Vec<String> {
    let mut out = vec!["4 s0 k k s1".to_string()];
    out.extend(gen_host_all(rng, tier).into_iter().filter(|l| !survives(l)));
    out
}

/// Does the workload contain a writer epoch (ops between two restarts, or before the first one) in which
/// nothing can have been committed, followed later by an operation that writes frames? Commits: a submission
/// not acknowledged before (fault none / after-marker-sync), a tick of a worldline with a staged submission.
fn has_empty_epoch_before_commit(ops: &[Op]) -> bool {
    let mut acked = [false; NW];
    let mut staged = [false; NW];
    let mut epoch_commits = 0usize;
    let mut empty_epoch_seen = false;
    for op in ops {
        match op {
            Op::Kill => {
                if epoch_commits == 0 {
                    empty_epoch_seen = true;
                }
                epoch_commits = 0;
            }
            Op::Submit(i, f) => {
                // frames reach the log for every fault except a failing first frame append
                if *f != b'a' && !acked[*i] && empty_epoch_seen {
                    return true;
                }
                if matches!(f, b'-' | b'm') && !acked[*i] {
                    acked[*i] = true;
                    staged[*i] = true;
                    epoch_commits += 1;
                }
            }
            Op::Tick(i, f) => {
                if *f != b'a' && staged[*i] && empty_epoch_seen {
                    return true;
                }
                if matches!(f, b'-' | b'm') && staged[*i] {
                    staged[*i] = false;
                    epoch_commits += 1;
                }
            }
        }
    }
    false
}

fn oracle_hostx(t: &mut Toks, _: Tier) -> Result<OracleOut, String> {
    let ops = parse_ops(t)?;
    let root = Scratch::new("host-x");
    let mut o = OracleOut::default();
    o.nontrivial = true;
    match run_ops(&ops, &root.0, true) {
        Ok(run) => {
            o.fails = run.fails;
            o.tags.push("survived".into());
        }
        Err(e) => {
            // Known finding C10-K1 needs a writer epoch that committed nothing, followed by a commit. An LSN gap
            // without such an epoch in the workload is a different defect and must not hide behind K1.
            let key = if e.contains("LsnContinuityMismatch") {
                if has_empty_epoch_before_commit(&ops) {
                    "C10.host.wal-unrecoverable-after-empty-epoch"
                } else {
                    "C10.host.wal-unrecoverable.lsn-gap-without-empty-epoch"
                }
            } else {
                "C10.host.recovery-failed.other"
            };
            o.fails.push((key.into(), format!("reopening the WAL fails: {e}")));
        }
    }
    Ok(o)
}
