//! C19 — deterministic math is bit-stable and canonical.
//! Real code: `warp_math::scalar::{F32Scalar, DFix64}`, `warp_math::fixed_q32_32`, `warp_math::{Mat4, Prng}`
//! (Mat4::rotation_* exposes the raw `trig::sin_cos_f32`), `echo_wasm_abi::codec::{canonicalize_f32, fx_from_f32}`.
use crate::prng::Rng;
use crate::util::Toks;
use crate::{OracleOut, Stream, Tier};
use std::panic::{catch_unwind, AssertUnwindSafe};
use warp_math::fixed_q32_32;
use warp_math::scalar::{DFix64, F32Scalar, Scalar};
use warp_math::{Mat4, Prng, Quat, Vec3};

pub fn streams() -> Vec<Stream> {
    vec![
        Stream { name: "C19.canon", gen: gen_canon, imp: imp_canon, oracle: oracle_canon },
        Stream { name: "C19.abi.canon", gen: gen_abi_canon, imp: imp_abi_canon, oracle: oracle_abi_canon },
        Stream { name: "C19.op", gen: gen_op, imp: imp_op, oracle: oracle_op },
        Stream { name: "C19.trig", gen: gen_trig, imp: imp_trig, oracle: oracle_trig },
        Stream { name: "C19.rot", gen: gen_rot, imp: imp_rot, oracle: oracle_rot },
        Stream { name: "C19.fx.from", gen: gen_fx_from, imp: imp_fx_from, oracle: oracle_fx_from },
        Stream { name: "C19.fx.to", gen: gen_fx_to, imp: imp_fx_to, oracle: oracle_fx_to },
        Stream { name: "C19.fx.bin", gen: gen_fx_bin, imp: imp_fx_bin, oracle: oracle_fx_bin },
        Stream { name: "C19.fx.neg", gen: gen_fx_neg, imp: imp_fx_neg, oracle: oracle_fx_neg },
        Stream { name: "C19.fx.trig", gen: gen_fx_trig, imp: imp_fx_trig, oracle: oracle_fx_trig },
        Stream { name: "C19.abi.fx", gen: gen_abi_fx, imp: imp_abi_fx, oracle: oracle_abi_fx },
        Stream { name: "C19.prng", gen: gen_prng, imp: imp_prng, oracle: oracle_prng },
        Stream { name: "C19.vec", gen: gen_vec, imp: imp_vec, oracle: oracle_vec },
        Stream { name: "C19.quat", gen: gen_quat, imp: imp_quat, oracle: oracle_quat },
        Stream { name: "C19.mat", gen: gen_mat, imp: imp_mat, oracle: oracle_mat },
        Stream { name: "C19.sweep", gen: gen_sweep, imp: imp_sweep, oracle: oracle_sweep },
        Stream { name: "C19.misc", gen: gen_misc, imp: imp_misc, oracle: oracle_misc },
    ]
}

// ------------------------------------------------------------------ helpers

const DA: bool = cfg!(debug_assertions);

fn h8(b: u32) -> String {
    format!("{b:08x}")
}
fn f32_tok(t: &mut Toks) -> Result<u32, String> {
    let s = t.next()?;
    if s.len() != 8 {
        return Err(format!("bad f32 bits {s}"));
    }
    u32::from_str_radix(s, 16).map_err(|e| format!("bad f32 bits {s}: {e}"))
}
fn i64_tok(t: &mut Toks) -> Result<i64, String> {
    let s = t.next()?;
    s.parse::<i64>().map_err(|e| format!("bad int {s}: {e}"))
}
fn flag_tok(t: &mut Toks) -> Result<bool, String> {
    match t.next()? {
        "0" => Ok(false),
        "1" => Ok(true),
        s => Err(format!("bad flag {s}")),
    }
}
fn end(t: &Toks) -> Result<(), String> {
    if t.done() {
        Ok(())
    } else {
        Err("trailing tokens".into())
    }
}
fn class(b: u32) -> &'static str {
    let e = (b >> 23) & 0xff;
    let m = b & 0x7f_ffff;
    match (e, m) {
        (0, 0) => {
            if b >> 31 == 1 {
                "neg-zero"
            } else {
                "zero"
            }
        }
        (0, _) => "subnormal",
        (255, 0) => "inf",
        (255, _) => "nan",
        _ => "normal",
    }
}
/// the invariant: never −0, never subnormal, NaN only as 0x7fc00000
fn canonical(b: u32) -> bool {
    match class(b) {
        "neg-zero" | "subnormal" => false,
        "nan" => b == 0x7fc0_0000,
        _ => true,
    }
}
fn sc(b: u32) -> F32Scalar {
    F32Scalar::new(f32::from_bits(b))
}
fn bits(s: F32Scalar) -> u32 {
    s.to_f32().to_bits()
}

const SPECIALS: [u32; 40] = [
    0x0000_0000, 0x8000_0000, 0x0000_0001, 0x8000_0001, 0x007f_ffff, 0x807f_ffff, 0x0080_0000, 0x8080_0000,
    0x3f80_0000, 0xbf80_0000, 0x7f7f_ffff, 0xff7f_ffff, 0x7f80_0000, 0xff80_0000, 0x7fc0_0000, 0xffc0_0000,
    0x7f80_0001, 0xff80_0001, 0x7fff_ffff, 0xffff_ffff, 0x7fa0_0000, 0xffa0_0000, 0x7f80_dead, 0x0040_0000,
    // trig constants: PI/2, PI, 3PI/2 (f32 product), TAU, and the next multiples
    0x3fc9_0fdb, 0x4049_0fdb, 0x4096_cbe4, 0x40c9_0fdb, 0x4149_0fdb, 0x3f49_0fdb, 0x3ac9_0fdb, 0x3a80_0000,
    0x4b80_0000, 0x4f00_0000, 0x5f00_0000, 0x7f00_0000, 0x3400_0000, 0x3380_0000, 0x0100_0000, 0x3f00_0000,
];

/// stratified f32 bit pattern
fn rand_f32(rng: &mut Rng) -> u32 {
    match rng.below(12) {
        0 | 1 => {
            // a special, possibly nudged by a few ulps
            let b = *rng.pick(&SPECIALS);
            match rng.below(4) {
                0 => b.wrapping_add(rng.below(3) as u32 + 1),
                1 => b.wrapping_sub(rng.below(3) as u32 + 1),
                _ => b,
            }
        }
        2 => rng.next() as u32,                                  // uniform bits
        3 => (rng.next() as u32) & 0x807f_ffff,                  // subnormals / zeros
        4 => ((rng.next() as u32) & 0x807f_ffff) | 0x7f80_0000,  // NaN payloads / inf
        5 | 6 => {
            // angles in [-4 tau, 4 tau]
            let v = (rng.below(2_000_001) as f32 / 1_000_000.0 - 1.0) * 25.2;
            v.to_bits()
        }
        7 => {
            // near a LUT knot: k * (PI/2)/1024, k up to 4 turns
            let k = rng.below(4 * 4096 + 2) as f32;
            let v = k * (core::f32::consts::FRAC_PI_2 / 1024.0);
            let b = v.to_bits().wrapping_add(rng.below(5) as u32).wrapping_sub(2);
            b ^ ((rng.below(2) as u32) << 31)
        }
        8 => {
            // moderate magnitudes around 1
            let e = 100 + rng.below(56) as u32;
            ((rng.below(2) as u32) << 31) | (e << 23) | ((rng.next() as u32) & 0x7f_ffff)
        }
        9 => {
            // huge / tiny exponents
            let e = if rng.chance(1, 2) { 1 + rng.below(20) as u32 } else { 235 + rng.below(20) as u32 };
            ((rng.below(2) as u32) << 31) | (e << 23) | ((rng.next() as u32) & 0x7f_ffff)
        }
        10 => {
            // few mantissa bits set (exact products / ties)
            let e = 110 + rng.below(40) as u32;
            let m = (1u32 << rng.below(23)) | (1u32 << rng.below(23));
            ((rng.below(2) as u32) << 31) | (e << 23) | (m & 0x7f_ffff)
        }
        _ => {
            // small integers and halves
            let v = (rng.below(4097) as f32 - 2048.0) * 0.5;
            v.to_bits()
        }
    }
}

fn n_cases(tier: Tier, quick: usize, thorough: usize) -> usize {
    if tier == Tier::Thorough {
        thorough
    } else {
        quick
    }
}

// ------------------------------------------------------------------ C19.canon / C19.abi.canon

fn gen_canon(rng: &mut Rng, tier: Tier) -> Vec<String> {
    let mut out: Vec<String> = SPECIALS.iter().map(|b| h8(*b)).collect();
    for _ in 0..n_cases(tier, 500, 60_000) {
        out.push(h8(rand_f32(rng)));
    }
    out
}
fn imp_canon(t: &mut Toks) -> Result<String, String> {
    let x = f32_tok(t)?;
    end(t)?;
    Ok(h8(bits(sc(x))))
}
fn oracle_canon(t: &mut Toks, _tier: Tier) -> Result<OracleOut, String> {
    let x = f32_tok(t)?;
    end(t)?;
    let mut o = OracleOut::default();
    let r = bits(sc(x));
    if !canonical(r) {
        o.fails.push(("C19.canon.non-canonical".into(), format!("F32Scalar::new({x:08x}) stores {r:08x}")));
    }
    if bits(sc(r)) != r {
        o.fails.push(("C19.canon.not-idempotent".into(), format!("new(new({x:08x})) != new({x:08x})")));
    }
    if bits(<F32Scalar as Scalar>::from_f32(f32::from_bits(x))) != r || bits(sc(x)) != r {
        o.fails.push(("C19.canon.nondeterministic".into(), format!("two constructions of {x:08x} differ")));
    }
    // values that are already canonical must be stored unchanged
    if canonical(x) && r != x {
        o.fails.push(("C19.canon.changes-canonical-value".into(), format!("{x:08x} -> {r:08x}")));
    }
    if bits(F32Scalar::ZERO) != 0 || bits(F32Scalar::ONE) != 0x3f80_0000 {
        o.fails.push(("C19.canon.constants".into(), "ZERO/ONE constants are not 0.0/1.0".into()));
    }
    o.tags.push(format!("in:{}", class(x)));
    o.nontrivial = !canonical(x) || class(x) != "normal";
    Ok(o)
}
fn gen_abi_canon(rng: &mut Rng, tier: Tier) -> Vec<String> {
    let mut out: Vec<String> = SPECIALS.iter().map(|b| h8(*b)).collect();
    for _ in 0..n_cases(tier, 120, 10_000) {
        out.push(h8(rand_f32(rng)));
    }
    out
}
fn imp_abi_canon(t: &mut Toks) -> Result<String, String> {
    let x = f32_tok(t)?;
    end(t)?;
    Ok(h8(echo_wasm_abi::codec::canonicalize_f32(f32::from_bits(x)).to_bits()))
}
fn oracle_abi_canon(t: &mut Toks, _tier: Tier) -> Result<OracleOut, String> {
    let x = f32_tok(t)?;
    end(t)?;
    let mut o = OracleOut::default();
    let r = echo_wasm_abi::codec::canonicalize_f32(f32::from_bits(x)).to_bits();
    if !canonical(r) {
        o.fails.push(("C19.abi-canon.non-canonical".into(), format!("canonicalize_f32({x:08x}) = {r:08x}")));
    }
    if r != bits(sc(x)) {
        o.fails.push(("C19.abi-canon.disagrees-with-scalar".into(), format!("{x:08x}: abi {r:08x} vs F32Scalar {:08x}", bits(sc(x)))));
    }
    o.tags.push(format!("in:{}", class(x)));
    o.nontrivial = !canonical(x);
    Ok(o)
}

// ------------------------------------------------------------------ C19.op

const OPS: [&str; 5] = ["add", "sub", "mul", "div", "neg"];

fn apply_op(op: &str, a: F32Scalar, b: F32Scalar) -> Result<F32Scalar, String> {
    Ok(match op {
        "add" => a + b,
        "sub" => a - b,
        "mul" => a * b,
        "div" => a / b,
        "neg" => -a,
        _ => return Err(format!("bad op {op}")),
    })
}
fn parse_op<'a>(t: &mut Toks<'a>) -> Result<(&'a str, u32, u32), String> {
    let op = t.next()?;
    let a = f32_tok(t)?;
    let b = if op == "neg" { 0 } else { f32_tok(t)? };
    end(t)?;
    Ok((op, a, b))
}
fn gen_op(rng: &mut Rng, tier: Tier) -> Vec<String> {
    let mut out = Vec::new();
    // every pair of a small special set, for every operator
    let sp = [0x0000_0000u32, 0x8000_0000, 0x0000_0001, 0x807f_ffff, 0x0080_0000, 0x8080_0000, 0x3f80_0000,
        0xbf80_0000, 0x7f7f_ffff, 0xff7f_ffff, 0x7f80_0000, 0xff80_0000, 0x7fc0_0000, 0xff80_0001];
    for op in &OPS[..4] {
        for a in sp {
            for b in sp {
                if tier == Tier::Thorough || (a ^ b.rotate_left(7) ^ op.len() as u32) % 3 == 0 {
                    out.push(format!("{op} {} {}", h8(a), h8(b)));
                }
            }
        }
    }
    for a in SPECIALS {
        out.push(format!("neg {}", h8(a)));
    }
    for i in 0..n_cases(tier, 900, 80_000) {
        let op = OPS[i % 5];
        let a = rand_f32(rng);
        let mut b = rand_f32(rng);
        match rng.below(8) {
            0 => b = a,                       // x - x, x / x
            1 => b = a ^ 0x8000_0000,         // x + (-x)
            2 => b = a.wrapping_add(1),       // catastrophic cancellation -> subnormal results
            3 => {
                // results near the subnormal boundary: tiny * tiny, tiny / big
                b = ((rng.below(2) as u32) << 31) | ((1 + rng.below(127) as u32) << 23) | ((rng.next() as u32) & 0x7f_ffff);
            }
            _ => {}
        }
        if op == "neg" {
            out.push(format!("neg {}", h8(a)));
        } else {
            out.push(format!("{op} {} {}", h8(a), h8(b)));
        }
    }
    out
}
fn imp_op(t: &mut Toks) -> Result<String, String> {
    let (op, a, b) = parse_op(t)?;
    Ok(h8(bits(apply_op(op, sc(a), sc(b))?)))
}
fn oracle_op(t: &mut Toks, _tier: Tier) -> Result<OracleOut, String> {
    let (op, a, b) = parse_op(t)?;
    let mut o = OracleOut::default();
    let r = bits(apply_op(op, sc(a), sc(b))?);
    if !canonical(r) {
        o.fails.push((format!("C19.op.non-canonical.{op}"), format!("{op}({a:08x},{b:08x}) = {r:08x}")));
    }
    let r2 = bits(apply_op(op, sc(a), sc(b))?);
    if r2 != r {
        o.fails.push((format!("C19.op.nondeterministic.{op}"), format!("{op}({a:08x},{b:08x}) = {r:08x} then {r2:08x}")));
    }
    // a black-boxed evaluation (defeats constant folding of this call site) must give the same bits
    let (ba, bb) = (std::hint::black_box(sc(a)), std::hint::black_box(sc(b)));
    let r3 = bits(apply_op(op, ba, bb)?);
    if r3 != r {
        o.fails.push((format!("C19.op.fold-vs-runtime.{op}"), format!("{op}({a:08x},{b:08x}) = {r:08x} vs {r3:08x}")));
    }
    o.tags.push(format!("op:{op}"));
    o.tags.push(format!("out:{}", class(r)));
    let raw = match op {
        "add" => f32::from_bits(bits(sc(a))) + f32::from_bits(bits(sc(b))),
        "sub" => f32::from_bits(bits(sc(a))) - f32::from_bits(bits(sc(b))),
        "mul" => f32::from_bits(bits(sc(a))) * f32::from_bits(bits(sc(b))),
        "div" => f32::from_bits(bits(sc(a))) / f32::from_bits(bits(sc(b))),
        _ => -f32::from_bits(bits(sc(a))),
    };
    if !canonical(raw.to_bits()) {
        o.tags.push(format!("raw-noncanonical:{}", class(raw.to_bits())));
    }
    o.nontrivial = class(bits(sc(a))) == "normal" || !canonical(raw.to_bits());
    Ok(o)
}

// ------------------------------------------------------------------ C19.trig (F32Scalar::sin_cos) / C19.rot (raw sin_cos_f32)

fn gen_angle_lines(rng: &mut Rng, n: usize) -> Vec<String> {
    let da = u8::from(DA);
    let mut out: Vec<String> = SPECIALS.iter().map(|b| format!("{da} {}", h8(*b))).collect();
    // quadrant boundaries ± a few ulps, both signs, and after whole turns
    for base in [0x3fc9_0fdbu32, 0x4049_0fdb, 0x4096_cbe4, 0x40c9_0fdb, 0x4116_cbe4, 0x4149_0fdb] {
        for d in -3i32..=3 {
            let b = base.wrapping_add(d as u32);
            out.push(format!("{da} {}", h8(b)));
            out.push(format!("{da} {}", h8(b | 0x8000_0000)));
        }
    }
    for _ in 0..n {
        out.push(format!("{da} {}", h8(rand_f32(rng))));
    }
    out
}
fn gen_trig(rng: &mut Rng, tier: Tier) -> Vec<String> {
    gen_angle_lines(rng, n_cases(tier, 700, 60_000))
}
fn gen_rot(rng: &mut Rng, tier: Tier) -> Vec<String> {
    gen_angle_lines(rng, n_cases(tier, 300, 30_000))
}
fn trig_real(x: u32) -> Option<(u32, u32)> {
    catch_unwind(AssertUnwindSafe(|| {
        let (s, c) = sc(x).sin_cos();
        (bits(s), bits(c))
    }))
    .ok()
}
fn imp_trig(t: &mut Toks) -> Result<String, String> {
    let _da = flag_tok(t)?;
    let x = f32_tok(t)?;
    end(t)?;
    Ok(match trig_real(x) {
        Some((s, c)) => format!("{} {}", h8(s), h8(c)),
        None => "panic".into(),
    })
}
fn mag_le_one(b: u32) -> bool {
    (b & 0x7fff_ffff) <= 0x3f80_0000
}
fn oracle_trig(t: &mut Toks, _tier: Tier) -> Result<OracleOut, String> {
    let da = flag_tok(t)?;
    let x = f32_tok(t)?;
    end(t)?;
    let mut o = OracleOut::default();
    let finite = f32::from_bits(x).is_finite();
    o.tags.push(format!("in:{}", class(x)));
    if da != DA {
        o.tags.push("profile-flag-mismatch".into());
    }
    match trig_real(x) {
        None => {
            if finite {
                o.fails.push(("C19.trig.panic-on-finite".into(), format!("sin_cos({x:08x}) panicked")));
            } else {
                // documented: non-finite angles give (0, 1); under debug assertions the call panics
                o.fails.push((
                    "C19.trig.nonfinite-profile-dependent".into(),
                    format!("F32Scalar({x:08x}).sin_cos() panics in this build (debug_assertions={DA}) but is documented to return (0.0, 1.0)"),
                ));
            }
        }
        Some((s, c)) => {
            if !canonical(s) || !canonical(c) {
                o.fails.push(("C19.trig.non-canonical".into(), format!("sin_cos({x:08x}) = ({s:08x},{c:08x})")));
            }
            if !mag_le_one(s) || !mag_le_one(c) {
                o.fails.push(("C19.trig.out-of-range".into(), format!("sin_cos({x:08x}) = ({s:08x},{c:08x}) outside [-1,1]")));
            }
            if !finite && (s, c) != (0, 0x3f80_0000) {
                o.fails.push(("C19.trig.nonfinite-policy".into(), format!("sin_cos({x:08x}) = ({s:08x},{c:08x}), documented (0,1)")));
            }
            // separate sin / cos agree with sin_cos; second call agrees
            let again = trig_real(std::hint::black_box(x));
            let s1 = catch_unwind(AssertUnwindSafe(|| bits(sc(x).sin()))).ok();
            let c1 = catch_unwind(AssertUnwindSafe(|| bits(sc(x).cos()))).ok();
            if again != Some((s, c)) || s1 != Some(s) || c1 != Some(c) {
                o.fails.push(("C19.trig.nondeterministic".into(), format!("sin/cos/sin_cos disagree on {x:08x}")));
            }
            // exact symmetry
            match trig_real(x ^ 0x8000_0000) {
                None => o.fails.push(("C19.trig.panic-on-finite".into(), format!("sin_cos(-{x:08x}) panicked"))),
                Some((sn, cn)) => {
                    let want = bits(-sc(s));
                    if sn != want {
                        o.fails.push(("C19.trig.sin-not-odd".into(), format!("sin(-x)={sn:08x} but -sin(x)={want:08x} at x={x:08x}")));
                    }
                    if cn != c {
                        o.fails.push(("C19.trig.cos-not-even".into(), format!("cos(-x)={cn:08x} cos(x)={c:08x} at x={x:08x}")));
                    }
                }
            }
            o.tags.push(format!("sin:{}", class(s)));
        }
    }
    o.nontrivial = true;
    Ok(o)
}
fn rot_real(x: u32) -> Option<[[u32; 16]; 3]> {
    catch_unwind(AssertUnwindSafe(|| {
        let a = f32::from_bits(x);
        let f = |m: Mat4| m.to_array().map(f32::to_bits);
        [f(Mat4::rotation_x(a)), f(Mat4::rotation_y(a)), f(Mat4::rotation_z(a))]
    }))
    .ok()
}
fn imp_rot(t: &mut Toks) -> Result<String, String> {
    let _da = flag_tok(t)?;
    let x = f32_tok(t)?;
    end(t)?;
    Ok(match rot_real(x) {
        Some([rx, _, _]) => format!("{} {} {}", h8(rx[6]), h8(rx[5]), h8(rx[9])),
        None => "panic".into(),
    })
}
fn oracle_rot(t: &mut Toks, _tier: Tier) -> Result<OracleOut, String> {
    let _da = flag_tok(t)?;
    let x = f32_tok(t)?;
    end(t)?;
    let mut o = OracleOut::default();
    let finite = f32::from_bits(x).is_finite();
    o.tags.push(format!("in:{}", class(x)));
    o.nontrivial = true;
    let Some([rx, ry, rz]) = rot_real(x) else {
        if finite {
            o.fails.push(("C19.rot.panic-on-finite".into(), format!("rotation_x({x:08x}) panicked")));
        } else {
            o.fails.push((
                "C19.trig.nonfinite-profile-dependent".into(),
                format!("Mat4::rotation_x({x:08x}) panics in this build (debug_assertions={DA}) but sin_cos_f32 is documented to return (0.0, 1.0)"),
            ));
        }
        return Ok(o);
    };
    let (s, c, ns) = (rx[6], rx[5], rx[9]);
    let (one, zero) = (0x3f80_0000u32, 0u32);
    let want_x = [one, zero, zero, zero, zero, c, s, zero, zero, ns, c, zero, zero, zero, zero, one];
    let want_y = [c, zero, ns, zero, zero, one, zero, zero, s, zero, c, zero, zero, zero, zero, one];
    let want_z = [c, s, zero, zero, ns, c, zero, zero, zero, zero, one, zero, zero, zero, zero, one];
    if rx != want_x || ry != want_y || rz != want_z {
        o.fails.push(("C19.rot.layout-or-axis-disagreement".into(), format!("rotation_x/y/z({x:08x}) do not share one (s,c,-s)")));
    }
    for v in [s, c, ns] {
        if v == 0x8000_0000 || class(v) == "nan" || class(v) == "inf" {
            o.fails.push(("C19.rot.non-canonical".into(), format!("rotation({x:08x}) contains {v:08x}")));
        }
        if !mag_le_one(v) {
            o.fails.push(("C19.rot.out-of-range".into(), format!("rotation({x:08x}) contains {v:08x} outside [-1,1]")));
        }
    }
    let negs = if s & 0x7fff_ffff == 0 { 0 } else { s ^ 0x8000_0000 };
    if ns != negs {
        o.fails.push(("C19.rot.neg-sin".into(), format!("-s entry {ns:08x} is not canonicalize_zero(-{s:08x})")));
    }
    if let Some([nx, _, _]) = rot_real(x ^ 0x8000_0000) {
        if nx[6] != negs {
            o.fails.push(("C19.trig.sin-not-odd".into(), format!("raw sin(-x)={:08x} but -sin(x)={negs:08x} at x={x:08x}", nx[6])));
        }
        if nx[5] != c {
            o.fails.push(("C19.trig.cos-not-even".into(), format!("raw cos(-x)={:08x} cos(x)={c:08x} at x={x:08x}", nx[5])));
        }
    } else if finite {
        o.fails.push(("C19.rot.panic-on-finite".into(), format!("rotation_x(-{x:08x}) panicked")));
    }
    if rot_real(std::hint::black_box(x)) != Some([rx, ry, rz]) {
        o.fails.push(("C19.rot.nondeterministic".into(), format!("two evaluations differ at {x:08x}")));
    }
    Ok(o)
}

// ------------------------------------------------------------------ Q32.32

fn rand_i64(rng: &mut Rng) -> i64 {
    match rng.below(10) {
        0 => *rng.pick(&[0i64, 1, -1, i64::MAX, i64::MIN, i64::MIN + 1, 1 << 32, -(1 << 32), 1 << 31, (1 << 31) + 1, 3 << 31, 5 << 31, (1 << 56) + (1 << 32), (1 << 24) + 1, (1 << 25) + 1, (1 << 25) + 2, (1 << 25) + 3, 0x00ff_ffff_8000_0000, 0x00ff_ffff_7fff_ffff, 0x7fff_ffc0_0000_0000, 0x7fff_ff80_0000_0000]),
        1 => rng.next() as i64,
        2 => (rng.next() as i64) >> rng.below(63),
        3 => ((rng.below(2001) as i64) - 1000) << 32,                      // integers
        4 => (((rng.below(2001) as i64) - 1000) << 31) + (rng.below(3) as i64 - 1), // halves ± 1 raw
        5 => ((rng.next() as i64) >> 20) | 1,
        6 => {
            // exactly on a to_f32 rounding tie: 25 significant bits, last one set
            let k = 24 + rng.below(39);
            let top = (1i64 << 24) | ((rng.next() as i64) & 0xff_ffff);
            let v = ((top << 1) | 1) << (k - 24);
            if rng.chance(1, 2) { v.wrapping_neg() } else { v }
        }
        7 => (rng.below(1 << 20) as i64) - (1 << 19),                      // tiny raws
        _ => ((rng.next() as i64) >> 24).wrapping_mul(if rng.chance(1, 2) { 1 } else { -1 }),
    }
}
fn gen_fx_from(rng: &mut Rng, tier: Tier) -> Vec<String> {
    let mut out: Vec<String> = SPECIALS.iter().map(|b| h8(*b)).collect();
    // the saturation edge 2^31 and the rounding edge 2^-33
    for b in [0x4f00_0000u32, 0x4eff_ffff, 0xcf00_0000, 0xcf00_0001, 0x2f00_0000, 0x2f00_0001, 0x2f80_0000, 0x2fc0_0000, 0x2f40_0000, 0x2e80_0000] {
        out.push(h8(b));
    }
    for _ in 0..n_cases(tier, 400, 40_000) {
        let mut b = rand_f32(rng);
        if rng.chance(1, 3) {
            // exponents where rounding happens: 2^-34 .. 2^-8
            b = ((rng.below(2) as u32) << 31) | ((93 + rng.below(30) as u32) << 23) | ((rng.next() as u32) & 0x7f_ffff);
            if rng.chance(1, 2) {
                b &= 0xffff_f000 | (1 << rng.below(12)); // ties
            }
        }
        out.push(h8(b));
    }
    out
}
fn imp_fx_from(t: &mut Toks) -> Result<String, String> {
    let x = f32_tok(t)?;
    end(t)?;
    Ok(format!("{}", fixed_q32_32::from_f32(f32::from_bits(x))))
}
fn oracle_fx_from(t: &mut Toks, _tier: Tier) -> Result<OracleOut, String> {
    let x = f32_tok(t)?;
    end(t)?;
    let mut o = OracleOut::default();
    let v = f32::from_bits(x);
    let r = fixed_q32_32::from_f32(v);
    // independent reference: exact in f64, nearest-even, saturating cast
    let want = if v.is_nan() { 0 } else { (f64::from(v) * 4_294_967_296.0).round_ties_even() as i64 };
    if r != want {
        o.fails.push(("C19.fx.from-f32-rounding".into(), format!("from_f32({x:08x}) = {r}, nearest-even reference {want}")));
    }
    if DFix64::from_f32(v).raw() != r || fixed_q32_32::from_f32(std::hint::black_box(v)) != r {
        o.fails.push(("C19.fx.nondeterministic".into(), format!("from_f32({x:08x}) differs between calls")));
    }
    // exact values must come back exactly
    if v.is_finite() && r != i64::MAX && r != i64::MIN && (f64::from(v) * 4_294_967_296.0).fract() == 0.0 {
        let back = fixed_q32_32::to_f32(r).to_bits();
        let canon_x = if x == 0x8000_0000 { 0 } else { x };
        if back != canon_x {
            o.fails.push(("C19.fx.roundtrip".into(), format!("to_f32(from_f32({x:08x})) = {back:08x}")));
        }
        o.tags.push("exact".into());
    }
    o.tags.push(format!("in:{}", class(x)));
    if r == i64::MAX || r == i64::MIN {
        o.tags.push("saturated".into());
    }
    o.nontrivial = r != 0;
    Ok(o)
}
fn gen_fx_to(rng: &mut Rng, tier: Tier) -> Vec<String> {
    (0..n_cases(tier, 400, 40_000)).map(|_| format!("{}", rand_i64(rng))).collect()
}
fn imp_fx_to(t: &mut Toks) -> Result<String, String> {
    let r = i64_tok(t)?;
    end(t)?;
    Ok(h8(fixed_q32_32::to_f32(r).to_bits()))
}
fn oracle_fx_to(t: &mut Toks, _tier: Tier) -> Result<OracleOut, String> {
    let r = i64_tok(t)?;
    end(t)?;
    let mut o = OracleOut::default();
    let b = fixed_q32_32::to_f32(r).to_bits();
    // reference: i64 -> f32 is correctly rounded (nearest-even); scaling by 2^-32 is exact
    let want = ((r as f32) * (1.0 / 4_294_967_296.0_f32)).to_bits();
    if b != want {
        o.fails.push(("C19.fx.to-f32-rounding".into(), format!("to_f32({r}) = {b:08x}, nearest-even reference {want:08x}")));
    }
    if !canonical(b) {
        o.fails.push(("C19.fx.to-f32-non-canonical".into(), format!("to_f32({r}) = {b:08x}")));
    }
    if DFix64::from_raw(r).to_f32().to_bits() != b {
        o.fails.push(("C19.fx.nondeterministic".into(), format!("DFix64::to_f32 and fixed_q32_32::to_f32 differ on {r}")));
    }
    o.tags.push(format!("bits={}", (64 - r.unsigned_abs().leading_zeros()) / 8 * 8));
    o.nontrivial = r != 0;
    Ok(o)
}
fn sat(v: i128) -> i64 {
    i64::try_from(v).unwrap_or(if v < 0 { i64::MIN } else { i64::MAX })
}
/// nearest-even of n / d (d > 0) by floor division
fn div_round_even(n: i128, d: i128) -> i128 {
    let q = n.div_euclid(d);
    let r = n.rem_euclid(d);
    if 2 * r > d || (2 * r == d && q & 1 == 1) {
        q + 1
    } else {
        q
    }
}
fn fx_apply(op: &str, a: i64, b: i64) -> Result<i64, String> {
    let (x, y) = (DFix64::from_raw(a), DFix64::from_raw(b));
    Ok(match op {
        "mul" => x * y,
        "div" => x / y,
        "add" => x + y,
        "sub" => x - y,
        _ => return Err(format!("bad fx op {op}")),
    }
    .raw())
}
fn gen_fx_bin(rng: &mut Rng, tier: Tier) -> Vec<String> {
    let mut out = Vec::new();
    let ops = ["mul", "div", "add", "sub"];
    let sp = [0i64, 1, -1, i64::MAX, i64::MIN, 1 << 32, -(1 << 32), 1 << 31, 3 << 31, -(3 << 31), (1 << 32) + 1, 3];
    for op in ops {
        for a in sp {
            for b in sp {
                out.push(format!("{op} {a} {b}"));
            }
        }
    }
    for i in 0..n_cases(tier, 600, 60_000) {
        let op = ops[i % 4];
        let a = rand_i64(rng);
        let mut b = rand_i64(rng);
        if rng.chance(1, 10) {
            b = 0;
        }
        if op == "div" && rng.chance(1, 4) {
            // exact ties of the quotient: a·2^32 / b = k + 1/2  ⇐  b = 2^33, a odd
            b = 1 << (33 + rng.below(8));
        }
        out.push(format!("{op} {a} {b}"));
    }
    out
}
fn parse_fx_bin<'a>(t: &mut Toks<'a>) -> Result<(&'a str, i64, i64), String> {
    let op = t.next()?;
    let a = i64_tok(t)?;
    let b = i64_tok(t)?;
    end(t)?;
    Ok((op, a, b))
}
fn imp_fx_bin(t: &mut Toks) -> Result<String, String> {
    let (op, a, b) = parse_fx_bin(t)?;
    Ok(format!("{}", fx_apply(op, a, b)?))
}
fn oracle_fx_bin(t: &mut Toks, _tier: Tier) -> Result<OracleOut, String> {
    let (op, a, b) = parse_fx_bin(t)?;
    let mut o = OracleOut::default();
    let r = catch_unwind(AssertUnwindSafe(|| fx_apply(op, a, b)));
    let Ok(r) = r else {
        o.fails.push((format!("C19.fx.panic.{op}"), format!("DFix64 {op}({a},{b}) panicked")));
        return Ok(o);
    };
    let r = r?;
    let (ia, ib) = (i128::from(a), i128::from(b));
    let want = match op {
        "mul" => sat(div_round_even(ia * ib, 1 << 32)),
        "div" => {
            if b == 0 {
                if a == 0 { 0 } else if a < 0 { i64::MIN } else { i64::MAX }
            } else if ib < 0 {
                sat(div_round_even(-(ia << 32), -ib))
            } else {
                sat(div_round_even(ia << 32, ib))
            }
        }
        "add" => a.saturating_add(b),
        _ => a.saturating_sub(b),
    };
    if r != want {
        o.fails.push((format!("C19.fx.rounding.{op}"), format!("DFix64 {op}({a},{b}) = {r}, nearest-even/saturating reference {want}")));
    }
    if fx_apply(op, std::hint::black_box(a), std::hint::black_box(b))? != r {
        o.fails.push((format!("C19.fx.nondeterministic.{op}"), format!("{op}({a},{b}) differs between calls")));
    }
    o.tags.push(format!("fx:{op}"));
    if r == i64::MAX || r == i64::MIN {
        o.tags.push("saturated".into());
    }
    if op == "div" && b == 0 {
        o.tags.push("div-by-zero".into());
    }
    if op == "mul" && (ia * ib).rem_euclid(1 << 32) == 1 << 31 {
        o.tags.push("mul-tie".into());
    }
    if op == "div" && b != 0 && ((ia << 32).rem_euclid(ib.abs()) * 2 == ib.abs()) {
        o.tags.push("div-tie".into());
    }
    o.nontrivial = a != 0 && b != 0;
    Ok(o)
}
fn gen_fx_neg(rng: &mut Rng, tier: Tier) -> Vec<String> {
    let mut out: Vec<String> = [0i64, 1, -1, i64::MAX, i64::MIN, i64::MIN + 1].iter().map(|v| format!("{v}")).collect();
    for _ in 0..n_cases(tier, 40, 2000) {
        out.push(format!("{}", rand_i64(rng)));
    }
    out
}
fn imp_fx_neg(t: &mut Toks) -> Result<String, String> {
    let a = i64_tok(t)?;
    end(t)?;
    Ok(format!("{}", (-DFix64::from_raw(a)).raw()))
}
fn oracle_fx_neg(t: &mut Toks, _tier: Tier) -> Result<OracleOut, String> {
    let a = i64_tok(t)?;
    end(t)?;
    let mut o = OracleOut::default();
    let r = catch_unwind(AssertUnwindSafe(|| (-DFix64::from_raw(a)).raw()));
    match r {
        Err(_) => o.fails.push(("C19.fx.panic.neg".into(), format!("-DFix64({a}) panicked"))),
        Ok(r) => {
            if r != a.checked_neg().unwrap_or(i64::MAX) {
                o.fails.push(("C19.fx.rounding.neg".into(), format!("-DFix64({a}) = {r}")));
            }
        }
    }
    o.nontrivial = a != 0;
    Ok(o)
}
fn fx_trig_real(r: i64) -> Option<(i64, i64)> {
    catch_unwind(AssertUnwindSafe(|| {
        let (s, c) = DFix64::from_raw(r).sin_cos();
        (s.raw(), c.raw())
    }))
    .ok()
}
fn gen_fx_trig(rng: &mut Rng, tier: Tier) -> Vec<String> {
    let da = u8::from(DA);
    let mut out: Vec<String> = [0i64, 1, -1, i64::MAX, i64::MIN, i64::MIN + 1, 6_746_518_852, 13_493_037_705, 26_986_075_409]
        .iter()
        .map(|v| format!("{da} {v}"))
        .collect();
    for _ in 0..n_cases(tier, 150, 10_000) {
        let r = if rng.chance(2, 3) { (rng.next() as i64) >> (27 + rng.below(8)) } else { rand_i64(rng) };
        out.push(format!("{da} {r}"));
    }
    out
}
fn imp_fx_trig(t: &mut Toks) -> Result<String, String> {
    let _da = flag_tok(t)?;
    let r = i64_tok(t)?;
    end(t)?;
    Ok(match fx_trig_real(r) {
        Some((s, c)) => format!("{s} {c}"),
        None => "panic".into(),
    })
}
fn oracle_fx_trig(t: &mut Toks, _tier: Tier) -> Result<OracleOut, String> {
    let _da = flag_tok(t)?;
    let r = i64_tok(t)?;
    end(t)?;
    let mut o = OracleOut::default();
    o.nontrivial = r != 0;
    let Some((s, c)) = fx_trig_real(r) else {
        o.fails.push(("C19.fx.trig-panic".into(), format!("DFix64({r}).sin_cos() panicked")));
        return Ok(o);
    };
    let one = 1i64 << 32;
    if s.abs() > one || c.abs() > one {
        o.fails.push(("C19.fx.trig-out-of-range".into(), format!("DFix64({r}).sin_cos() = ({s},{c})")));
    }
    let s1 = DFix64::from_raw(r).sin().raw();
    let c1 = DFix64::from_raw(r).cos().raw();
    if (s1, c1) != (s, c) {
        o.fails.push(("C19.fx.trig-nondeterministic".into(), format!("sin/cos/sin_cos disagree on {r}")));
    }
    if r != i64::MIN {
        if let Some((sn, cn)) = fx_trig_real(-r) {
            if sn != -s {
                o.fails.push(("C19.fx.trig-sin-not-odd".into(), format!("sin(-{r}) = {sn}, -sin = {}", -s)));
            }
            if cn != c {
                o.fails.push(("C19.fx.trig-cos-not-even".into(), format!("cos(-{r}) = {cn}, cos = {c}")));
            }
        }
    }
    Ok(o)
}
fn gen_abi_fx(rng: &mut Rng, tier: Tier) -> Vec<String> {
    let mut out: Vec<String> = SPECIALS.iter().map(|b| h8(*b)).collect();
    for b in [0x4f00_0000u32, 0x4eff_ffff, 0xcf00_0000, 0xcf00_0001, 0x2f80_0000, 0x2f7f_ffff, 0xaf80_0000] {
        out.push(h8(b));
    }
    for _ in 0..n_cases(tier, 200, 20_000) {
        out.push(h8(rand_f32(rng)));
    }
    out
}
fn imp_abi_fx(t: &mut Toks) -> Result<String, String> {
    let x = f32_tok(t)?;
    end(t)?;
    Ok(format!("{}", echo_wasm_abi::codec::fx_from_f32(f32::from_bits(x))))
}
fn oracle_abi_fx(t: &mut Toks, _tier: Tier) -> Result<OracleOut, String> {
    let x = f32_tok(t)?;
    end(t)?;
    let mut o = OracleOut::default();
    let v = f32::from_bits(x);
    let r = echo_wasm_abi::codec::fx_from_f32(v);
    let near = fixed_q32_32::from_f32(v);
    // truncation and nearest-even differ by at most one raw unit, truncation never larger in magnitude
    if (i128::from(r) - i128::from(near)).abs() > 1 || r.unsigned_abs() > near.unsigned_abs() {
        o.fails.push(("C19.abi-fx.disagrees".into(), format!("fx_from_f32({x:08x}) = {r} vs nearest {near}")));
    }
    if !v.is_nan() {
        let rn = echo_wasm_abi::codec::fx_from_f32(-v);
        if rn != r.checked_neg().unwrap_or(i64::MAX) && !(r == i64::MAX && rn == i64::MIN) {
            o.fails.push(("C19.abi-fx.not-odd".into(), format!("fx_from_f32(-x) = {rn}, fx_from_f32(x) = {r}")));
        }
    }
    o.tags.push(format!("in:{}", class(x)));
    o.nontrivial = r != 0;
    Ok(o)
}

// ------------------------------------------------------------------ C19.prng

fn gen_prng(rng: &mut Rng, tier: Tier) -> Vec<String> {
    let mut out = Vec::new();
    for case in 0..n_cases(tier, 160, 6000) {
        let mut line = if case % 2 == 0 {
            let (a, b) = match rng.below(5) {
                0 => (0, 0),
                1 => (0, rng.next()),
                2 => (rng.below(4), rng.below(4)),
                _ => (rng.next(), rng.next()),
            };
            format!("seed2 {a} {b}")
        } else {
            let s = if rng.chance(1, 4) { rng.below(4) } else { rng.next() };
            format!("seed1 {s}")
        };
        let n = rng.range(1, 24);
        line.push_str(&format!(" {n}"));
        for _ in 0..n {
            match rng.below(6) {
                0 | 1 => line.push_str(" f"),
                2 => line.push_str(" i -2147483648 2147483647"),
                3 => {
                    let lo = rng.below(2001) as i64 - 1000;
                    let hi = lo + (1i64 << rng.below(12)) - 1; // power-of-two span
                    line.push_str(&format!(" i {lo} {hi}"));
                }
                4 => {
                    let lo = (rng.next() as i32) as i64;
                    let hi = (rng.next() as i32) as i64;
                    let (lo, hi) = if rng.chance(1, 12) { (lo.max(hi), lo.min(hi)) } else { (lo.min(hi), lo.max(hi)) };
                    line.push_str(&format!(" i {lo} {hi}"));
                }
                _ => {
                    let lo = rng.below(200) as i64 - 100;
                    let hi = lo + rng.below(50) as i64;
                    line.push_str(&format!(" i {lo} {hi}"));
                }
            }
        }
        out.push(line);
    }
    out
}
enum PrngOp {
    F,
    I(i32, i32),
}
fn parse_prng(t: &mut Toks) -> Result<(Prng, Vec<PrngOp>), String> {
    let p = match t.next()? {
        "seed2" => {
            let a = t.num()?;
            let b = t.num()?;
            Prng::from_seed(a, b)
        }
        "seed1" => Prng::from_seed_u64(t.num()?),
        s => return Err(format!("bad seed kind {s}")),
    };
    let n = t.num()?;
    let mut ops = Vec::new();
    for _ in 0..n {
        match t.next()? {
            "f" => ops.push(PrngOp::F),
            "i" => {
                let lo = i64_tok(t)?;
                let hi = i64_tok(t)?;
                let lo = i32::try_from(lo).map_err(|_| "min not i32".to_string())?;
                let hi = i32::try_from(hi).map_err(|_| "max not i32".to_string())?;
                ops.push(PrngOp::I(lo, hi));
            }
            s => return Err(format!("bad prng op {s}")),
        }
    }
    end(t)?;
    Ok((p, ops))
}
fn run_prng(p: &mut Prng, ops: &[PrngOp]) -> Vec<String> {
    ops.iter()
        .map(|op| match op {
            PrngOp::F => h8(p.next_f32().to_bits()),
            PrngOp::I(lo, hi) => {
                let mut q = p.clone();
                match catch_unwind(AssertUnwindSafe(move || {
                    let v = q.next_int(*lo, *hi);
                    (v, q)
                })) {
                    Ok((v, q)) => {
                        *p = q;
                        format!("{v}")
                    }
                    Err(_) => "panic".into(),
                }
            }
        })
        .collect()
}
fn imp_prng(t: &mut Toks) -> Result<String, String> {
    let (mut p, ops) = parse_prng(t)?;
    Ok(run_prng(&mut p, &ops).join(" "))
}
fn oracle_prng(t: &mut Toks, _tier: Tier) -> Result<OracleOut, String> {
    let (p0, ops) = parse_prng(t)?;
    let mut o = OracleOut::default();
    let mut p = p0.clone();
    let mut q = p0.clone();
    let a = run_prng(&mut p, &ops);
    let b = run_prng(&mut q, &ops);
    if a != b {
        o.fails.push(("C19.prng.nondeterministic".into(), "same seed, same calls, different outputs".into()));
    }
    for (op, r) in ops.iter().zip(&a) {
        match op {
            PrngOp::F => {
                let v = f32::from_bits(u32::from_str_radix(r, 16).unwrap_or(0x7fc0_0000));
                if !(0.0..1.0).contains(&v) || !canonical(v.to_bits()) {
                    o.fails.push(("C19.prng.f32-out-of-range".into(), format!("next_f32 = {r}")));
                }
                o.tags.push("f32".into());
            }
            PrngOp::I(lo, hi) => {
                if lo > hi {
                    if r != "panic" {
                        o.fails.push(("C19.prng.int-bad-range-accepted".into(), format!("next_int({lo},{hi}) = {r}")));
                    }
                    o.tags.push("int-bad-range".into());
                } else {
                    match r.parse::<i32>() {
                        Ok(v) if v >= *lo && v <= *hi => {}
                        _ => o.fails.push(("C19.prng.int-out-of-range".into(), format!("next_int({lo},{hi}) = {r}"))),
                    }
                    let span = i64::from(*hi) - i64::from(*lo) + 1;
                    o.tags.push(if span == 1 { "int-span1" } else if span & (span - 1) == 0 { "int-pow2" } else { "int-reject" }.into());
                }
            }
        }
    }
    o.nontrivial = ops.len() >= 2;
    Ok(o)
}

// ------------------------------------------------------------------ C19.vec / C19.quat / C19.mat
// Raw f32 arithmetic (no F32Scalar wrapper): NaN payloads are platform business, printed as `nan`.

fn ftok(b: u32) -> String {
    if f32::from_bits(b).is_nan() {
        "nan".into()
    } else {
        h8(b)
    }
}
fn ftoks(v: &[f32]) -> String {
    v.iter().map(|x| ftok(x.to_bits())).collect::<Vec<_>>().join(" ")
}
fn floats(t: &mut Toks, n: usize) -> Result<Vec<f32>, String> {
    (0..n).map(|_| f32_tok(t).map(f32::from_bits)).collect()
}
/// finite operand of moderate magnitude (products of four never overflow), some zeros / −0 / tiny
fn rand_operand(rng: &mut Rng) -> u32 {
    match rng.below(10) {
        0 => *rng.pick(&[0u32, 0x8000_0000, 0x3f80_0000, 0xbf80_0000, 0x0000_0001, 0x8000_0001, 0x0080_0000, 0x3400_0000, 0x3586_37bd, 0x3586_37be, 0x3586_37bc, 0x2b8c_bccc]),
        1 => ((rng.below(4097) as f32 - 2048.0) * 0.25).to_bits(),
        2 => ((rng.below(2) as u32) << 31) | ((20 + rng.below(60) as u32) << 23) | ((rng.next() as u32) & 0x7f_ffff), // tiny
        3 => ((rng.below(2) as u32) << 31) | ((100 + rng.below(12) as u32) << 23) | ((rng.next() as u32) & 0x7f_ffff), // around EPSILON
        _ => ((rng.below(2) as u32) << 31) | ((112 + rng.below(30) as u32) << 23) | ((rng.next() as u32) & 0x7f_ffff),
    }
}
/// operand that may overflow / be non-finite
fn wild_operand(rng: &mut Rng) -> u32 {
    match rng.below(4) {
        0 => rand_f32(rng),
        1 => ((rng.below(2) as u32) << 31) | ((200 + rng.below(55) as u32) << 23) | ((rng.next() as u32) & 0x7f_ffff),
        _ => rand_operand(rng),
    }
}
fn operands(rng: &mut Rng, n: usize, wild: bool) -> String {
    (0..n).map(|_| h8(if wild { wild_operand(rng) } else { rand_operand(rng) })).collect::<Vec<_>>().join(" ")
}
const VEC_OPS: [(&str, usize); 8] = [("add", 6), ("sub", 6), ("cross", 6), ("dot", 6), ("scale", 4), ("length", 3), ("lensq", 3), ("normalize", 3)];
fn gen_vec(rng: &mut Rng, tier: Tier) -> Vec<String> {
    (0..n_cases(tier, 400, 40_000))
        .map(|i| {
            let (op, n) = VEC_OPS[i % VEC_OPS.len()];
            let wild = rng.chance(1, 6);
            format!("{op} {}", operands(rng, n, wild))
        })
        .collect()
}
fn v3(f: &[f32]) -> Vec3 {
    Vec3::from([f[0], f[1], f[2]])
}
fn run_vec(op: &str, f: &[f32]) -> Result<Vec<f32>, String> {
    Ok(match op {
        "add" => v3(f).add(&v3(&f[3..])).to_array().to_vec(),
        "sub" => v3(f).sub(&v3(&f[3..])).to_array().to_vec(),
        "cross" => v3(f).cross(&v3(&f[3..])).to_array().to_vec(),
        "dot" => vec![v3(f).dot(&v3(&f[3..]))],
        "scale" => v3(f).scale(f[3]).to_array().to_vec(),
        "length" => vec![v3(f).length()],
        "lensq" => vec![v3(f).length_squared()],
        "normalize" => v3(f).normalize().to_array().to_vec(),
        _ => return Err(format!("bad vec op {op}")),
    })
}
fn parse_vec<'a>(t: &mut Toks<'a>) -> Result<(&'a str, Vec<f32>), String> {
    let op = t.next()?;
    let n = VEC_OPS.iter().find(|(o, _)| *o == op).map(|(_, n)| *n).ok_or_else(|| format!("bad vec op {op}"))?;
    let f = floats(t, n)?;
    end(t)?;
    Ok((op, f))
}
fn imp_vec(t: &mut Toks) -> Result<String, String> {
    let (op, f) = parse_vec(t)?;
    Ok(ftoks(&run_vec(op, &f)?))
}
fn all_finite(f: &[f32]) -> bool {
    f.iter().all(|x| x.is_finite())
}
fn oracle_vec(t: &mut Toks, _tier: Tier) -> Result<OracleOut, String> {
    let (op, f) = parse_vec(t)?;
    let mut o = OracleOut::default();
    let r = catch_unwind(AssertUnwindSafe(|| run_vec(op, &f)));
    let Ok(r) = r else {
        o.fails.push((format!("C19.vec.panic.{op}"), "Vec3 operation panicked".into()));
        return Ok(o);
    };
    let r = r?;
    let g: Vec<f32> = f.iter().map(|x| std::hint::black_box(*x)).collect();
    let r2 = run_vec(op, &g)?;
    if ftoks(&r) != ftoks(&r2) {
        o.fails.push((format!("C19.vec.nondeterministic.{op}"), format!("{} vs {}", ftoks(&r), ftoks(&r2))));
    }
    // operator-trait forms must agree with the methods
    let alt = match op {
        "add" => Some((v3(&f) + v3(&f[3..])).to_array().to_vec()),
        "sub" => Some((v3(&f) - v3(&f[3..])).to_array().to_vec()),
        "scale" => Some((v3(&f) * f[3]).to_array().to_vec()),
        _ => None,
    };
    if let Some(a) = alt {
        if ftoks(&a) != ftoks(&r) {
            o.fails.push((format!("C19.vec.method-vs-operator.{op}"), format!("{} vs {}", ftoks(&r), ftoks(&a))));
        }
    }
    // length / normalize are total: never NaN, inf or a negative length
    if matches!(op, "length" | "normalize") && r.iter().any(|x| !x.is_finite() || (op == "length" && x.is_sign_negative())) {
        o.fails.push((format!("C19.vec.non-finite.{op}"), format!("{op} returned {}", ftoks(&r))));
    }
    o.tags.push(format!("vec:{op}"));
    if !all_finite(&f) {
        o.tags.push("nonfinite-operand".into());
    }
    if !all_finite(&r) {
        o.tags.push("nonfinite-result".into());
    }
    o.nontrivial = true;
    Ok(o)
}
const QUAT_OPS: [(&str, usize); 4] = [("mul", 8), ("normalize", 4), ("axis", 4), ("tomat", 4)];
fn gen_quat(rng: &mut Rng, tier: Tier) -> Vec<String> {
    let da = u8::from(DA);
    let mut out = vec![
        // finite operands whose Hamilton product overflows: Quat::new's debug_assert fires in dev builds
        format!("{da} mul 7e967699 00000000 00000000 00000000 7e967699 00000000 00000000 00000000"),
        format!("{da} mul 00000000 00000000 00000000 7f000000 00000000 00000000 00000000 40800000"),
        // finite axis whose squared length overflows
        format!("{da} axis 60000000 00000000 00000000 3f800000"),
        format!("{da} axis 5f800000 5f800000 5f800000 40490fdb"),
    ];
    for i in 0..n_cases(tier, 300, 30_000) {
        let (op, n) = QUAT_OPS[i % QUAT_OPS.len()];
        let wild = rng.chance(1, 12);
        let mut args = operands(rng, n, wild);
        if op == "axis" && !wild {
            // angle: an interesting trig argument
            let a = rand_f32(rng);
            let a = if f32::from_bits(a).is_finite() { a } else { 0x3fc9_0fdb };
            args = format!("{} {}", operands(rng, 3, false), h8(a));
        }
        out.push(format!("{da} {op} {args}"));
    }
    out
}
fn q4(f: &[f32]) -> Quat {
    Quat::from([f[0], f[1], f[2], f[3]])
}
fn run_quat(op: &str, f: &[f32]) -> Result<Vec<f32>, String> {
    Ok(match op {
        "mul" => q4(f).multiply(&q4(&f[4..])).to_array().to_vec(),
        "normalize" => q4(f).normalize().to_array().to_vec(),
        "axis" => Quat::from_axis_angle(v3(f), f[3]).to_array().to_vec(),
        "tomat" => q4(f).to_mat4().to_array().to_vec(),
        _ => return Err(format!("bad quat op {op}")),
    })
}
fn parse_quat<'a>(t: &mut Toks<'a>) -> Result<(&'a str, Vec<f32>), String> {
    let _da = flag_tok(t)?;
    let op = t.next()?;
    let n = QUAT_OPS.iter().find(|(o, _)| *o == op).map(|(_, n)| *n).ok_or_else(|| format!("bad quat op {op}"))?;
    let f = floats(t, n)?;
    end(t)?;
    Ok((op, f))
}
fn imp_quat(t: &mut Toks) -> Result<String, String> {
    let (op, f) = parse_quat(t)?;
    match catch_unwind(AssertUnwindSafe(|| run_quat(op, &f))) {
        Ok(r) => Ok(ftoks(&r?)),
        Err(_) => Ok("panic".into()),
    }
}
/// the Hamilton product in plain f32 (no Quat::new): tells an overflow apart from any other panic
fn hamilton_ref(a: &[f32], b: &[f32]) -> [f32; 4] {
    let (ax, ay, az, aw) = (a[0], a[1], a[2], a[3]);
    let (bx, by, bz, bw) = (b[0], b[1], b[2], b[3]);
    [
        aw * bx + ax * bw + ay * bz - az * by,
        aw * by - ax * bz + ay * bw + az * bx,
        aw * bz + ax * by - ay * bx + az * bw,
        aw * bw - ax * bx - ay * by - az * bz,
    ]
}
fn oracle_quat(t: &mut Toks, _tier: Tier) -> Result<OracleOut, String> {
    let (op, f) = parse_quat(t)?;
    let mut o = OracleOut::default();
    o.tags.push(format!("quat:{op}"));
    o.nontrivial = true;
    let fin_in = all_finite(&f);
    if !fin_in {
        o.tags.push("nonfinite-operand".into());
    }
    let r = catch_unwind(AssertUnwindSafe(|| run_quat(op, &f)));
    let Ok(r) = r else {
        if !fin_in {
            o.tags.push("panic-on-nonfinite-operand".into()); // outside "finite inputs"
        } else if op == "mul" && !all_finite(&hamilton_ref(&f, &f[4..])) {
            o.fails.push((
                "C19.quat.overflow-profile-dependent".into(),
                format!("Quat::multiply on finite operands overflows: panics in this build (debug_assertions={DA}), returns non-finite components without debug assertions"),
            ));
        } else if op == "axis" && !v3(&f).length_squared().is_finite() {
            // repaired by `fix: from_axis_angle returns identity when |axis|^2 is not finite`; a panic here is a regression
            o.fails.push((
                "C19.quat.axis-overflow.panic".into(),
                format!("Quat::from_axis_angle on a finite axis whose squared length overflows panics (debug_assertions={DA}): det_sqrt_f32(inf)=0, 1/0=inf, NaN quaternion"),
            ));
        } else {
            o.fails.push((format!("C19.quat.panic-on-finite.{op}"), "Quat operation panicked on finite operands".into()));
        }
        return Ok(o);
    };
    let r = r?;
    let g: Vec<f32> = f.iter().map(|x| std::hint::black_box(*x)).collect();
    match catch_unwind(AssertUnwindSafe(|| run_quat(op, &g))) {
        Ok(Ok(r2)) if ftoks(&r2) == ftoks(&r) => {}
        _ => o.fails.push((format!("C19.quat.nondeterministic.{op}"), "two evaluations differ".into())),
    }
    if fin_in && !all_finite(&r) {
        // the same two findings as seen by a build without debug assertions
        if op == "mul" {
            o.fails.push((
                "C19.quat.overflow-profile-dependent".into(),
                format!("Quat::multiply on finite operands overflows: returns {} in this build (debug_assertions={DA}), panics with debug assertions", ftoks(&r)),
            ));
        } else if op == "axis" && !v3(&f).length_squared().is_finite() {
            o.fails.push((
                "C19.quat.axis-overflow.non-finite".into(),
                format!("Quat::from_axis_angle on a finite axis whose squared length overflows returns {} (debug_assertions={DA})", ftoks(&r)),
            ));
        } else {
            o.fails.push((format!("C19.quat.non-finite.{op}"), format!("{op} on finite operands returned {}", ftoks(&r))));
        }
    }
    if op == "axis" && fin_in && !v3(&f).length_squared().is_finite() {
        o.tags.push("axis-len-sq-overflow".into());
        if ftoks(&r) != ftoks(&Quat::identity().to_array()) {
            o.fails.push(("C19.quat.axis-overflow.not-identity".into(), format!("documented policy is the identity, got {}", ftoks(&r))));
        }
    }
    if op == "tomat" {
        // Mat4::from_quat is the same function
        let m = Mat4::from_quat(&q4(&f)).to_array();
        if ftoks(&m) != ftoks(&r) {
            o.fails.push(("C19.quat.from-quat-disagrees".into(), "Mat4::from_quat != Quat::to_mat4".into()));
        }
    }
    Ok(o)
}
const MAT_OPS: [(&str, usize); 5] = [("mul", 32), ("point", 19), ("dir", 19), ("euler", 3), ("axisangle", 4)];
fn gen_mat(rng: &mut Rng, tier: Tier) -> Vec<String> {
    let da = u8::from(DA);
    (0..n_cases(tier, 250, 20_000))
        .map(|i| {
            let (op, n) = MAT_OPS[i % MAT_OPS.len()];
            let wild = rng.chance(1, 10) && op != "euler" && op != "axisangle";
            let args = if op == "euler" {
                (0..3)
                    .map(|_| {
                        let a = rand_f32(rng);
                        h8(if f32::from_bits(a).is_finite() { a } else { 0x4049_0fdb })
                    })
                    .collect::<Vec<_>>()
                    .join(" ")
            } else {
                operands(rng, n, wild)
            };
            format!("{da} {op} {args}")
        })
        .collect()
}
fn m16(f: &[f32]) -> Mat4 {
    let mut a = [0.0f32; 16];
    a.copy_from_slice(&f[..16]);
    Mat4::from(a)
}
fn run_mat(op: &str, f: &[f32]) -> Result<Vec<f32>, String> {
    Ok(match op {
        "mul" => m16(f).multiply(&m16(&f[16..])).to_array().to_vec(),
        "point" => m16(f).transform_point(&v3(&f[16..])).to_array().to_vec(),
        "dir" => m16(f).transform_direction(&v3(&f[16..])).to_array().to_vec(),
        "euler" => Mat4::rotation_from_euler(f[0], f[1], f[2]).to_array().to_vec(),
        "axisangle" => Mat4::rotation_axis_angle(v3(f), f[3]).to_array().to_vec(),
        _ => return Err(format!("bad mat op {op}")),
    })
}
fn parse_mat<'a>(t: &mut Toks<'a>) -> Result<(&'a str, Vec<f32>), String> {
    let _da = flag_tok(t)?;
    let op = t.next()?;
    let n = MAT_OPS.iter().find(|(o, _)| *o == op).map(|(_, n)| *n).ok_or_else(|| format!("bad mat op {op}"))?;
    let f = floats(t, n)?;
    end(t)?;
    Ok((op, f))
}
fn imp_mat(t: &mut Toks) -> Result<String, String> {
    let (op, f) = parse_mat(t)?;
    match catch_unwind(AssertUnwindSafe(|| run_mat(op, &f))) {
        Ok(r) => Ok(ftoks(&r?)),
        Err(_) => Ok("panic".into()),
    }
}
fn oracle_mat(t: &mut Toks, _tier: Tier) -> Result<OracleOut, String> {
    let (op, f) = parse_mat(t)?;
    let mut o = OracleOut::default();
    o.tags.push(format!("mat:{op}"));
    o.nontrivial = true;
    let fin_in = all_finite(&f);
    let r = catch_unwind(AssertUnwindSafe(|| run_mat(op, &f)));
    let Ok(r) = r else {
        if fin_in && op == "axisangle" && !v3(&f).length_squared().is_finite() {
            o.fails.push((
                "C19.quat.axis-overflow.panic".into(),
                format!("Mat4::rotation_axis_angle on a finite axis whose squared length overflows panics (debug_assertions={DA})"),
            ));
        } else if fin_in {
            o.fails.push((format!("C19.mat.panic-on-finite.{op}"), "Mat4 operation panicked on finite operands".into()));
        } else {
            o.tags.push("panic-on-nonfinite-operand".into());
        }
        return Ok(o);
    };
    let r = r?;
    let g: Vec<f32> = f.iter().map(|x| std::hint::black_box(*x)).collect();
    match catch_unwind(AssertUnwindSafe(|| run_mat(op, &g))) {
        Ok(Ok(r2)) if ftoks(&r2) == ftoks(&r) => {}
        _ => o.fails.push((format!("C19.mat.nondeterministic.{op}"), "two evaluations differ".into())),
    }
    if op == "mul" {
        let alt = (m16(&f) * m16(&f[16..])).to_array();
        if ftoks(&alt) != ftoks(&r) {
            o.fails.push(("C19.mat.method-vs-operator.mul".into(), "Mat4 * Mat4 != multiply".into()));
        }
    }
    if matches!(op, "euler" | "axisangle") && fin_in && (!all_finite(&r) || r.iter().any(|x| x.abs() > 1.000_01)) {
        o.fails.push((format!("C19.mat.rotation-out-of-range.{op}"), format!("rotation matrix entries {}", ftoks(&r))));
    }
    if !fin_in {
        o.tags.push("nonfinite-operand".into());
    }
    Ok(o)
}

// ------------------------------------------------------------------ C19.sweep: every pattern of a range
// imp/model: order-sensitive checksum of F32Scalar::new over [lo, lo+n).  oracle: canon invariant,
// and for finite patterns sin/cos canonical, in range, exactly odd/even — on EVERY pattern of the range.

fn gen_sweep(_rng: &mut Rng, tier: Tier) -> Vec<String> {
    let da = u8::from(DA);
    if tier == Tier::Thorough {
        // all 2^32 patterns in 256 chunks
        (0..256u64).map(|i| format!("{da} {} {}", i << 24, 1u64 << 24)).collect()
    } else {
        let w = 65_536u64;
        [0u64, 0x0080_0000 - w / 2, 0x3f80_0000 - w / 2, 0x3fc9_0fdb - w / 2, 0x4049_0fdb - w / 2, 0x4096_cbe4 - w / 2, 0x40c9_0fdb - w / 2,
            0x4b80_0000 - w / 2, 0x7f80_0000 - w / 2, 0x8000_0000 - w / 2, 0x8080_0000 - w / 2, 0xbf80_0000 - w / 2, 0xc0c9_0fdb - w / 2, 0xff80_0000 - w / 2, (1u64 << 32) - w]
            .iter()
            .map(|lo| format!("{da} {lo} {w}"))
            .collect()
    }
}
fn parse_sweep(t: &mut Toks) -> Result<(u64, u64), String> {
    let _da = flag_tok(t)?;
    let lo = t.num()?;
    let n = t.num()?;
    end(t)?;
    if lo.checked_add(n).map_or(true, |e| e > 1 << 32) {
        return Err("sweep range exceeds 2^32".into());
    }
    Ok((lo, n))
}
fn imp_sweep(t: &mut Toks) -> Result<String, String> {
    let (lo, n) = parse_sweep(t)?;
    let mut acc: u64 = 0;
    for b in lo..lo + n {
        acc = acc.wrapping_mul(6_364_136_223_846_793_005).wrapping_add(u64::from(bits(sc(b as u32))));
    }
    Ok(format!("canon={acc:016x} n={n}"))
}
fn oracle_sweep(t: &mut Toks, _tier: Tier) -> Result<OracleOut, String> {
    let (lo, n) = parse_sweep(t)?;
    let mut o = OracleOut::default();
    let mut trig_checked = 0u64;
    let res = catch_unwind(AssertUnwindSafe(|| {
        let mut fails: Vec<(String, String)> = Vec::new();
        let mut checked = 0u64;
        for b in lo..lo + n {
            let x = b as u32;
            let r = bits(sc(x));
            if !canonical(r) || bits(sc(r)) != r || (canonical(x) && r != x) {
                if fails.len() < 3 {
                    fails.push(("C19.canon.non-canonical".into(), format!("F32Scalar::new({x:08x}) stores {r:08x}")));
                }
                continue;
            }
            if !f32::from_bits(r).is_finite() {
                continue; // debug tripwire: covered by C19.trig
            }
            let (s, c) = sc(x).sin_cos();
            let (s, c) = (bits(s), bits(c));
            let (sn, cn) = sc(x ^ 0x8000_0000).sin_cos();
            let (sn, cn) = (bits(sn), bits(cn));
            checked += 1;
            let bad = if !canonical(s) || !canonical(c) {
                Some("C19.trig.non-canonical")
            } else if !mag_le_one(s) || !mag_le_one(c) {
                Some("C19.trig.out-of-range")
            } else if sn != bits(-sc(s)) {
                Some("C19.trig.sin-not-odd")
            } else if cn != c {
                Some("C19.trig.cos-not-even")
            } else {
                None
            };
            if let Some(k) = bad {
                if fails.len() < 3 {
                    fails.push((k.into(), format!("x={x:08x}: sin_cos=({s:08x},{c:08x}) sin_cos(-x)=({sn:08x},{cn:08x})")));
                }
            }
        }
        (fails, checked)
    }));
    match res {
        Ok((fails, checked)) => {
            o.fails = fails;
            trig_checked = checked;
        }
        Err(_) => o.fails.push(("C19.trig.panic-on-finite".into(), format!("a finite angle in [{lo:#x}, {:#x}) panicked", lo + n))),
    }
    o.tags.push(format!("sweep-patterns={n}"));
    o.tags.push(format!("sweep-trig-checked={trig_checked}"));
    o.nontrivial = true;
    Ok(o)
}

// ------------------------------------------------------------------ C19.misc: the rest of the public API
// `cmp a b` (F32Scalar Ord/PartialOrd/PartialEq = f32::total_cmp on stored values), `clamp v lo hi`
// (warp_math::clamp, assert!(min <= max) in every profile), `deg v` / `rad v` (deg_to_rad / rad_to_deg).

const MISC_OPS: [(&str, usize); 4] = [("cmp", 2), ("clamp", 3), ("deg", 1), ("rad", 1)];
fn gen_misc(rng: &mut Rng, tier: Tier) -> Vec<String> {
    let mut out: Vec<String> = vec![
        "cmp 80000000 00000000".into(), "cmp 7fc00000 7f800000".into(), "cmp ffc00001 7fc00000".into(),
        "cmp 00000001 80000001".into(), "cmp ff800000 ff7fffff".into(),
        "clamp 80000000 00000000 3f800000".into(), "clamp 00000000 80000000 80000000".into(),
        "clamp 7fc00001 00000000 3f800000".into(), "clamp 3f800000 7fc00000 3f800000".into(),
        "clamp 3f800000 40000000 3f800000".into(), "clamp 7f800000 ff800000 7f800000".into(),
        "deg 43b40000".into(), "rad 40c90fdb".into(), "deg 7f7fffff".into(), "rad 7f7fffff".into(), "rad 00000001".into(),
    ];
    for i in 0..n_cases(tier, 400, 40_000) {
        let (op, n) = MISC_OPS[i % MISC_OPS.len()];
        let mut v: Vec<u32> = (0..n).map(|_| if rng.chance(1, 3) { rand_f32(rng) } else { rand_operand(rng) }).collect();
        if op == "cmp" && rng.chance(1, 4) {
            v[1] = v[0] ^ [0u32, 0x8000_0000, 1][rng.below(3) as usize];
        }
        if op == "clamp" && rng.chance(2, 3) {
            // mostly valid ranges: order the two bounds numerically
            let (a, b) = (f32::from_bits(v[1]), f32::from_bits(v[2]));
            if a > b {
                v.swap(1, 2);
            }
        }
        out.push(format!("{op} {}", v.iter().map(|b| h8(*b)).collect::<Vec<_>>().join(" ")));
    }
    out
}
fn parse_misc<'a>(t: &mut Toks<'a>) -> Result<(&'a str, Vec<u32>), String> {
    let op = t.next()?;
    let n = MISC_OPS.iter().find(|(o, _)| *o == op).map(|(_, n)| *n).ok_or_else(|| format!("bad misc op {op}"))?;
    let v = (0..n).map(|_| f32_tok(t)).collect::<Result<Vec<_>, _>>()?;
    end(t)?;
    Ok((op, v))
}
fn ord_i(o: std::cmp::Ordering) -> i32 {
    o as i32
}
fn run_misc(op: &str, v: &[u32]) -> String {
    let f = |i: usize| f32::from_bits(v[i]);
    match op {
        "cmp" => {
            let (a, b) = (sc(v[0]), sc(v[1]));
            format!("{} {}", ord_i(a.cmp(&b)), u8::from(a == b))
        }
        "clamp" => ftok(warp_math::clamp(f(0), f(1), f(2)).to_bits()),
        "deg" => ftok(warp_math::deg_to_rad(f(0)).to_bits()),
        _ => ftok(warp_math::rad_to_deg(f(0)).to_bits()),
    }
}
fn imp_misc(t: &mut Toks) -> Result<String, String> {
    let (op, v) = parse_misc(t)?;
    Ok(catch_unwind(AssertUnwindSafe(|| run_misc(op, &v))).unwrap_or_else(|_| "panic".into()))
}
fn oracle_misc(t: &mut Toks, _tier: Tier) -> Result<OracleOut, String> {
    let (op, v) = parse_misc(t)?;
    let mut o = OracleOut::default();
    o.tags.push(format!("misc:{op}"));
    o.nontrivial = true;
    let f = |i: usize| f32::from_bits(v[i]);
    let r = catch_unwind(AssertUnwindSafe(|| run_misc(op, &v)));
    let g: Vec<u32> = v.iter().map(|x| std::hint::black_box(*x)).collect();
    let r2 = catch_unwind(AssertUnwindSafe(|| run_misc(op, &g)));
    if r.as_ref().ok() != r2.as_ref().ok() {
        o.fails.push((format!("C19.misc.nondeterministic.{op}"), "two evaluations differ".into()));
    }
    match op {
        "cmp" => {
            let (a, b) = (sc(v[0]), sc(v[1]));
            let (ba, bb) = (bits(a), bits(b));
            let c = a.cmp(&b);
            if (c == std::cmp::Ordering::Equal) != (ba == bb) || (a == b) != (ba == bb) {
                o.fails.push(("C19.misc.cmp.eq-not-bitwise".into(), format!("stored {ba:08x} vs {bb:08x}: cmp={c:?} eq={}", a == b)));
            }
            if b.cmp(&a) != c.reverse() || a.partial_cmp(&b) != Some(c) {
                o.fails.push(("C19.misc.cmp.not-antisymmetric".into(), format!("{ba:08x} vs {bb:08x}")));
            }
            let (fa, fb) = (a.to_f32(), b.to_f32());
            if !fa.is_nan() && !fb.is_nan() && fa.partial_cmp(&fb) != Some(c) {
                o.fails.push(("C19.misc.cmp.not-numeric".into(), format!("{ba:08x} vs {bb:08x}: total order {c:?}, numeric {:?}", fa.partial_cmp(&fb))));
            }
            if ba == bb {
                o.tags.push("cmp-equal".into());
            }
        }
        "clamp" => {
            let valid = f(1) <= f(2);
            match (&r, valid) {
                (Err(_), true) => o.fails.push(("C19.misc.clamp.panic-on-valid-range".into(), "clamp panicked with min <= max".into())),
                (Ok(_), false) => o.fails.push(("C19.misc.clamp.no-panic-on-invalid-range".into(), "documented: panics if min > max (NaN bounds included)".into())),
                (Ok(_), true) if !f(0).is_nan() => {
                    let x = warp_math::clamp(f(0), f(1), f(2));
                    if !(f(1) <= x && x <= f(2)) {
                        o.fails.push(("C19.misc.clamp.out-of-range".into(), format!("{:08x}", x.to_bits())));
                    }
                }
                _ => {}
            }
            o.tags.push(if valid { "clamp-valid".into() } else { "clamp-invalid-range".into() });
        }
        _ => {
            if r.is_err() {
                o.fails.push((format!("C19.misc.panic.{op}"), "conversion panicked".into()));
            }
        }
    }
    Ok(o)
}
