//! C06 — the state root commits to exactly the reachable state.
//! Real code: `snapshot::compute_state_root` (seam `echo_verif::state::state_root`),
//! `SnapshotAccumulator::{from_warp_state, apply_ops, build}` (seam `echo_verif::accum`),
//! `wsc::{build_one_warp_input, write_wsc_one_warp, WscFile::from_bytes, validate_wsc}`.
//!
//! The oracle carries its own *reference* notion of "content reachable from the root" (`a_content`,
//! a plain BFS over the abstract dump + a canonical listing) and checks, on the real code only:
//!   root(s) == root(s')  <=>  a_content(s) == a_content(s')
//! over construction orders, storage churn, every single edit of every element, and arbitrary pairs.
use crate::graphio::*;
use crate::prng::Rng;
use crate::util::{hex, Toks};
use crate::{OracleOut, Stream, Tier};
use bytes::Bytes;
use std::collections::{BTreeMap, BTreeSet, VecDeque};
use warp_core::echo_verif::{accum, state as hook};
use warp_core::wsc::{build_one_warp_input, validate_wsc, write_wsc_one_warp, WarpView, WscFile};
use warp_core::{
    AtomPayload, AttachmentKey, AttachmentOwner, AttachmentPlane, AttachmentValue, EdgeId, EdgeKey, EdgeRecord,
    GraphStore, NodeId, NodeKey, NodeRecord, PortalInit, TypeId, WarpId, WarpInstance, WarpOp, WarpState,
};

pub fn streams() -> Vec<Stream> {
    vec![
        Stream { name: "C06.root", gen: gen_root, imp: imp_root, oracle: oracle_root },
        Stream { name: "C06.pair", gen: gen_pair, imp: imp_pair, oracle: oracle_pair },
        Stream { name: "C06.ops", gen: gen_ops_filtered, imp: imp_ops, oracle: oracle_ops },
        Stream { name: "C06.wsc", gen: gen_wsc, imp: imp_wsc, oracle: oracle_wsc },
    ]
}

type Id = [u8; 32];
type Key = (Id, Id);

// ------------------------------------------------------------------ abstract states (full 32-byte ids)

#[derive(Clone, Debug, PartialEq, Eq)]
enum AAtt {
    Atom(Id, Vec<u8>),
    Descend(Id),
}

#[derive(Clone, Debug, PartialEq, Eq)]
struct AWarp {
    id: Id,
    root: Id,
    parent: Option<AttachmentKey>,
    nodes: BTreeMap<Id, Id>,
    natts: BTreeMap<Id, AAtt>,
    /// id -> (from, to, ty)
    edges: BTreeMap<Id, (Id, Id, Id)>,
    eatts: BTreeMap<Id, AAtt>,
}

#[derive(Clone, Debug, PartialEq, Eq, Default)]
struct AState {
    warps: BTreeMap<Id, AWarp>,
}

fn a_att(t: &mut Toks) -> Result<AAtt, String> {
    match t.next()? {
        "a" => Ok(AAtt::Atom(t.id()?, t.bytes()?)),
        "d" => Ok(AAtt::Descend(t.id()?)),
        x => Err(format!("bad att tag {x}")),
    }
}

fn a_expect(t: &mut Toks, kw: &str) -> Result<(), String> {
    let x = t.next()?;
    if x == kw {
        Ok(())
    } else {
        Err(format!("expected {kw}, got {x}"))
    }
}

/// Same grammar and same last-wins semantics as `graphio::parse_state`.
fn a_parse(t: &mut Toks) -> Result<AState, String> {
    a_expect(t, "warps")?;
    let n = t.num()?;
    let mut st = AState::default();
    for _ in 0..n {
        let id = t.id()?;
        let root = t.id()?;
        let parent = parse_optkey(t)?;
        let mut w = AWarp {
            id,
            root,
            parent,
            nodes: BTreeMap::new(),
            natts: BTreeMap::new(),
            edges: BTreeMap::new(),
            eatts: BTreeMap::new(),
        };
        a_expect(t, "nodes")?;
        for _ in 0..t.num()? {
            let i = t.id()?;
            w.nodes.insert(i, t.id()?);
        }
        a_expect(t, "natts")?;
        for _ in 0..t.num()? {
            let i = t.id()?;
            w.natts.insert(i, a_att(t)?);
        }
        a_expect(t, "edges")?;
        for _ in 0..t.num()? {
            let i = t.id()?;
            let f = t.id()?;
            let to = t.id()?;
            let ty = t.id()?;
            w.edges.insert(i, (f, to, ty));
        }
        a_expect(t, "eatts")?;
        for _ in 0..t.num()? {
            let i = t.id()?;
            w.eatts.insert(i, a_att(t)?);
        }
        st.warps.insert(id, w);
    }
    Ok(st)
}

fn a_att_str(a: &AAtt) -> String {
    match a {
        AAtt::Atom(ty, b) => format!("a {} {}", hex(ty), hex(b)),
        AAtt::Descend(w) => format!("d {}", hex(w)),
    }
}

/// Dump; with an rng every list (warps, nodes, attachments, edges) is written in a random order.
fn a_dump(st: &AState, mut rng: Option<&mut Rng>) -> String {
    fn order<T: Clone>(v: Vec<T>, rng: &mut Option<&mut Rng>) -> Vec<T> {
        let mut v = v;
        if let Some(r) = rng {
            r.shuffle(&mut v);
        }
        v
    }
    let mut s = format!("warps {}", st.warps.len());
    for w in order(st.warps.values().cloned().collect::<Vec<_>>(), &mut rng) {
        s.push_str(&format!(
            " {} {} {}",
            hex(&w.id),
            hex(&w.root),
            w.parent.as_ref().map_or_else(|| "-".to_string(), key_str)
        ));
        s.push_str(&format!(" nodes {}", w.nodes.len()));
        for (i, ty) in order(w.nodes.iter().collect::<Vec<_>>(), &mut rng) {
            s.push_str(&format!(" {} {}", hex(i), hex(ty)));
        }
        s.push_str(&format!(" natts {}", w.natts.len()));
        for (i, a) in order(w.natts.iter().collect::<Vec<_>>(), &mut rng) {
            s.push_str(&format!(" {} {}", hex(i), a_att_str(a)));
        }
        s.push_str(&format!(" edges {}", w.edges.len()));
        for (i, (f, t, ty)) in order(w.edges.iter().collect::<Vec<_>>(), &mut rng) {
            s.push_str(&format!(" {} {} {} {}", hex(i), hex(f), hex(t), hex(ty)));
        }
        s.push_str(&format!(" eatts {}", w.eatts.len()));
        for (i, a) in order(w.eatts.iter().collect::<Vec<_>>(), &mut rng) {
            s.push_str(&format!(" {} {}", hex(i), a_att_str(a)));
        }
    }
    s
}

fn real_att(a: &AAtt) -> AttachmentValue {
    match a {
        AAtt::Atom(ty, b) => AttachmentValue::Atom(AtomPayload::new(TypeId(*ty), Bytes::from(b.clone()))),
        AAtt::Descend(w) => AttachmentValue::Descend(WarpId(*w)),
    }
}

fn fresh_id(tag: u8, n: u8) -> Id {
    let mut b = [0xEEu8; 32];
    b[0] = tag;
    b[31] = n;
    b
}

/// Builds the real state. mode 0: canonical order; 1: random insertion order; 2: random order plus
/// storage churn (junk inserted and removed, edges first filed under another source, attachments
/// overwritten); 3: through `apply_ops_to_state` from the empty state (None if the ops are rejected).
fn a_build(st: &AState, mode: u64, rng: &mut Rng) -> Option<WarpState> {
    if mode == 3 {
        return a_build_ops(st, rng);
    }
    let mut out = WarpState::new();
    let mut warps: Vec<&AWarp> = st.warps.values().collect();
    if mode > 0 {
        rng.shuffle(&mut warps);
    }
    for w in warps {
        let mut g = GraphStore::new(WarpId(w.id));
        let mut nodes: Vec<_> = w.nodes.iter().collect();
        let mut edges: Vec<_> = w.edges.iter().collect();
        let mut natts: Vec<_> = w.natts.iter().collect();
        let mut eatts: Vec<_> = w.eatts.iter().collect();
        if mode > 0 {
            rng.shuffle(&mut nodes);
            rng.shuffle(&mut edges);
            rng.shuffle(&mut natts);
            rng.shuffle(&mut eatts);
        }
        let atts_first = mode > 0 && rng.chance(1, 2);
        if atts_first {
            for (i, a) in &natts {
                g.set_node_attachment(NodeId(**i), Some(real_att(a)));
            }
            for (i, a) in &eatts {
                g.set_edge_attachment(EdgeId(**i), Some(real_att(a)));
            }
        }
        if mode == 2 {
            // junk that is removed again
            let jn = NodeId(fresh_id(0xF1, 1));
            g.insert_node(jn, NodeRecord { ty: TypeId(fresh_id(0xF2, 0)) });
            for (k, (_, (f, _, ty))) in edges.iter().enumerate().take(2) {
                let je = EdgeId(fresh_id(0xF3, k as u8));
                g.insert_edge(NodeId(*f), EdgeRecord { id: je, from: NodeId(*f), to: jn, ty: TypeId(*ty) });
                g.set_edge_attachment(je, Some(AttachmentValue::Descend(WarpId(fresh_id(0xF4, 0)))));
            }
        }
        let edges_first = mode > 0 && rng.chance(1, 2);
        if !edges_first {
            for (i, ty) in &nodes {
                g.insert_node(NodeId(**i), NodeRecord { ty: TypeId(**ty) });
            }
        }
        for (i, (f, t, ty)) in &edges {
            if mode == 2 && rng.chance(1, 2) {
                // first filed under another source and with another target, then corrected
                let other = NodeId(fresh_id(0xF5, 0));
                g.insert_edge(other, EdgeRecord { id: EdgeId(**i), from: other, to: other, ty: TypeId(fresh_id(0xF6, 0)) });
            }
            g.insert_edge(NodeId(*f), EdgeRecord { id: EdgeId(**i), from: NodeId(*f), to: NodeId(*t), ty: TypeId(*ty) });
        }
        if edges_first {
            for (i, ty) in &nodes {
                if mode == 2 {
                    g.insert_node(NodeId(**i), NodeRecord { ty: TypeId(fresh_id(0xF7, 0)) });
                }
                g.insert_node(NodeId(**i), NodeRecord { ty: TypeId(**ty) });
            }
        }
        if mode == 2 {
            g.delete_node_cascade(NodeId(fresh_id(0xF1, 1)));
        }
        if !atts_first {
            for (i, a) in &natts {
                if mode == 2 {
                    g.set_node_attachment(NodeId(**i), Some(AttachmentValue::Descend(WarpId(fresh_id(0xF8, 0)))));
                }
                g.set_node_attachment(NodeId(**i), Some(real_att(a)));
            }
            for (i, a) in &eatts {
                g.set_edge_attachment(EdgeId(**i), Some(real_att(a)));
            }
        } else if mode == 2 {
            // the cascade above removed junk-edge attachments only; re-assert the real ones (idempotent)
            for (i, a) in &eatts {
                g.set_edge_attachment(EdgeId(**i), Some(real_att(a)));
            }
        }
        hook::upsert_instance(
            &mut out,
            WarpInstance { warp_id: WarpId(w.id), root_node: NodeId(w.root), parent: w.parent },
            g,
        );
    }
    Some(out)
}

fn a_build_ops(st: &AState, rng: &mut Rng) -> Option<WarpState> {
    let mut ops: Vec<WarpOp> = Vec::new();
    let mut insts = Vec::new();
    let mut nodes = Vec::new();
    let mut edges = Vec::new();
    let mut atts = Vec::new();
    for w in st.warps.values() {
        insts.push(WarpOp::UpsertWarpInstance {
            instance: WarpInstance { warp_id: WarpId(w.id), root_node: NodeId(w.root), parent: w.parent },
        });
        for (i, ty) in &w.nodes {
            nodes.push(WarpOp::UpsertNode {
                node: NodeKey { warp_id: WarpId(w.id), local_id: NodeId(*i) },
                record: NodeRecord { ty: TypeId(*ty) },
            });
        }
        for (i, (f, t, ty)) in &w.edges {
            edges.push(WarpOp::UpsertEdge {
                warp_id: WarpId(w.id),
                record: EdgeRecord { id: EdgeId(*i), from: NodeId(*f), to: NodeId(*t), ty: TypeId(*ty) },
            });
        }
        for (i, a) in &w.natts {
            atts.push(WarpOp::SetAttachment {
                key: AttachmentKey {
                    owner: AttachmentOwner::Node(NodeKey { warp_id: WarpId(w.id), local_id: NodeId(*i) }),
                    plane: AttachmentPlane::Alpha,
                },
                value: Some(real_att(a)),
            });
        }
        for (i, a) in &w.eatts {
            atts.push(WarpOp::SetAttachment {
                key: AttachmentKey {
                    owner: AttachmentOwner::Edge(EdgeKey { warp_id: WarpId(w.id), local_id: EdgeId(*i) }),
                    plane: AttachmentPlane::Beta,
                },
                value: Some(real_att(a)),
            });
        }
    }
    for group in [&mut insts, &mut nodes, &mut edges, &mut atts] {
        rng.shuffle(group);
        ops.append(group);
    }
    let mut out = WarpState::new();
    hook::apply_ops(&mut out, &ops).ok()?;
    Some(out)
}

fn nkey(k: &Key) -> NodeKey {
    NodeKey { warp_id: WarpId(k.0), local_id: NodeId(k.1) }
}

fn roots(st: &WarpState, k: &Key) -> (Id, Id) {
    (hook::state_root(st, &nkey(k)), accum::accum_root(st, &nkey(k)))
}

// ------------------------------------------------------------------ reference reachable content (oracle side)

fn a_reach(st: &AState, root: &Key) -> (BTreeSet<Key>, BTreeSet<Id>) {
    let mut nodes: BTreeSet<Key> = BTreeSet::new();
    let mut warps: BTreeSet<Id> = BTreeSet::new();
    let mut q: VecDeque<Key> = VecDeque::new();
    nodes.insert(*root);
    warps.insert(root.0);
    q.push_back(*root);
    while let Some(cur) = q.pop_front() {
        let Some(w) = st.warps.get(&cur.0) else { continue };
        let mut portals: Vec<Id> = Vec::new();
        for (eid, (f, t, _)) in &w.edges {
            if *f == cur.1 {
                if nodes.insert((cur.0, *t)) {
                    q.push_back((cur.0, *t));
                }
                if let Some(AAtt::Descend(c)) = w.eatts.get(eid) {
                    portals.push(*c);
                }
            }
        }
        if let Some(AAtt::Descend(c)) = w.natts.get(&cur.1) {
            portals.push(*c);
        }
        for c in portals {
            warps.insert(c);
            if let Some(cw) = st.warps.get(&c) {
                if nodes.insert((c, cw.root)) {
                    q.push_back((c, cw.root));
                }
            }
        }
    }
    (nodes, warps)
}

/// Canonical listing of the content reachable from `root`: the root key; per reachable instance its
/// record, its reachable nodes (type, attachment) and the edges leaving reachable nodes (type,
/// endpoints, attachment), all ascending by id.
fn a_content(st: &AState, root: &Key) -> String {
    let (nodes, warps) = a_reach(st, root);
    let mut s = format!("root {} {}", hex(&root.0), hex(&root.1));
    for wid in &warps {
        let Some(w) = st.warps.get(wid) else { continue };
        s.push_str(&format!(
            " | inst {} {} {}",
            hex(&w.id),
            hex(&w.root),
            w.parent.as_ref().map_or_else(|| "-".to_string(), key_str)
        ));
        for (i, ty) in &w.nodes {
            if nodes.contains(&(*wid, *i)) {
                s.push_str(&format!(" n {} {} {}", hex(i), hex(ty), w.natts.get(i).map_or_else(|| "-".into(), a_att_str)));
            }
        }
        for (i, (f, t, ty)) in &w.edges {
            if nodes.contains(&(*wid, *f)) {
                s.push_str(&format!(
                    " e {} {} {} {} {}",
                    hex(i),
                    hex(f),
                    hex(t),
                    hex(ty),
                    w.eatts.get(i).map_or_else(|| "-".into(), a_att_str)
                ));
            }
        }
    }
    s
}

/// States on which the real traversal would hit a `debug_assert!(false)` (a reachable portal to a
/// missing instance, or a root in a missing warp) are outside the harness's domain.
fn a_traversable(st: &AState, root: &Key) -> bool {
    let (_, warps) = a_reach(st, root);
    warps.iter().all(|w| st.warps.contains_key(w))
}

// ------------------------------------------------------------------ single edits

fn flip(id: &Id) -> Id {
    let mut b = *id;
    b[31] ^= 0x40;
    b
}

fn att_variants(cur: Option<&AAtt>, other_warps: &[Id]) -> Vec<(&'static str, Option<AAtt>)> {
    let mut v: Vec<(&'static str, Option<AAtt>)> = Vec::new();
    match cur {
        None => {
            v.push(("att-set-empty-atom", Some(AAtt::Atom([0u8; 32], vec![]))));
            v.push(("att-set-atom", Some(AAtt::Atom(fresh_id(0x71, 0), vec![0]))));
        }
        Some(AAtt::Atom(ty, b)) => {
            v.push(("att-clear", None));
            v.push(("att-type", Some(AAtt::Atom(flip(ty), b.clone()))));
            let mut longer = b.clone();
            longer.push(0);
            v.push(("att-bytes-append-zero", Some(AAtt::Atom(*ty, longer))));
            if let Some(last) = b.last() {
                let mut ch = b.clone();
                *ch.last_mut().unwrap() = last ^ 1;
                v.push(("att-bytes-flip", Some(AAtt::Atom(*ty, ch))));
                v.push(("att-bytes-truncate", Some(AAtt::Atom(*ty, b[..b.len() - 1].to_vec()))));
            }
        }
        Some(AAtt::Descend(c)) => {
            for o in other_warps.iter().filter(|o| *o != c).take(1) {
                v.push(("portal-retarget", Some(AAtt::Descend(*o))));
            }
            // a portal turned into an atom whose type id is the warp id (same 32 bytes, other kind)
            v.push(("att-kind", Some(AAtt::Atom(*c, vec![]))));
        }
    }
    v
}

/// Every single edit of every element (plus additions of fresh elements). Returns (kind, state, root).
fn edits(st: &AState, root: &Key) -> Vec<(String, AState, Key)> {
    let mut out: Vec<(String, AState, Key)> = Vec::new();
    let wids: Vec<Id> = st.warps.keys().copied().collect();
    for wid in &wids {
        let w = &st.warps[wid];
        let nids: Vec<Id> = w.nodes.keys().copied().collect();
        for n in &nids {
            let mut s = st.clone();
            let ty = s.warps[wid].nodes[n];
            s.warps.get_mut(wid).unwrap().nodes.insert(*n, flip(&ty));
            out.push(("node-type".into(), s, *root));
            for (kind, val) in att_variants(w.natts.get(n), &wids) {
                let mut s = st.clone();
                let m = s.warps.get_mut(wid).unwrap();
                match val {
                    None => {
                        m.natts.remove(n);
                    }
                    Some(a) => {
                        m.natts.insert(*n, a);
                    }
                }
                out.push((format!("node-{kind}"), s, *root));
            }
            // cascade removal of a node that owns no portal
            if !matches!(w.natts.get(n), Some(AAtt::Descend(_))) {
                let mut s = st.clone();
                let m = s.warps.get_mut(wid).unwrap();
                let dead: Vec<Id> = m.edges.iter().filter(|(_, (f, t, _))| f == n || t == n).map(|(e, _)| *e).collect();
                if dead.iter().all(|e| !matches!(m.eatts.get(e), Some(AAtt::Descend(_)))) {
                    m.nodes.remove(n);
                    m.natts.remove(n);
                    for e in dead {
                        m.edges.remove(&e);
                        m.eatts.remove(&e);
                    }
                    out.push(("node-remove".into(), s, *root));
                }
            }
        }
        let eids: Vec<Id> = w.edges.keys().copied().collect();
        for e in &eids {
            let (f, t, ty) = w.edges[e];
            let mut s = st.clone();
            s.warps.get_mut(wid).unwrap().edges.insert(*e, (f, t, flip(&ty)));
            out.push(("edge-type".into(), s, *root));
            if let Some(nt) = nids.iter().find(|x| **x != t) {
                let mut s = st.clone();
                s.warps.get_mut(wid).unwrap().edges.insert(*e, (f, *nt, ty));
                out.push(("edge-target".into(), s, *root));
            }
            if let Some(nf) = nids.iter().find(|x| **x != f) {
                let mut s = st.clone();
                s.warps.get_mut(wid).unwrap().edges.insert(*e, (*nf, t, ty));
                out.push(("edge-source".into(), s, *root));
            }
            {
                // same record under another edge id
                let mut s = st.clone();
                let m = s.warps.get_mut(wid).unwrap();
                m.edges.remove(e);
                m.edges.insert(flip(e), (f, t, ty));
                if let Some(a) = m.eatts.remove(e) {
                    m.eatts.insert(flip(e), a);
                }
                out.push(("edge-id".into(), s, *root));
            }
            if !matches!(w.eatts.get(e), Some(AAtt::Descend(_))) {
                let mut s = st.clone();
                let m = s.warps.get_mut(wid).unwrap();
                m.edges.remove(e);
                m.eatts.remove(e);
                out.push(("edge-remove".into(), s, *root));
            }
            for (kind, val) in att_variants(w.eatts.get(e), &wids) {
                let mut s = st.clone();
                let m = s.warps.get_mut(wid).unwrap();
                match val {
                    None => {
                        m.eatts.remove(e);
                    }
                    Some(a) => {
                        m.eatts.insert(*e, a);
                    }
                }
                out.push((format!("edge-{kind}"), s, *root));
            }
        }
        // additions
        {
            let mut s = st.clone();
            s.warps.get_mut(wid).unwrap().nodes.insert(fresh_id(0x01, 0), fresh_id(0x10, 0));
            out.push(("node-add".into(), s, *root));
        }
        for src in &nids {
            let mut s = st.clone();
            let dst = nids.last().copied().unwrap_or(*src);
            s.warps.get_mut(wid).unwrap().edges.insert(fresh_id(0x02, 0), (*src, dst, fresh_id(0x30, 0)));
            out.push(("edge-add".into(), s, *root));
        }
        // instance record
        if let Some(nr) = nids.iter().find(|x| **x != w.root) {
            let mut s = st.clone();
            s.warps.get_mut(wid).unwrap().root = *nr;
            out.push(("inst-root".into(), s, *root));
        }
        {
            let mut s = st.clone();
            let m = s.warps.get_mut(wid).unwrap();
            m.parent = match m.parent {
                None => Some(AttachmentKey {
                    owner: AttachmentOwner::Node(NodeKey { warp_id: WarpId(*wid), local_id: NodeId(m.root) }),
                    plane: AttachmentPlane::Alpha,
                }),
                Some(_) => None,
            };
            out.push(("inst-parent-presence".into(), s, *root));
        }
        if let Some(k) = w.parent {
            let variants: Vec<(&str, AttachmentKey)> = vec![
                (
                    "inst-parent-plane",
                    AttachmentKey {
                        owner: k.owner,
                        plane: if k.plane == AttachmentPlane::Alpha { AttachmentPlane::Beta } else { AttachmentPlane::Alpha },
                    },
                ),
                (
                    "inst-parent-owner-kind",
                    AttachmentKey {
                        owner: match k.owner {
                            AttachmentOwner::Node(n) => AttachmentOwner::Edge(EdgeKey { warp_id: n.warp_id, local_id: EdgeId(n.local_id.0) }),
                            AttachmentOwner::Edge(e) => AttachmentOwner::Node(NodeKey { warp_id: e.warp_id, local_id: NodeId(e.local_id.0) }),
                        },
                        plane: k.plane,
                    },
                ),
                (
                    "inst-parent-owner-id",
                    AttachmentKey {
                        owner: match k.owner {
                            AttachmentOwner::Node(n) => AttachmentOwner::Node(NodeKey { warp_id: n.warp_id, local_id: NodeId(flip(&n.local_id.0)) }),
                            AttachmentOwner::Edge(e) => AttachmentOwner::Edge(EdgeKey { warp_id: e.warp_id, local_id: EdgeId(flip(&e.local_id.0)) }),
                        },
                        plane: k.plane,
                    },
                ),
                (
                    "inst-parent-owner-warp",
                    AttachmentKey {
                        owner: match k.owner {
                            AttachmentOwner::Node(n) => AttachmentOwner::Node(NodeKey { warp_id: WarpId(flip(&n.warp_id.0)), local_id: n.local_id }),
                            AttachmentOwner::Edge(e) => AttachmentOwner::Edge(EdgeKey { warp_id: WarpId(flip(&e.warp_id.0)), local_id: e.local_id }),
                        },
                        plane: k.plane,
                    },
                ),
            ];
            for (kind, nk) in variants {
                let mut s = st.clone();
                s.warps.get_mut(wid).unwrap().parent = Some(nk);
                out.push((kind.into(), s, *root));
            }
        }
        // close a leaf portal: the child instance and the slot that descends into it go together
        let is_leaf = !w.natts.values().chain(w.eatts.values()).any(|a| matches!(a, AAtt::Descend(_)));
        if is_leaf && *wid != root.0 {
            let mut s = st.clone();
            s.warps.remove(wid);
            for p in s.warps.values_mut() {
                p.natts.retain(|_, a| *a != AAtt::Descend(*wid));
                p.eatts.retain(|_, a| *a != AAtt::Descend(*wid));
            }
            out.push(("portal-close".into(), s, *root));
        }
        // the root key itself
        for n in nids.iter().filter(|n| (*wid, **n) != *root).take(2) {
            out.push((if *wid == root.0 { "root-node" } else { "root-warp" }.into(), st.clone(), (*wid, *n)));
        }
    }
    // a whole new instance nobody descends into
    {
        let mut s = st.clone();
        let id = fresh_id(0x03, 0);
        let mut nodes = BTreeMap::new();
        nodes.insert(fresh_id(0x01, 1), fresh_id(0x10, 1));
        s.warps.insert(
            id,
            AWarp { id, root: fresh_id(0x01, 1), parent: None, nodes, natts: BTreeMap::new(), edges: BTreeMap::new(), eatts: BTreeMap::new() },
        );
        out.push(("inst-add".into(), s, *root));
    }
    out.push(("root-node-missing".into(), st.clone(), (root.0, fresh_id(0x01, 9))));
    out
}

// ------------------------------------------------------------------ generation helpers

fn small(n: u64) -> Id {
    crate::util::small_id(n)
}

fn from_g(g: &GState) -> AState {
    let conv = |a: &GAtt| match a {
        GAtt::Atom(ty, b) => AAtt::Atom(small(*ty), b.clone()),
        GAtt::Descend(w) => AAtt::Descend(small(*w)),
    };
    let mut st = AState::default();
    for w in g.warps.values() {
        let parent = w.parent.map(|(is_edge, pw, pi)| {
            if is_edge {
                AttachmentKey {
                    owner: AttachmentOwner::Edge(EdgeKey { warp_id: WarpId(small(pw)), local_id: EdgeId(small(pi)) }),
                    plane: AttachmentPlane::Beta,
                }
            } else {
                AttachmentKey {
                    owner: AttachmentOwner::Node(NodeKey { warp_id: WarpId(small(pw)), local_id: NodeId(small(pi)) }),
                    plane: AttachmentPlane::Alpha,
                }
            }
        });
        st.warps.insert(
            small(w.id),
            AWarp {
                id: small(w.id),
                root: small(w.root),
                parent,
                nodes: w.nodes.iter().map(|(i, t)| (small(*i), small(*t))).collect(),
                natts: w.natts.iter().map(|(i, a)| (small(*i), conv(a))).collect(),
                edges: w.edges.iter().map(|(i, (f, t, ty))| (small(*i), (small(*f), small(*t), small(*ty)))).collect(),
                eatts: w.eatts.iter().map(|(i, a)| (small(*i), conv(a))).collect(),
            },
        );
    }
    st
}

/// gen_state plus ill-formed-but-traversable spice: dangling edge targets/sources, attachments whose
/// owner is missing, atoms with id-sized payloads.
fn gen_astate(rng: &mut Rng, children: bool, spice: bool) -> AState {
    let g = gen_state(rng, 5, 4, children);
    let mut st = from_g(&g);
    // gen_body's edges are sparse: add a few leaving the instance root so that reachability is non-trivial
    {
        let wids: Vec<Id> = st.warps.keys().copied().collect();
        for wid in wids {
            let w = st.warps.get_mut(&wid).unwrap();
            let nids: Vec<Id> = w.nodes.keys().copied().collect();
            if rng.chance(3, 4) {
                w.edges.insert(small(0x28), (w.root, *rng.pick(&nids), small(0x30)));
            }
            if rng.chance(1, 2) {
                w.edges.insert(small(0x29), (*rng.pick(&nids), *rng.pick(&nids), small(0x31)));
            }
        }
    }
    if spice {
        let wids: Vec<Id> = st.warps.keys().copied().collect();
        for wid in wids {
            let w = st.warps.get_mut(&wid).unwrap();
            let nids: Vec<Id> = w.nodes.keys().copied().collect();
            if rng.chance(1, 4) {
                // edge to a node that does not exist, and one leaving it again
                let ghost = small(0x0f);
                w.edges.insert(small(0x2a), (*rng.pick(&nids), ghost, small(0x31)));
                if rng.chance(1, 2) {
                    w.edges.insert(small(0x2b), (ghost, *rng.pick(&nids), small(0x30)));
                }
                if rng.chance(1, 2) {
                    w.natts.insert(ghost, AAtt::Atom(small(0x70), vec![7]));
                }
            }
            if rng.chance(1, 4) {
                w.eatts.insert(small(0x2f), AAtt::Atom(small(0x71), vec![1, 2]));
            }
            if rng.chance(1, 3) {
                let n = *rng.pick(&nids);
                if !matches!(w.natts.get(&n), Some(AAtt::Descend(_))) {
                    let len = *rng.pick(&[8usize, 32, 33, 65]);
                    w.natts.insert(n, AAtt::Atom(small(0x72), rng.bytes(len)));
                }
            }
        }
    }
    st
}


// ------------------------------------------------------------------ adversarial portal topology

fn key_na(w: Id, n: Id) -> AttachmentKey {
    AttachmentKey { owner: AttachmentOwner::Node(NodeKey { warp_id: WarpId(w), local_id: NodeId(n) }), plane: AttachmentPlane::Alpha }
}

fn key_eb(w: Id, e: Id) -> AttachmentKey {
    AttachmentKey { owner: AttachmentOwner::Edge(EdgeKey { warp_id: WarpId(w), local_id: EdgeId(e) }), plane: AttachmentPlane::Beta }
}

/// An instance body `1 -(0x21)-> 2` (+ sometimes node 3 and `2 -(0x22)-> 3`): every adversarial warp
/// uses the SAME local ids, so unreachable instances look like reachable ones.
fn adv_warp(rng: &mut Rng, id: Id, parent: Option<AttachmentKey>) -> AWarp {
    let mut w = AWarp { id, root: small(1), parent, nodes: BTreeMap::new(), natts: BTreeMap::new(), edges: BTreeMap::new(), eatts: BTreeMap::new() };
    for i in 1..=3u64 {
        w.nodes.insert(small(i), small(0x10 + rng.below(2)));
    }
    w.edges.insert(small(0x21), (small(1), small(2), small(0x30)));
    if rng.chance(1, 2) {
        w.edges.insert(small(0x22), (small(2), small(3), small(0x31)));
    }
    w
}

/// Hangs a fresh child instance off a node-α (`is_edge == false`) or edge-β slot of `pw`.
fn adv_child(rng: &mut Rng, st: &mut AState, next: &mut u64, pw: Id, is_edge: bool, slot: Id) -> Id {
    let cid = small(*next);
    *next += 1;
    let parent = if is_edge { key_eb(pw, slot) } else { key_na(pw, slot) };
    let child = adv_warp(rng, cid, Some(parent));
    let p = st.warps.get_mut(&pw).unwrap();
    if is_edge {
        p.eatts.insert(slot, AAtt::Descend(cid));
    } else {
        p.natts.insert(slot, AAtt::Descend(cid));
    }
    st.warps.insert(cid, child);
    cid
}

/// States built around three shapes (each case has at least one):
///  A. β portals on edges whose target is already visited when the BFS processes the edge: the second of
///     two parallel edges, a self loop, a back edge to the (instance) root — the child hangs ONLY there;
///  B. portal chains of depth 4..=6 alternating node-α / edge-β slots;
///  C. unreachable instances that look reachable: same local ids, portals pointing back into reachable
///     warps, a parent key naming an existing slot that holds nothing / an Atom / a Descend to another warp.
fn gen_adv(rng: &mut Rng) -> (AState, Key) {
    let a1 = small(0xA1);
    let mut st = AState::default();
    let w = adv_warp(rng, a1, None);
    st.warps.insert(a1, w);
    let mut next = 0xA2u64;
    let mask = rng.range(1, 7);
    let mut chain: Vec<Id> = vec![a1];
    if mask & 2 != 0 {
        let depth = rng.range(4, 6);
        let mut cur = a1;
        for k in 0..depth {
            let is_edge = (k + mask) % 2 == 0;
            let slot = if is_edge { small(0x21) } else { small(rng.range(1, 2)) };
            cur = adv_child(rng, &mut st, &mut next, cur, is_edge, slot);
            chain.push(cur);
        }
    }
    if mask & 1 != 0 {
        let n = rng.range(1, 2);
        for _ in 0..n {
            let pw = *rng.pick(&chain);
            let (eid, from, to) = match rng.below(4) {
                0 => (0x24u64, 1u64, 2u64), // parallel to 0x21, higher id
                1 => (0x20, 1, 2),          // parallel to 0x21, lower id
                2 => {
                    let x = rng.range(1, 2);
                    (0x25, x, x) // self loop
                }
                _ => (0x26, 2, 1), // back edge to the instance root
            };
            if st.warps[&pw].edges.contains_key(&small(eid)) {
                continue;
            }
            st.warps.get_mut(&pw).unwrap().edges.insert(small(eid), (small(from), small(to), small(0x32)));
            adv_child(rng, &mut st, &mut next, pw, true, small(eid));
        }
    }
    if mask & 4 != 0 {
        let reach: Vec<Id> = st.warps.keys().copied().collect();
        let n = rng.range(1, 2);
        for k in 0..n {
            let uid = small(0xC0 + k);
            // parent slot: node 3 of a reachable warp (never a chain slot), holding nothing / Atom / other Descend
            let pw = *rng.pick(&reach);
            let parent = match rng.below(4) {
                0 => None,
                1 => Some(key_eb(pw, small(0x21))),
                _ => Some(key_na(pw, small(3))),
            };
            let mut u = adv_warp(rng, uid, parent);
            if let Some(AttachmentKey { owner: AttachmentOwner::Node(nk), .. }) = parent {
                let p = st.warps.get_mut(&nk.warp_id.0).unwrap();
                match rng.below(3) {
                    0 => {}
                    1 => {
                        p.natts.insert(small(3), AAtt::Atom(small(0x70), uid.to_vec()));
                    }
                    _ => {
                        // a Descend to ANOTHER (existing, reachable or not) warp
                        let other = *rng.pick(&reach);
                        p.natts.insert(small(3), AAtt::Descend(other));
                    }
                }
            }
            // portals pointing back into reachable warps
            if rng.chance(2, 3) {
                u.natts.insert(small(rng.range(1, 3)), AAtt::Descend(*rng.pick(&reach)));
            }
            if rng.chance(1, 2) {
                u.eatts.insert(small(0x21), AAtt::Descend(*rng.pick(&reach)));
            }
            st.warps.insert(uid, u);
            if rng.chance(1, 3) {
                // a well-formed unreachable grandchild
                adv_child(rng, &mut st, &mut next, uid, false, small(3));
            }
        }
    }
    let key = if rng.chance(1, 6) { (*rng.pick(&chain), small(1)) } else { (a1, small(1)) };
    (st, key)
}

/// Coverage tags computed from the parsed case: a reference BFS in canonical edge order.
fn cov_tags(st: &AState, root: &Key, tags: &mut Vec<String>) {
    let mut nodes: BTreeSet<Key> = BTreeSet::new();
    let mut depth: BTreeMap<Id, usize> = BTreeMap::new();
    let mut q: VecDeque<Key> = VecDeque::new();
    nodes.insert(*root);
    depth.insert(root.0, 0);
    q.push_back(*root);
    let mut on_visited = false;
    while let Some(cur) = q.pop_front() {
        let Some(w) = st.warps.get(&cur.0) else { continue };
        let d = depth[&cur.0];
        let mut portals: Vec<Id> = Vec::new();
        for (eid, (f, t, _)) in &w.edges {
            if *f == cur.1 {
                let fresh = nodes.insert((cur.0, *t));
                if fresh {
                    q.push_back((cur.0, *t));
                }
                if let Some(AAtt::Descend(c)) = w.eatts.get(eid) {
                    if !fresh {
                        on_visited = true;
                    }
                    portals.push(*c);
                }
            }
        }
        if let Some(AAtt::Descend(c)) = w.natts.get(&cur.1) {
            portals.push(*c);
        }
        for c in portals {
            depth.entry(c).or_insert(d + 1);
            if let Some(cw) = st.warps.get(&c) {
                if nodes.insert((c, cw.root)) {
                    q.push_back((c, cw.root));
                }
            }
        }
    }
    if on_visited {
        tags.push("cov:portal-on-visited-target".into());
    }
    if depth.values().any(|d| *d >= 4) {
        tags.push("cov:chain>=4".into());
    }
    let reach_local: BTreeSet<Id> = nodes.iter().map(|k| k.1).collect();
    let lookalike = st.warps.values().any(|u| {
        !depth.contains_key(&u.id)
            && u.nodes.keys().any(|i| reach_local.contains(i))
            && (u.natts.values().chain(u.eatts.values()).any(|a| matches!(a, AAtt::Descend(c) if depth.contains_key(c)))
                || u.parent.is_some_and(|pk| match pk.owner {
                    AttachmentOwner::Node(nk) => depth.contains_key(&nk.warp_id.0) && st.warps.get(&nk.warp_id.0).is_some_and(|p| p.nodes.contains_key(&nk.local_id.0)),
                    AttachmentOwner::Edge(ek) => depth.contains_key(&ek.warp_id.0) && st.warps.get(&ek.warp_id.0).is_some_and(|p| p.edges.contains_key(&ek.local_id.0)),
                }))
    });
    if lookalike {
        tags.push("cov:unreachable-lookalike".into());
    }
}

fn pick_root(rng: &mut Rng, st: &AState) -> Key {
    let a1 = small(0xA1);
    match rng.below(8) {
        0 => {
            let w = *rng.pick(&st.warps.keys().copied().collect::<Vec<_>>());
            (w, st.warps[&w].root)
        }
        1 => {
            let w = &st.warps[&a1];
            (a1, *rng.pick(&w.nodes.keys().copied().collect::<Vec<_>>()))
        }
        2 => (a1, small(0x0e)),
        _ => (a1, st.warps[&a1].root),
    }
}

// ------------------------------------------------------------------ C06.root  <state> <root warp> <root node>

fn imp_root(t: &mut Toks) -> Result<String, String> {
    let st = parse_state(t)?;
    let key = (t.id()?, t.id()?);
    if !t.done() {
        return Err("trailing tokens".into());
    }
    let (r, a) = roots(&st, &key);
    Ok(format!("root {} accum {}", hex(&r), hex(&a)))
}

fn oracle_root(t: &mut Toks, tier: Tier) -> Result<OracleOut, String> {
    let mut t2 = Toks { t: t.t.clone(), i: t.i };
    let ast = a_parse(t)?;
    let key = (t.id()?, t.id()?);
    let real = parse_state(&mut t2)?;
    let mut o = OracleOut::default();
    if !a_traversable(&ast, &key) {
        o.tags.push("skipped:not-traversable".into());
        return Ok(o);
    }
    // sub-seed from the line so the case replays alone
    let mut h = blake3::Hasher::new();
    for tok in &t.t {
        h.update(tok.as_bytes());
    }
    let mut rng = Rng::new(u64::from_le_bytes(h.finalize().as_bytes()[0..8].try_into().unwrap()));

    let (r0, a0) = roots(&real, &key);
    if r0 != a0 {
        o.fails.push(("C06.accum-differs".into(), format!("store path {} != accumulator path {}", hex(&r0), hex(&a0))));
    }
    // (1) construction order / storage layout
    let rounds = if tier == Tier::Thorough { 8 } else { 3 };
    for round in 0..rounds {
        for mode in 0..4u64 {
            let Some(st) = a_build(&ast, mode, &mut rng) else {
                o.tags.push("build:ops-rejected".into());
                continue;
            };
            let (r, a) = roots(&st, &key);
            if r != r0 {
                o.fails.push((format!("C06.order-dependent.mode{mode}"), format!("same abstract state, construction mode {mode} round {round}: root {} vs {}", hex(&r), hex(&r0))));
            }
            if a != r {
                o.fails.push(("C06.accum-differs".into(), format!("construction mode {mode}: store {} accumulator {}", hex(&r), hex(&a))));
            }
            o.tags.push(format!("build:mode{mode}"));
        }
    }
    // (2) every single edit: the root changes exactly when the reachable content changes
    let c0 = a_content(&ast, &key);
    let (reach0, warps0) = a_reach(&ast, &key);
    for (kind, s, k) in edits(&ast, &key) {
        if !a_traversable(&s, &k) {
            o.tags.push(format!("edit-skipped:{kind}"));
            continue;
        }
        let Some(st) = a_build(&s, 1, &mut rng) else { continue };
        let (r, a) = roots(&st, &k);
        let same_content = a_content(&s, &k) == c0;
        if a != r {
            o.fails.push(("C06.accum-differs".into(), format!("after edit {kind}: store {} accumulator {}", hex(&r), hex(&a))));
        }
        if same_content && r != r0 {
            o.fails.push((format!("C06.root-depends-on-unreachable.{kind}"), format!("edit {kind} leaves the reachable content unchanged but the root changed")));
        }
        if !same_content && r == r0 {
            o.fails.push((format!("C06.root-ignores-change.{kind}"), format!("edit {kind} changes the reachable content but the root is unchanged ({})", hex(&r))));
        }
        o.tags.push(format!("edit:{kind}:{}", if same_content { "unreachable" } else { "reachable" }));
    }
    o.tags.push(format!("reach-nodes:{}", reach0.len().min(9)));
    o.tags.push(format!("reach-warps:{}", warps0.len()));
    cov_tags(&ast, &key, &mut o.tags);
    if reach0.iter().any(|k| ast.warps.get(&k.0).is_some_and(|w| !w.nodes.contains_key(&k.1))) {
        o.tags.push("reach:dangling-key".into());
    }
    o.tags.sort();
    o.tags.dedup();
    o.nontrivial = reach0.len() >= 2;
    Ok(o)
}

fn gen_root(rng: &mut Rng, tier: Tier) -> Vec<String> {
    let n = if tier == Tier::Thorough { 3000 } else { 160 };
    let mut out = Vec::new();
    for case in 0..n {
        let st = gen_astate(rng, case % 3 != 0, case % 4 == 3);
        let key = pick_root(rng, &st);
        if !a_traversable(&st, &key) {
            continue;
        }
        // the same abstract state in several dump (= insertion) orders
        let k = if case % 5 == 0 { 3 } else { 1 };
        for _ in 0..k {
            let mut r = rng.fork();
            out.push(format!("{} {} {}", a_dump(&st, Some(&mut r)), hex(&key.0), hex(&key.1)));
        }
    }
    let n_adv = if tier == Tier::Thorough { 1500 } else { 46 };
    for _ in 0..n_adv {
        let (st, key) = gen_adv(rng);
        if !a_traversable(&st, &key) {
            continue;
        }
        let mut r = rng.fork();
        out.push(format!("{} {} {}", a_dump(&st, Some(&mut r)), hex(&key.0), hex(&key.1)));
    }
    out
}

// ------------------------------------------------------------------ C06.pair  <stateA> <rootA> <stateB> <rootB>

fn imp_pair(t: &mut Toks) -> Result<String, String> {
    let a = parse_state(t)?;
    let ka = (t.id()?, t.id()?);
    let b = parse_state(t)?;
    let kb = (t.id()?, t.id()?);
    if !t.done() {
        return Err("trailing tokens".into());
    }
    let (ra, aa) = roots(&a, &ka);
    let (rb, ab) = roots(&b, &kb);
    Ok(format!("A root {} accum {} B root {} accum {} equal {}", hex(&ra), hex(&aa), hex(&rb), hex(&ab), u8::from(ra == rb)))
}

fn oracle_pair(t: &mut Toks, _tier: Tier) -> Result<OracleOut, String> {
    let mut t2 = Toks { t: t.t.clone(), i: t.i };
    let a = a_parse(t)?;
    let ka = (t.id()?, t.id()?);
    let b = a_parse(t)?;
    let kb = (t.id()?, t.id()?);
    let ra_ = parse_state(&mut t2)?;
    let _ = (t2.id()?, t2.id()?);
    let rb_ = parse_state(&mut t2)?;
    let mut o = OracleOut::default();
    if !a_traversable(&a, &ka) || !a_traversable(&b, &kb) {
        o.tags.push("skipped:not-traversable".into());
        return Ok(o);
    }
    let (ra, aa) = roots(&ra_, &ka);
    let (rb, ab) = roots(&rb_, &kb);
    if ra != aa || rb != ab {
        o.fails.push(("C06.accum-differs".into(), "store path != accumulator path".into()));
    }
    let same_content = a_content(&a, &ka) == a_content(&b, &kb);
    match (same_content, ra == rb) {
        (true, false) => o.fails.push(("C06.same-content-different-root".into(), "equal reachable content, different state roots".into())),
        (false, true) => o.fails.push((
            "C06.root-collision".into(),
            format!("different reachable content, identical state root {} (no hash collision: the byte streams coincide)", hex(&ra)),
        )),
        _ => {}
    }
    o.tags.push(format!("pair:{}", if same_content { "same-content" } else { "different-content" }));
    cov_tags(&a, &ka, &mut o.tags);
    cov_tags(&b, &kb, &mut o.tags);
    o.tags.sort();
    o.tags.dedup();
    o.nontrivial = a != b;
    Ok(o)
}

fn gen_pair(rng: &mut Rng, tier: Tier) -> Vec<String> {
    let n = if tier == Tier::Thorough { 3000 } else { 150 };
    let mut out = Vec::new();
    for case in 0..n {
        let children = case % 3 != 0;
        let g = gen_state(rng, 4, 3, children);
        let a = from_g(&g);
        let ka = pick_root(rng, &a);
        let (b, kb) = match case % 4 {
            0 => (a.clone(), ka), // identical content, other insertion order
            1 => {
                let g2 = gen_state(rng, 4, 3, children);
                let b = from_g(&g2);
                let kb = pick_root(rng, &b);
                (b, kb)
            }
            _ => {
                let k = rng.range(1, 3);
                (from_g(&mutate_state(rng, &g, k, children)), ka)
            }
        };
        if !a_traversable(&a, &ka) || !a_traversable(&b, &kb) {
            continue;
        }
        let mut r1 = rng.fork();
        let mut r2 = rng.fork();
        out.push(format!(
            "{} {} {} {} {} {}",
            a_dump(&a, Some(&mut r1)),
            hex(&ka.0),
            hex(&ka.1),
            a_dump(&b, Some(&mut r2)),
            hex(&kb.0),
            hex(&kb.1)
        ));
    }
    let n_adv = if tier == Tier::Thorough { 1500 } else { 40 };
    for case in 0..n_adv {
        let (a, ka) = gen_adv(rng);
        let b = adv_partner(rng, &a, &ka, case);
        if !a_traversable(&a, &ka) || !a_traversable(&b, &ka) {
            continue;
        }
        let mut r1 = rng.fork();
        let mut r2 = rng.fork();
        out.push(format!(
            "{} {} {} {} {} {}",
            a_dump(&a, Some(&mut r1)),
            hex(&ka.0),
            hex(&ka.1),
            a_dump(&b, Some(&mut r2)),
            hex(&ka.0),
            hex(&ka.1)
        ));
    }
    out
}

/// A second state for an adversarial one: the same, the same minus everything unreachable (equal
/// content expected), or one random single edit of it.
fn adv_partner(rng: &mut Rng, a: &AState, ka: &Key, case: u64) -> AState {
    match case % 3 {
        0 => a.clone(),
        1 => {
            let (_, warps) = a_reach(a, ka);
            let mut b = a.clone();
            b.warps.retain(|w, _| warps.contains(w));
            b
        }
        _ => {
            let es: Vec<(String, AState, Key)> = edits(a, ka).into_iter().filter(|(_, _, k)| k == ka).collect();
            if es.is_empty() {
                a.clone()
            } else {
                es[rng.below(es.len() as u64) as usize].1.clone()
            }
        }
    }
}

// ------------------------------------------------------------------ C06.ops  <state> <ops> <root warp> <root node>

thread_local! {
    static QUIET: std::cell::Cell<bool> = const { std::cell::Cell::new(false) };
}

/// Installed once: panics raised while `QUIET` is set on this thread (the accumulator's `assert!`s under
/// `catch_unwind`) print nothing; every other panic goes to the previous hook.
fn quiet_panic_hook() {
    static ONCE: std::sync::Once = std::sync::Once::new();
    ONCE.call_once(|| {
        let prev = std::panic::take_hook();
        std::panic::set_hook(Box::new(move |info| {
            if !QUIET.with(|q| q.get()) {
                prev(info);
            }
        }));
    });
}

fn accum_after(st: &WarpState, ops: &[WarpOp], k: &Key) -> Result<Id, String> {
    quiet_panic_hook();
    let ops = ops.to_vec();
    QUIET.with(|q| q.set(true));
    let r = std::panic::catch_unwind(std::panic::AssertUnwindSafe(|| accum::accum_build(st, ops, &nkey(k), [0u8; 32], 0).0))
        .map_err(|_| "panic".to_string());
    QUIET.with(|q| q.set(false));
    r
}

fn post_traversable(st: &WarpState, k: &Key) -> bool {
    let dump = state_str(st);
    let mut t = Toks::new(&dump);
    a_parse(&mut t).map(|a| a_traversable(&a, k)).unwrap_or(false)
}

fn imp_ops(t: &mut Toks) -> Result<String, String> {
    let mut st = parse_state(t)?;
    let ops = parse_ops(t)?;
    let key = (t.id()?, t.id()?);
    if !t.done() {
        return Err("trailing tokens".into());
    }
    // the accumulator's own outcome on the ops, for every case (also when the store rejects them)
    let aops = match accum_after(&st, &ops, &key) {
        Ok(x) => hex(&x),
        Err(_) => "panic".to_string(),
    };
    Ok(match hook::apply_ops(&mut st, &ops) {
        Ok(()) => {
            let (r, a) = roots(&st, &key);
            format!("ok root {} accum {} aops {aops}", hex(&r), hex(&a))
        }
        Err(e) => format!("err {} aops {aops}", err_class(&e)),
    })
}

fn oracle_ops(t: &mut Toks, _tier: Tier) -> Result<OracleOut, String> {
    let pre = parse_state(t)?;
    let ops = parse_ops(t)?;
    let key = (t.id()?, t.id()?);
    let mut o = OracleOut::default();
    let mut post = pre.clone();
    {
        let dump = state_str(&pre);
        if let Ok(a) = a_parse(&mut Toks::new(&dump)) {
            cov_tags(&a, &key, &mut o.tags);
        }
    }
    match hook::apply_ops(&mut post, &ops) {
        Err(e) => {
            o.tags.push(format!("store-err:{}", err_class(&e)));
            o.tags.push(format!("store-err:accum-{}", if accum_after(&pre, &ops, &key).is_ok() { "root" } else { "panic" }));
        }
        Ok(()) => {
            if !post_traversable(&post, &key) {
                o.tags.push("skipped:not-traversable".into());
                return Ok(o);
            }
            let (r, a) = roots(&post, &key);
            if r != a {
                o.fails.push(("C06.accum-differs".into(), "post-state: store path != accumulator path".into()));
            }
            match accum_after(&pre, &ops, &key) {
                Ok(x) if x == r => o.tags.push("accum-ops:agree".into()),
                Ok(x) => o.fails.push((
                    "C06.accum-ops-differs".into(),
                    format!("store accepted the ops; root of the store after ops {} != root of accumulator(pre).apply_ops {}", hex(&r), hex(&x)),
                )),
                Err(_) => o.fails.push(("C06.accum-ops-panics".into(), "store accepted the ops; the accumulator panicked on them".into())),
            }
            o.tags.push("store-ok".into());
        }
    }
    o.nontrivial = ops.len() >= 2;
    Ok(o)
}

/// The harness is a debug-assertion build: `compute_state_root` hits `debug_assert!(false)` ("reachable
/// traversal referenced missing warp store") on states where a reachable portal names a warp without a
/// store, which production builds skip (the model follows production). Such op lists are dropped from the
/// stream — documented in the index `assumptions` — instead of being compared across that difference.
fn gen_ops_filtered(rng: &mut Rng, tier: Tier) -> Vec<String> {
    gen_ops(rng, tier)
        .into_iter()
        .filter(|l| {
            let r = std::panic::catch_unwind(std::panic::AssertUnwindSafe(|| imp_ops(&mut Toks::new(l))));
            match r {
                Err(p) => {
                    let msg = p.downcast_ref::<String>().cloned().or_else(|| p.downcast_ref::<&str>().map(|s| (*s).to_string())).unwrap_or_default();
                    !msg.contains("reachable traversal referenced missing warp store")
                }
                Ok(_) => true,
            }
        })
        .collect()
}

fn gen_ops(rng: &mut Rng, tier: Tier) -> Vec<String> {
    let n = if tier == Tier::Thorough { 3000 } else { 200 };
    let mut out = Vec::new();
    for case in 0..n {
        let children = case % 2 == 0;
        let g = gen_state(rng, 4, 3, children);
        let k = rng.range(1, 4);
        let g2 = mutate_state(rng, &g, k, children);
        let (da, db) = (g.dump(), g2.dump());
        let (Ok(a), Ok(b)) = (parse_state(&mut Toks::new(&da)), parse_state(&mut Toks::new(&db))) else { continue };
        let mut ops = hook::diff_state(&a, &b);
        match case % 6 {
            4 => rng.shuffle(&mut ops),
            5 => {
                if !ops.is_empty() {
                    let i = rng.below(ops.len() as u64) as usize;
                    ops.remove(i);
                }
            }
            _ => {}
        }
        out.push(format!("{da} {} {} {}", ops_str(&ops), sid(0xA1), sid(1)));
    }
    // adversarial portal topologies: ops = real diff to a partner state (single edit / unreachable part dropped)
    let n_adv = if tier == Tier::Thorough { 1500 } else { 50 };
    for case in 0..n_adv {
        let (a, ka) = gen_adv(rng);
        let b = adv_partner(rng, &a, &ka, 1 + case % 2);
        let (da, db) = (a_dump(&a, None), a_dump(&b, None));
        let (Ok(ra), Ok(rb)) = (parse_state(&mut Toks::new(&da)), parse_state(&mut Toks::new(&db))) else { continue };
        let mut ops = hook::diff_state(&ra, &rb);
        if case % 5 == 4 && !ops.is_empty() {
            let i = rng.below(ops.len() as u64) as usize;
            ops.remove(i);
        }
        out.push(format!("{da} {} {} {}", ops_str(&ops), hex(&ka.0), hex(&ka.1)));
    }
    // op soup: 1..=4 arbitrary ops over tiny id universes (mostly rejected by the store; the accumulator's
    // own outcome — root or panic — is compared with the model on every one of them)
    let n_soup = if tier == Tier::Thorough { 3000 } else { 70 };
    for case in 0..n_soup {
        let da = if case % 3 == 0 {
            let (a, _) = gen_adv(rng);
            a_dump(&a, None)
        } else {
            gen_state(rng, 4, 3, true).dump()
        };
        let Ok(pre) = parse_state(&mut Toks::new(&da)) else { continue };
        let k = rng.range(1, 4);
        let ops: Vec<WarpOp> = (0..k).map(|_| soup_op(rng, &pre)).collect();
        out.push(format!("{da} {} {} {}", ops_str(&ops), sid(0xA1), sid(1)));
    }
    out
}

/// One arbitrary op: ids from tiny universes that overlap the generated states (warps 0xA1.., nodes 1..4,
/// edges 0x21..0x28), every plane/owner combination, every `PortalInit`.
fn soup_op(rng: &mut Rng, pre: &WarpState) -> WarpOp {
    let insts = hook::instances(pre);
    let warp = |rng: &mut Rng| -> Id {
        if rng.chance(1, 8) || insts.is_empty() {
            small(*rng.pick(&[0xAFu64, 0xB0, 0xA2]))
        } else {
            rng.pick(&insts).warp_id.0
        }
    };
    let node = |rng: &mut Rng| small(rng.range(1, 4));
    let edge = |rng: &mut Rng| small(*rng.pick(&[0x20u64, 0x21, 0x22, 0x23, 0x24, 0x25, 0x26, 0x28]));
    let key = |rng: &mut Rng, w: Id| {
        let plane = if rng.chance(1, 2) { AttachmentPlane::Alpha } else { AttachmentPlane::Beta };
        let (owner, right) = if rng.chance(1, 2) {
            (AttachmentOwner::Node(NodeKey { warp_id: WarpId(w), local_id: NodeId(small(rng.range(1, 4))) }), AttachmentPlane::Alpha)
        } else {
            (
                AttachmentOwner::Edge(EdgeKey { warp_id: WarpId(w), local_id: EdgeId(small(*rng.pick(&[0x21u64, 0x22, 0x23, 0x28]))) }),
                AttachmentPlane::Beta,
            )
        };
        // mostly on-plane
        AttachmentKey { owner, plane: if rng.chance(3, 4) { right } else { plane } }
    };
    let w = warp(rng);
    match rng.below(10) {
        0 => WarpOp::UpsertNode { node: NodeKey { warp_id: WarpId(w), local_id: NodeId(node(rng)) }, record: NodeRecord { ty: TypeId(small(0x13)) } },
        1 => WarpOp::DeleteNode { node: NodeKey { warp_id: WarpId(w), local_id: NodeId(node(rng)) } },
        2 => WarpOp::UpsertEdge {
            warp_id: WarpId(w),
            record: EdgeRecord { id: EdgeId(edge(rng)), from: NodeId(node(rng)), to: NodeId(node(rng)), ty: TypeId(small(0x33)) },
        },
        3 => {
            // DeleteEdge: mostly with the edge's real source
            let e = edge(rng);
            let from = hook::stores(pre)
                .into_iter()
                .find(|(sw, _)| sw.0 == w)
                .and_then(|(_, g)| g.iter_edges().flat_map(|(_, v)| v.iter()).find(|r| r.id.0 == e).map(|r| r.from.0))
                .filter(|_| rng.chance(4, 5))
                .unwrap_or_else(|| node(rng));
            WarpOp::DeleteEdge { warp_id: WarpId(w), from: NodeId(from), edge_id: EdgeId(e) }
        }
        4 | 5 => {
            let k = key(rng, w);
            let value = match rng.below(3) {
                0 => None,
                1 => Some(AttachmentValue::Atom(AtomPayload::new(TypeId(small(0x73)), Bytes::from(vec![9u8])))),
                _ => Some(AttachmentValue::Descend(WarpId(warp(rng)))),
            };
            WarpOp::SetAttachment { key: k, value }
        }
        6 | 7 => {
            // OpenPortal: new child, an existing instance (right or wrong parent / root), missing owner
            let child = if rng.chance(1, 2) { warp(rng) } else { small(0xB1) };
            let k = match insts.iter().find(|i| i.warp_id.0 == child).and_then(|i| i.parent) {
                Some(pk) if rng.chance(2, 3) => pk,
                _ => key(rng, w),
            };
            let child_root = match insts.iter().find(|i| i.warp_id.0 == child) {
                Some(i) if rng.chance(3, 4) => i.root_node.0,
                _ => node(rng),
            };
            let init = if rng.chance(1, 2) { PortalInit::RequireExisting } else { PortalInit::Empty { root_record: NodeRecord { ty: TypeId(small(0x10 + rng.below(2))) } } };
            WarpOp::OpenPortal { key: k, child_warp: WarpId(child), child_root: NodeId(child_root), init }
        }
        8 => WarpOp::DeleteWarpInstance { warp_id: WarpId(w) },
        _ => {
            let pw = warp(rng);
            let parent = if rng.chance(1, 2) { None } else { Some(key(rng, pw)) };
            WarpOp::UpsertWarpInstance { instance: WarpInstance { warp_id: WarpId(w), root_node: NodeId(node(rng)), parent } }
        }
    }
}

// ------------------------------------------------------------------ C06.wsc  <state>

fn view_att(view: &WarpView<'_>, rows: &[warp_core::wsc::types::AttRow]) -> Result<Option<AttachmentValue>, String> {
    match rows {
        [] => Ok(None),
        [r] => {
            if r.is_atom() {
                let blob = view.blob_for_attachment(r).ok_or("blob out of range")?;
                Ok(Some(AttachmentValue::Atom(AtomPayload::new(TypeId(r.type_or_warp), Bytes::from(blob.to_vec())))))
            } else if r.is_descend() {
                Ok(Some(AttachmentValue::Descend(WarpId(r.type_or_warp))))
            } else {
                Err("bad attachment tag".into())
            }
        }
        _ => Err("more than one attachment row per owner".into()),
    }
}

/// bytes -> `WscFile` -> validated -> a `GraphStore` rebuilt from the rows (plus index consistency).
fn wsc_readback(bytes: Vec<u8>) -> Result<(Id, Id, GraphStore), String> {
    let file = WscFile::from_bytes(bytes).map_err(|e| format!("from_bytes:{e}"))?;
    validate_wsc(&file).map_err(|e| format!("validate:{e}"))?;
    if file.warp_count() != 1 {
        return Err(format!("warp_count {}", file.warp_count()));
    }
    let view = file.warp_view(0).map_err(|e| format!("warp_view:{e}"))?;
    let w = *view.warp_id();
    let mut g = GraphStore::new(WarpId(w));
    for (ix, n) in view.nodes().iter().enumerate() {
        g.insert_node(NodeId(n.node_id), NodeRecord { ty: TypeId(n.node_type) });
        if let Some(a) = view_att(&view, view.node_attachments(ix))? {
            g.set_node_attachment(NodeId(n.node_id), Some(a));
        }
        // out-edge index: exactly the edges leaving this node, ascending by id
        let outs = view.out_edges_for_node(ix);
        let want: Vec<Id> = view.edges().iter().filter(|e| e.from_node_id == n.node_id).map(|e| e.edge_id).collect();
        let got: Vec<Id> = outs.iter().map(|r| r.edge_id).collect();
        if got != want {
            return Err("out-edge index disagrees with the edge rows".into());
        }
        for r in outs {
            let e = view.edges().get(r.edge_ix() as usize).ok_or("edge_ix out of range")?;
            if e.edge_id != r.edge_id {
                return Err("out-edge ref points at another edge row".into());
            }
        }
    }
    for (ix, e) in view.edges().iter().enumerate() {
        g.insert_edge(
            NodeId(e.from_node_id),
            EdgeRecord { id: EdgeId(e.edge_id), from: NodeId(e.from_node_id), to: NodeId(e.to_node_id), ty: TypeId(e.edge_type) },
        );
        if let Some(a) = view_att(&view, view.edge_attachments(ix))? {
            g.set_edge_attachment(EdgeId(e.edge_id), Some(a));
        }
    }
    Ok((w, *view.root_node_id(), g))
}

fn wsc_roundtrip_state(st: &WarpState) -> Result<(WarpState, Vec<Vec<u8>>), String> {
    let insts = hook::instances(st);
    let mut out = WarpState::new();
    let mut all = Vec::new();
    for (w, g) in hook::stores(st) {
        let inst = insts.iter().find(|i| i.warp_id == w).ok_or("noinst")?;
        let input = build_one_warp_input(g, inst.root_node);
        let bytes = write_wsc_one_warp(&input, [0x5c; 32], 7).map_err(|e| format!("write:{e}"))?;
        all.push(bytes.clone());
        let (w2, root2, g2) = wsc_readback(bytes)?;
        // WSC has no column for the parent slot: carried over
        hook::upsert_instance(&mut out, WarpInstance { warp_id: WarpId(w2), root_node: NodeId(root2), parent: inst.parent }, g2);
    }
    Ok((out, all))
}

fn imp_wsc(t: &mut Toks) -> Result<String, String> {
    let st = parse_state(t)?;
    if !t.done() {
        return Err("trailing tokens".into());
    }
    Ok(match wsc_roundtrip_state(&st) {
        Ok((back, _)) => format!("ok {}", state_str(&back)),
        Err(e) => format!("err {}", e.replace(' ', "_")),
    })
}

fn oracle_wsc(t: &mut Toks, _tier: Tier) -> Result<OracleOut, String> {
    let mut t2 = Toks { t: t.t.clone(), i: t.i };
    let ast = a_parse(t)?;
    let st = parse_state(&mut t2)?;
    let mut o = OracleOut::default();
    let mut h = blake3::Hasher::new();
    for tok in &t.t {
        h.update(tok.as_bytes());
    }
    let mut rng = Rng::new(u64::from_le_bytes(h.finalize().as_bytes()[0..8].try_into().unwrap()));
    let (back, bytes0) = match wsc_roundtrip_state(&st) {
        Ok(x) => x,
        Err(e) => {
            o.fails.push(("C06.wsc-invalid".into(), format!("written snapshot does not read back: {e}")));
            return Ok(o);
        }
    };
    if state_str(&back) != state_str(&st) {
        o.fails.push(("C06.wsc-roundtrip".into(), format!("read-back differs: got [{}] want [{}]", state_str(&back), state_str(&st))));
    }
    for inst in hook::instances(&st) {
        let k = NodeKey { warp_id: inst.warp_id, local_id: inst.root_node };
        if hook::state_root(&back, &k) != hook::state_root(&st, &k) {
            o.fails.push(("C06.wsc-roundtrip-root".into(), "read-back state has another state root".into()));
        }
    }
    for mode in 1..3u64 {
        if let Some(st2) = a_build(&ast, mode, &mut rng) {
            match wsc_roundtrip_state(&st2) {
                Ok((_, bytes)) if bytes == bytes0 => {}
                Ok(_) => o.fails.push((format!("C06.wsc-order-dependent.mode{mode}"), "same abstract state, different WSC bytes".into())),
                Err(e) => o.fails.push(("C06.wsc-invalid".into(), format!("mode {mode}: {e}"))),
            }
        }
    }
    // the accumulator's own WSC output (reachable part of the root warp)
    for w in ast.warps.values() {
        let key = (w.id, w.root);
        if !a_traversable(&ast, &key) || !w.nodes.contains_key(&w.root) {
            continue;
        }
        let (_, wsc) = accum::accum_build(&st, Vec::new(), &nkey(&key), [0x5c; 32], 7);
        match wsc_readback(wsc) {
            Err(e) => o.fails.push(("C06.accum-wsc-invalid".into(), format!("accumulator WSC for root warp {}: {e}", hex(&w.id)))),
            Ok((w2, root2, g2)) => {
                let (reach, _) = a_reach(&ast, &key);
                let mut want = w.clone();
                want.nodes.retain(|n, _| reach.contains(&(w.id, *n)));
                want.natts.retain(|n, _| want.nodes.contains_key(n));
                want.edges.retain(|_, (f, t, _)| reach.contains(&(w.id, *f)) && reach.contains(&(w.id, *t)));
                want.eatts.retain(|e, _| want.edges.contains_key(e));
                let mut one = AState::default();
                one.warps.insert(w.id, want);
                let want_real = a_build(&one, 0, &mut rng).unwrap();
                let mut got = WarpState::new();
                hook::upsert_instance(&mut got, WarpInstance { warp_id: WarpId(w2), root_node: NodeId(root2), parent: w.parent }, g2);
                if state_str(&got) != state_str(&want_real) {
                    o.fails.push(("C06.accum-wsc-content".into(), format!("accumulator WSC rows are not the reachable part: got [{}] want [{}]", state_str(&got), state_str(&want_real))));
                }
                o.tags.push("accum-wsc:checked".into());
            }
        }
    }
    o.tags.push(format!("warps:{}", ast.warps.len()));
    o.nontrivial = ast.warps.values().any(|w| w.edges.len() >= 2);
    Ok(o)
}

fn gen_wsc(rng: &mut Rng, tier: Tier) -> Vec<String> {
    let n = if tier == Tier::Thorough { 2000 } else { 120 };
    let mut out = Vec::new();
    for case in 0..n {
        let mut st = gen_astate(rng, case % 2 == 0, false);
        if case % 3 == 0 {
            // blobs of awkward sizes so that the 8-byte alignment padding of the arena matters
            let wids: Vec<Id> = st.warps.keys().copied().collect();
            for wid in wids {
                let w = st.warps.get_mut(&wid).unwrap();
                let nids: Vec<Id> = w.nodes.keys().copied().collect();
                for n in nids {
                    if !matches!(w.natts.get(&n), Some(AAtt::Descend(_))) && rng.chance(1, 2) {
                        let len = rng.below(20) as usize;
                        w.natts.insert(n, AAtt::Atom(small(0x73), rng.bytes(len)));
                    }
                }
            }
        }
        let mut r = rng.fork();
        out.push(a_dump(&st, Some(&mut r)));
    }
    out
}
