//! The data-driven "interpreter" rule (DESIGN.md Appendix B): matcher / footprint / executor are
//! plain `fn`s that decode a program from the scope node's atom attachment (type id PROG_TY).
//! The same program text is interpreted by the Lean model (Model/Exec.lean).
//!
//! program := "P" fp n instr*
//! fp      := nr id* nw id* er id* ew id* ar akey* aw akey*        (akey := "n" id | "e" id ; own warp)
//! instr   := "E" op | "IFN" node op | "IFA" node op op | "IFE" edge op | "ADJ" node k op
//!          | "CP" src dst | "CPE" edge dst | "PANIC"
#![allow(dead_code)]
use crate::graphio::{parse_op, sid};
use crate::util::{small_id, Toks};
use warp_core::{
    AttachmentKey, AttachmentValue, ConflictPolicy, EdgeId, EdgeKey, Footprint, GraphView, NodeId, NodeKey,
    PatternGraph, RewriteRule, TickDelta, TypeId, WarpId, WarpOp,
};

pub const PROG_TY: u64 = 0x99;

#[derive(Clone, Debug)]
pub enum AKey {
    Node(NodeId),
    Edge(EdgeId),
}

#[derive(Clone, Debug, Default)]
pub struct Fp {
    pub nr: Vec<NodeId>,
    pub nw: Vec<NodeId>,
    pub er: Vec<EdgeId>,
    pub ew: Vec<EdgeId>,
    pub ar: Vec<AKey>,
    pub aw: Vec<AKey>,
}

#[derive(Clone, Debug)]
pub enum Instr {
    Emit(WarpOp),
    IfNode(NodeId, WarpOp),
    IfAtt(NodeId, WarpOp, WarpOp),
    IfEdge(EdgeId, WarpOp),
    Adj(NodeId, u64, WarpOp),
    Copy(NodeId, NodeId),
    CopyEdge(EdgeId, NodeId),
    Panic,
}

#[derive(Clone, Debug)]
pub struct Program {
    pub fp: Fp,
    pub body: Vec<Instr>,
}

fn akey(t: &mut Toks) -> Result<AKey, String> {
    match t.next()? {
        "n" => Ok(AKey::Node(NodeId(t.id()?))),
        "e" => Ok(AKey::Edge(EdgeId(t.id()?))),
        x => Err(format!("bad akey {x}")),
    }
}

pub fn parse_program(text: &str) -> Result<Program, String> {
    let mut t = Toks::new(text);
    if t.next()? != "P" {
        return Err("no P".into());
    }
    let mut fp = Fp::default();
    for _ in 0..t.num()? {
        fp.nr.push(NodeId(t.id()?));
    }
    for _ in 0..t.num()? {
        fp.nw.push(NodeId(t.id()?));
    }
    for _ in 0..t.num()? {
        fp.er.push(EdgeId(t.id()?));
    }
    for _ in 0..t.num()? {
        fp.ew.push(EdgeId(t.id()?));
    }
    for _ in 0..t.num()? {
        fp.ar.push(akey(&mut t)?);
    }
    for _ in 0..t.num()? {
        fp.aw.push(akey(&mut t)?);
    }
    let n = t.num()?;
    let mut body = Vec::new();
    for _ in 0..n {
        body.push(match t.next()? {
            "E" => Instr::Emit(parse_op(&mut t)?),
            "IFN" => {
                let n = NodeId(t.id()?);
                Instr::IfNode(n, parse_op(&mut t)?)
            }
            "IFA" => {
                let n = NodeId(t.id()?);
                let a = parse_op(&mut t)?;
                let b = parse_op(&mut t)?;
                Instr::IfAtt(n, a, b)
            }
            "IFE" => {
                let e = EdgeId(t.id()?);
                Instr::IfEdge(e, parse_op(&mut t)?)
            }
            "ADJ" => {
                let n = NodeId(t.id()?);
                let k = t.num()?;
                Instr::Adj(n, k, parse_op(&mut t)?)
            }
            "CP" => Instr::Copy(NodeId(t.id()?), NodeId(t.id()?)),
            "CPE" => Instr::CopyEdge(EdgeId(t.id()?), NodeId(t.id()?)),
            "PANIC" => Instr::Panic,
            x => return Err(format!("bad instr {x}")),
        });
    }
    if !t.done() {
        return Err("trailing program tokens".into());
    }
    Ok(Program { fp, body })
}

/// The program stored on `scope`, read through an UNGUARDED access path (matcher/footprint).
fn program_of(view: &GraphView<'_>, scope: &NodeId) -> Option<Program> {
    match view.node_attachment(scope) {
        Some(AttachmentValue::Atom(a)) if a.type_id == TypeId(small_id(PROG_TY)) => {
            std::str::from_utf8(&a.bytes).ok().and_then(|s| parse_program(s).ok())
        }
        _ => None,
    }
}

pub fn matcher(view: GraphView<'_>, scope: &NodeId) -> bool {
    program_of(&view, scope).is_some()
}

pub fn footprint(view: GraphView<'_>, scope: &NodeId) -> Footprint {
    let mut f = Footprint::default();
    // sound partition mask: the legacy scheduler's fast path is only valid when overlapping
    // footprints share a mask bit
    f.factor_mask = u64::MAX;
    let w = view.warp_id();
    // the executor reads its own program
    f.a_read.insert(AttachmentKey::node_alpha(NodeKey { warp_id: w, local_id: *scope }));
    if let Some(p) = program_of(&view, scope) {
        let key = |k: &AKey| match k {
            AKey::Node(n) => AttachmentKey::node_alpha(NodeKey { warp_id: w, local_id: *n }),
            AKey::Edge(e) => AttachmentKey::edge_beta(EdgeKey { warp_id: w, local_id: *e }),
        };
        for n in &p.fp.nr {
            f.n_read.insert_with_warp(w, *n);
        }
        for n in &p.fp.nw {
            f.n_write.insert_with_warp(w, *n);
        }
        for e in &p.fp.er {
            f.e_read.insert_with_warp(w, *e);
        }
        for e in &p.fp.ew {
            f.e_write.insert_with_warp(w, *e);
        }
        for k in &p.fp.ar {
            f.a_read.insert(key(k));
        }
        for k in &p.fp.aw {
            f.a_write.insert(key(k));
        }
    }
    f
}

/// Pure evaluation of a program against a view: the ops it emits (each computed from the view only).
pub fn eval(view: &GraphView<'_>, p: &Program) -> Vec<WarpOp> {
    let w = view.warp_id();
    let mut out = Vec::new();
    for i in &p.body {
        match i {
            Instr::Emit(op) => out.push(op.clone()),
            Instr::IfNode(n, op) => {
                if view.node(n).is_some() {
                    out.push(op.clone());
                }
            }
            Instr::IfAtt(n, a, b) => {
                if view.node_attachment(n).is_some() {
                    out.push(a.clone());
                } else {
                    out.push(b.clone());
                }
            }
            Instr::IfEdge(e, op) => {
                if view.has_edge(e) {
                    out.push(op.clone());
                }
            }
            Instr::Adj(n, k, op) => {
                if view.edges_from(n).count() as u64 >= *k {
                    out.push(op.clone());
                }
            }
            Instr::Copy(src, dst) => out.push(WarpOp::SetAttachment {
                key: AttachmentKey::node_alpha(NodeKey { warp_id: w, local_id: *dst }),
                value: view.node_attachment(src).cloned(),
            }),
            Instr::CopyEdge(e, dst) => out.push(WarpOp::SetAttachment {
                key: AttachmentKey::node_alpha(NodeKey { warp_id: w, local_id: *dst }),
                value: view.edge_attachment(e).cloned(),
            }),
            Instr::Panic => std::panic::panic_any("verif-program-panic"),
        }
    }
    out
}

pub fn executor(view: GraphView<'_>, scope: &NodeId, delta: &mut TickDelta) {
    // guarded read of the program (declared by `footprint`)
    let prog = match view.node_attachment(scope) {
        Some(AttachmentValue::Atom(a)) => std::str::from_utf8(&a.bytes).ok().and_then(|s| parse_program(s).ok()),
        _ => None,
    };
    if let Some(p) = prog {
        for op in eval(&view, &p) {
            delta.push(op);
        }
    }
}

pub const RULE_A: &str = "verif/interp-a";
pub const RULE_B: &str = "verif/interp-b";

pub fn rule_id(name: &str) -> [u8; 32] {
    small_id(if name == RULE_A { 0xF1 } else { 0xF2 })
}

pub fn rule(name: &'static str) -> RewriteRule {
    RewriteRule {
        id: rule_id(name),
        name,
        left: PatternGraph { nodes: vec![] },
        matcher,
        executor,
        compute_footprint: footprint,
        factor_mask: 0,
        conflict_policy: ConflictPolicy::Abort,
        join_fn: None,
    }
}

pub fn warp_of(n: u64) -> WarpId {
    WarpId(small_id(n))
}

// ------------------------------------------------------------------ program text builders (generators)

pub fn fp_text(nr: &[u64], nw: &[u64], er: &[u64], ew: &[u64], ar: &[(bool, u64)], aw: &[(bool, u64)]) -> String {
    let ids = |v: &[u64]| -> String {
        let mut s = format!("{}", v.len());
        for x in v {
            s.push(' ');
            s.push_str(&sid(*x));
        }
        s
    };
    let keys = |v: &[(bool, u64)]| -> String {
        let mut s = format!("{}", v.len());
        for (is_edge, x) in v {
            s.push_str(if *is_edge { " e " } else { " n " });
            s.push_str(&sid(*x));
        }
        s
    };
    format!("{} {} {} {} {} {}", ids(nr), ids(nw), ids(er), ids(ew), keys(ar), keys(aw))
}
