//! C17 — external actions move once through request, claim and settlement — durably.
//! Real code: `warp_core::external_action::{ExternalActionCoordinatorV1, record_external_action_request,
//! claim_external_action, admit_external_action_settlement, reconcile_external_action_settlement_retry}`
//! over `InMemoryWalStore` wrapped in a one-shot fault-injecting `WalStorePort`.
use crate::prng::Rng;
use crate::util::{hex, small_id, Toks};
use crate::{OracleOut, Stream, Tier};
use std::collections::BTreeMap;
use std::path::Path;
use warp_core::causal_wal::{
    recover_filesystem_store, recover_in_memory_store, ExternalActionCoordinatorCapability, FilesystemWalFaultPlan,
    FilesystemWalFaultTarget, FilesystemWalStore, InMemoryWalStore, Lsn, PayloadCodecId,
    PayloadSchemaId, RecoveryAccessMode, WalDurabilityMode, WalFrame, WalManifest, WalSegmentId, WalSegmentSeal,
    WalStoreError, WalStorePort, WalTransactionCommit, WalTransactionId, WalTransactionKind, WriterEpoch,
    WriterEpochId, WriterEpochRequest,
};
use warp_core::external_action::{
    admit_external_action_settlement, claim_external_action, reconcile_external_action_settlement_retry,
    record_external_action_request, AdmittedExternalActionSettlementV1, ExternalActionAdapterBindingV1,
    ExternalActionAdapterIdV1, ExternalActionAdapterRegistryV1, ExternalActionAttemptIdV1, ExternalActionBudgetV1,
    ExternalActionClaimV1, ExternalActionCoordinatorV1, ExternalActionOperationIdV1, ExternalActionProtocolErrorV1,
    ExternalActionRequestV1, ExternalActionSettlementCandidateV1, ExternalActionSettlementKindV1,
    ExternalActionTransactionContextV1, RecoveredExternalActionPostureV1,
};
use warp_core::{Hash, WorldlineId};

pub fn streams() -> Vec<Stream> {
    vec![
        Stream { name: "C17.ext", gen: gen_ext, imp: imp_ext, oracle: oracle_ext },
        Stream { name: "C17.fs", gen: gen_fs, imp: imp_fs, oracle: oracle_fs },
        Stream { name: "C17.new", gen: gen_new, imp: imp_new, oracle: oracle_new },
    ]
}

type Coord = ExternalActionCoordinatorV1;
type PErr = ExternalActionProtocolErrorV1;

fn digest(label: &str) -> Hash {
    blake3::hash(label.as_bytes()).into()
}

fn err_name(e: &PErr) -> String {
    let s = format!("{e:?}");
    s.chars().take_while(|c| c.is_ascii_alphanumeric()).collect()
}

// ------------------------------------------------------------------------------------ fault store

/// One-shot fault: 1 = `append_frame` fails, 2 = frame stored but the commit flush fails,
/// 3 = commit stored but the flush reports failure (acknowledgement lost).
#[derive(Clone)]
struct FaultStore {
    inner: InMemoryWalStore,
    fault: u64,
}

fn io_err() -> WalStoreError {
    WalStoreError::Io("injected C17 store fault".to_owned())
}

impl WalStorePort for FaultStore {
    fn acquire_writer_epoch(&mut self, request: WriterEpochRequest) -> Result<WriterEpoch, WalStoreError> {
        self.inner.acquire_writer_epoch(request)
    }
    fn append_frame(&mut self, epoch_id: WriterEpochId, frame: WalFrame) -> Result<(), WalStoreError> {
        if self.fault == 1 {
            self.fault = 0;
            return Err(io_err());
        }
        self.inner.append_frame(epoch_id, frame)
    }
    fn flush_commit(&mut self, epoch_id: WriterEpochId, commit: WalTransactionCommit) -> Result<(), WalStoreError> {
        self.inner.flush_commit(epoch_id, commit)
    }
    fn flush_external_action_commit(
        &mut self,
        epoch_id: WriterEpochId,
        commit: WalTransactionCommit,
        capability: ExternalActionCoordinatorCapability,
    ) -> Result<(), WalStoreError> {
        let f = self.fault;
        self.fault = 0;
        if f == 2 {
            return Err(io_err());
        }
        self.inner.flush_external_action_commit(epoch_id, commit, capability)?;
        if f == 3 {
            return Err(io_err());
        }
        Ok(())
    }
    fn read_frames(&self) -> Vec<WalFrame> {
        self.inner.read_frames()
    }
    fn read_commits(&self) -> Vec<WalTransactionCommit> {
        self.inner.read_commits()
    }
    fn seal_segment(&mut self, epoch_id: WriterEpochId, segment_id: WalSegmentId) -> Result<WalSegmentSeal, WalStoreError> {
        self.inner.seal_segment(epoch_id, segment_id)
    }
    fn truncate_tail_after(&mut self, after_lsn: Lsn) -> Result<(), WalStoreError> {
        self.inner.truncate_tail_after(after_lsn)
    }
    fn publish_manifest(&mut self, epoch_id: WriterEpochId, manifest: WalManifest) -> Result<(), WalStoreError> {
        self.inner.publish_manifest(epoch_id, manifest)
    }
    fn close_epoch(&mut self, epoch_id: WriterEpochId) -> Result<(), WalStoreError> {
        self.inner.close_epoch(epoch_id)
    }
}

fn epoch_id() -> WriterEpochId {
    WriterEpochId::from_hash(digest("c17:epoch"))
}

fn new_store() -> Result<FaultStore, String> {
    let mut inner = InMemoryWalStore::new();
    inner.acquire_writer_epoch(epoch_request()).map_err(|e| format!("epoch: {e:?}"))?;
    Ok(FaultStore { inner, fault: 0 })
}

fn epoch_request() -> WriterEpochRequest {
    WriterEpochRequest {
        epoch_id: epoch_id(),
        storage_fencing_token: digest("c17:fencing"),
        process_identity: digest("c17:process"),
        host_identity: digest("c17:host"),
        started_at_lsn: Lsn::from_raw(0),
        previous_epoch_id: None,
        previous_epoch_final_commit_digest: None,
        lease_or_lock_evidence: digest("c17:lease"),
    }
}

/// the REAL `FilesystemWalStore` on a scratch directory; faults through its own `FilesystemWalFaultPlan`
/// (AppendFrame / FlushCommit / CommitMarkerSynced = the model's faults 1 / 2 / 3).
/// scratch directory (removed on drop): `$VERIF_SCRATCH`, else `/dev/shm` (the filesystem store syncs
/// after every commit marker; on a memory-backed directory the many crash copies stay cheap), else the temp dir
struct Scratch(std::path::PathBuf);
static DIR_SEQ: std::sync::atomic::AtomicU64 = std::sync::atomic::AtomicU64::new(0);
impl Scratch {
    fn new(label: &str) -> Scratch {
        let base = match std::env::var("VERIF_SCRATCH") {
            Ok(d) => std::path::PathBuf::from(d),
            Err(_) => {
                let shm = std::path::PathBuf::from("/dev/shm");
                if shm.is_dir() {
                    shm
                } else {
                    std::env::temp_dir()
                }
            }
        };
        let n = DIR_SEQ.fetch_add(1, std::sync::atomic::Ordering::SeqCst);
        let d = base.join(format!("echo-verif-c17-{}-{}-{}", std::process::id(), label, n));
        let _ = std::fs::remove_dir_all(&d);
        Scratch(d)
    }
}
impl Drop for Scratch {
    fn drop(&mut self) {
        let _ = std::fs::remove_dir_all(&self.0);
    }
}

struct FsStore {
    dir: Scratch,
    inner: FilesystemWalStore,
    armed: u64,
}

fn seg1() -> WalSegmentId {
    WalSegmentId::from_raw(1)
}

fn copy_dir(from: &Path, to: &Path) -> Result<(), String> {
    std::fs::create_dir_all(to).map_err(|e| format!("mkdir: {e}"))?;
    for en in std::fs::read_dir(from).map_err(|e| format!("readdir: {e}"))? {
        let en = en.map_err(|e| format!("readdir: {e}"))?;
        let p = en.path();
        let q = to.join(en.file_name());
        if p.is_dir() {
            copy_dir(&p, &q)?;
        } else {
            std::fs::copy(&p, &q).map_err(|e| format!("copy: {e}"))?;
        }
    }
    Ok(())
}

impl FsStore {
    fn new() -> Result<FsStore, String> {
        let dir = Scratch::new("c17fs");
        let mut inner = FilesystemWalStore::open(&dir.0, seg1()).map_err(|e| format!("fs open: {e:?}"))?;
        inner.acquire_writer_epoch(epoch_request()).map_err(|e| format!("fs epoch: {e:?}"))?;
        Ok(FsStore { dir, inner, armed: 0 })
    }
    fn arm(&mut self, k: u64) {
        self.armed = if (1..=3).contains(&k) { k } else { 0 };
        self.inner.replace_fault_plan_for_test(match k {
            1 => FilesystemWalFaultPlan::fail_next(FilesystemWalFaultTarget::AppendFrame),
            2 => FilesystemWalFaultPlan::fail_next(FilesystemWalFaultTarget::FlushCommit),
            3 => FilesystemWalFaultPlan::fail_next(FilesystemWalFaultTarget::CommitMarkerSynced),
            _ => FilesystemWalFaultPlan::default(),
        });
    }
    /// process death now: what is on disk, optionally with the segment file cut to `cut` bytes;
    /// then writable WAL recovery and coordinator recovery on the copy.
    fn crash_recover(&self, cut: Option<usize>) -> Result<Result<(Coord, usize), String>, String> {
        let copy = Scratch::new("c17fs-crash");
        copy_dir(&self.dir.0, &copy.0)?;
        if let Some(m) = cut {
            let rel = self.inner.segment_path();
            let rel = rel.strip_prefix(&self.dir.0).map_err(|e| format!("segment path: {e}"))?.to_path_buf();
            let f = std::fs::OpenOptions::new().write(true).open(copy.0.join(rel)).map_err(|e| format!("open seg: {e}"))?;
            f.set_len(m as u64).map_err(|e| format!("truncate: {e}"))?;
        }
        if let Err(e) = recover_filesystem_store(&copy.0, RecoveryAccessMode::Writable) {
            return Ok(Err(format!("wal recovery: {e:?}")));
        }
        let st = match FilesystemWalStore::open(&copy.0, seg1()) {
            Ok(s) => s,
            Err(e) => return Ok(Err(format!("open: {e:?}"))),
        };
        Ok(match Coord::recover(&st) {
            Ok(c) => Ok((c, st.read_commits().len())),
            Err(e) => Err(format!("coordinator: {}", err_name(&e))),
        })
    }
    fn segment_bytes(&self) -> Vec<u8> {
        std::fs::read(self.inner.segment_path()).unwrap_or_default()
    }
}

enum AnyStore {
    Mem(FaultStore),
    Fs(Box<FsStore>),
}

impl AnyStore {
    fn arm(&mut self, k: u64) {
        match self {
            AnyStore::Mem(m) => m.fault = k,
            AnyStore::Fs(f) => f.arm(k),
        }
    }
    fn armed(&self) -> u64 {
        match self {
            AnyStore::Mem(m) => m.fault,
            AnyStore::Fs(f) => f.armed,
        }
    }
    /// a transition reached `append_transaction`: a one-shot fault (if armed) has fired
    fn consumed(&mut self) {
        if let AnyStore::Fs(f) = self {
            f.armed = 0;
        }
    }
    fn trunc(&mut self) -> Result<(), String> {
        match self {
            AnyStore::Mem(m) => recover_in_memory_store(&mut m.inner, RecoveryAccessMode::Writable).map(|_| ()).map_err(|e| format!("{e:?}")),
            AnyStore::Fs(f) => recover_filesystem_store(&f.dir.0, RecoveryAccessMode::Writable).map(|_| ()).map_err(|e| format!("{e:?}")),
        }
    }
    fn fork(&self) -> Result<AnyStore, String> {
        match self {
            AnyStore::Mem(m) => Ok(AnyStore::Mem(m.clone())),
            AnyStore::Fs(_) => Err("the filesystem store is not forked (the in-memory world is the reference)".into()),
        }
    }
    fn port(&mut self) -> &mut dyn WalStorePort {
        match self {
            AnyStore::Mem(m) => m,
            AnyStore::Fs(f) => &mut f.inner,
        }
    }
    fn port_ref(&self) -> &dyn WalStorePort {
        match self {
            AnyStore::Mem(m) => m,
            AnyStore::Fs(f) => &f.inner,
        }
    }
}

impl WalStorePort for AnyStore {
    fn acquire_writer_epoch(&mut self, request: WriterEpochRequest) -> Result<WriterEpoch, WalStoreError> {
        self.port().acquire_writer_epoch(request)
    }
    fn append_frame(&mut self, epoch_id: WriterEpochId, frame: WalFrame) -> Result<(), WalStoreError> {
        self.port().append_frame(epoch_id, frame)
    }
    fn flush_commit(&mut self, epoch_id: WriterEpochId, commit: WalTransactionCommit) -> Result<(), WalStoreError> {
        self.port().flush_commit(epoch_id, commit)
    }
    fn flush_external_action_commit(
        &mut self,
        epoch_id: WriterEpochId,
        commit: WalTransactionCommit,
        capability: ExternalActionCoordinatorCapability,
    ) -> Result<(), WalStoreError> {
        self.port().flush_external_action_commit(epoch_id, commit, capability)
    }
    fn read_frames(&self) -> Vec<WalFrame> {
        self.port_ref().read_frames()
    }
    fn read_commits(&self) -> Vec<WalTransactionCommit> {
        self.port_ref().read_commits()
    }
    fn read_snapshot(&self) -> Result<warp_core::causal_wal::WalStoreSnapshot, WalStoreError> {
        self.port_ref().read_snapshot()
    }
    fn seal_segment(&mut self, epoch_id: WriterEpochId, segment_id: WalSegmentId) -> Result<WalSegmentSeal, WalStoreError> {
        self.port().seal_segment(epoch_id, segment_id)
    }
    fn truncate_tail_after(&mut self, after_lsn: Lsn) -> Result<(), WalStoreError> {
        self.port().truncate_tail_after(after_lsn)
    }
    fn publish_manifest(&mut self, epoch_id: WriterEpochId, manifest: WalManifest) -> Result<(), WalStoreError> {
        self.port().publish_manifest(epoch_id, manifest)
    }
    fn close_epoch(&mut self, epoch_id: WriterEpochId) -> Result<(), WalStoreError> {
        self.port().close_epoch(epoch_id)
    }
}

fn context(label: &str, n: u64) -> ExternalActionTransactionContextV1 {
    ExternalActionTransactionContextV1 {
        writer_epoch: epoch_id(),
        segment_id: WalSegmentId::from_raw(1),
        transaction_id: WalTransactionId::from_hash(digest(&format!("c17:tx:{label}:{n}"))),
        durability_mode: WalDurabilityMode::Buffered,
        payload_codec_id: PayloadCodecId::from_hash(digest("c17:codec")),
        payload_schema_id: PayloadSchemaId::from_hash(digest("c17:schema")),
        payload_schema_version: 1,
        canonical_encoding_version: 1,
        digest_domain: digest("c17:domain"),
    }
}

// ------------------------------------------------------------------------------------ case

#[derive(Clone)]
struct Cand {
    att: u64,
    ad: u64,
    kind: u64,
    sch: u64,
    bas: u64,
    bytes: Vec<u8>,
    dig: u64,
    sev: Hash,
    eev: Hash,
}

#[derive(Clone)]
enum Op {
    Req { r: usize, tamper: u64 },
    Claim { r: usize, src: u64, x: usize, adapter: Hash, cb: u64, ord: u64, lease: Hash },
    Settle { r: usize, src: u64, cr: usize, c: Cand },
    Retry { r: usize, c: Cand },
    Rr(usize),
    Cg(usize),
    As(usize),
    Recover,
    Trunc,
    Fault(u64),
    Dump,
}

struct Case {
    registry: ExternalActionAdapterRegistryV1,
    sh_adapter: Hash,
    sh_lease: Hash,
    reqs: Vec<ExternalActionRequestV1>,
    ops: Vec<Op>,
}

struct ReqFields {
    f: [Hash; 8], // worldline operation inSchema setSchema scope basis input law
    max_bytes: u64,
    max_attempts: u64,
}

fn parse_req_fields(t: &mut Toks) -> Result<(Hash, ReqFields), String> {
    let rid = t.id()?;
    let worldline = t.id()?;
    let operation = t.id()?;
    let in_schema = t.id()?;
    let set_schema = t.id()?;
    let scope = t.id()?;
    let basis = t.id()?;
    let max_bytes = t.num()?;
    let max_attempts = t.num()?;
    let input = t.id()?;
    let law = t.id()?;
    Ok((rid, ReqFields { f: [worldline, operation, in_schema, set_schema, scope, basis, input, law], max_bytes, max_attempts }))
}

fn build_request(q: &ReqFields) -> Result<ExternalActionRequestV1, PErr> {
    ExternalActionRequestV1::new(
        WorldlineId::from_bytes(q.f[0]),
        ExternalActionOperationIdV1::from_hash(q.f[1]),
        q.f[2],
        q.f[3],
        q.f[4],
        q.f[5],
        ExternalActionBudgetV1 { max_settlement_bytes: q.max_bytes, max_attempts: u32::try_from(q.max_attempts).unwrap_or(u32::MAX) },
        q.f[6],
        q.f[7],
    )
}

fn parse_cand(t: &mut Toks) -> Result<Cand, String> {
    Ok(Cand {
        att: t.num()?,
        ad: t.num()?,
        kind: t.num()?,
        sch: t.num()?,
        bas: t.num()?,
        bytes: t.bytes()?,
        dig: t.num()?,
        sev: t.id()?,
        eev: t.id()?,
    })
}

fn parse_case(t: &mut Toks) -> Result<Case, String> {
    let policy = t.id()?;
    let nb = t.num()?;
    let mut bindings = Vec::new();
    for _ in 0..nb {
        let o = t.id()?;
        let s = t.id()?;
        let a = t.id()?;
        bindings.push(ExternalActionAdapterBindingV1 {
            adapter_id: ExternalActionAdapterIdV1::from_hash(a),
            operation_id: ExternalActionOperationIdV1::from_hash(o),
            authority_scope_digest: s,
        });
    }
    let registry = ExternalActionAdapterRegistryV1::new(bindings);
    if registry.identity_digest() != policy {
        return Err("policy digest in the case line is not the registry identity".into());
    }
    let sh_adapter = t.id()?;
    let sh_lease = t.id()?;
    let nr = t.num()? as usize;
    let mut reqs = Vec::new();
    for _ in 0..nr {
        let (rid, q) = parse_req_fields(t)?;
        let r = build_request(&q).map_err(|e| format!("request: {e:?}"))?;
        if r.request_id().as_hash() != rid {
            return Err("request id in the case line is not the derived identity".into());
        }
        if reqs.iter().any(|x: &ExternalActionRequestV1| x.request_id() == r.request_id()) {
            return Err("duplicate request in header".into());
        }
        reqs.push(r);
    }
    let idx = |t: &mut Toks| -> Result<usize, String> {
        let i = t.num()? as usize;
        if i < nr {
            Ok(i)
        } else {
            Err("bad request index".into())
        }
    };
    let nops = t.num()?;
    let mut ops = Vec::new();
    for _ in 0..nops {
        let op = match t.next()? {
            "req" => Op::Req { r: idx(t)?, tamper: t.num()? },
            "claim" => Op::Claim {
                r: idx(t)?,
                src: t.num()?,
                x: idx(t)?,
                adapter: t.id()?,
                cb: t.num()?,
                ord: t.num()?,
                lease: t.id()?,
            },
            "settle" => Op::Settle { r: idx(t)?, src: t.num()?, cr: idx(t)?, c: parse_cand(t)? },
            "retry" => Op::Retry { r: idx(t)?, c: parse_cand(t)? },
            "rr" => Op::Rr(idx(t)?),
            "cg" => Op::Cg(idx(t)?),
            "as" => Op::As(idx(t)?),
            "recover" => Op::Recover,
            "trunc" => Op::Trunc,
            "fault" => Op::Fault(t.num()?),
            "dump" => Op::Dump,
            o => return Err(format!("bad op {o}")),
        };
        ops.push(op);
    }
    if !t.done() {
        return Err("trailing tokens".into());
    }
    Ok(Case { registry, sh_adapter, sh_lease, reqs, ops })
}

fn kind_of(k: u64) -> Result<ExternalActionSettlementKindV1, String> {
    match k {
        1 => Ok(ExternalActionSettlementKindV1::Succeeded),
        2 => Ok(ExternalActionSettlementKindV1::Rejected),
        3 => Ok(ExternalActionSettlementKindV1::Failed),
        4 => Ok(ExternalActionSettlementKindV1::OutcomeUnknown),
        _ => Err("bad settlement kind".into()),
    }
}

fn build_candidate(
    rid: warp_core::external_action::ExternalActionRequestIdV1,
    req: &ExternalActionRequestV1,
    att: ExternalActionAttemptIdV1,
    adapter: ExternalActionAdapterIdV1,
    c: &Cand,
) -> Result<ExternalActionSettlementCandidateV1, String> {
    let mut k = ExternalActionSettlementCandidateV1::new(
        rid,
        if c.att == 0 { att } else { ExternalActionAttemptIdV1::from_hash(small_id(0xA77)) },
        if c.ad == 0 { adapter } else { ExternalActionAdapterIdV1::from_hash(small_id(0xADA)) },
        kind_of(c.kind)?,
        if c.sch == 0 { req.settlement_schema_digest } else { small_id(0x5C4) },
        if c.bas == 0 { req.basis_digest } else { small_id(0xBA5) },
        c.bytes.clone(),
        c.sev,
        c.eev,
    );
    if c.dig != 1 {
        k.declared_result_digest[0] ^= 0x80;
    }
    Ok(k)
}

// ------------------------------------------------------------------------------------ world

/// the two reference coordinators that supply foreign tokens: `a` has every request recorded,
/// `b` has every request recorded and claimed with (sh_adapter, ordinal 0, sh_lease).
struct Shadows {
    a: Coord,
    b: Coord,
}

struct World {
    store: AnyStore,
    coord: Coord,
    txn: u64,
}

/// what an operation returned (for the oracle)
#[derive(Clone, PartialEq, Debug)]
enum Res {
    Recorded { rid: Hash, commit: Hash },
    Grant { rid: Hash, claim: ExternalActionClaimV1, commit: Hash, fresh: bool },
    Admitted { rid: Hash, adm: AdmittedExternalActionSettlementV1, fresh: bool },
    Err(String),
    Plain,
}

fn build_shadows(case: &Case) -> Result<Shadows, String> {
    let mut sa = new_store()?;
    let mut ca = Coord::recover(&sa).map_err(|e| format!("shadow recover: {e:?}"))?;
    let mut sb = new_store()?;
    let mut cb = Coord::recover(&sb).map_err(|e| format!("shadow recover: {e:?}"))?;
    let mut n = 0;
    for r in &case.reqs {
        n += 1;
        record_external_action_request(&mut sa, &mut ca, context("shadow-a", n), *r).map_err(|e| format!("shadow a: {e:?}"))?;
        let tok = record_external_action_request(&mut sb, &mut cb, context("shadow-b", n), *r)
            .map_err(|e| format!("shadow b: {e:?}"))?;
        let auth = case
            .registry
            .authorize(r, ExternalActionAdapterIdV1::from_hash(case.sh_adapter))
            .map_err(|e| format!("shadow authorize: {e:?}"))?;
        n += 1;
        claim_external_action(&mut sb, &mut cb, context("shadow-b", n), tok, auth, r.basis_digest, 0, case.sh_lease)
            .map_err(|e| format!("shadow claim: {e:?}"))?;
    }
    Ok(Shadows { a: ca, b: cb })
}

impl World {
    fn new() -> Result<World, String> {
        let store = AnyStore::Mem(new_store()?);
        let coord = Coord::recover(&store).map_err(|e| format!("genesis recover: {e:?}"))?;
        Ok(World { store, coord, txn: 0 })
    }

    fn new_fs() -> Result<World, String> {
        let store = AnyStore::Fs(Box::new(FsStore::new()?));
        let coord = Coord::recover(&store).map_err(|e| format!("genesis recover (fs): {e:?}"))?;
        Ok(World { store, coord, txn: 0 })
    }

    fn fork(&self) -> Result<World, String> {
        Ok(World { store: self.store.fork()?, coord: self.coord.clone(), txn: self.txn })
    }

    fn ord(&self, d: &Hash) -> String {
        match self.store.read_commits().iter().position(|c| &c.commit_digest == d) {
            Some(i) => format!("c{i}"),
            None => "c?".to_string(),
        }
    }

    fn ctx(&mut self) -> ExternalActionTransactionContextV1 {
        self.txn += 1;
        context("live", self.txn)
    }

    fn adm_text(&self, a: &AdmittedExternalActionSettlementV1) -> String {
        format!(
            "ok {} k{} {}",
            self.ord(&a.settlement_commit_digest()),
            a.settlement().kind.stable_code(),
            hex(&a.settlement().canonical_result_bytes)
        )
    }

    fn exec(&mut self, case: &Case, sh: &Shadows, op: &Op) -> Result<(String, Res), String> {
        let r = self.exec_inner(case, sh, op)?;
        let transition = matches!(op, Op::Req { .. } | Op::Claim { .. } | Op::Settle { .. });
        let reached_append = match &r.1 {
            Res::Err(n) => n == "WalStore",
            Res::Plain => false,
            _ => true,
        };
        if transition && reached_append {
            self.store.consumed();
        }
        Ok(r)
    }

    fn exec_inner(&mut self, case: &Case, sh: &Shadows, op: &Op) -> Result<(String, Res), String> {
        let e = |e: PErr, at: &str| {
            let n = err_name(&e);
            (format!("E:{n}{at}"), Res::Err(format!("{n}{at}")))
        };
        Ok(match op {
            Op::Req { r, tamper } => {
                let mut q = case.reqs[*r];
                if *tamper != 0 {
                    q.basis_digest = small_id(0xBAD);
                }
                let ctx = self.ctx();
                match record_external_action_request(&mut self.store, &mut self.coord, ctx, q) {
                    Ok(tok) => (
                        format!("ok {}", self.ord(&tok.request_commit_digest())),
                        Res::Recorded { rid: tok.request().request_id().as_hash(), commit: tok.request_commit_digest() },
                    ),
                    Err(x) => e(x, ""),
                }
            }
            Op::Claim { r, src, x, adapter, cb, ord, lease } => {
                let q = case.reqs[*r];
                let tok = if *src == 0 { self.coord.recorded_request(q.request_id()) } else { sh.a.recorded_request(q.request_id()) };
                let tok = match tok {
                    Ok(t) => t,
                    Err(x) => {
                        if *src != 0 {
                            return Err(format!("shadow token: {x:?}"));
                        }
                        return Ok(e(x, "@token"));
                    }
                };
                let auth = match case.registry.authorize(&case.reqs[*x], ExternalActionAdapterIdV1::from_hash(*adapter)) {
                    Ok(a) => a,
                    Err(x) => return Ok(e(x, "@authorize")),
                };
                let basis = if *cb == 0 { q.basis_digest } else { small_id(0xBA5) };
                let ctx = self.ctx();
                let ordinal = u32::try_from(*ord).map_err(|_| "ordinal".to_string())?;
                match claim_external_action(&mut self.store, &mut self.coord, ctx, tok, auth, basis, ordinal, *lease) {
                    Ok(g) => (
                        format!("ok {} att {}", self.ord(&g.claim_commit_digest()), hex(&g.claim().attempt_id.as_hash())),
                        Res::Grant { rid: g.request().request_id().as_hash(), claim: g.claim(), commit: g.claim_commit_digest(), fresh: true },
                    ),
                    Err(x) => e(x, ""),
                }
            }
            Op::Settle { r, src, cr, c } => {
                let q = case.reqs[*r];
                let g = if *src == 0 { self.coord.claim_grant(q.request_id()) } else { sh.b.claim_grant(q.request_id()) };
                let g = match g {
                    Ok(g) => g,
                    Err(x) => {
                        if *src != 0 {
                            return Err(format!("shadow grant: {x:?}"));
                        }
                        return Ok(e(x, "@grant"));
                    }
                };
                let k = build_candidate(case.reqs[*cr].request_id(), &g.request(), g.claim().attempt_id, g.claim().adapter_id, c)?;
                let ctx = self.ctx();
                match admit_external_action_settlement(&mut self.store, &mut self.coord, ctx, g, k) {
                    Ok(a) => (self.adm_text(&a), Res::Admitted { rid: a.settlement().request_id.as_hash(), adm: a, fresh: true }),
                    Err(x) => e(x, ""),
                }
            }
            Op::Retry { r, c } => {
                let q = case.reqs[*r];
                let (att, ad) = match self.coord.observed_index().get(q.request_id()).and_then(|en| en.claim) {
                    Some(cl) => (cl.attempt_id, cl.adapter_id),
                    None => (ExternalActionAttemptIdV1::from_hash(small_id(0xA77)), ExternalActionAdapterIdV1::from_hash(small_id(0xADA))),
                };
                let k = build_candidate(q.request_id(), &q, att, ad, c)?;
                match reconcile_external_action_settlement_retry(&self.coord, k) {
                    Ok(a) => (self.adm_text(&a), Res::Admitted { rid: a.settlement().request_id.as_hash(), adm: a, fresh: false }),
                    Err(x) => e(x, ""),
                }
            }
            Op::Rr(r) => match self.coord.recorded_request(case.reqs[*r].request_id()) {
                Ok(tok) => (
                    format!("ok {}", self.ord(&tok.request_commit_digest())),
                    Res::Recorded { rid: tok.request().request_id().as_hash(), commit: tok.request_commit_digest() },
                ),
                Err(x) => e(x, ""),
            },
            Op::Cg(r) => match self.coord.claim_grant(case.reqs[*r].request_id()) {
                Ok(g) => (
                    format!("ok {} att {}", self.ord(&g.claim_commit_digest()), hex(&g.claim().attempt_id.as_hash())),
                    Res::Grant { rid: g.request().request_id().as_hash(), claim: g.claim(), commit: g.claim_commit_digest(), fresh: false },
                ),
                Err(x) => e(x, ""),
            },
            Op::As(r) => match self.coord.admitted_settlement(case.reqs[*r].request_id()) {
                Ok(a) => (self.adm_text(&a), Res::Admitted { rid: a.settlement().request_id.as_hash(), adm: a, fresh: false }),
                Err(x) => e(x, ""),
            },
            Op::Recover => match Coord::recover(&self.store) {
                Ok(c) => {
                    self.coord = c;
                    ("ok".to_string(), Res::Plain)
                }
                Err(x) => e(x, ""),
            },
            Op::Trunc => match self.store.trunc() {
                Ok(()) => ("ok".to_string(), Res::Plain),
                Err(x) => (format!("E:trunc-{x}").replace(' ', "_"), Res::Err("trunc".into())),
            },
            Op::Fault(k) => {
                self.store.arm(*k);
                ("ok".to_string(), Res::Plain)
            }
            Op::Dump => (self.dump(case), Res::Plain),
        })
    }

    fn dump(&self, case: &Case) -> String {
        let idx = self.coord.observed_index();
        let mut rids: Vec<Hash> = case.reqs.iter().map(|r| r.request_id().as_hash()).collect();
        rids.sort();
        let mut s = format!("[idx {}", idx.len());
        let oc = |d: Option<Hash>| d.map(|d| self.ord(&d)).unwrap_or_else(|| "-".to_string());
        for rid in rids {
            let rq = case.reqs.iter().find(|r| r.request_id().as_hash() == rid).map(ExternalActionRequestV1::request_id);
            if let Some(en) = rq.and_then(|id| idx.get(id)) {
                let p = match en.posture {
                    RecoveredExternalActionPostureV1::Requested => "R".to_string(),
                    RecoveredExternalActionPostureV1::Claimed => "C".to_string(),
                    RecoveredExternalActionPostureV1::Settled(k) => format!("S{}", k.stable_code()),
                };
                s.push_str(&format!(
                    " {} {} {} {} {}",
                    hex(&rid),
                    p,
                    self.ord(&en.request_commit_digest),
                    oc(en.claim_commit_digest),
                    oc(en.settlement_commit_digest)
                ));
            }
        }
        s.push_str(&format!(" root {} commits={} grants", hex(&idx.root_digest()), self.store.read_commits().len()));
        for r in &case.reqs {
            let id = r.request_id();
            let a = match self.coord.recorded_request(id) {
                Ok(t) => format!("ok {}", self.ord(&t.request_commit_digest())),
                Err(x) => format!("E:{}", err_name(&x)),
            };
            let b = match self.coord.claim_grant(id) {
                Ok(g) => format!("ok {} att {}", self.ord(&g.claim_commit_digest()), hex(&g.claim().attempt_id.as_hash())),
                Err(x) => format!("E:{}", err_name(&x)),
            };
            let c = match self.coord.admitted_settlement(id) {
                Ok(a) => self.adm_text(&a),
                Err(x) => format!("E:{}", err_name(&x)),
            };
            s.push_str(&format!(" {a} | {b} | {c} ,"));
        }
        s.push(']');
        s
    }
}

fn imp_ext(t: &mut Toks) -> Result<String, String> {
    imp_on(t, false)
}

fn imp_fs(t: &mut Toks) -> Result<String, String> {
    imp_on(t, true)
}

fn imp_on(t: &mut Toks, fs: bool) -> Result<String, String> {
    let case = parse_case(t)?;
    let sh = build_shadows(&case)?;
    let mut w = if fs { World::new_fs()? } else { World::new()? };
    let mut outs = Vec::new();
    for op in &case.ops {
        outs.push(w.exec(&case, &sh, op)?.0);
    }
    let rids: Vec<String> = case.reqs.iter().map(|r| hex(&r.request_id().as_hash())).collect();
    Ok(format!("rids {} ; {}", rids.join(" "), outs.join(" ; ")))
}

// ------------------------------------------------------------------------------------ oracle

/// lifecycle stage of one request in an index: 0 absent, 1 requested, 2 claimed, 3 settled
fn stage(c: &Coord, r: &ExternalActionRequestV1) -> Result<u8, String> {
    match c.observed_index().get(r.request_id()) {
        None => Ok(0),
        Some(en) => {
            let s = match (en.posture, en.claim.is_some(), en.settlement.is_some()) {
                (RecoveredExternalActionPostureV1::Requested, false, false) => 1,
                (RecoveredExternalActionPostureV1::Claimed, true, false) => 2,
                (RecoveredExternalActionPostureV1::Settled(_), true, true) => 3,
                _ => return Err("posture disagrees with the recorded claim/settlement".into()),
            };
            if en.claim.is_some() != en.claim_commit_digest.is_some() || en.settlement.is_some() != en.settlement_commit_digest.is_some() {
                return Err("a recorded step has no commit digest".into());
            }
            Ok(s)
        }
    }
}

/// (request id, kind) of every committed external-action transaction, in log order
fn log_steps(store: &AnyStore) -> Vec<(Hash, u8)> {
    let frames = store.read_frames();
    let mut out = Vec::new();
    for c in store.read_commits() {
        let kind = match c.transaction_kind {
            WalTransactionKind::ExternalActionRequest => 1,
            WalTransactionKind::ExternalActionClaim => 2,
            WalTransactionKind::ExternalActionSettlement => 3,
            _ => 0,
        };
        for f in frames.iter().filter(|f| f.header.transaction_id == c.transaction_id && f.header.lsn >= c.first_lsn && f.header.lsn <= c.last_lsn) {
            let b = &f.payload.canonical_bytes;
            if b.len() >= 36 {
                let mut rid = [0u8; 32];
                rid.copy_from_slice(&b[4..36]);
                out.push((rid, kind));
            }
        }
    }
    out
}

fn oracle_ext(t: &mut Toks, tier: Tier) -> Result<OracleOut, String> {
    oracle_on(t, tier, false)
}

/// the same oracle, with the REAL filesystem store driven in lockstep with the in-memory one:
/// same answers, same coordinator, same commit digests; process death after every operation and
/// (after store faults and at the end) at segment-file byte cuts.
fn oracle_fs(t: &mut Toks, tier: Tier) -> Result<OracleOut, String> {
    oracle_on(t, tier, true)
}

fn oracle_on(t: &mut Toks, tier: Tier, with_fs: bool) -> Result<OracleOut, String> {
    let case = parse_case(t)?;
    let sh = build_shadows(&case)?;
    let mut w = World::new()?;
    let mut wf = if with_fs { Some(World::new_fs()?) } else { None };
    // coordinator recovered from the in-memory store when it held exactly k commits
    let mut snaps: BTreeMap<usize, Coord> = BTreeMap::new();
    snaps.insert(0, w.coord.clone());
    let mut n_cuts = 0u32;
    let mut n_scans = 0u32;
    let mut o = OracleOut::default();
    let fail = |o: &mut OracleOut, k: &str, what: String| {
        if !o.fails.iter().any(|(kk, _)| kk == k) {
            o.fails.push((k.to_string(), what));
        }
    };
    let mut stages: Vec<u8> = vec![0; case.reqs.len()];
    let mut fresh_claims: BTreeMap<Hash, u32> = BTreeMap::new();
    let mut grants: BTreeMap<Hash, (ExternalActionClaimV1, Hash)> = BTreeMap::new();
    let mut admitted: BTreeMap<Hash, AdmittedExternalActionSettlementV1> = BTreeMap::new();
    let mut recorded: BTreeMap<Hash, Hash> = BTreeMap::new();
    let (mut n_grant, mut n_err, mut n_fault, mut n_recover) = (0u32, 0u32, 0u32, 0u32);
    for (i, op) in case.ops.iter().enumerate() {
        let before = w.fork()?;
        let armed = before.store.armed();
        let (out_mem, res) = w.exec(&case, &sh, op)?;
        if let Some(wf) = wf.as_mut() {
            let (out_fs, _) = wf.exec(&case, &sh, op)?;
            if out_fs != out_mem {
                fail(&mut o, "C17.fs-store-answer-differs", format!("op {i}: filesystem store run answers `{out_fs}`, in-memory run `{out_mem}`"));
            }
            if wf.coord != w.coord {
                fail(&mut o, "C17.fs-store-coordinator-differs", format!("op {i}: coordinator over the filesystem store differs from the one over the in-memory store"));
            }
            let cd = |s: &AnyStore| s.read_commits().iter().map(|c| c.commit_digest).collect::<Vec<_>>();
            if cd(&wf.store) != cd(&w.store) {
                fail(&mut o, "C17.fs-store-log-differs", format!("op {i}: committed transactions on disk differ from the in-memory log"));
            }
        }
        let transition = matches!(op, Op::Req { .. } | Op::Claim { .. } | Op::Settle { .. });
        let commits_b = before.store.read_commits();
        let commits_a = w.store.read_commits();
        let frames_b = before.store.read_frames().len();
        let frames_a = w.store.read_frames().len();
        // --- grant only after commit; rejection changes nothing
        let fresh_ok = match &res {
            Res::Recorded { commit, .. } if transition => Some((*commit, WalTransactionKind::ExternalActionRequest)),
            Res::Grant { commit, fresh: true, .. } => Some((*commit, WalTransactionKind::ExternalActionClaim)),
            Res::Admitted { adm, fresh: true, .. } => Some((adm.settlement_commit_digest(), WalTransactionKind::ExternalActionSettlement)),
            _ => None,
        };
        if let Some((commit, kind)) = fresh_ok {
            n_grant += 1;
            let good = commits_a.len() == commits_b.len() + 1
                && commits_a[..commits_b.len()] == commits_b[..]
                && commits_a.last().is_some_and(|c| c.commit_digest == commit && c.transaction_kind == kind)
                && frames_a == frames_b + 1;
            if !good {
                fail(&mut o, "C17.grant-before-commit", format!("op {i}: a grant was returned but the store does not end with exactly its new committed transaction"));
            }
        } else {
            if let Res::Err(_) = &res {
                n_err += 1;
            }
            let store_same = commits_a == commits_b && frames_a == frames_b;
            let faulted = transition && (1..=3).contains(&armed) && matches!(&res, Res::Err(n) if n == "WalStore");
            if !matches!(op, Op::Trunc) && !store_same && !faulted {
                fail(&mut o, "C17.store-changed-without-grant", format!("op {i}: the WAL changed although no grant was returned and no store fault fired"));
            }
            if !matches!(op, Op::Recover) && w.coord.observed_index() != before.coord.observed_index() {
                fail(&mut o, "C17.index-changed-without-grant", format!("op {i}: the lifecycle index changed although no grant was returned"));
            }
            if faulted {
                n_fault += 1;
                if w.coord.recorded_request(case.reqs[0].request_id()) != Err(PErr::CoordinatorRecoveryRequired) {
                    fail(&mut o, "C17.usable-after-store-fault", format!("op {i}: coordinator still answers after a failed append"));
                }
            }
        }
        // --- a grant issued by another coordinator/store never authorises a transition here
        if let Op::Settle { src, .. } = op {
            if *src != 0 && matches!(&res, Res::Admitted { fresh: true, .. }) {
                fail(&mut o, "C17.foreign-grant-admitted", format!("op {i}: a claim grant from a different store/commit was accepted for settlement"));
            }
        }
        // --- lifecycle is a prefix of requested, claimed, settled; it only ever advances by one
        for (j, r) in case.reqs.iter().enumerate() {
            match stage(&w.coord, r) {
                Err(m) => fail(&mut o, "C17.lifecycle-inconsistent", format!("op {i}: request {j}: {m}")),
                Ok(s) => {
                    let prev = stages[j];
                    let ok = s == prev || (s == prev + 1 && (fresh_ok.is_some() || matches!(op, Op::Recover)));
                    if !ok {
                        fail(&mut o, "C17.lifecycle-not-prefix", format!("op {i}: request {j} moved from stage {prev} to {s}"));
                    }
                    stages[j] = s;
                }
            }
        }
        // --- one claim grant; every re-issued grant / fact is the retained one
        match &res {
            Res::Grant { rid, claim, commit, fresh } => {
                if *fresh {
                    *fresh_claims.entry(*rid).or_default() += 1;
                    if fresh_claims[rid] > 1 {
                        fail(&mut o, "C17.second-claim-grant", format!("op {i}: a second claim grant was issued for one request"));
                    }
                }
                if let Some(prev) = grants.get(rid) {
                    if prev != &(*claim, *commit) {
                        fail(&mut o, "C17.claim-grant-changed", format!("op {i}: a reconstructed claim grant differs from the one first issued"));
                    }
                }
                grants.insert(*rid, (*claim, *commit));
            }
            Res::Admitted { rid, adm, fresh } => {
                if let Some(prev) = admitted.get(rid) {
                    if prev != adm {
                        fail(&mut o, "C17.retry-not-retained", format!("op {i}: a settlement returned later differs from the admitted one (fresh={fresh})"));
                    }
                }
                if let Some((claim, _)) = grants.get(rid) {
                    if adm.settlement().attempt_id != claim.attempt_id || adm.settlement().adapter_id != claim.adapter_id {
                        fail(&mut o, "C17.settled-foreign-attempt", format!("op {i}: admitted settlement names another attempt/adapter than the claim"));
                    }
                }
                let rq = case.reqs.iter().find(|r| r.request_id().as_hash() == *rid);
                if let Some(rq) = rq {
                    let s = adm.settlement();
                    if s.canonical_result_bytes.len() as u64 > rq.budget.max_settlement_bytes
                        || s.settlement_schema_digest != rq.settlement_schema_digest
                        || s.basis_digest != rq.basis_digest
                        || Hash::from(blake3::hash(&s.canonical_result_bytes)) != s.result_digest
                    {
                        fail(&mut o, "C17.settled-out-of-bounds", format!("op {i}: admitted settlement violates the declared schema/basis/byte budget/digest"));
                    }
                }
                admitted.insert(*rid, adm.clone());
            }
            Res::Recorded { rid, commit } => {
                if let Some(prev) = recorded.get(rid) {
                    if prev != commit {
                        fail(&mut o, "C17.request-token-changed", format!("op {i}: request token names another commit"));
                    }
                }
                recorded.insert(*rid, *commit);
            }
            _ => {}
        }
        // --- no step repeated in the log, steps in order
        let steps = log_steps(&w.store);
        if steps.len() != commits_a.len() || steps.iter().any(|(_, k)| *k == 0) {
            fail(&mut o, "C17.log-shape", format!("op {i}: committed transactions are not one external-action record each"));
        }
        for r in &case.reqs {
            let rid = r.request_id().as_hash();
            let ks: Vec<u8> = steps.iter().filter(|(x, _)| *x == rid).map(|(_, k)| *k).collect();
            if ks != [1u8, 2, 3][..ks.len().min(3)] || ks.len() > 3 {
                fail(&mut o, "C17.step-repeated", format!("op {i}: log holds steps {ks:?} for one request"));
            }
        }
        // --- stop here and recover: equals the uninterrupted run at this point
        let mut crashed = w.fork()?;
        crashed.store.arm(0);
        if crashed.store.trunc().is_err() {
            fail(&mut o, "C17.recovery-failed", format!("op {i}: WAL recovery of the store failed"));
            continue;
        }
        match Coord::recover(&crashed.store) {
            Err(x) => fail(&mut o, "C17.recovery-failed", format!("op {i}: coordinator recovery failed: {}", err_name(&x))),
            Ok(rc) => {
                n_recover += 1;
                // the uninterrupted run: the same operation on the same state without the store fault
                let live_ready = w.coord.recorded_request(case.reqs[0].request_id()) != Err(PErr::CoordinatorRecoveryRequired);
                let expect = if live_ready {
                    w.coord.clone()
                } else if transition && (1..=3).contains(&armed) && matches!(&res, Res::Err(n) if n == "WalStore") {
                    if armed == 3 {
                        let mut u = before.fork()?;
                        u.store.arm(0);
                        let _ = u.exec(&case, &sh, op)?;
                        u.coord
                    } else {
                        before.coord.clone()
                    }
                } else {
                    // the coordinator has been down since an earlier fault: nothing new to compare
                    rc.clone()
                };
                if rc != expect {
                    let what = if rc.observed_index().root_digest() != expect.observed_index().root_digest() { "index root" } else { "coordinator state" };
                    fail(&mut o, "C17.recovered-differs", format!("op {i}: {what} after stop+recover differs from the uninterrupted run"));
                }
                // retained answers survive recovery
                for r in &case.reqs {
                    let rid = r.request_id().as_hash();
                    if let Ok(a) = rc.admitted_settlement(r.request_id()) {
                        if admitted.get(&rid).is_some_and(|p| p != &a) {
                            fail(&mut o, "C17.retry-not-retained", format!("op {i}: recovered settlement differs from the admitted one"));
                        }
                    } else if admitted.contains_key(&rid) {
                        fail(&mut o, "C17.settlement-lost", format!("op {i}: an admitted settlement is gone after recovery"));
                    }
                    match rc.claim_grant(r.request_id()) {
                        Ok(g) => {
                            if grants.get(&rid).is_some_and(|p| p != &(g.claim(), g.claim_commit_digest())) {
                                fail(&mut o, "C17.claim-grant-changed", format!("op {i}: recovered claim grant differs from the issued one"));
                            }
                        }
                        Err(PErr::DuplicateSettlement) => {}
                        Err(_) => {
                            if grants.contains_key(&rid) {
                                fail(&mut o, "C17.claim-lost", format!("op {i}: an issued claim grant is gone after recovery"));
                            }
                        }
                    }
                    if recorded.contains_key(&rid) && rc.observed_index().get(r.request_id()).is_none() {
                        fail(&mut o, "C17.request-lost", format!("op {i}: a recorded request is gone after recovery"));
                    }
                }
                snaps.entry(crashed.store.read_commits().len()).or_insert_with(|| rc.clone());
                if let Some(AnyStore::Fs(f)) = wf.as_ref().map(|x| &x.store) {
                    // process death right here (mid-transaction when a store fault just fired)
                    match f.crash_recover(None)? {
                        Err(m) => fail(&mut o, "C17.fs-recovery-failed", format!("op {i}: recovery of the on-disk store failed: {m}")),
                        Ok((fc, _)) => {
                            if fc != rc {
                                fail(&mut o, "C17.fs-recovered-differs", format!("op {i}: coordinator recovered from disk differs from the one recovered from the in-memory store"));
                            }
                        }
                    }
                    // ... and with the segment file cut at record boundaries +-1 and in between
                    let store_faulted = transition && (1..=3).contains(&armed) && matches!(&res, Res::Err(n) if n == "WalStore");
                    let scan = i + 1 == case.ops.len() || (store_faulted && (tier == Tier::Thorough || n_scans < 2));
                    if scan {
                        n_scans += 1;
                        let bytes = f.segment_bytes();
                        let ends = crate::c10::record_ends(&bytes);
                        let stride = if tier == Tier::Thorough { 5 } else { 23 };
                        let mut last_k = 0usize;
                        for m in crate::c10::cut_set(bytes.len(), stride, &ends) {
                            n_cuts += 1;
                            match f.crash_recover(Some(m))? {
                                Err(e) => fail(&mut o, "C17.fs-cut-recovery-failed", format!("op {i}: segment cut at byte {m} of {}: {e}", bytes.len())),
                                Ok((fc, k)) => {
                                    if k < last_k {
                                        fail(&mut o, "C17.fs-cut-not-monotone", format!("op {i}: cut {m} recovers {k} commits, a shorter cut recovered {last_k}"));
                                    }
                                    last_k = k;
                                    match snaps.get(&k) {
                                        Some(sc) if sc == &fc => {}
                                        Some(_) => fail(&mut o, "C17.fs-cut-recovered-differs", format!("op {i}: segment cut at byte {m}: recovered coordinator ({k} commits) is not the uninterrupted run's at that point")),
                                        None => fail(&mut o, "C17.fs-cut-unknown-prefix", format!("op {i}: segment cut at byte {m} recovers {k} commits, a log the run never had")),
                                    }
                                }
                            }
                        }
                        if last_k != crashed.store.read_commits().len() {
                            fail(&mut o, "C17.fs-cut-lost-commit", format!("op {i}: the uncut segment recovers {last_k} commits, the store holds {}", crashed.store.read_commits().len()));
                        }
                    }
                }
            }
        }
    }
    o.nontrivial = n_grant >= 2;
    o.tags.push(format!("grants:{}", n_grant.min(9)));
    if n_err > 0 {
        o.tags.push("rejections".into());
    }
    if n_fault > 0 {
        o.tags.push("store-fault".into());
    }
    if n_recover > 0 {
        o.tags.push("crash-points".into());
    }
    if n_cuts > 0 {
        o.tags.push("fs-byte-cuts".into());
    }
    if stages.iter().any(|s| *s == 3) {
        o.tags.push("settled".into());
    }
    Ok(o)
}

// ------------------------------------------------------------------------------------ generators

fn req_line(r: &ExternalActionRequestV1) -> String {
    format!(
        "{} {} {} {} {} {} {} {} {} {} {}",
        hex(&r.request_id().as_hash()),
        hex(r.worldline_id.as_bytes()),
        hex(&r.operation_id.as_hash()),
        hex(&r.input_schema_digest),
        hex(&r.settlement_schema_digest),
        hex(&r.authority_scope_digest),
        hex(&r.basis_digest),
        r.budget.max_settlement_bytes,
        r.budget.max_attempts,
        hex(&r.input_digest),
        hex(&r.reconciliation_law_digest)
    )
}

struct Sketch {
    stage: u8,
    settle: Option<String>, // candidate tail used for the settlement
    same: bool,             // the live claim equals the shadow's claim (same adapter, ordinal, lease)
}

fn cand_tail(rng: &mut Rng, max_bytes: u64, valid: bool) -> String {
    let mut att = 0;
    let mut ad = 0;
    let mut sch = 0;
    let mut bas = 0;
    let mut dig = 1;
    // at the exact byte budget one time in three
    let mut len = if rng.chance(1, 3) { max_bytes } else { rng.below(max_bytes + 1) };
    let mut sev = small_id(rng.range(1, 3));
    let mut eev = small_id(rng.range(1, 3));
    if !valid {
        match rng.below(8) {
            0 => att = 1,
            1 => ad = 1,
            2 => sch = 1,
            3 => bas = 1,
            4 => dig = 0,
            5 => len = max_bytes + 1 + if rng.chance(1, 2) { 0 } else { rng.below(3) },
            6 => sev = [0; 32],
            _ => eev = [0; 32],
        }
    }
    let bytes = rng.bytes(len as usize);
    format!("{att} {ad} {} {sch} {bas} {} {dig} {} {}", rng.range(1, 4), hex(&bytes), hex(&sev), hex(&eev))
}

fn gen_ext(rng: &mut Rng, tier: Tier) -> Vec<String> {
    gen_cases(rng, tier, if tier == Tier::Thorough { 1500 } else { 130 })
}

fn gen_fs(rng: &mut Rng, tier: Tier) -> Vec<String> {
    gen_cases(rng, tier, if tier == Tier::Thorough { 200 } else { 40 })
}

fn gen_cases(rng: &mut Rng, tier: Tier, n_cases: u64) -> Vec<String> {
    let mut out = Vec::new();
    for case_no in 0..n_cases {
        let ops_n = [digest("c17:op:a"), digest("c17:op:b")];
        let scopes = [digest("c17:scope:a"), digest("c17:scope:b")];
        let adapters = [small_id(0xA1), small_id(0xA2), small_id(0xA3)];
        let leases = [small_id(0x11), small_id(0x12), [0u8; 32]];
        // A1 is bound everywhere, A2 only for (op a, scope a), A3 nowhere
        let mut bindings = Vec::new();
        for o in &ops_n {
            for s in &scopes {
                bindings.push((*o, *s, adapters[0]));
            }
        }
        bindings.push((ops_n[0], scopes[0], adapters[1]));
        let registry = ExternalActionAdapterRegistryV1::new(bindings.iter().map(|(o, s, a)| ExternalActionAdapterBindingV1 {
            adapter_id: ExternalActionAdapterIdV1::from_hash(*a),
            operation_id: ExternalActionOperationIdV1::from_hash(*o),
            authority_scope_digest: *s,
        }));
        let nr = if case_no % 5 == 0 { 4 } else { rng.range(1, 3) } as usize;
        let mut reqs: Vec<ExternalActionRequestV1> = Vec::new();
        while reqs.len() < nr {
            let q = ReqFields {
                f: [
                    small_id(rng.range(1, 2)),
                    *rng.pick(&ops_n),
                    small_id(0x15),
                    small_id(0x16),
                    *rng.pick(&scopes),
                    small_id(rng.range(0x20, 0x22)),
                    small_id(rng.range(0x30, 0x3f)),
                    small_id(0x40),
                ],
                max_bytes: *rng.pick(&[1u64, 4, 9]),
                max_attempts: 1,
            };
            if let Ok(r) = build_request(&q) {
                if !reqs.iter().any(|x| x.request_id() == r.request_id()) {
                    reqs.push(r);
                }
            }
        }
        let mut hdr = format!("{} {}", hex(&registry.identity_digest()), bindings.len());
        for (o, s, a) in &bindings {
            hdr.push_str(&format!(" {} {} {}", hex(o), hex(s), hex(a)));
        }
        hdr.push_str(&format!(" {} {} {}", hex(&adapters[0]), hex(&leases[0]), nr));
        for r in &reqs {
            hdr.push(' ');
            hdr.push_str(&req_line(r));
        }
        let mut sk: Vec<Sketch> = (0..nr).map(|_| Sketch { stage: 0, settle: None, same: false }).collect();
        let mut ops: Vec<String> = Vec::new();
        let target = rng.range(6, if tier == Tier::Thorough { 40 } else { 26 });
        let mut down = false; // coordinator needs recovery
        let mut dirty = false;
        let mut dumps = 0;
        // one case in six: the process is dropped and recovered after EVERY operation
        let restart_every = case_no % 6 == 3;
        // the last lifecycle step sent for each request (replayed verbatim as a retry of that step)
        let mut last_step: Vec<Vec<String>> = vec![Vec::new(); nr];
        let advance = |rng: &mut Rng, sk: &mut Vec<Sketch>, r: usize, reqs: &Vec<ExternalActionRequestV1>, commit: bool| -> String {
            let mb = reqs[r].budget.max_settlement_bytes;
            match sk[r].stage {
                0 => {
                    if commit {
                        sk[r].stage = 1;
                    }
                    format!("req {r} 0")
                }
                1 => {
                    if commit {
                        sk[r].stage = 2;
                    }
                    // sometimes the very claim the shadow holds (same adapter, lease)
                    let same = rng.chance(1, 3);
                    let lease = if same { leases[0] } else { leases[1] };
                    if commit {
                        sk[r].same = same;
                    }
                    format!("claim {r} 0 {r} {} 0 0 {}", hex(&adapters[0]), hex(&lease))
                }
                2 => {
                    let tail = cand_tail(rng, mb, true);
                    if commit {
                        sk[r].stage = 3;
                        sk[r].settle = Some(tail.clone());
                    }
                    format!("settle {r} 0 {r} {tail}")
                }
                _ => match &sk[r].settle {
                    Some(tail) if rng.chance(3, 4) => format!("retry {r} {tail}"),
                    _ => format!("retry {r} {}", cand_tail(rng, mb, true)),
                },
            }
        };
        while (ops.len() as u64) < target {
            let r = rng.below(nr as u64) as usize;
            let mb = reqs[r].budget.max_settlement_bytes;
            let roll = rng.below(100);
            if restart_every && !ops.is_empty() && ops.last().is_some_and(|s| s != "recover") {
                if dirty {
                    ops.push("trunc".to_string());
                    dirty = false;
                }
                ops.push("recover".to_string());
                down = false;
            }
            if roll < 8 && !last_step[r].is_empty() {
                // retry of an earlier step of this request, verbatim (request / claim / settlement)
                let s = rng.pick(&last_step[r]).clone();
                ops.push(s);
                continue;
            }
            if roll < 42 {
                if !down && sk[r].stage == 2 && sk[r].same && rng.chance(1, 2) {
                    // a grant for the identical claim, but issued by another store (other commit)
                    ops.push(format!("settle {r} 1 {r} {}", cand_tail(rng, mb, true)));
                }
                let s = advance(rng, &mut sk, r, &reqs, !down);
                if !s.starts_with("retry") {
                    last_step[r].push(s.clone());
                }
                ops.push(s);
            } else if roll < 54 {
                // invalid claim
                let src = rng.below(2);
                let x = rng.below(nr as u64);
                let a = rng.pick(&adapters);
                let cb = u64::from(rng.chance(1, 4));
                let ord = u64::from(rng.chance(1, 4));
                let lease = rng.pick(&leases);
                ops.push(format!("claim {r} {src} {x} {} {cb} {ord} {}", hex(a), hex(lease)));
                if !down && sk[r].stage == 1 && src == 0 && x as usize == r && *a != adapters[2] && cb == 0 && ord == 0 && *lease != [0u8; 32] {
                    let bound = *a == adapters[0]
                        || (reqs[r].operation_id.as_hash() == ops_n[0] && reqs[r].authority_scope_digest == scopes[0]);
                    if bound {
                        sk[r].stage = 2;
                    }
                }
            } else if roll < 66 {
                // invalid / foreign settlement
                let src = u64::from(rng.chance(1, 3));
                let cr = if rng.chance(1, 5) { rng.below(nr as u64) as usize } else { r };
                let valid = rng.chance(1, 4);
                let tail = cand_tail(rng, mb, valid);
                ops.push(format!("settle {r} {src} {cr} {tail}"));
                if !down && valid && src == 0 && cr == r && sk[r].stage == 2 {
                    sk[r].stage = 3;
                    sk[r].settle = Some(tail);
                }
            } else if roll < 72 {
                let valid = rng.chance(1, 2);
                ops.push(format!("retry {r} {}", cand_tail(rng, mb, valid)));
            } else if roll < 78 {
                ops.push(format!("req {r} {}", u64::from(rng.chance(1, 3))));
                if !down && sk[r].stage == 0 && ops.last().is_some_and(|s| s.ends_with(" 0")) {
                    sk[r].stage = 1;
                }
            } else if roll < 84 {
                ops.push(format!("{} {r}", rng.pick(&["rr", "cg", "as"])));
            } else if roll < 93 {
                // store fault during the next lifecycle step, then (maybe) stop and recover
                if !down {
                    let k = rng.range(1, 3);
                    ops.push(format!("fault {k}"));
                    if rng.chance(1, 4) {
                        // a rejected operation first: the armed fault must survive it untouched
                        ops.push(format!("claim {r} 0 {r} {} 0 0 {}", hex(&adapters[2]), hex(&leases[0])));
                        ops.push(format!("{} {r}", rng.pick(&["rr", "cg", "as"])));
                    }
                    let s = advance(rng, &mut sk, r, &reqs, k == 3);
                    let is_transition = !s.starts_with("retry");
                    ops.push(s);
                    if is_transition {
                        down = true;
                        dirty = k == 2;
                        if rng.chance(2, 3) {
                            // stop right here (mid-transaction for k = 2) and recover
                            if dirty && rng.chance(1, 3) {
                                ops.push("recover".to_string()); // refused: uncommitted tail
                                if rng.chance(1, 2) {
                                    // still down: must be answered CoordinatorRecoveryRequired
                                    let r2 = rng.below(nr as u64) as usize;
                                    let s2 = advance(rng, &mut sk, r2, &reqs, false);
                                    ops.push(s2);
                                }
                            }
                            if dirty {
                                ops.push("trunc".to_string());
                                dirty = false;
                            }
                            ops.push("recover".to_string());
                            down = false;
                        }
                    } else {
                        ops.push("fault 0".to_string());
                    }
                }
            } else {
                if dirty && rng.chance(4, 5) {
                    ops.push("trunc".to_string());
                    dirty = false;
                }
                ops.push("recover".to_string());
                if !dirty {
                    down = false;
                }
                if dumps < 1 && rng.chance(1, 2) {
                    ops.push("dump".to_string());
                    dumps += 1;
                }
            }
        }
        if rng.chance(1, 2) {
            if dirty {
                ops.push("trunc".to_string());
            }
            ops.push("recover".to_string());
        }
        ops.push("dump".to_string());
        out.push(format!("{hdr} {} {}", ops.len(), ops.join(" ")));
    }
    out
}

// ------------------------------------------------------------------------------------ C17.new

fn imp_new(t: &mut Toks) -> Result<String, String> {
    let (_, q) = parse_req_fields(t)?;
    if !t.done() {
        return Err("trailing tokens".into());
    }
    Ok(match build_request(&q) {
        Ok(r) => format!("ok {}", hex(&r.request_id().as_hash())),
        Err(e) => format!("E:{}", err_name(&e)),
    })
}

fn oracle_new(t: &mut Toks, _tier: Tier) -> Result<OracleOut, String> {
    let (_, q) = parse_req_fields(t)?;
    let mut o = OracleOut::default();
    match build_request(&q) {
        Ok(r) => {
            o.tags.push("accepted".into());
            // an accepted request is within the v1 bounds and exactly one attempt
            if r.budget.max_attempts != 1 || r.budget.max_settlement_bytes == 0 || r.budget.max_settlement_bytes > 1_048_576 {
                o.fails.push(("C17.request-out-of-bounds".into(), "a request outside the v1 budget bounds was constructed".into()));
            }
        }
        Err(_) => o.tags.push("refused".into()),
    }
    Ok(o)
}

fn gen_new(rng: &mut Rng, _tier: Tier) -> Vec<String> {
    let mut out = Vec::new();
    for _ in 0..40 {
        let mb = *rng.pick(&[0u64, 1, 64, 1_048_575, 1_048_576, 1_048_577, u64::from(u32::MAX) + 5]);
        let ma = *rng.pick(&[0u64, 1, 1, 1, 2, 7]);
        let mut ids = Vec::new();
        for _ in 0..9 {
            ids.push(hex(&small_id(rng.range(1, 0xffff))));
        }
        out.push(format!(
            "{} {} {} {} {} {} {} {mb} {ma} {} {}",
            ids[0], ids[1], ids[2], ids[3], ids[4], ids[5], ids[6], ids[7], ids[8]
        ));
    }
    out
}
