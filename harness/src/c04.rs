//! C04 — a tick patch replays to exactly the state the tick produced.
//! Real code: `tick_patch::diff_state`, `apply_ops_to_state`, `WarpTickPatchV1::new/apply_to_state`,
//! `compute_state_root` (through the `echo_verif::state` seams).
use crate::graphio::*;
use crate::prng::Rng;
use crate::util::Toks;
use crate::{OracleOut, Stream, Tier};
use warp_core::echo_verif::state as hook;
use warp_core::{NodeKey, TickCommitStatus, WarpOp, WarpTickPatchV1};

pub fn streams() -> Vec<Stream> {
    vec![
        Stream { name: "C04.pair", gen: gen_pair, imp: imp_pair, oracle: oracle_pair },
        Stream { name: "C04.apply", gen: gen_apply, imp: imp_apply, oracle: oracle_apply },
    ]
}

// ------------------------------------------------------------------ C04.pair  <stateA> <stateB>

fn imp_pair(t: &mut Toks) -> Result<String, String> {
    let a = parse_state(t)?;
    let b = parse_state(t)?;
    if !t.done() {
        return Err("trailing tokens".into());
    }
    let ops = hook::diff_state(&a, &b);
    let mut c = a.clone();
    let res = hook::apply_ops(&mut c, &ops);
    Ok(match res {
        Ok(()) => format!("ops {} ; ok {}", ops_str(&ops), state_str(&c)),
        Err(e) => format!("ops {} ; err {}", ops_str(&ops), err_class(&e)),
    })
}

fn oracle_pair(t: &mut Toks, _tier: Tier) -> Result<OracleOut, String> {
    let a = parse_state(t)?;
    let b = parse_state(t)?;
    let mut o = OracleOut::default();
    let ops = hook::diff_state(&a, &b);
    // (1) the diff as returned, applied to a clone of `a`
    let mut c = a.clone();
    let res = hook::apply_ops(&mut c, &ops);
    // (2) the same through the public patch type (sort + dedupe + digest), as replay does
    let patch = WarpTickPatchV1::new(0, [0u8; 32], TickCommitStatus::Committed, vec![], vec![], ops.clone());
    let mut c2 = a.clone();
    let res2 = patch.apply_to_state(&mut c2);
    let want = state_str(&b);
    match &res {
        Ok(()) => {
            let got = state_str(&c);
            if got != want {
                o.fails.push((format!("C04.replay-differs.{}", classify(&got, &want)), format!("apply(diff(a,b), a) returned Ok but the state differs from b: got [{got}] want [{want}]")));
            } else {
                // state roots from every instance root must agree as well
                for inst in hook::instances(&b) {
                    let key = NodeKey { warp_id: inst.warp_id, local_id: inst.root_node };
                    if hook::state_root(&c, &key) != hook::state_root(&b, &key) {
                        o.fails.push(("C04.replay-root-differs".into(), "equal dumps but different state roots".into()));
                    }
                }
            }
            o.tags.push("apply-ok".into());
        }
        Err(e) => o.tags.push(format!("apply-err:{}", err_class(e))),
    }
    if res.is_ok() != res2.is_ok() || (res.is_ok() && state_str(&c2) != state_str(&c)) {
        o.fails.push(("C04.patch-new-changes-diff".into(), "WarpTickPatchV1::new(diff).apply_to_state disagrees with applying the diff directly".into()));
    }
    if patch.ops() != ops.as_slice() {
        o.fails.push(("C04.diff-not-canonical".into(), "diff_state output is changed by WarpTickPatchV1::new (not sorted / has duplicate keys)".into()));
    }
    for op in &ops {
        o.tags.push(
            match op {
                WarpOp::OpenPortal { .. } => "op:OP",
                WarpOp::UpsertWarpInstance { .. } => "op:UI",
                WarpOp::DeleteWarpInstance { .. } => "op:DI",
                WarpOp::UpsertNode { .. } => "op:UN",
                WarpOp::DeleteNode { .. } => "op:DN",
                WarpOp::UpsertEdge { .. } => "op:UE",
                WarpOp::DeleteEdge { .. } => "op:DE",
                WarpOp::SetAttachment { .. } => "op:SA",
            }
            .into(),
        );
    }
    o.tags.sort();
    o.tags.dedup();
    o.nontrivial = ops.len() >= 2;
    Ok(o)
}

/// Which part of the dump differs (for specific finding keys).
fn classify(got: &str, want: &str) -> &'static str {
    let sect = |s: &str, kw: &str| -> Vec<String> {
        // crude: collect the text following each occurrence of the keyword up to the next keyword
        let kws = ["nodes", "natts", "edges", "eatts", "warps"];
        let toks: Vec<&str> = s.split_whitespace().collect();
        let mut out = Vec::new();
        let mut i = 0;
        while i < toks.len() {
            if toks[i] == kw {
                let mut j = i + 1;
                let mut cur = String::new();
                while j < toks.len() && !kws.contains(&toks[j]) {
                    cur.push_str(toks[j]);
                    cur.push(' ');
                    j += 1;
                }
                out.push(cur);
                i = j;
            } else {
                i += 1;
            }
        }
        out
    };
    if sect(got, "nodes") != sect(want, "nodes") {
        "nodes"
    } else if sect(got, "edges") != sect(want, "edges") {
        "edges"
    } else if sect(got, "natts") != sect(want, "natts") {
        "node-attachments"
    } else if sect(got, "eatts") != sect(want, "eatts") {
        "edge-attachments"
    } else {
        "instances"
    }
}

fn gen_pair(rng: &mut Rng, tier: Tier) -> Vec<String> {
    let n = if tier == Tier::Thorough { 6000 } else { 500 };
    let mut out = Vec::new();
    for case in 0..n {
        let children = case % 3 != 0;
        let a = gen_state(rng, 4, 3, children);
        let b = match case % 5 {
            0 => gen_state(rng, 4, 3, children),                 // unrelated state
            1 => a.clone(),                                      // identical
            _ => {
                let k = rng.range(1, 4);
                mutate_state(rng, &a, k, children) // a few edits
            }
        };
        out.push(format!("{} {}", a.dump(), b.dump()));
    }
    out
}

// ------------------------------------------------------------------ C04.apply  <state> <ops>

fn imp_apply(t: &mut Toks) -> Result<String, String> {
    let mut a = parse_state(t)?;
    let ops = parse_ops(t)?;
    if !t.done() {
        return Err("trailing tokens".into());
    }
    Ok(match hook::apply_ops(&mut a, &ops) {
        Ok(()) => format!("ok {}", state_str(&a)),
        Err(e) => format!("err {}", err_class(&e)),
    })
}

fn oracle_apply(t: &mut Toks, _tier: Tier) -> Result<OracleOut, String> {
    let a = parse_state(t)?;
    let ops = parse_ops(t)?;
    let mut o = OracleOut::default();
    let mut c = a.clone();
    let r = hook::apply_ops(&mut c, &ops);
    // determinism + "a failed application is never reported as success": re-run and compare
    let mut c2 = a.clone();
    let r2 = hook::apply_ops(&mut c2, &ops);
    if r.is_ok() != r2.is_ok() || state_str(&c) != state_str(&c2) {
        o.fails.push(("C04.apply-nondeterministic".into(), "two applications of the same ops differ".into()));
    }
    match r {
        Ok(()) => o.tags.push("apply-ok".into()),
        Err(e) => o.tags.push(format!("apply-err:{}", err_class(&e))),
    }
    o.nontrivial = ops.len() >= 2;
    Ok(o)
}

fn gen_op(rng: &mut Rng, st: &GState) -> String {
    let wids: Vec<u64> = st.warps.keys().copied().collect();
    let w = if rng.chance(1, 12) { 0xEE } else { *rng.pick(&wids) };
    let node = rng.range(1, 5);
    let edge = 0x20 + rng.range(1, 4);
    let key = |rng: &mut Rng| -> String {
        let tag = match rng.below(10) {
            0 => "nb",
            1 => "ea",
            2..=5 => "na",
            _ => "eb",
        };
        let local = if tag.starts_with('n') { node } else { edge };
        format!("{tag} {} {}", sid(w), sid(local))
    };
    let att = |rng: &mut Rng| -> String {
        match rng.below(5) {
            0 => "-".to_string(),
            1 => format!("d {}", sid(0xA2 + rng.below(2))),
            _ => {
                let n = rng.below(3) as usize;
                format!("a {} {}", sid(0x70 + rng.below(2)), crate::util::hex(&rng.bytes(n)))
            }
        }
    };
    match rng.below(9) {
        0 => format!("UN {} {} {}", sid(w), sid(node), sid(0x10 + rng.below(3))),
        1 => format!("DN {} {}", sid(w), sid(node)),
        2 => format!("UE {} {} {} {} {}", sid(w), sid(edge), sid(rng.range(1, 5)), sid(rng.range(1, 5)), sid(0x30 + rng.below(2))),
        3 => format!("DE {} {} {}", sid(w), sid(rng.range(1, 5)), sid(edge)),
        4 | 5 => format!("SA {} {}", key(rng), att(rng)),
        6 => format!(
            "OP {} {} {} {}",
            key(rng),
            sid(0xA2 + rng.below(3)),
            sid(rng.range(1, 2)),
            if rng.chance(2, 3) { format!("E {}", sid(0x10 + rng.below(2))) } else { "R".into() }
        ),
        7 => format!(
            "UI {} {} {}",
            sid(0xA2 + rng.below(3)),
            sid(1),
            if rng.chance(1, 2) { "-".to_string() } else { key(rng) }
        ),
        _ => format!("DI {}", sid(0xA1 + rng.below(4))),
    }
}

fn gen_apply(rng: &mut Rng, tier: Tier) -> Vec<String> {
    let n = if tier == Tier::Thorough { 6000 } else { 500 };
    let mut out = Vec::new();
    for case in 0..n {
        let a = gen_state(rng, 4, 3, case % 2 == 0);
        let k = rng.range(1, 5);
        let mut line = format!("{} {k}", a.dump());
        for _ in 0..k {
            line.push(' ');
            line.push_str(&gen_op(rng, &a));
        }
        out.push(line);
    }
    out
}
