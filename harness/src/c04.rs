//! C04 — a tick patch replays to exactly the state the tick produced.
//! Real code: `tick_patch::diff_state`, `apply_ops_to_state`, `WarpTickPatchV1::new/apply_to_state/
//! digest/validate_digest`, `WorldlineTickPatchV1::apply_to_worldline_state`, `Engine::commit_with_receipt`
//! / `jump_to_tick`, `compute_state_root` (through the `echo_verif::state` seams).
//!
//! Streams (output grammar; `<res>` := `ok <state>` | `err <class> partial <state>` where `partial` is the
//! state left in the `&mut` target after the failed in-place application):
//!   C04.pair  <stateA> <stateB>                 -> `ops <ops> ; digest <D> ; <res>`
//!   C04.apply <state> <n ops…>                   -> `<res>`
//!   C04.patch <policy> <rulepack> <1|2> <n slots…> <n slots…> <n ops…>
//!                                                -> `ops <canon ops> ; ins <n slots…> ; outs <n slots…> ; digest <D>`
//!   C04.tick  <C01.tick case>                    -> `tick ok ; patch <ops> ; digest <D> ; post <state> ; replay <res>`
//!                                                 | `tick <err …|panic …>`
//! `<D>` in pair/tick = digest of `WarpTickPatchV1::new(0,[0;32],Committed,[],[],ops)`.
use crate::graphio::*;
use crate::interp::{self, RULE_A, RULE_B};
use crate::prng::Rng;
use crate::util::{hex, small_id, Toks};
use crate::{OracleOut, Stream, Tier};
use warp_core::echo_verif::state as hook;
use warp_core::{
    scope_hash, ApplyResult, EdgeKey, EngineBuilder, GlobalTick, NodeId, NodeKey, SchedulerKind, SlotId,
    TickCommitStatus, TickPatchError, WarpId, WarpOp, WarpState, WarpTickPatchV1, WorldlineState,
    WorldlineTickHeaderV1, WorldlineTickPatchV1,
};

pub fn streams() -> Vec<Stream> {
    vec![
        Stream { name: "C04.pair", gen: gen_pair, imp: imp_pair, oracle: oracle_pair },
        Stream { name: "C04.apply", gen: gen_apply, imp: imp_apply, oracle: oracle_apply },
        Stream { name: "C04.patch", gen: gen_patch, imp: imp_patch, oracle: oracle_patch },
        Stream { name: "C04.tick", gen: gen_tick, imp: imp_tick, oracle: oracle_tick },
    ]
}

fn bare_patch(ops: &[WarpOp]) -> WarpTickPatchV1 {
    WarpTickPatchV1::new(0, [0u8; 32], TickCommitStatus::Committed, vec![], vec![], ops.to_vec())
}

fn res_str(res: &Result<(), TickPatchError>, target: &WarpState) -> String {
    match res {
        Ok(()) => format!("ok {}", state_str(target)),
        Err(e) => format!("err {} partial {}", err_class(e), state_str(target)),
    }
}

fn op_tag(op: &WarpOp) -> &'static str {
    match op {
        WarpOp::OpenPortal { .. } => "op:OP",
        WarpOp::UpsertWarpInstance { .. } => "op:UI",
        WarpOp::DeleteWarpInstance { .. } => "op:DI",
        WarpOp::UpsertNode { .. } => "op:UN",
        WarpOp::DeleteNode { .. } => "op:DN",
        WarpOp::UpsertEdge { .. } => "op:UE",
        WarpOp::DeleteEdge { .. } => "op:DE",
        WarpOp::SetAttachment { .. } => "op:SA",
    }
}

// ------------------------------------------------------------------ in-place application oracle
//
// "A failed application is never reported as success", as the real code has it (apply is IN PLACE):
//   (i)  Err  => the target equals the state after the ops before the first failing op (a prefix), the
//                failing op itself having changed nothing;
//   (ii) Ok   => every op individually succeeded and the target is the composition of all single steps.
// The per-op step is observed through the real `apply_ops_to_state` on one-element slices (the state
// left in the target is the op's effect whether or not the trailing portal validation complains).
// A single step that returns Err AND leaves the state unchanged is a *candidate* failing op; it is a
// *definite* one when the op/error cannot come from the portal validation (UpsertNode/UpsertEdge never
// trigger it; NodeNotIsolated / PortalInitRequired are never returned by it).

/// Independent per-op specification of `apply_op_to_state` for the five skeleton/attachment ops
/// (pre-condition => must fail and change nothing; applied => post-condition on the touched location).
fn check_step(fails: &mut Vec<(String, String)>, before: &WarpState, op: &WarpOp, res_ok: bool, changed: bool, after: &WarpState) {
    use warp_core::AttachmentOwner;
    let applied = res_ok || changed;
    let mut must_fail: Option<&str> = None;
    let mut post_ok = true;
    match op {
        WarpOp::UpsertNode { node, record } => {
            if before.store(&node.warp_id).is_none() {
                must_fail = Some("missing warp");
            } else if applied {
                post_ok = after.store(&node.warp_id).and_then(|g| g.node(&node.local_id)) == Some(record);
            }
        }
        WarpOp::DeleteNode { node } => match before.store(&node.warp_id) {
            None => must_fail = Some("missing warp"),
            Some(g) => {
                if g.node(&node.local_id).is_none() {
                    must_fail = Some("missing node");
                } else if g.iter_edges().any(|(_, es)| es.iter().any(|e| e.from == node.local_id || e.to == node.local_id)) {
                    must_fail = Some("node has incident edges");
                } else if applied {
                    post_ok = after.store(&node.warp_id).is_some_and(|g| g.node(&node.local_id).is_none() && g.node_attachment(&node.local_id).is_none());
                }
            }
        },
        WarpOp::UpsertEdge { warp_id, record } => {
            if before.store(warp_id).is_none() {
                must_fail = Some("missing warp");
            } else if applied {
                post_ok = after.store(warp_id).is_some_and(|g| {
                    let hits: Vec<_> = g.iter_edges().flat_map(|(f, es)| es.iter().map(move |e| (*f, e))).filter(|(_, e)| e.id == record.id).collect();
                    hits.len() == 1 && hits[0].0 == record.from && hits[0].1 == record
                });
            }
        }
        WarpOp::DeleteEdge { warp_id, from, edge_id } => match before.store(warp_id) {
            None => must_fail = Some("missing warp"),
            Some(g) => {
                if !g.edges_from(from).any(|e| e.id == *edge_id) {
                    must_fail = Some("no such edge under that source");
                } else if applied {
                    post_ok = after.store(warp_id).is_some_and(|g| !g.has_edge(edge_id) && g.edge_attachment(edge_id).is_none());
                }
            }
        },
        WarpOp::SetAttachment { key, value } => {
            let (w, exists_before) = match key.owner {
                AttachmentOwner::Node(n) => (n.warp_id, before.store(&n.warp_id).map(|g| g.node(&n.local_id).is_some())),
                AttachmentOwner::Edge(e) => (e.warp_id, before.store(&e.warp_id).map(|g| g.has_edge(&e.local_id))),
            };
            if !key.is_plane_valid() {
                must_fail = Some("invalid plane");
            } else if exists_before.is_none() {
                must_fail = Some("missing warp");
            } else if exists_before == Some(false) {
                must_fail = Some("missing owner");
            } else if applied {
                let got = after.store(&w).and_then(|g| match key.owner {
                    AttachmentOwner::Node(n) => g.node_attachment(&n.local_id),
                    AttachmentOwner::Edge(e) => g.edge_attachment(&e.local_id),
                });
                post_ok = got == value.as_ref();
            }
        }
        _ => {}
    }
    if let Some(why) = must_fail {
        if applied {
            fails.push((format!("C04.apply-step.accepted-invalid-op.{}", &op_tag(op)[3..]), format!("{} must be rejected ({why}) but was applied / returned Ok", clip(&op_str(op)))));
        }
    } else if !post_ok {
        fails.push((format!("C04.apply-step.wrong-effect.{}", &op_tag(op)[3..]), format!("{} applied, but the touched location does not hold the op's value afterwards", clip(&op_str(op)))));
    }
}

struct Chain {
    /// failures of the per-op specification
    spec_fails: Vec<(String, String)>,
    /// dumps T_0 … T_n
    t: Vec<String>,
    /// candidate failing indices (step i: Err and T_{i+1} == T_i)
    stuck: Vec<usize>,
    /// first definite failing index
    definite: Option<usize>,
}

fn chain(a: &WarpState, ops: &[WarpOp]) -> Chain {
    let mut cur = a.clone();
    let mut t = vec![state_str(&cur)];
    let mut stuck = Vec::new();
    let mut definite = None;
    let mut spec_fails = Vec::new();
    for (i, op) in ops.iter().enumerate() {
        let before = cur.clone();
        let r = hook::apply_ops(&mut cur, std::slice::from_ref(op));
        let s = state_str(&cur);
        check_step(&mut spec_fails, &before, op, r.is_ok(), s != t[i], &cur);
        if let Err(e) = &r {
            if s == t[i] {
                stuck.push(i);
                let def = matches!(op, WarpOp::UpsertNode { .. } | WarpOp::UpsertEdge { .. })
                    || matches!(e, TickPatchError::NodeNotIsolated(_) | TickPatchError::PortalInitRequired);
                if def && definite.is_none() {
                    definite = Some(i);
                }
            }
        }
        t.push(s);
    }
    Chain { spec_fails, t, stuck, definite }
}

fn check_inplace(o: &mut OracleOut, whre: &str, a: &WarpState, ops: &[WarpOp], res: &Result<(), TickPatchError>, target: &WarpState) {
    let mut ch = chain(a, ops);
    o.fails.append(&mut ch.spec_fails);
    let s = state_str(target);
    let n = ops.len();
    match res {
        Ok(()) => {
            if let Some(d) = ch.definite {
                o.fails.push((format!("C04.atomicity.{whre}.ok-despite-failed-op"), format!("application returned Ok although op #{d} ({}) fails on the state the ops before it produce", op_str(&ops[d]))));
            }
            if s != ch.t[n] {
                o.fails.push((format!("C04.atomicity.{whre}.ok-state-not-composition"), format!("Ok, but the target is not the composition of the single-op steps: got [{}] want [{}]", clip(&s), clip(&ch.t[n]))));
            }
        }
        Err(e) => {
            let limit = ch.definite.unwrap_or(n);
            let mut allowed: Vec<usize> = ch.stuck.iter().copied().filter(|k| *k <= limit).collect();
            if ch.definite.is_none() {
                allowed.push(n); // every op applied, the trailing portal validation failed
            }
            if !allowed.iter().any(|k| ch.t[*k] == s) {
                o.fails.push((format!("C04.atomicity.{whre}.partial-not-prefix"), format!("Err({}) but the target is not the state after the ops before a failing op: got [{}]", err_class(e), clip(&s))));
            }
            o.tags.push(if s == ch.t[0] { "clean-on-error".into() } else { "partial-on-error".into() });
            if s == ch.t[n] && n > 0 && ch.stuck.is_empty() {
                o.tags.push("err-at-final-validation".into());
            }
        }
    }
}

/// The same ops through the other public surfaces: `WarpTickPatchV1::apply_to_state` and
/// `WorldlineTickPatchV1::apply_to_worldline_state` (when the state has a unique parentless root).
/// They must report the same result and leave the same target; after an Err the worldline object must
/// not look advanced (tick / history / snapshot).
fn check_surfaces(o: &mut OracleOut, a: &WarpState, canon_ops: &[WarpOp], res: &Result<(), TickPatchError>, target: &WarpState) {
    let patch = bare_patch(canon_ops);
    let mut c2 = a.clone();
    let res2 = patch.apply_to_state(&mut c2);
    let same_err = match (res, &res2) {
        (Ok(()), Ok(())) => true,
        (Err(x), Err(y)) => err_class(x) == err_class(y),
        _ => false,
    };
    if !same_err || state_str(&c2) != state_str(target) {
        o.fails.push(("C04.patch-new-changes-diff".into(), "WarpTickPatchV1::new(ops).apply_to_state disagrees with applying the canonical ops directly".into()));
    }
    // worldline surface
    let roots: Vec<NodeKey> = hook::instances(a).iter().filter(|i| i.parent.is_none()).map(|i| NodeKey { warp_id: i.warp_id, local_id: i.root_node }).collect();
    if roots.len() == 1 {
        if let Ok(mut ws) = WorldlineState::new(a.clone(), roots[0]) {
            let wp = WorldlineTickPatchV1 {
                header: WorldlineTickHeaderV1 { commit_global_tick: GlobalTick::from_raw(1), policy_id: 0, rule_pack_id: [0u8; 32], plan_digest: [0u8; 32], decision_digest: [0u8; 32], rewrites_digest: [0u8; 32] },
                warp_id: roots[0].warp_id,
                ops: canon_ops.to_vec(),
                in_slots: vec![],
                out_slots: vec![],
                patch_digest: patch.digest(),
            };
            let tick0 = ws.current_tick();
            let r3 = wp.apply_to_worldline_state(&mut ws);
            o.tags.push("worldline-surface".into());
            if r3.is_ok() != res.is_ok() || state_str(ws.warp_state()) != state_str(target) {
                o.fails.push(("C04.atomicity.worldline.result-differs".into(), "apply_to_worldline_state disagrees with apply_ops_to_state on result / target state".into()));
            }
            if r3.is_err() && (ws.current_tick() != tick0 || !ws.tick_history().is_empty() || ws.last_snapshot().is_some()) {
                o.fails.push(("C04.atomicity.worldline.advanced-on-error".into(), "apply_to_worldline_state returned Err but the worldline looks advanced (tick/history/snapshot)".into()));
            }
            if state_str(ws.initial_state()) != state_str(a) {
                o.fails.push(("C04.atomicity.worldline.initial-state-touched".into(), "apply_to_worldline_state modified the preserved initial state".into()));
            }
        }
    }
}

/// `compute_state_root`, which panics on a dangling portal reachable from the root.
fn root_of(st: &WarpState, key: &NodeKey) -> Option<[u8; 32]> {
    std::panic::catch_unwind(std::panic::AssertUnwindSafe(|| hook::state_root(st, key))).ok()
}

/// "Opening portals onto free slots of existing owners replays": b = a + new leaf child instances, each
/// hanging off a slot whose owner exists in a and is empty in a; nothing else differs. For such pairs
/// (both well-formed) the replay MUST succeed. Returns true when (a, b) is in that class.
fn pure_portal_growth(a: &WarpState, b: &WarpState) -> bool {
    use warp_core::{AttachmentOwner, AttachmentValue};
    let ia = hook::instances(a);
    let ib = hook::instances(b);
    let new: Vec<_> = ib.iter().filter(|i| !ia.iter().any(|j| j.warp_id == i.warp_id)).collect();
    if new.is_empty() || ia.len() + new.len() != ib.len() {
        return false;
    }
    // b restricted to a's warps, with the Descend slots of the new children cleared, must dump like a
    let mut reduced = WarpState::new();
    for i in ib.iter().filter(|i| ia.iter().any(|j| j.warp_id == i.warp_id)) {
        let Some(g) = b.store(&i.warp_id) else { return false };
        hook::upsert_instance(&mut reduced, i.clone(), g.clone());
    }
    for n in &new {
        let Some(key) = n.parent else { return false };
        let (w, in_a_free) = match key.owner {
            AttachmentOwner::Node(k) => (k.warp_id, a.store(&k.warp_id).is_some_and(|g| g.node(&k.local_id).is_some() && g.node_attachment(&k.local_id).is_none())),
            AttachmentOwner::Edge(k) => (k.warp_id, a.store(&k.warp_id).is_some_and(|g| g.has_edge(&k.local_id) && g.edge_attachment(&k.local_id).is_none())),
        };
        if !key.is_plane_valid() || !in_a_free {
            return false;
        }
        let Some(inst) = ib.iter().find(|i| i.warp_id == w) else { return false };
        let Some(g) = reduced.store(&w) else { return false };
        let mut g = g.clone();
        let cur = match key.owner {
            AttachmentOwner::Node(k) => g.node_attachment(&k.local_id).cloned(),
            AttachmentOwner::Edge(k) => g.edge_attachment(&k.local_id).cloned(),
        };
        if cur != Some(AttachmentValue::Descend(n.warp_id)) {
            return false;
        }
        match key.owner {
            AttachmentOwner::Node(k) => g.set_node_attachment(k.local_id, None),
            AttachmentOwner::Edge(k) => g.set_edge_attachment(k.local_id, None),
        }
        hook::upsert_instance(&mut reduced, inst.clone(), g);
    }
    state_str(&reduced) == state_str(a) && well_formed(a) && well_formed(b)
}

/// Portal invariants + referential integrity, decided by the REAL validator: a no-op
/// `UpsertWarpInstance` of an existing instance triggers `validate_portal_invariants`.
fn well_formed(st: &WarpState) -> bool {
    let insts = hook::instances(st);
    let stores = hook::stores(st);
    if insts.len() != stores.len() {
        return false;
    }
    for (_, g) in &stores {
        for (_, es) in g.iter_edges() {
            for e in es {
                if g.node(&e.from).is_none() || g.node(&e.to).is_none() {
                    return false;
                }
            }
        }
    }
    for i in &insts {
        match st.store(&i.warp_id) {
            Some(g) if g.node(&i.root_node).is_some() => {}
            _ => return false,
        }
    }
    match insts.first() {
        None => true,
        Some(i) => {
            let mut c = st.clone();
            hook::apply_ops(&mut c, &[WarpOp::UpsertWarpInstance { instance: i.clone() }]).is_ok()
        }
    }
}

fn clip(s: &str) -> String {
    // keep failure texts readable: drop leading zeros of ids
    let short: Vec<String> = s.split(' ').map(|t| if t.len() == 64 { t.trim_start_matches('0').to_string() } else { t.to_string() }).collect();
    short.join(" ").chars().take(600).collect()
}

// ------------------------------------------------------------------ C04.pair  <stateA> <stateB>

fn imp_pair(t: &mut Toks) -> Result<String, String> {
    let a = parse_state(t)?;
    let b = parse_state(t)?;
    if !t.done() {
        return Err("trailing tokens".into());
    }
    let ops = hook::diff_state(&a, &b);
    let digest = bare_patch(&ops).digest();
    let mut c = a.clone();
    let res = hook::apply_ops(&mut c, &ops);
    Ok(format!("ops {} ; digest {} ; {}", ops_str(&ops), hex(&digest), res_str(&res, &c)))
}

fn oracle_pair(t: &mut Toks, _tier: Tier) -> Result<OracleOut, String> {
    let a = parse_state(t)?;
    let b = parse_state(t)?;
    let mut o = OracleOut::default();
    let ops = hook::diff_state(&a, &b);
    // (1) the diff as returned, applied to a clone of `a`
    let mut c = a.clone();
    let res = hook::apply_ops(&mut c, &ops);
    let patch = bare_patch(&ops);
    let want = state_str(&b);
    match &res {
        Ok(()) => {
            let got = state_str(&c);
            if got != want {
                o.fails.push((format!("C04.replay-differs.{}", classify(&got, &want)), format!("apply(diff(a,b), a) returned Ok but the state differs from b: got [{}] want [{}]", clip(&got), clip(&want))));
            } else {
                // state roots from every instance root must agree as well
                for inst in hook::instances(&b) {
                    let key = NodeKey { warp_id: inst.warp_id, local_id: inst.root_node };
                    let (rc, rb) = (root_of(&c, &key), root_of(&b, &key));
                    if rc != rb {
                        o.fails.push(("C04.replay-root-differs".into(), "equal dumps but different state roots".into()));
                    }
                    if rc.is_none() {
                        o.tags.push("state-root-panics(dangling-portal)".into());
                    }
                }
            }
            o.tags.push("apply-ok".into());
        }
        Err(e) => {
            o.tags.push(format!("apply-err:{}", err_class(e)));
            if well_formed(&a) && well_formed(&b) {
                o.tags.push(format!("wf-pair-err:{}", err_class(e)));
            }
            if pure_portal_growth(&a, &b) {
                o.fails.push((format!("C04.portal-open-not-replayable:{}", err_class(e)), format!("b = a + new child instances on free slots of existing owners, yet the diff {} does not replay", clip(&ops_str(&ops)))));
            }
        }
    }
    if pure_portal_growth(&a, &b) {
        o.tags.push("pure-portal-growth".into());
    }
    // (2) in-place semantics and the other public surfaces
    check_inplace(&mut o, "apply", &a, &ops, &res, &c);
    check_surfaces(&mut o, &a, patch.ops(), &res, &c);
    if patch.ops() != ops.as_slice() {
        o.fails.push(("C04.diff-not-canonical".into(), "diff_state output is changed by WarpTickPatchV1::new (not sorted / has duplicate keys)".into()));
    }
    if patch.validate_digest().is_err() {
        o.fails.push(("C04.patch-digest-invalid".into(), "validate_digest fails on a freshly built patch".into()));
    }
    // (3) identical states <=> empty diff (on dumps)
    if ops.is_empty() != (state_str(&a) == want) {
        o.fails.push(("C04.diff-empty-mismatch".into(), format!("diff is {} but the dumps are {}", if ops.is_empty() { "empty" } else { "non-empty" }, if state_str(&a) == want { "equal" } else { "different" })));
    }
    if well_formed(&a) && well_formed(&b) {
        o.tags.push("wf-pair".into());
    }
    if hook::stores(&a).len() > 1 || hook::stores(&b).len() > 1 {
        o.tags.push("multi-instance".into());
    }
    for op in &ops {
        o.tags.push(op_tag(op).into());
    }
    o.tags.sort();
    o.tags.dedup();
    o.nontrivial = ops.len() >= 2;
    Ok(o)
}

/// Which part of the dump differs (for specific finding keys).
fn classify(got: &str, want: &str) -> &'static str {
    let sect = |s: &str, kw: &str| -> Vec<String> {
        // crude: collect the text following each occurrence of the keyword up to the next keyword
        let kws = ["nodes", "natts", "edges", "eatts", "warps"];
        let toks: Vec<&str> = s.split_whitespace().collect();
        let mut out = Vec::new();
        let mut i = 0;
        while i < toks.len() {
            if toks[i] == kw {
                let mut j = i + 1;
                let mut cur = String::new();
                while j < toks.len() && !kws.contains(&toks[j]) {
                    cur.push_str(toks[j]);
                    cur.push(' ');
                    j += 1;
                }
                out.push(cur);
                i = j;
            } else {
                i += 1;
            }
        }
        out
    };
    if sect(got, "nodes") != sect(want, "nodes") {
        "nodes"
    } else if sect(got, "edges") != sect(want, "edges") {
        "edges"
    } else if sect(got, "natts") != sect(want, "natts") {
        "node-attachments"
    } else if sect(got, "eatts") != sect(want, "eatts") {
        "edge-attachments"
    } else {
        "instances"
    }
}

// ---------------------------------------------------------------- pair generators

const A1: u64 = 0xA1;

fn atom(rng: &mut Rng) -> GAtt {
    GAtt::Atom(0x70 + rng.below(2), (0..rng.below(3)).map(|_| *rng.pick(&[0u8, 1, 0xff])).collect())
}

/// Root warp with nodes 1..=k (k in 2..=3), two edges, a few atoms.
fn base_root(rng: &mut Rng) -> GWarp {
    let mut w = GWarp { id: A1, root: 1, ..Default::default() };
    let k = rng.range(2, 3);
    for i in 1..=k {
        w.nodes.insert(i, 0x10 + rng.below(2));
    }
    w.edges.insert(0x21, (1, 2, 0x30));
    if rng.chance(2, 3) {
        w.edges.insert(0x22, (2, rng.range(1, k), 0x30 + rng.below(2)));
    }
    if rng.chance(1, 3) {
        w.natts.insert(2, atom(rng));
    }
    if rng.chance(1, 3) {
        w.eatts.insert(0x22, atom(rng));
        if !w.edges.contains_key(&0x22) {
            w.eatts.remove(&0x22);
        }
    }
    w
}

fn small_body(rng: &mut Rng, id: u64, parent: Option<(bool, u64, u64)>) -> GWarp {
    let mut w = GWarp { id, root: 1, parent, ..Default::default() };
    w.nodes.insert(1, 0x10 + rng.below(2));
    if rng.chance(2, 3) {
        w.nodes.insert(2, 0x10);
        w.edges.insert(0x21, (1, 2, 0x30));
        if rng.chance(1, 3) {
            w.eatts.insert(0x21, atom(rng));
        }
    }
    if rng.chance(1, 3) {
        w.natts.insert(1, atom(rng));
    }
    w
}

/// Hangs `child` off the slot (is_edge, pw, pi): sets the Descend attachment and the parent link.
fn attach(st: &mut GState, mut child: GWarp, is_edge: bool, pw: u64, pi: u64) {
    child.parent = Some((is_edge, pw, pi));
    let p = st.warps.get_mut(&pw).unwrap();
    if is_edge {
        p.eatts.insert(pi, GAtt::Descend(child.id));
    } else {
        p.natts.insert(pi, GAtt::Descend(child.id));
    }
    st.warps.insert(child.id, child);
}

fn one(w: GWarp) -> GState {
    let mut st = GState::default();
    st.warps.insert(w.id, w);
    st
}

const N_SCEN: u64 = 22;

/// Hand-shaped adversarial pairs. Returns (a, b).
fn scenario(rng: &mut Rng, k: u64) -> (GState, GState) {
    let root = base_root(rng);
    let a0 = one(root);
    match k {
        0 => {
            // portal chain A1 -> A2 (node slot) -> A3 (edge slot) -> A4 (node slot), all new
            let mut b = a0.clone();
            attach(&mut b, small_body(rng, 0xA2, None), false, A1, 2);
            let mut c2 = b.warps[&0xA2].clone();
            c2.nodes.insert(2, 0x10);
            c2.edges.insert(0x21, (1, 2, 0x30));
            c2.eatts.remove(&0x21);
            b.warps.insert(0xA2, c2);
            attach(&mut b, small_body(rng, 0xA3, None), true, 0xA2, 0x21);
            if rng.chance(1, 2) {
                let mut c3 = b.warps[&0xA3].clone();
                c3.natts.remove(&1);
                b.warps.insert(0xA3, c3);
                attach(&mut b, small_body(rng, 0xA4, None), false, 0xA3, 1);
            }
            (a0, b)
        }
        1 => {
            // chain partially present in a, extended in b; and the reverse (chain torn down)
            let mut a = a0.clone();
            attach(&mut a, small_body(rng, 0xA2, None), true, A1, 0x21);
            let mut b = a.clone();
            let mut c2 = b.warps[&0xA2].clone();
            c2.natts.remove(&1);
            b.warps.insert(0xA2, c2);
            attach(&mut b, small_body(rng, 0xA3, None), false, 0xA2, 1);
            if rng.chance(1, 2) {
                (a, b)
            } else {
                (b, a)
            }
        }
        2 => {
            // new instance whose parent owner (node or edge) is itself new in b
            let mut b = a0.clone();
            let w = b.warps.get_mut(&A1).unwrap();
            if rng.chance(1, 2) {
                w.nodes.insert(5, 0x11);
                attach(&mut b, small_body(rng, 0xA2, None), false, A1, 5);
            } else {
                w.edges.insert(0x25, (1, 1, 0x31));
                attach(&mut b, small_body(rng, 0xA2, None), true, A1, 0x25);
            }
            (a0, b)
        }
        3 => {
            // parent-slot edge re-parented in the same pair, NEW child instance: the diff has OpenPortal +
            // DeleteEdge + UpsertEdge and no SetAttachment for the edge (expected: PortalInvariantViolation)
            let mut a = a0.clone();
            {
                let w = a.warps.get_mut(&A1).unwrap();
                match rng.below(3) {
                    0 => {
                        w.eatts.insert(0x21, atom(rng));
                    }
                    _ => {
                        w.eatts.remove(&0x21);
                    }
                }
            }
            let mut b = a.clone();
            let w = b.warps.get_mut(&A1).unwrap();
            let (f, to, ty) = w.edges[&0x21];
            let others: Vec<u64> = w.nodes.keys().copied().filter(|n| *n != f).collect();
            let nf = *rng.pick(&others);
            let nto = if rng.chance(1, 3) { *rng.pick(&others) } else { to };
            w.edges.insert(0x21, (nf, nto, ty + rng.below(2)));
            attach(&mut b, small_body(rng, 0xA2, None), true, A1, 0x21);
            if rng.chance(1, 4) {
                // a second new child on a node slot of the same warp
                b.warps.get_mut(&A1).unwrap().natts.remove(&1);
                attach(&mut b, small_body(rng, 0xA3, None), false, A1, 1);
            }
            (a, b)
        }
        4 => {
            // parent-slot edge re-parented, SURVIVING child instance (the edge keeps id + Descend)
            let mut a = a0.clone();
            attach(&mut a, small_body(rng, 0xA2, None), true, A1, 0x21);
            let mut b = a.clone();
            let w = b.warps.get_mut(&A1).unwrap();
            let (_, to, ty) = w.edges[&0x21];
            w.edges.insert(0x21, (2, to, ty + rng.below(2)));
            if rng.chance(1, 3) {
                // and the child changes too
                b.warps.get_mut(&0xA2).unwrap().nodes.insert(3, 0x12);
            }
            (a, b)
        }
        5 => {
            // instance created without a portal (parent None); and the reverse
            let mut b = a0.clone();
            b.warps.insert(0xA2, small_body(rng, 0xA2, None));
            if rng.chance(1, 2) {
                (a0, b)
            } else {
                (b, a0)
            }
        }
        6 => {
            // deleted instance: slot cleared / slot left dangling / slot replaced by an atom / owner deleted
            let mut a = a0.clone();
            let on_edge = rng.chance(1, 2);
            if on_edge {
                attach(&mut a, small_body(rng, 0xA2, None), true, A1, 0x21);
            } else {
                a.warps.get_mut(&A1).unwrap().nodes.insert(4, 0x10);
                attach(&mut a, small_body(rng, 0xA2, None), false, A1, 4);
            }
            let mut b = a.clone();
            b.warps.remove(&0xA2);
            let w = b.warps.get_mut(&A1).unwrap();
            match rng.below(4) {
                0 => {
                    if on_edge {
                        w.eatts.remove(&0x21);
                    } else {
                        w.natts.remove(&4);
                    }
                }
                1 => {} // dangling Descend stays
                2 => {
                    let v = atom(rng);
                    if on_edge {
                        w.eatts.insert(0x21, v);
                    } else {
                        w.natts.insert(4, v);
                    }
                }
                _ => {
                    if on_edge {
                        w.edges.remove(&0x21);
                        w.eatts.remove(&0x21);
                    } else {
                        w.nodes.remove(&4);
                        w.natts.remove(&4);
                    }
                }
            }
            (a, b)
        }
        7 => {
            // re-rooted surviving instance
            let mut a = a0.clone();
            let mut c = small_body(rng, 0xA2, None);
            c.nodes.insert(2, 0x10);
            attach(&mut a, c, false, A1, 2);
            let mut b = a.clone();
            b.warps.get_mut(&0xA2).unwrap().root = 2;
            if rng.chance(1, 2) {
                // the old root disappears
                let c = b.warps.get_mut(&0xA2).unwrap();
                c.nodes.remove(&1);
                c.natts.remove(&1);
                c.edges.clear();
                c.eatts.clear();
            }
            if rng.chance(1, 4) {
                // also re-root the ROOT instance
                b.warps.get_mut(&A1).unwrap().root = 2;
            }
            (a, b)
        }
        8 => {
            // re-parented surviving instance: node slot -> other node slot / edge slot; old slot cleared or atom
            let mut a = a0.clone();
            a.warps.get_mut(&A1).unwrap().natts.remove(&1);
            attach(&mut a, small_body(rng, 0xA2, None), false, A1, 1);
            let mut b = a.clone();
            let w = b.warps.get_mut(&A1).unwrap();
            w.natts.remove(&1);
            if rng.chance(1, 3) {
                w.natts.insert(1, atom(rng));
            }
            let c = b.warps[&0xA2].clone();
            if rng.chance(1, 2) {
                attach(&mut b, c, false, A1, 2);
            } else {
                attach(&mut b, c, true, A1, 0x21);
            }
            (a, b)
        }
        9 => {
            // delete-then-recreate: same warp id, different content (and back)
            let mut a = a0.clone();
            attach(&mut a, small_body(rng, 0xA2, None), false, A1, 2);
            let mut b = a.clone();
            let mut c = GWarp { id: 0xA2, root: 1, parent: Some((false, A1, 2)), ..Default::default() };
            c.nodes.insert(1, 0x12);
            c.nodes.insert(3, 0x11);
            c.edges.insert(0x21, (3, 1, 0x31));
            c.edges.insert(0x23, (1, 3, 0x30));
            c.eatts.insert(0x23, atom(rng));
            c.natts.insert(3, atom(rng));
            b.warps.insert(0xA2, c);
            if rng.chance(1, 2) {
                (a, b)
            } else {
                (b, a)
            }
        }
        10 => {
            // same node / edge ids with different content in the root warp, and back
            let mut b = a0.clone();
            let w = b.warps.get_mut(&A1).unwrap();
            w.nodes.insert(2, 0x13);
            w.natts.insert(2, atom(rng));
            w.edges.insert(0x21, (2, 1, 0x31));
            w.eatts.insert(0x21, atom(rng));
            if rng.chance(1, 2) {
                (a0, b)
            } else {
                (b, a0)
            }
        }
        11 => {
            // edge re-type / re-target / re-parent, with and without attachments
            let mut a = a0.clone();
            let with_att = rng.chance(1, 2);
            if with_att {
                a.warps.get_mut(&A1).unwrap().eatts.insert(0x21, atom(rng));
            } else {
                a.warps.get_mut(&A1).unwrap().eatts.remove(&0x21);
            }
            let mut b = a.clone();
            let w = b.warps.get_mut(&A1).unwrap();
            let (f, to, ty) = w.edges[&0x21];
            match rng.below(5) {
                0 => {
                    w.edges.insert(0x21, (f, to, ty + 1));
                }
                1 => {
                    w.edges.insert(0x21, (f, 1, ty));
                }
                2 => {
                    w.edges.insert(0x21, (2, to, ty));
                }
                3 => {
                    // re-parent and change the attachment
                    w.edges.insert(0x21, (2, to, ty));
                    w.eatts.insert(0x21, atom(rng));
                }
                _ => {
                    // re-parent and clear the attachment
                    w.edges.insert(0x21, (2, 1, ty + 1));
                    w.eatts.remove(&0x21);
                }
            }
            (a, b)
        }
        12 => {
            // the same inside a child instance
            let mut a = a0.clone();
            let mut c = small_body(rng, 0xA2, None);
            c.nodes.insert(2, 0x10);
            c.edges.insert(0x21, (1, 2, 0x30));
            c.eatts.insert(0x21, atom(rng));
            attach(&mut a, c, false, A1, 2);
            let mut b = a.clone();
            let c = b.warps.get_mut(&0xA2).unwrap();
            c.edges.insert(0x21, (2, 2, 0x30 + rng.below(2)));
            if rng.chance(1, 3) {
                c.eatts.remove(&0x21);
            }
            (a, b)
        }
        13 => {
            // attachment kind flip Atom <-> Descend on the same slot (child appears / disappears)
            let mut a = a0.clone();
            let on_edge = rng.chance(1, 2);
            if on_edge {
                a.warps.get_mut(&A1).unwrap().eatts.insert(0x21, atom(rng));
            } else {
                a.warps.get_mut(&A1).unwrap().natts.insert(2, atom(rng));
            }
            let mut b = a.clone();
            attach(&mut b, small_body(rng, 0xA2, None), on_edge, A1, if on_edge { 0x21 } else { 2 });
            if rng.chance(1, 5) {
                // flip without the instance: dangling portal
                b.warps.remove(&0xA2);
            }
            if rng.chance(1, 2) {
                (a, b)
            } else {
                (b, a)
            }
        }
        14 => {
            // node deletion whose incident edges survive in b (dangling) -> NodeNotIsolated
            let mut b = a0.clone();
            let w = b.warps.get_mut(&A1).unwrap();
            w.nodes.remove(&2);
            if rng.chance(1, 2) {
                w.natts.remove(&2);
            }
            (a0, b)
        }
        15 => {
            // dangling edges appear in b
            let mut b = a0.clone();
            let w = b.warps.get_mut(&A1).unwrap();
            w.edges.insert(0x24, (rng.range(1, 2), 9, 0x30));
            if rng.chance(1, 2) {
                w.eatts.insert(0x24, atom(rng));
            }
            (a0, b)
        }
        16 => {
            // two children swap their parent slots
            let mut a = a0.clone();
            a.warps.get_mut(&A1).unwrap().natts.clear();
            attach(&mut a, small_body(rng, 0xA2, None), false, A1, 1);
            attach(&mut a, small_body(rng, 0xA3, None), false, A1, 2);
            let mut b = a.clone();
            let (c2, c3) = (b.warps[&0xA2].clone(), b.warps[&0xA3].clone());
            attach(&mut b, c2, false, A1, 2);
            attach(&mut b, c3, false, A1, 1);
            (a, b)
        }
        17 => {
            // child replaced by another child on the same slot
            let mut a = a0.clone();
            attach(&mut a, small_body(rng, 0xA2, None), false, A1, 2);
            let mut b = a.clone();
            b.warps.remove(&0xA2);
            attach(&mut b, small_body(rng, 0xA3, None), false, A1, 2);
            (a, b)
        }
        18 => {
            // delete a parent instance together with its whole sub-chain
            let mut a = a0.clone();
            let mut c2 = small_body(rng, 0xA2, None);
            c2.natts.remove(&1);
            attach(&mut a, c2, false, A1, 2);
            attach(&mut a, small_body(rng, 0xA3, None), false, 0xA2, 1);
            let mut b = a.clone();
            b.warps.remove(&0xA2);
            b.warps.remove(&0xA3);
            b.warps.get_mut(&A1).unwrap().natts.remove(&2);
            if rng.chance(1, 3) {
                // orphan: the grandchild survives
                b.warps.insert(0xA3, a.warps[&0xA3].clone());
            }
            (a, b)
        }
        19 => {
            // portal owner node deleted together with the child; incident edges deleted as well
            let mut a = a0.clone();
            a.warps.get_mut(&A1).unwrap().nodes.insert(4, 0x10);
            a.warps.get_mut(&A1).unwrap().edges.insert(0x23, (1, 4, 0x30));
            attach(&mut a, small_body(rng, 0xA2, None), false, A1, 4);
            let mut b = a.clone();
            b.warps.remove(&0xA2);
            let w = b.warps.get_mut(&A1).unwrap();
            w.nodes.remove(&4);
            w.natts.remove(&4);
            w.edges.remove(&0x23);
            w.eatts.remove(&0x23);
            if rng.chance(1, 2) {
                (a, b)
            } else {
                (b, a)
            }
        }
        20 => {
            // new child whose root node carries content / whose parent key points into another child
            let mut b = a0.clone();
            attach(&mut b, small_body(rng, 0xA2, None), false, A1, 2);
            let mut c3 = small_body(rng, 0xA3, None);
            c3.root = 2;
            c3.nodes.insert(2, 0x11);
            let mut c2 = b.warps[&0xA2].clone();
            c2.natts.remove(&1);
            b.warps.insert(0xA2, c2);
            attach(&mut b, c3, false, 0xA2, 1);
            (a0, b)
        }
        _ => {
            // new instance with a parent key but the slot does not point to it (orphan / wrong target)
            let mut b = a0.clone();
            let mut c = small_body(rng, 0xA2, None);
            c.parent = Some((rng.chance(1, 2), A1, if rng.chance(1, 2) { 2 } else { 0x21 }));
            b.warps.insert(0xA2, c);
            if rng.chance(1, 2) {
                b.warps.get_mut(&A1).unwrap().natts.insert(2, GAtt::Descend(0xA3));
            }
            (a0, b)
        }
    }
}

/// Small enumerated universe for the exhaustive tier: one root warp A1 (nodes {1} or {1,2}), one edge id
/// 0x21 (absent | 1->1 | 1->2 | 2->1 | 1->2 retyped) with attachment none/atom/descend, node-1 attachment
/// none/atom/descend, child A2 absent / parent = node slot / parent = edge slot / no parent.
fn universe() -> Vec<GState> {
    let mut out = Vec::new();
    for two_nodes in [false, true] {
        let edge_opts: Vec<Option<(u64, u64, u64)>> = if two_nodes {
            vec![None, Some((1, 2, 0x30)), Some((2, 1, 0x30)), Some((1, 2, 0x31))]
        } else {
            vec![None, Some((1, 1, 0x30))]
        };
        for e in &edge_opts {
            let eatt_opts: Vec<Option<GAtt>> = if e.is_some() {
                vec![None, Some(GAtt::Atom(0x70, vec![1])), Some(GAtt::Descend(0xA2))]
            } else {
                vec![None]
            };
            for ea in &eatt_opts {
                for na in [None, Some(GAtt::Atom(0x70, vec![1])), Some(GAtt::Descend(0xA2))] {
                    for child in 0..4u64 {
                        let mut w = GWarp { id: A1, root: 1, ..Default::default() };
                        w.nodes.insert(1, 0x10);
                        if two_nodes {
                            w.nodes.insert(2, 0x10);
                        }
                        if let Some(rec) = e {
                            w.edges.insert(0x21, *rec);
                        }
                        if let Some(v) = ea {
                            w.eatts.insert(0x21, v.clone());
                        }
                        if let Some(v) = &na {
                            w.natts.insert(1, v.clone());
                        }
                        let mut st = one(w);
                        if child > 0 {
                            let mut c = GWarp { id: 0xA2, root: 1, ..Default::default() };
                            c.nodes.insert(1, 0x11);
                            c.parent = match child {
                                1 => Some((false, A1, 1)),
                                2 => Some((true, A1, 0x21)),
                                _ => None,
                            };
                            st.warps.insert(0xA2, c);
                        }
                        out.push(st);
                    }
                }
            }
        }
    }
    out
}

fn gen_pair(rng: &mut Rng, tier: Tier) -> Vec<String> {
    let thorough = tier == Tier::Thorough;
    let mut out = Vec::new();
    // (1) hand-shaped scenarios, optionally with a little random noise on b
    let per = if thorough { 60 } else { 16 };
    for k in 0..N_SCEN {
        // the re-parented parent-slot edge with a NEW child is the one sub-case outside the replay theorem
        let per = if k == 3 { per * 5 } else { per };
        for r in 0..per {
            let (a, mut b) = scenario(rng, k);
            if r % 4 == 3 {
                let n = rng.range(1, 2);
                b = mutate_state(rng, &b, n, false);
            }
            out.push(format!("{} {}", a.dump(), b.dump()));
            if r % 5 == 4 {
                // a -> b -> a
                out.push(format!("{} {}", b.dump(), a.dump()));
            }
        }
    }
    // (2) random states / random edits (as before)
    let n = if thorough { 4000 } else { 280 };
    for case in 0..n {
        let children = case % 3 != 0;
        let a = gen_state(rng, 4, 3, children);
        let b = match case % 5 {
            0 => gen_state(rng, 4, 3, children), // unrelated state
            1 => a.clone(),                      // identical
            _ => {
                let k = rng.range(1, 4);
                mutate_state(rng, &a, k, children) // a few edits
            }
        };
        out.push(format!("{} {}", a.dump(), b.dump()));
    }
    // (3) the enumerated universe: all ordered pairs (thorough) / a random sample (quick)
    let u = universe();
    if thorough {
        for a in &u {
            for b in &u {
                out.push(format!("{} {}", a.dump(), b.dump()));
            }
        }
    } else {
        for _ in 0..220 {
            let a = rng.pick(&u);
            let b = rng.pick(&u);
            out.push(format!("{} {}", a.dump(), b.dump()));
        }
    }
    out
}

// ------------------------------------------------------------------ C04.apply  <state> <ops>

fn imp_apply(t: &mut Toks) -> Result<String, String> {
    let mut a = parse_state(t)?;
    let ops = parse_ops(t)?;
    if !t.done() {
        return Err("trailing tokens".into());
    }
    let res = hook::apply_ops(&mut a, &ops);
    Ok(res_str(&res, &a))
}

fn oracle_apply(t: &mut Toks, _tier: Tier) -> Result<OracleOut, String> {
    let a = parse_state(t)?;
    let ops = parse_ops(t)?;
    let mut o = OracleOut::default();
    let mut c = a.clone();
    let r = hook::apply_ops(&mut c, &ops);
    // determinism: re-run and compare
    let mut c2 = a.clone();
    let r2 = hook::apply_ops(&mut c2, &ops);
    if r.is_ok() != r2.is_ok() || state_str(&c) != state_str(&c2) {
        o.fails.push(("C04.apply-nondeterministic".into(), "two applications of the same ops differ".into()));
    }
    check_inplace(&mut o, "apply", &a, &ops, &r, &c);
    // the public surfaces run the CANONICAL form of the list
    let canon = bare_patch(&ops);
    let mut c3 = a.clone();
    let r3 = hook::apply_ops(&mut c3, canon.ops());
    check_inplace(&mut o, "apply", &a, canon.ops(), &r3, &c3);
    check_surfaces(&mut o, &a, canon.ops(), &r3, &c3);
    match &r {
        Ok(()) => o.tags.push("apply-ok".into()),
        Err(e) => o.tags.push(format!("apply-err:{}", err_class(e))),
    }
    for op in &ops {
        o.tags.push(op_tag(op).into());
    }
    o.tags.sort();
    o.tags.dedup();
    o.nontrivial = ops.len() >= 2;
    Ok(o)
}

fn gen_op(rng: &mut Rng, st: &GState) -> String {
    let wids: Vec<u64> = st.warps.keys().copied().collect();
    let w = if rng.chance(1, 12) { 0xEE } else { *rng.pick(&wids) };
    let node = rng.range(1, 5);
    let edge = 0x20 + rng.range(1, 4);
    let key = |rng: &mut Rng| -> String {
        let tag = match rng.below(10) {
            0 => "nb",
            1 => "ea",
            2..=5 => "na",
            _ => "eb",
        };
        let local = if tag.starts_with('n') { node } else { edge };
        format!("{tag} {} {}", sid(w), sid(local))
    };
    let att = |rng: &mut Rng| -> String {
        match rng.below(5) {
            0 => "-".to_string(),
            1 => format!("d {}", sid(0xA2 + rng.below(2))),
            _ => {
                let n = rng.below(3) as usize;
                format!("a {} {}", sid(0x70 + rng.below(2)), crate::util::hex(&rng.bytes(n)))
            }
        }
    };
    match rng.below(9) {
        0 => format!("UN {} {} {}", sid(w), sid(node), sid(0x10 + rng.below(3))),
        1 => format!("DN {} {}", sid(w), sid(node)),
        2 => format!("UE {} {} {} {} {}", sid(w), sid(edge), sid(rng.range(1, 5)), sid(rng.range(1, 5)), sid(0x30 + rng.below(2))),
        3 => format!("DE {} {} {}", sid(w), sid(rng.range(1, 5)), sid(edge)),
        4 | 5 => format!("SA {} {}", key(rng), att(rng)),
        6 => format!(
            "OP {} {} {} {}",
            key(rng),
            sid(0xA2 + rng.below(3)),
            sid(rng.range(1, 2)),
            if rng.chance(2, 3) { format!("E {}", sid(0x10 + rng.below(2))) } else { "R".into() }
        ),
        7 => format!(
            "UI {} {} {}",
            sid(0xA2 + rng.below(3)),
            sid(1),
            if rng.chance(1, 2) { "-".to_string() } else { key(rng) }
        ),
        _ => format!("DI {}", sid(0xA1 + rng.below(4))),
    }
}

fn gen_apply(rng: &mut Rng, tier: Tier) -> Vec<String> {
    let n = if tier == Tier::Thorough { 6000 } else { 450 };
    let mut out = Vec::new();
    for case in 0..n {
        let a = gen_state(rng, 4, 3, case % 2 == 0);
        let k = if case % 7 == 0 { rng.range(5, 9) } else { rng.range(1, 5) };
        let mut line = format!("{} {k}", a.dump());
        for _ in 0..k {
            line.push(' ');
            line.push_str(&gen_op(rng, &a));
        }
        out.push(line);
    }
    // canonical diffs of scenario pairs with one op dropped / duplicated / moved: long runs of succeeding
    // ops followed by a failure (partial state on error)
    let m = if tier == Tier::Thorough { 1500 } else { 150 };
    for i in 0..m {
        let (a, b) = scenario(rng, i % N_SCEN);
        let ad = a.dump();
        let bd = b.dump();
        let mut t = Toks::new(&ad);
        let sa = match parse_state(&mut t) {
            Ok(s) => s,
            Err(_) => continue,
        };
        let mut t2 = Toks::new(&bd);
        let sb = match parse_state(&mut t2) {
            Ok(s) => s,
            Err(_) => continue,
        };
        let mut ops: Vec<String> = hook::diff_state(&sa, &sb).iter().map(op_str).collect();
        if ops.is_empty() {
            continue;
        }
        match rng.below(4) {
            0 => {
                let j = rng.below(ops.len() as u64) as usize;
                ops.remove(j);
            }
            1 => {
                let j = rng.below(ops.len() as u64) as usize;
                let x = ops.remove(j);
                ops.push(x);
            }
            2 => ops.reverse(),
            _ => {
                let extra = gen_op(rng, &a);
                let j = rng.below(ops.len() as u64 + 1) as usize;
                ops.insert(j, extra);
            }
        }
        out.push(format!("{} {} {}", a.dump(), ops.len(), ops.join(" ")));
    }
    out
}

// ------------------------------------------------------------------ C04.patch

fn parse_slot(t: &mut Toks) -> Result<SlotId, String> {
    match t.next()? {
        "N" => Ok(SlotId::Node(NodeKey { warp_id: WarpId(t.id()?), local_id: NodeId(t.id()?) })),
        "E" => Ok(SlotId::Edge(EdgeKey { warp_id: WarpId(t.id()?), local_id: warp_core::EdgeId(t.id()?) })),
        "A" => Ok(SlotId::Attachment(parse_key(t)?)),
        "P" => {
            let w = WarpId(t.id()?);
            Ok(SlotId::Port((w, t.num()?)))
        }
        x => Err(format!("bad slot tag {x}")),
    }
}

fn parse_slots(t: &mut Toks) -> Result<Vec<SlotId>, String> {
    let n = t.num()?;
    (0..n).map(|_| parse_slot(t)).collect()
}

fn slot_str(s: &SlotId) -> String {
    match s {
        SlotId::Node(k) => format!("N {} {}", hex(&k.warp_id.0), hex(&k.local_id.0)),
        SlotId::Edge(k) => format!("E {} {}", hex(&k.warp_id.0), hex(&k.local_id.0)),
        SlotId::Attachment(k) => format!("A {}", key_str(k)),
        SlotId::Port((w, p)) => format!("P {} {}", hex(&w.0), p),
    }
}

fn slots_str(ss: &[SlotId]) -> String {
    let mut s = format!("{}", ss.len());
    for x in ss {
        s.push(' ');
        s.push_str(&slot_str(x));
    }
    s
}

struct PatchCase {
    policy: u32,
    rule_pack: [u8; 32],
    status: TickCommitStatus,
    ins: Vec<SlotId>,
    outs: Vec<SlotId>,
    ops: Vec<WarpOp>,
}

fn parse_patch_case(t: &mut Toks) -> Result<PatchCase, String> {
    let policy = u32::try_from(t.num()?).map_err(|_| "policy out of range".to_string())?;
    let rule_pack = t.id()?;
    let status = match t.num()? {
        1 => TickCommitStatus::Committed,
        2 => TickCommitStatus::Aborted,
        _ => return Err("bad status".into()),
    };
    let ins = parse_slots(t)?;
    let outs = parse_slots(t)?;
    let ops = parse_ops(t)?;
    if !t.done() {
        return Err("trailing tokens".into());
    }
    Ok(PatchCase { policy, rule_pack, status, ins, outs, ops })
}

fn build(c: &PatchCase) -> WarpTickPatchV1 {
    WarpTickPatchV1::new(c.policy, c.rule_pack, c.status, c.ins.clone(), c.outs.clone(), c.ops.clone())
}

fn imp_patch(t: &mut Toks) -> Result<String, String> {
    let c = parse_patch_case(t)?;
    let p = build(&c);
    Ok(format!("ops {} ; ins {} ; outs {} ; digest {}", ops_str(p.ops()), slots_str(p.in_slots()), slots_str(p.out_slots()), hex(&p.digest())))
}

fn flip(s: TickCommitStatus) -> TickCommitStatus {
    match s {
        TickCommitStatus::Committed => TickCommitStatus::Aborted,
        TickCommitStatus::Aborted => TickCommitStatus::Committed,
    }
}

fn oracle_patch(t: &mut Toks, tier: Tier) -> Result<OracleOut, String> {
    let c = parse_patch_case(t)?;
    let mut o = OracleOut::default();
    let p = build(&c);
    // canonical: strictly increasing sort keys, strictly increasing slots
    if !p.ops().windows(2).all(|w| w[0].sort_key() < w[1].sort_key()) {
        o.fails.push(("C04.patch-ops-not-canonical".into(), "ops of a new patch are not strictly increasing by sort_key".into()));
    }
    if !p.in_slots().windows(2).all(|w| w[0] < w[1]) || !p.out_slots().windows(2).all(|w| w[0] < w[1]) {
        o.fails.push(("C04.patch-slots-not-canonical".into(), "slots of a new patch are not strictly increasing".into()));
    }
    // last wins: for every key the surviving op is the LAST input op with that key; nothing invented
    for op in p.ops() {
        let last = c.ops.iter().rev().find(|x| x.sort_key() == op.sort_key());
        if last != Some(op) {
            o.fails.push(("C04.patch-new-not-last-wins".into(), format!("surviving op {} is not the last input op with its key", op_str(op))));
        }
    }
    for op in &c.ops {
        if !p.ops().iter().any(|x| x.sort_key() == op.sort_key()) {
            o.fails.push(("C04.patch-new-loses-key".into(), format!("no op with the key of {} survives", op_str(op))));
        }
    }
    // idempotent
    let p2 = WarpTickPatchV1::new(p.policy_id(), p.rule_pack_id(), p.commit_status(), p.in_slots().to_vec(), p.out_slots().to_vec(), p.ops().to_vec());
    if p2 != p {
        o.fails.push(("C04.patch-new-not-idempotent".into(), "new(patch fields) differs from the patch".into()));
    }
    if p.validate_digest().is_err() {
        o.fails.push(("C04.patch-digest-invalid".into(), "validate_digest fails on a freshly built patch".into()));
    }
    // order independence: interleave the per-key groups (relative order inside a group kept), shuffle slots
    let mut rng = Rng::new(c.ops.len() as u64 * 131 + c.ins.len() as u64 * 7 + u64::from(c.policy));
    let rounds = if tier == Tier::Thorough { 6 } else { 3 };
    for _ in 0..rounds {
        let mut groups: Vec<std::collections::VecDeque<WarpOp>> = Vec::new();
        for op in &c.ops {
            match groups.iter_mut().find(|g| g[0].sort_key() == op.sort_key()) {
                Some(g) => g.push_back(op.clone()),
                None => groups.push(std::collections::VecDeque::from(vec![op.clone()])),
            }
        }
        let mut ops2 = Vec::new();
        while !groups.is_empty() {
            let j = rng.below(groups.len() as u64) as usize;
            ops2.push(groups[j].pop_front().unwrap());
            if groups[j].is_empty() {
                groups.swap_remove(j);
            }
        }
        let mut ins2 = c.ins.clone();
        let mut outs2 = c.outs.clone();
        if !ins2.is_empty() {
            ins2.push(ins2[rng.below(ins2.len() as u64) as usize]);
        }
        if !outs2.is_empty() {
            outs2.push(outs2[rng.below(outs2.len() as u64) as usize]);
        }
        rng.shuffle(&mut ins2);
        rng.shuffle(&mut outs2);
        let q = WarpTickPatchV1::new(c.policy, c.rule_pack, c.status, ins2, outs2, ops2);
        if q != p {
            o.fails.push(("C04.patch-new-order-dependent".into(), "same ops/slots in another order (equal-key groups kept in order) give a different patch".into()));
            break;
        }
    }
    // digest sensitivity: any single field changed => different digest
    let d = p.digest();
    let mut variants: Vec<(&str, WarpTickPatchV1)> = vec![
        ("policy", WarpTickPatchV1::new(c.policy ^ 1, c.rule_pack, c.status, c.ins.clone(), c.outs.clone(), c.ops.clone())),
        ("policy-hi", WarpTickPatchV1::new(c.policy ^ 0x8000_0000, c.rule_pack, c.status, c.ins.clone(), c.outs.clone(), c.ops.clone())),
        ("status", WarpTickPatchV1::new(c.policy, c.rule_pack, flip(c.status), c.ins.clone(), c.outs.clone(), c.ops.clone())),
        ("rule-pack", {
            let mut rp = c.rule_pack;
            rp[(c.ops.len() * 5 + 3) % 32] ^= 0x10;
            WarpTickPatchV1::new(c.policy, rp, c.status, c.ins.clone(), c.outs.clone(), c.ops.clone())
        }),
    ];
    if !p.ops().is_empty() {
        let j = rng.below(p.ops().len() as u64) as usize;
        let mut ops = p.ops().to_vec();
        ops.remove(j);
        variants.push(("drop-op", WarpTickPatchV1::new(c.policy, c.rule_pack, c.status, c.ins.clone(), c.outs.clone(), ops)));
    }
    if !p.in_slots().is_empty() {
        let mut ins = p.in_slots().to_vec();
        ins.remove(rng.below(ins.len() as u64) as usize);
        variants.push(("drop-in-slot", WarpTickPatchV1::new(c.policy, c.rule_pack, c.status, ins, c.outs.clone(), c.ops.clone())));
    }
    if !p.out_slots().is_empty() {
        let mut outs = p.out_slots().to_vec();
        outs.remove(rng.below(outs.len() as u64) as usize);
        variants.push(("drop-out-slot", WarpTickPatchV1::new(c.policy, c.rule_pack, c.status, c.ins.clone(), outs, c.ops.clone())));
    }
    if p.in_slots() != p.out_slots() {
        variants.push(("swap-in-out", WarpTickPatchV1::new(c.policy, c.rule_pack, c.status, c.outs.clone(), c.ins.clone(), c.ops.clone())));
    }
    {
        // one extra op with a fresh key
        let mut ops = c.ops.clone();
        ops.push(WarpOp::DeleteWarpInstance { warp_id: WarpId(small_id(0xDEAD)) });
        variants.push(("add-op", WarpTickPatchV1::new(c.policy, c.rule_pack, c.status, c.ins.clone(), c.outs.clone(), ops)));
    }
    for (what, v) in variants {
        if v.digest() == d {
            o.fails.push((format!("C04.patch-digest-insensitive.{what}"), format!("changing {what} leaves the patch digest unchanged")));
        }
    }
    let dup = p.ops().len() < c.ops.len();
    let sorted = c.ops.windows(2).all(|w| w[0].sort_key() <= w[1].sort_key());
    if dup {
        o.tags.push("dup-keys".into());
    }
    if !sorted {
        o.tags.push("unsorted-input".into());
    }
    if p.in_slots().len() < c.ins.len() || p.out_slots().len() < c.outs.len() {
        o.tags.push("dup-slots".into());
    }
    for op in &c.ops {
        o.tags.push(op_tag(op).into());
    }
    o.tags.sort();
    o.tags.dedup();
    o.nontrivial = c.ops.len() >= 2;
    Ok(o)
}

fn gen_slot(rng: &mut Rng) -> String {
    let w = 0xA1 + rng.below(2);
    match rng.below(5) {
        0 => format!("N {} {}", sid(w), sid(rng.range(1, 3))),
        1 => format!("E {} {}", sid(w), sid(0x20 + rng.range(1, 2))),
        2 => format!("P {} {}", sid(w), *rng.pick(&[0u64, 1, 2, 255, 256, u64::MAX])),
        _ => {
            let tag = *rng.pick(&["na", "na", "eb", "eb", "nb", "ea"]);
            let local = if tag.starts_with('n') { rng.range(1, 3) } else { 0x20 + rng.range(1, 2) };
            format!("A {tag} {} {}", sid(w), sid(local))
        }
    }
}

fn gen_patch(rng: &mut Rng, tier: Tier) -> Vec<String> {
    let n = if tier == Tier::Thorough { 5000 } else { 420 };
    let mut out = Vec::new();
    for case in 0..n {
        let st = gen_state(rng, 3, 2, case % 2 == 0);
        let policy = match rng.below(5) {
            0 => 0,
            1 => 1,
            2 => u64::from(u32::MAX),
            3 => 0x0100_0000,
            _ => rng.below(1 << 32),
        };
        let rp = match rng.below(3) {
            0 => sid(0),
            1 => sid(rng.below(3)),
            _ => hex(&rng.bytes(32)),
        };
        let status = rng.range(1, 2);
        let slots = |rng: &mut Rng| -> String {
            let k = if rng.chance(1, 3) { 0 } else { rng.range(1, 6) };
            let mut s = format!("{k}");
            for _ in 0..k {
                s.push(' ');
                s.push_str(&gen_slot(rng));
            }
            s
        };
        let ins = slots(rng);
        let outs = slots(rng);
        let k = match case % 6 {
            0 => 0,
            1 => 1,
            _ => rng.range(2, 12),
        };
        let mut ops: Vec<String> = (0..k).map(|_| gen_op(rng, &st)).collect();
        // explicit duplicates of a key with a different payload, away from the original
        if !ops.is_empty() && rng.chance(1, 2) {
            let j = rng.below(ops.len() as u64) as usize;
            let toks: Vec<&str> = ops[j].split(' ').collect();
            let dup = match toks[0] {
                "UN" => format!("UN {} {} {}", toks[1], toks[2], sid(0x1F)),
                "UE" => format!("UE {} {} {} {} {}", toks[1], toks[2], toks[3], sid(9), sid(0x3F)),
                "SA" => format!("SA {} {} {} a {} 0102", toks[1], toks[2], toks[3], sid(0x7F)),
                "UI" => format!("UI {} {} -", toks[1], sid(7)),
                "OP" => format!("OP {} {} {} {} {} R", toks[1], toks[2], toks[3], sid(0xAF), sid(2)),
                _ => ops[j].clone(),
            };
            let pos = rng.below(ops.len() as u64 + 1) as usize;
            ops.insert(pos, dup);
        }
        if case % 9 == 4 {
            // already canonical input
            let mut parsed: Vec<WarpOp> = Vec::new();
            for s in &ops {
                let mut t = Toks::new(s);
                if let Ok(op) = parse_op(&mut t) {
                    parsed.push(op);
                }
            }
            ops = bare_patch(&parsed).ops().iter().map(op_str).collect();
        }
        out.push(format!("{policy} {rp} {status} {ins} {outs} {} {}", ops.len(), ops.join(" ")).trim_end().to_string());
    }
    out
}

// ------------------------------------------------------------------ C04.tick  (same case grammar as C01.tick)

#[derive(Clone)]
struct Cand {
    rule: &'static str,
    warp: WarpId,
    scope: NodeId,
}

struct TickCase {
    state: WarpState,
    root: NodeKey,
    kind: SchedulerKind,
    workers: usize,
    cands: Vec<Cand>,
}

fn parse_tick_case(t: &mut Toks) -> Result<TickCase, String> {
    let state = parse_state(t)?;
    let root = NodeKey { warp_id: WarpId(t.id()?), local_id: NodeId(t.id()?) };
    let kind = match t.next()? {
        "radix" => SchedulerKind::Radix,
        "legacy" => SchedulerKind::Legacy,
        x => return Err(format!("bad scheduler kind {x}")),
    };
    let workers = t.num()? as usize;
    let n = t.num()?;
    let mut cands = Vec::new();
    for _ in 0..n {
        let rule = match t.next()? {
            "a" => RULE_A,
            "b" => RULE_B,
            x => return Err(format!("bad rule {x}")),
        };
        let warp = WarpId(t.id()?);
        let scope = NodeId(t.id()?);
        let shash = t.id()?;
        let real = scope_hash(&interp::rule_id(rule), &NodeKey { warp_id: warp, local_id: scope });
        if real != shash {
            return Err("scope hash in the case line is not the real one".into());
        }
        cands.push(Cand { rule, warp, scope });
    }
    if !t.done() {
        return Err("trailing tokens".into());
    }
    Ok(TickCase { state, root, kind, workers, cands })
}

fn class(s: &str) -> String {
    s.chars().map(|c| if c.is_ascii_alphanumeric() || c == '_' || c == '-' || c == ':' { c } else { '_' }).take(90).collect()
}

enum TickRes {
    /// text as C01 prints it (`err …` / `panic …`), engine state after the failure, ledger length, snapshot parents
    Fail(String, Option<(WarpState, usize, bool)>),
    Ok { post: WarpState, patch: WarpTickPatchV1, snap_root: [u8; 32], snap_patch_digest: [u8; 32], jump: Result<WarpState, String>, ledger: usize },
}

fn run_tick(c: &TickCase) -> TickRes {
    let mut engine = match EngineBuilder::from_state(c.state.clone(), c.root).scheduler(c.kind).workers(c.workers).build() {
        Ok(e) => e,
        Err(e) => return TickRes::Fail(format!("err build:{}", class(&format!("{e:?}"))), None),
    };
    engine.register_rule(interp::rule(RULE_A)).unwrap();
    engine.register_rule(interp::rule(RULE_B)).unwrap();
    let tx = engine.begin();
    for cd in &c.cands {
        match engine.apply_in_warp(tx, cd.warp, cd.rule, &cd.scope, &[]) {
            Ok(ApplyResult::Applied | ApplyResult::NoMatch) => {}
            Err(e) => return TickRes::Fail(format!("err apply:{}", class(&format!("{e:?}"))), None),
        }
    }
    let res = std::panic::catch_unwind(std::panic::AssertUnwindSafe(|| engine.commit_with_receipt(tx)));
    match res {
        Err(p) => {
            let what = if p.downcast_ref::<warp_core::FootprintViolation>().is_some() {
                "footprint-violation".to_string()
            } else if let Some(s) = p.downcast_ref::<&str>() {
                class(s)
            } else if let Some(s) = p.downcast_ref::<String>() {
                class(s)
            } else {
                "other".to_string()
            };
            TickRes::Fail(format!("panic {what}"), None)
        }
        Ok(Err(e)) => {
            let after = engine.state().clone();
            let ledger = engine.get_ledger().len();
            // `snapshot()` hashes the (possibly half-applied) state: it may panic on a dangling portal
            let has_parent = std::panic::catch_unwind(std::panic::AssertUnwindSafe(|| !engine.snapshot().parents.is_empty())).unwrap_or(false);
            TickRes::Fail(format!("err commit:{}", class(&format!("{e:?}"))), Some((after, ledger, has_parent)))
        }
        Ok(Ok((snap, _receipt, patch))) => {
            let post = engine.state().clone();
            let ledger = engine.get_ledger().len();
            let jump = match engine.jump_to_tick(0) {
                Ok(()) => Ok(engine.state().clone()),
                Err(e) => Err(class(&format!("{e:?}"))),
            };
            TickRes::Ok { post, patch, snap_root: snap.state_root, snap_patch_digest: snap.patch_digest, jump, ledger }
        }
    }
}

fn imp_tick(t: &mut Toks) -> Result<String, String> {
    let c = parse_tick_case(t)?;
    Ok(match run_tick(&c) {
        TickRes::Fail(text, _) => format!("tick {text}"),
        TickRes::Ok { post, patch, .. } => {
            let mut replay = c.state.clone();
            let res = patch.apply_to_state(&mut replay);
            format!(
                "tick ok ; patch {} ; digest {} ; post {} ; replay {}",
                ops_str(patch.ops()),
                hex(&bare_patch(patch.ops()).digest()),
                state_str(&post),
                res_str(&res, &replay)
            )
        }
    })
}

fn oracle_tick(t: &mut Toks, _tier: Tier) -> Result<OracleOut, String> {
    let c = parse_tick_case(t)?;
    let mut o = OracleOut::default();
    let pre = state_str(&c.state);
    match run_tick(&c) {
        TickRes::Fail(text, after) => {
            o.tags.push(text.split(|ch| ch == '_' || ch == ' ').take(2).collect::<Vec<_>>().join(":"));
            if let Some((st, ledger, has_parent)) = after {
                // commit returned Err: nothing success-like may be observable
                if ledger != 0 || has_parent {
                    o.fails.push(("C04.atomicity.commit.advanced-on-error".into(), format!("commit_with_receipt returned Err ({text}) but the ledger/snapshot chain advanced")));
                }
                o.tags.push(if state_str(&st) == pre { "engine-clean-on-error".into() } else { "engine-partial-on-error".into() });
            }
        }
        TickRes::Ok { post, patch, snap_root, snap_patch_digest, jump, ledger } => {
            let want = state_str(&post);
            // the emitted patch replays on a clone of the pre-state to the engine's post-state
            let mut replay_err: Option<&'static str> = None;
            let mut replay = c.state.clone();
            match patch.apply_to_state(&mut replay) {
                Ok(()) => {
                    let got = state_str(&replay);
                    if got != want {
                        o.fails.push((format!("C04.tick-replay-differs.{}", classify(&got, &want)), format!("tick patch applied to the pre-state does not reproduce the post-state: got [{}] want [{}]", clip(&got), clip(&want))));
                    } else if root_of(&replay, &c.root) != root_of(&post, &c.root) {
                        o.fails.push(("C04.tick-replay-differs.state-root".into(), "equal dumps, different state roots".into()));
                    }
                    if root_of(&replay, &c.root) != Some(snap_root) {
                        o.fails.push(("C04.tick-replay-differs.snapshot-root".into(), "state root of the replayed state differs from the snapshot's state_root".into()));
                    }
                }
                Err(e) => {
                    replay_err = Some(err_class(&e));
                    // Specific shape of known finding C04-K1: the patch deletes a node that the POST-state still
                    // has an edge on (an UpsertEdge of the same tick re-attached it after the DeleteNode ran).
                    let dangling = patch.ops().iter().any(|op| match op {
                        WarpOp::DeleteNode { node } => hook::stores(&post).iter().any(|(w, g)| {
                            *w == node.warp_id
                                && g.iter_edges().flat_map(|(_, v)| v.iter()).any(|r| r.from == node.local_id || r.to == node.local_id)
                        }),
                        _ => false,
                    });
                    // Second shape of the same ordering defect (C04-K1b): an edge that touches the deleted node in
                    // the PRE-state is re-pointed by an UpsertEdge of the same patch, but DeleteNode sorts first.
                    let moved_off = patch.ops().iter().any(|op| match op {
                        WarpOp::DeleteNode { node } => patch.ops().iter().any(|u| match u {
                            WarpOp::UpsertEdge { warp_id, record } if *warp_id == node.warp_id => hook::stores(&c.state).iter().any(|(w, g)| {
                                *w == node.warp_id
                                    && g.iter_edges().flat_map(|(_, v)| v.iter()).any(|r| r.id == record.id && (r.from == node.local_id || r.to == node.local_id))
                            }),
                            _ => false,
                        }),
                        _ => false,
                    });
                    let shape = if dangling {
                        ".deleted-node-keeps-edge-in-post-state"
                    } else if moved_off {
                        ".edge-moved-off-deleted-node"
                    } else {
                        ""
                    };
                    o.fails.push((format!("C04.tick-replay-error:{}{shape}", err_class(&e)), format!("tick patch {} fails to apply to the pre-state", clip(&ops_str(patch.ops())))));
                }
            }
            // the patch is exactly the diff, is canonical, and carries a valid digest bound into the snapshot
            if patch.ops() != hook::diff_state(&c.state, &post).as_slice() {
                o.fails.push(("C04.tick-patch-not-diff".into(), "tick patch ops differ from diff_state(pre, post)".into()));
            }
            if patch.validate_digest().is_err() || patch.digest() != snap_patch_digest {
                o.fails.push(("C04.tick-patch-digest".into(), "tick patch digest invalid or not the snapshot's patch_digest".into()));
            }
            let again = WarpTickPatchV1::new(patch.policy_id(), patch.rule_pack_id(), patch.commit_status(), patch.in_slots().to_vec(), patch.out_slots().to_vec(), patch.ops().to_vec());
            if again != patch {
                o.fails.push(("C04.patch-new-not-idempotent".into(), "rebuilding the tick patch from its fields changes it".into()));
            }
            if ledger != 1 {
                o.fails.push(("C04.tick-ledger".into(), format!("ledger length {ledger} after one commit")));
            }
            // Engine::jump_to_tick(0) = initial state + patch 0
            match jump {
                Ok(st) => {
                    if state_str(&st) != want {
                        o.fails.push(("C04.jump-replay-differs".into(), "jump_to_tick(0) does not reproduce the post-state of tick 0".into()));
                    }
                }
                Err(e) => match replay_err {
                    // same root cause as the failed replay above: one finding, two observables
                    Some(cl) => o.fails.push((format!("C04.tick-replay-error:{cl}.jump_to_tick-after-replay-error"), format!("Engine::jump_to_tick(0) fails right after the commit that recorded tick 0 ({e})"))),
                    None => o.fails.push((format!("C04.jump-replay-error:{e}"), "jump_to_tick(0) fails although the recorded patch replays on the pre-state".into())),
                },
            }
            for op in patch.ops() {
                o.tags.push(op_tag(op).into());
            }
            o.tags.push("tick-ok".into());
            o.nontrivial = patch.ops().len() >= 2;
        }
    }
    if hook::stores(&c.state).len() > 1 {
        o.tags.push("multi-instance".into());
    }
    o.tags.sort();
    o.tags.dedup();
    Ok(o)
}

/// Programs made of unconditional emits, one per op template, with honest footprints
/// (attribution as `op_write_targets`): exercises every op kind a non-system rule may emit.
fn gen_tick_program(rng: &mut Rng, w: &GWarp) -> String {
    let wid = w.id;
    let mut nw: Vec<u64> = vec![];
    let mut ew: Vec<u64> = vec![];
    let mut aw: Vec<(bool, u64)> = vec![];
    let mut body: Vec<String> = vec![];
    let mut used: Vec<String> = vec![];
    let nkeys: Vec<u64> = w.nodes.keys().copied().filter(|k| *k < 0x1000).collect();
    let ekeys: Vec<u64> = w.edges.keys().copied().collect();
    let n_templates = rng.range(1, 3);
    for _ in 0..n_templates {
        // each template: list of (key, op text, node writes, edge writes, attachment writes)
        let mut t: Vec<(String, String, Vec<u64>, Vec<u64>, Vec<(bool, u64)>)> = Vec::new();
        let un = |n: u64, ty: u64| (format!("n{n}"), format!("UN {} {} {}", sid(wid), sid(n), sid(ty)), vec![n], vec![], vec![]);
        let dn = |n: u64| (format!("n{n}"), format!("DN {} {}", sid(wid), sid(n)), vec![n], vec![], vec![(false, n)]);
        let ue = |e: u64, f: u64, to: u64, ty: u64| (format!("e{e}"), format!("UE {} {} {} {} {}", sid(wid), sid(e), sid(f), sid(to), sid(ty)), vec![f], vec![e], vec![]);
        let de = |e: u64, f: u64| (format!("de{e}"), format!("DE {} {} {}", sid(wid), sid(f), sid(e)), vec![f], vec![e], vec![(true, e)]);
        let san = |n: u64, v: String| (format!("an{n}"), format!("SA na {} {} {v}", sid(wid), sid(n)), vec![], vec![], vec![(false, n)]);
        let sae = |e: u64, v: String| (format!("ae{e}"), format!("SA eb {} {} {v}", sid(wid), sid(e)), vec![], vec![], vec![(true, e)]);
        let aval = |rng: &mut Rng| {
            let ty = 0x70 + rng.below(2);
            let len = 1 + rng.below(2) as usize;
            format!("a {} {}", sid(ty), hex(&rng.bytes(len)))
        };
        match rng.below(12) {
            0 => {
                // add a node, maybe with an attachment
                let n = rng.range(5, 8);
                t.push(un(n, 0x11));
                if rng.chance(1, 2) {
                    t.push(san(n, aval(rng)));
                }
            }
            1 => {
                // retype an existing node
                if let Some(n) = nkeys.first() {
                    t.push(un(*n, 0x13));
                }
            }
            2 => {
                // delete a node together with all its incident edges
                if nkeys.len() > 1 {
                    let n = *rng.pick(&nkeys[1..]);
                    if !matches!(w.natts.get(&n), Some(GAtt::Descend(_))) {
                        let mut ok = true;
                        for (e, (f, to, _)) in &w.edges {
                            if *f == n || *to == n {
                                if matches!(w.eatts.get(e), Some(GAtt::Descend(_))) {
                                    ok = false;
                                }
                                t.push(de(*e, *f));
                            }
                        }
                        if ok {
                            t.push(dn(n));
                        } else {
                            t.clear();
                        }
                    }
                }
            }
            3 => {
                // delete a node but NOT its incident edges (NodeNotIsolated when it has any)
                if nkeys.len() > 1 {
                    let n = *rng.pick(&nkeys[1..]);
                    if !matches!(w.natts.get(&n), Some(GAtt::Descend(_))) {
                        t.push(dn(n));
                    }
                }
            }
            4 => {
                // add an edge (fresh id), maybe with an attachment
                if !nkeys.is_empty() {
                    let e = 0x20 + rng.range(5, 8);
                    t.push(ue(e, *rng.pick(&nkeys), *rng.pick(&nkeys), 0x30 + rng.below(2)));
                    if rng.chance(1, 2) {
                        t.push(sae(e, aval(rng)));
                    }
                }
            }
            5 => {
                // delete an edge
                if !ekeys.is_empty() {
                    let e = *rng.pick(&ekeys);
                    if !matches!(w.eatts.get(&e), Some(GAtt::Descend(_))) {
                        t.push(de(e, w.edges[&e].0));
                    }
                }
            }
            6 => {
                // retarget / retype an edge (same source)
                if !ekeys.is_empty() && !nkeys.is_empty() {
                    let e = *rng.pick(&ekeys);
                    let (f, _, ty) = w.edges[&e];
                    t.push(ue(e, f, *rng.pick(&nkeys), ty + rng.below(2)));
                }
            }
            7 => {
                // RE-PARENT an edge: same id, other source (attachment, if any, must survive)
                if !ekeys.is_empty() && nkeys.len() > 1 {
                    let e = *rng.pick(&ekeys);
                    let (f, to, ty) = w.edges[&e];
                    let nf = *rng.pick(&nkeys);
                    if nf != f {
                        t.push(ue(e, nf, to, ty));
                        if rng.chance(1, 3) && !matches!(w.eatts.get(&e), Some(GAtt::Descend(_))) {
                            t.push(sae(e, if rng.chance(1, 2) { "-".into() } else { aval(rng) }));
                        }
                    }
                }
            }
            8 => {
                // delete an edge and re-create the same id under another source in the same tick
                if !ekeys.is_empty() && nkeys.len() > 1 {
                    let e = *rng.pick(&ekeys);
                    let (f, to, ty) = w.edges[&e];
                    let nf = *rng.pick(&nkeys);
                    if !matches!(w.eatts.get(&e), Some(GAtt::Descend(_))) {
                        t.push(de(e, f));
                        t.push(ue(e, nf, to, ty + 1));
                    }
                }
            }
            9 => {
                // set / clear a node attachment
                if !nkeys.is_empty() {
                    let n = *rng.pick(&nkeys);
                    if !matches!(w.natts.get(&n), Some(GAtt::Descend(_))) {
                        t.push(san(n, if rng.chance(1, 3) { "-".into() } else { aval(rng) }));
                    }
                }
            }
            10 => {
                // set / clear an edge attachment
                if !ekeys.is_empty() {
                    let e = *rng.pick(&ekeys);
                    if !matches!(w.eatts.get(&e), Some(GAtt::Descend(_))) {
                        t.push(sae(e, if rng.chance(1, 3) { "-".into() } else { aval(rng) }));
                    }
                }
            }
            _ => {
                // rarely: a Descend written as a plain attachment (dangling portal -> the apply inside commit fails)
                if rng.chance(1, 3) && !nkeys.is_empty() {
                    let n = *rng.pick(&nkeys);
                    t.push(un(rng.range(5, 8), 0x10));
                    t.push(san(n, format!("d {}", sid(0xA9))));
                } else if !nkeys.is_empty() {
                    let n = *rng.pick(&nkeys);
                    if !matches!(w.natts.get(&n), Some(GAtt::Descend(_))) {
                        t.push(san(n, aval(rng)));
                    }
                }
            }
        }
        if t.iter().any(|x| used.contains(&x.0)) {
            continue;
        }
        for (k, text, wn, we, wa) in t {
            used.push(k);
            body.push(format!("E {text}"));
            nw.extend(wn);
            ew.extend(we);
            aw.extend(wa);
        }
    }
    format!("P {} {} {}", interp::fp_text(&[], &nw, &[], &ew, &[], &aw), body.len(), body.join(" "))
}

fn gen_tick(rng: &mut Rng, tier: Tier) -> Vec<String> {
    let n = if tier == Tier::Thorough { 1500 } else { 160 };
    let mut out = Vec::new();
    for case in 0..n {
        let mut st = gen_state(rng, 4, 4, case % 2 == 0);
        let wids: Vec<u64> = st.warps.keys().copied().collect();
        let ncand = rng.range(1, 3);
        let mut cands: Vec<(char, u64, u64)> = Vec::new();
        for j in 0..ncand {
            let wid = *rng.pick(&wids);
            let scope = 0x1000 + j;
            let prog = gen_tick_program(rng, &st.warps[&wid]);
            let w = st.warps.get_mut(&wid).unwrap();
            w.nodes.insert(scope, 0x98);
            w.natts.insert(scope, GAtt::Atom(interp::PROG_TY, prog.into_bytes()));
            cands.push((if rng.chance(1, 5) { 'b' } else { 'a' }, wid, scope));
        }
        rng.shuffle(&mut cands);
        let kind = if case % 3 == 0 { "legacy" } else { "radix" };
        let workers = *rng.pick(&[1u64, 2, 4]);
        let mut line = format!("{} {} {} {kind} {workers} {}", st.dump(), sid(0xA1), sid(1), cands.len());
        for (r, w, s) in &cands {
            let rule = if *r == 'a' { RULE_A } else { RULE_B };
            let h = scope_hash(&interp::rule_id(rule), &NodeKey { warp_id: WarpId(small_id(*w)), local_id: NodeId(small_id(*s)) });
            line.push_str(&format!(" {r} {} {} {}", sid(*w), sid(*s), hex(&h)));
        }
        out.push(line);
    }
    out
}
