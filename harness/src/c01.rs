//! C01 — a tick's outcome depends on the candidate set, never on arrival order.
//! Real code: `Engine` (apply_in_warp / commit_with_receipt), both schedulers, parallel executor,
//! merge, `diff_state`, `compute_state_root`, patch digest, commit hash, receipt.
use crate::graphio::*;
use crate::interp::{self, RULE_A, RULE_B};
use crate::prng::Rng;
use crate::util::{hex, small_id, Toks};
use crate::{OracleOut, Stream, Tier};
use warp_core::echo_verif::state as hook;
use warp_core::{
    scope_hash, ApplyResult, EngineBuilder, GraphView, NodeId, NodeKey, SchedulerKind, TickReceiptDisposition,
    WarpId, WarpState, WarpTickPatchV1,
};

pub fn streams() -> Vec<Stream> {
    vec![Stream { name: "C01.tick", gen: gen_tick, imp: imp_tick, oracle: oracle_tick }]
}

#[derive(Clone)]
struct Cand {
    rule: &'static str,
    warp: WarpId,
    scope: NodeId,
    shash: [u8; 32],
}

struct Case {
    state: WarpState,
    root: NodeKey,
    kind: SchedulerKind,
    workers: usize,
    cands: Vec<Cand>,
}

fn parse_case(t: &mut Toks) -> Result<Case, String> {
    let state = parse_state(t)?;
    let root = NodeKey { warp_id: WarpId(t.id()?), local_id: NodeId(t.id()?) };
    let kind = match t.next()? {
        "radix" => SchedulerKind::Radix,
        "legacy" => SchedulerKind::Legacy,
        x => return Err(format!("bad scheduler kind {x}")),
    };
    let workers = t.num()? as usize;
    let n = t.num()?;
    let mut cands = Vec::new();
    for _ in 0..n {
        let rule = match t.next()? {
            "a" => RULE_A,
            "b" => RULE_B,
            x => return Err(format!("bad rule {x}")),
        };
        let warp = WarpId(t.id()?);
        let scope = NodeId(t.id()?);
        let shash = t.id()?;
        // the line must carry the REAL scope hash (the model sorts by it but never hashes)
        let real = scope_hash(&interp::rule_id(rule), &NodeKey { warp_id: warp, local_id: scope });
        if real != shash {
            return Err("scope hash in the case line is not the real one".into());
        }
        cands.push(Cand { rule, warp, scope, shash });
    }
    if !t.done() {
        return Err("trailing tokens".into());
    }
    Ok(Case { state, root, kind, workers, cands })
}

struct TickOut {
    applied: Vec<bool>,
    /// canonical text of everything the property quantifies over
    text: String,
    digests: String,
    accepted: Vec<(WarpId, NodeId)>,
    post: Option<WarpState>,
    patch: Option<WarpTickPatchV1>,
}

fn run_tick(state: &WarpState, root: NodeKey, kind: SchedulerKind, workers: usize, cands: &[Cand]) -> TickOut {
    let mut engine = match EngineBuilder::from_state(state.clone(), root).scheduler(kind).workers(workers).build() {
        Ok(e) => e,
        Err(e) => {
            return TickOut { applied: vec![], text: format!("err build:{}", class(&format!("{e:?}"))), digests: String::new(), accepted: vec![], post: None, patch: None }
        }
    };
    engine.register_rule(interp::rule(RULE_A)).unwrap();
    engine.register_rule(interp::rule(RULE_B)).unwrap();
    let tx = engine.begin();
    let mut applied = Vec::new();
    for c in cands {
        match engine.apply_in_warp(tx, c.warp, c.rule, &c.scope, &[]) {
            Ok(ApplyResult::Applied) => applied.push(true),
            Ok(ApplyResult::NoMatch) => applied.push(false),
            Err(e) => {
                return TickOut { applied, text: format!("err apply:{}", class(&format!("{e:?}"))), digests: String::new(), accepted: vec![], post: None, patch: None }
            }
        }
    }
    let res = std::panic::catch_unwind(std::panic::AssertUnwindSafe(|| engine.commit_with_receipt(tx)));
    match res {
        Err(p) => {
            let what = if p.downcast_ref::<warp_core::FootprintViolation>().is_some() {
                "footprint-violation".to_string()
            } else if let Some(s) = p.downcast_ref::<&str>() {
                class(s)
            } else if let Some(s) = p.downcast_ref::<String>() {
                class(s)
            } else {
                "other".to_string()
            };
            TickOut { applied, text: format!("panic {what}"), digests: String::new(), accepted: vec![], post: None, patch: None }
        }
        Ok(Err(e)) => TickOut { applied, text: format!("err commit:{}", class(&format!("{e:?}"))), digests: String::new(), accepted: vec![], post: None, patch: None },
        Ok(Ok((snap, receipt, patch))) => {
            let mut s = format!("receipt {}", receipt.entries().len());
            let mut accepted = Vec::new();
            for (i, e) in receipt.entries().iter().enumerate() {
                let rule = if e.rule_id == interp::rule_id(RULE_A) { "a" } else { "b" };
                match e.disposition {
                    TickReceiptDisposition::Applied => {
                        accepted.push((e.scope.warp_id, e.scope.local_id));
                        s.push_str(&format!(" {rule} {} {} A", hex(&e.scope.warp_id.0), hex(&e.scope.local_id.0)));
                    }
                    TickReceiptDisposition::Rejected(_) => {
                        let b: Vec<String> = receipt.blocked_by(i).iter().map(|x| x.to_string()).collect();
                        s.push_str(&format!(" {rule} {} {} R {} {}", hex(&e.scope.warp_id.0), hex(&e.scope.local_id.0), b.len(), b.join(" ")));
                    }
                }
            }
            let post = engine.state().clone();
            s.push_str(&format!(" ; patch {}", ops_str(patch.ops())));
            s.push_str(&format!(" ; post {}", state_str(&post)));
            // digests: compared across orders by the oracle; kept out of the model-facing text until the
            // pre-image models (C05/C06) are wired into the C01 model
            let digests = format!(" ; root {} ; patchdigest {} ; commit {} ; receiptdigest {}", hex(&snap.state_root), hex(&patch.digest()), hex(&snap.hash), hex(&receipt.digest()));
            TickOut { applied, text: s, digests, accepted, post: Some(post), patch: Some(patch) }
        }
    }
}

fn class(s: &str) -> String {
    s.chars()
        .map(|c| if c.is_ascii_alphanumeric() || c == '_' || c == '-' || c == ':' { c } else { '_' })
        .take(90)
        .collect()
}

fn imp_tick(t: &mut Toks) -> Result<String, String> {
    let c = parse_case(t)?;
    let out = run_tick(&c.state, c.root, c.kind, c.workers, &c.cands);
    let ap: Vec<&str> = out.applied.iter().map(|b| if *b { "M" } else { "N" }).collect();
    Ok(format!("apply {} ; {}", ap.join(""), out.text))
}

fn oracle_tick(t: &mut Toks, tier: Tier) -> Result<OracleOut, String> {
    let c = parse_case(t)?;
    let mut o = OracleOut::default();
    let base = run_tick(&c.state, c.root, c.kind, c.workers, &c.cands);
    // the candidate SET: distinct (rule, warp, scope)
    let mut set: Vec<Cand> = Vec::new();
    for x in &c.cands {
        if !set.iter().any(|y| y.rule == x.rule && y.warp == x.warp && y.scope == x.scope) {
            set.push(x.clone());
        }
    }
    let mut rng = Rng::new(c.cands.len() as u64 * 31 + 5);
    let rounds = if tier == Tier::Thorough { 12 } else { 5 };
    // (1) order / duplication / scheduler kind / worker count independence
    for r in 0..rounds {
        let mut v = set.clone();
        rng.shuffle(&mut v);
        if r % 2 == 1 && !v.is_empty() {
            // duplicate some candidates at random positions
            for _ in 0..rng.range(1, 3) {
                let x = v[rng.below(v.len() as u64) as usize].clone();
                let pos = rng.below(v.len() as u64 + 1) as usize;
                v.insert(pos, x);
            }
        }
        let switched = r % 3 == 2;
        let kind = if switched { other(c.kind) } else { c.kind };
        let workers = [1usize, 2, 3, 8, 32][r % 5];
        let out = run_tick(&c.state, c.root, kind, workers, &v);
        if out.text != base.text || out.digests != base.digests {
            let what = if switched { "scheduler-kind" } else if workers != c.workers { "order-or-workers" } else { "order" };
            o.fails.push((format!("C01.outcome-depends-on.{what}"), format!("same candidate set, different enqueue order/duplication ({what}): [{}] vs [{}]", clip(&base.text), clip(&out.text))));
            break;
        }
    }
    // (2) post = pre + effects of accepted rewrites, each computed against the PRE state; nothing else
    if let (Some(post), Some(patch)) = (&base.post, &base.patch) {
        let mut ops = Vec::new();
        for (w, scope) in &base.accepted {
            if let Some(store) = c.state.store(w) {
                let view = GraphView::new(store);
                if let Some(warp_core::AttachmentValue::Atom(a)) = view.node_attachment(scope) {
                    if let Ok(p) = interp::parse_program(std::str::from_utf8(&a.bytes).unwrap_or("")) {
                        ops.extend(interp::eval(&view, &p));
                    }
                }
            }
        }
        let canon = WarpTickPatchV1::new(0, [0u8; 32], warp_core::TickCommitStatus::Committed, vec![], vec![], ops);
        let mut expect = c.state.clone();
        match canon.apply_to_state(&mut expect) {
            Ok(()) => {
                if state_str(&expect) != state_str(post) {
                    o.fails.push(("C01.post-not-pre-plus-accepted".into(), format!("post-state differs from pre + accepted effects: [{}] vs [{}]", clip(&state_str(post)), clip(&state_str(&expect)))));
                }
            }
            Err(e) => o.tags.push(format!("recompute-err:{}", err_class(&e))),
        }
        // (3) the emitted patch replays on the pre-state to the post-state (C04 at tick level)
        let mut replay = c.state.clone();
        match patch.apply_to_state(&mut replay) {
            Ok(()) => {
                if state_str(&replay) != state_str(post) || hook::state_root(&replay, &c.root) != hook::state_root(post, &c.root) {
                    o.fails.push(("C01.patch-replay-differs".into(), "tick patch applied to the pre-state does not reproduce the post-state".into()));
                }
            }
            Err(e) => o.fails.push(("C01.patch-replay-fails".into(), format!("tick patch fails to apply to the pre-state: {}", err_class(&e)))),
        }
    }
    let rejected = base.text.matches(" R ").count();
    o.tags.push(format!("cands={}", bucket(set.len())));
    if rejected > 0 {
        o.tags.push("has-rejection".into());
    }
    if base.text.starts_with("panic") || base.text.starts_with("err") {
        o.tags.push(base.text.split(';').next().unwrap_or("").trim().replace(' ', ":"));
    }
    if set.len() > 1024 {
        o.tags.push("radix-path".into());
    }
    if c.state_warps() > 1 {
        o.tags.push("multi-instance".into());
    }
    o.tags.push(format!("accepted={}", bucket(base.accepted.len())));
    o.nontrivial = set.len() >= 2;
    Ok(o)
}

impl Case {
    fn state_warps(&self) -> usize {
        hook::stores(&self.state).len()
    }
}

fn bucket(n: usize) -> String {
    match n {
        0..=8 => n.to_string(),
        9..=64 => "9-64".into(),
        65..=1024 => "65-1024".into(),
        _ => ">1024".into(),
    }
}

fn clip(s: &str) -> String {
    s.chars().take(300).collect()
}

fn other(k: SchedulerKind) -> SchedulerKind {
    match k {
        SchedulerKind::Radix => SchedulerKind::Legacy,
        SchedulerKind::Legacy => SchedulerKind::Radix,
    }
}

// ------------------------------------------------------------------ generation

/// An honest random program over the warp `w`: returns program text. Footprint = exactly what the body
/// reads/writes (per `op_write_targets` attribution).
fn gen_program(rng: &mut Rng, w: &GWarp) -> String {
    let wid = w.id;
    let mut nr: Vec<u64> = vec![];
    let mut nw: Vec<u64> = vec![];
    let mut er: Vec<u64> = vec![];
    let mut ew: Vec<u64> = vec![];
    let mut ar: Vec<(bool, u64)> = vec![];
    let mut aw: Vec<(bool, u64)> = vec![];
    let mut body: Vec<String> = vec![];
    let nkeys: Vec<u64> = w.nodes.keys().copied().filter(|k| *k < 0x1000).collect();
    let ekeys: Vec<u64> = w.edges.keys().copied().collect();
    let isolated: Vec<u64> = nkeys
        .iter()
        .copied()
        .filter(|n| *n != w.root && !w.edges.values().any(|(f, t, _)| f == n || t == n))
        .filter(|n| !matches!(w.natts.get(n), Some(GAtt::Descend(_))))
        .collect();
    // mostly existing ids, sometimes fresh / missing ones
    let node = |rng: &mut Rng| if !nkeys.is_empty() && rng.chance(5, 6) { *rng.pick(&nkeys) } else { rng.range(1, 7) };
    let edge = |rng: &mut Rng| if !ekeys.is_empty() && rng.chance(5, 6) { *rng.pick(&ekeys) } else { 0x20 + rng.range(1, 5) };
    let n_instr = rng.range(1, 3);
    let used: std::cell::RefCell<Vec<String>> = std::cell::RefCell::new(Vec::new());
    // writes of an op (text) are recorded while generating it; one op per sort key inside a program
    let gen_write_op = |rng: &mut Rng, nw: &mut Vec<u64>, ew: &mut Vec<u64>, aw: &mut Vec<(bool, u64)>| -> String {
        for _attempt in 0..8 {
            let (key, text, wn, we, wa): (String, String, Vec<u64>, Vec<u64>, Vec<(bool, u64)>) = match rng.below(7) {
                0 => {
                    let n = if rng.chance(1, 2) { node(rng) } else { rng.range(1, 7) };
                    (format!("n{n}"), format!("UN {} {} {}", sid(wid), sid(n), sid(0x10 + rng.below(3))), vec![n], vec![], vec![])
                }
                1 => {
                    if isolated.is_empty() && rng.chance(7, 8) {
                        continue;
                    }
                    let n = if !isolated.is_empty() && rng.chance(7, 8) { *rng.pick(&isolated) } else { node(rng) };
                    (format!("n{n}"), format!("DN {} {}", sid(wid), sid(n)), vec![n], vec![], vec![(false, n)])
                }
                2 => {
                    let e = edge(rng);
                    // keep the source when the edge exists (re-parenting is C14's known finding, exercised rarely)
                    let f = match w.edges.get(&e) {
                        Some((f, _, _)) if rng.chance(9, 10) => *f,
                        _ => node(rng),
                    };
                    let to = node(rng);
                    (format!("e{e}"), format!("UE {} {} {} {} {}", sid(wid), sid(e), sid(f), sid(to), sid(0x30 + rng.below(2))), vec![f], vec![e], vec![])
                }
                3 => {
                    if ekeys.is_empty() && rng.chance(7, 8) {
                        continue;
                    }
                    let (e, f) = if !ekeys.is_empty() && rng.chance(5, 6) {
                        let e = *rng.pick(&ekeys);
                        (e, w.edges[&e].0)
                    } else {
                        (edge(rng), node(rng))
                    };
                    if matches!(w.eatts.get(&e), Some(GAtt::Descend(_))) {
                        continue;
                    }
                    (format!("e{e}"), format!("DE {} {} {}", sid(wid), sid(f), sid(e)), vec![f], vec![e], vec![(true, e)])
                }
                4 | 5 => {
                    let n = node(rng);
                    if matches!(w.natts.get(&n), Some(GAtt::Descend(_))) {
                        continue;
                    }
                    let v = if rng.chance(1, 4) { "-".to_string() } else { format!("a {} {}", sid(0x70), hex(&rng.bytes(2))) };
                    (format!("an{n}"), format!("SA na {} {} {}", sid(wid), sid(n), v), vec![], vec![], vec![(false, n)])
                }
                _ => {
                    if ekeys.is_empty() && rng.chance(7, 8) {
                        continue;
                    }
                    let e = edge(rng);
                    if matches!(w.eatts.get(&e), Some(GAtt::Descend(_))) {
                        continue;
                    }
                    let v = if rng.chance(1, 4) { "-".to_string() } else { format!("a {} {}", sid(0x71), hex(&rng.bytes(1))) };
                    (format!("ae{e}"), format!("SA eb {} {} {}", sid(wid), sid(e), v), vec![], vec![], vec![(true, e)])
                }
            };
            if used.borrow().contains(&key) {
                continue;
            }
            used.borrow_mut().push(key);
            nw.extend(wn);
            ew.extend(we);
            aw.extend(wa);
            return text;
        }
        // fallback: a fresh node nobody else names
        let n = 0x3000 + rng.below(1 << 20);
        nw.push(n);
        format!("UN {} {} {}", sid(wid), sid(n), sid(0x10))
    };
    for _ in 0..n_instr {
        match rng.below(8) {
            0 | 1 => {
                let op = gen_write_op(rng, &mut nw, &mut ew, &mut aw);
                body.push(format!("E {op}"));
            }
            2 => {
                let n = node(rng);
                nr.push(n);
                let op = gen_write_op(rng, &mut nw, &mut ew, &mut aw);
                body.push(format!("IFN {} {op}", sid(n)));
            }
            3 => {
                let n = node(rng);
                ar.push((false, n));
                let a = gen_write_op(rng, &mut nw, &mut ew, &mut aw);
                let b = gen_write_op(rng, &mut nw, &mut ew, &mut aw);
                body.push(format!("IFA {} {a} {b}", sid(n)));
            }
            4 => {
                let e = edge(rng);
                er.push(e);
                let op = gen_write_op(rng, &mut nw, &mut ew, &mut aw);
                body.push(format!("IFE {} {op}", sid(e)));
            }
            5 => {
                let n = node(rng);
                nr.push(n);
                let op = gen_write_op(rng, &mut nw, &mut ew, &mut aw);
                body.push(format!("ADJ {} {} {op}", sid(n), rng.below(3)));
            }
            6 => {
                let src = node(rng);
                let dst = node(rng);
                if used.borrow().contains(&format!("an{dst}")) || matches!(w.natts.get(&dst), Some(GAtt::Descend(_))) {
                    continue;
                }
                used.borrow_mut().push(format!("an{dst}"));
                ar.push((false, src));
                aw.push((false, dst));
                body.push(format!("CP {} {}", sid(src), sid(dst)));
            }
            _ => {
                let e = edge(rng);
                let dst = node(rng);
                if used.borrow().contains(&format!("an{dst}")) || matches!(w.natts.get(&dst), Some(GAtt::Descend(_))) {
                    continue;
                }
                used.borrow_mut().push(format!("an{dst}"));
                ar.push((true, e));
                aw.push((false, dst));
                body.push(format!("CPE {} {}", sid(e), sid(dst)));
            }
        }
    }
    format!("P {} {} {}", interp::fp_text(&nr, &nw, &er, &ew, &ar, &aw), body.len(), body.join(" "))
}

fn gen_tick(rng: &mut Rng, tier: Tier) -> Vec<String> {
    let n = if tier == Tier::Thorough { 1200 } else { 150 };
    let mut out = Vec::new();
    for case in 0..n {
        let big = case % 50 == 7; // a batch above the 1024-entry small-sort threshold
        let mut st = gen_state(rng, 5, 4, case % 2 == 0);
        let wids: Vec<u64> = st.warps.keys().copied().collect();
        let ncand = if big { 1030 + rng.below(40) } else { rng.range(0, 7) };
        let mut cands: Vec<(char, u64, u64)> = Vec::new();
        for j in 0..ncand {
            let wid = if big { 0xA1 } else { *rng.pick(&wids) };
            let scope = 0x1000 + j;
            let prog = if big && j > 6 {
                // trivial, pairwise independent: each writes its own fresh node
                format!("P {} 1 E UN {} {} {}", interp::fp_text(&[], &[0x2000 + j], &[], &[], &[], &[]), sid(wid), sid(0x2000 + j), sid(0x11))
            } else {
                gen_program(rng, &st.warps[&wid])
            };
            let w = st.warps.get_mut(&wid).unwrap();
            w.nodes.insert(scope, 0x98);
            w.natts.insert(scope, GAtt::Atom(interp::PROG_TY, prog.into_bytes()));
            cands.push((if rng.chance(1, 5) { 'b' } else { 'a' }, wid, scope));
            if !big && rng.chance(1, 6) {
                // the same scope under the other rule: a distinct candidate with the same program
                cands.push(('b', wid, scope));
            }
        }
        // enqueue order: shuffled, with some repeats
        rng.shuffle(&mut cands);
        if !cands.is_empty() && rng.chance(1, 3) {
            let x = cands[rng.below(cands.len() as u64) as usize];
            cands.push(x);
        }
        let kind = if case % 3 == 0 { "legacy" } else { "radix" };
        let workers = *rng.pick(&[1u64, 1, 2, 4, 16]);
        let mut line = format!("{} {} {} {kind} {workers} {}", st.dump(), sid(0xA1), sid(1), cands.len());
        for (r, w, s) in &cands {
            let rule = if *r == 'a' { RULE_A } else { RULE_B };
            let h = scope_hash(&interp::rule_id(rule), &NodeKey { warp_id: WarpId(small_id(*w)), local_id: NodeId(small_id(*s)) });
            line.push_str(&format!(" {r} {} {} {}", sid(*w), sid(*s), hex(&h)));
        }
        out.push(line);
    }
    out
}
