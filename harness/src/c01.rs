//! C01 — a tick's outcome depends on the candidate set, never on arrival order.
//! Real code: `Engine` (apply_in_warp / commit_with_receipt), both schedulers, parallel executor,
//! merge, `diff_state`, `compute_state_root`, patch digest, commit hash, receipt.
use crate::graphio::*;
use crate::interp::{self, RULE_A, RULE_B};
use crate::prng::Rng;
use crate::util::{hex, small_id, Toks};
use crate::{OracleOut, Stream, Tier};
use warp_core::echo_verif::state as hook;
use warp_core::{
    scope_hash, ApplyResult, EngineBuilder, GraphView, NodeId, NodeKey, SchedulerKind, TickReceiptDisposition,
    WarpId, WarpState, WarpTickPatchV1,
};

pub fn streams() -> Vec<Stream> {
    vec![Stream { name: "C01.tick", gen: gen_tick, imp: imp_tick, oracle: oracle_tick }]
}

#[derive(Clone)]
struct Cand {
    rule: &'static str,
    warp: WarpId,
    scope: NodeId,
    shash: [u8; 32],
}

struct Case {
    state: WarpState,
    root: NodeKey,
    kind: SchedulerKind,
    workers: usize,
    cands: Vec<Cand>,
}

fn parse_case(t: &mut Toks) -> Result<Case, String> {
    let state = parse_state(t)?;
    let root = NodeKey { warp_id: WarpId(t.id()?), local_id: NodeId(t.id()?) };
    let kind = match t.next()? {
        "radix" => SchedulerKind::Radix,
        "legacy" => SchedulerKind::Legacy,
        x => return Err(format!("bad scheduler kind {x}")),
    };
    let workers = t.num()? as usize;
    let n = t.num()?;
    let mut cands = Vec::new();
    for _ in 0..n {
        let rule = match t.next()? {
            "a" => RULE_A,
            "b" => RULE_B,
            x => return Err(format!("bad rule {x}")),
        };
        let warp = WarpId(t.id()?);
        let scope = NodeId(t.id()?);
        let shash = t.id()?;
        // the line must carry the REAL scope hash (the model sorts by it but never hashes)
        let real = scope_hash(&interp::rule_id(rule), &NodeKey { warp_id: warp, local_id: scope });
        if real != shash {
            return Err("scope hash in the case line is not the real one".into());
        }
        cands.push(Cand { rule, warp, scope, shash });
    }
    if !t.done() {
        return Err("trailing tokens".into());
    }
    Ok(Case { state, root, kind, workers, cands })
}

struct TickOut {
    applied: Vec<bool>,
    /// canonical text of everything the property quantifies over
    text: String,
    digests: String,
    accepted: Vec<(WarpId, NodeId)>,
    post: Option<WarpState>,
    patch: Option<WarpTickPatchV1>,
    /// receipt entries strictly ascending by (real scope hash, rule id)
    canonical: bool,
}

fn run_tick(state: &WarpState, root: NodeKey, kind: SchedulerKind, workers: usize, cands: &[Cand]) -> TickOut {
    let mut engine = match EngineBuilder::from_state(state.clone(), root).scheduler(kind).workers(workers).build() {
        Ok(e) => e,
        Err(e) => {
            return TickOut { applied: vec![], text: format!("err build:{}", class(&format!("{e:?}"))), digests: String::new(), accepted: vec![], post: None, patch: None, canonical: true }
        }
    };
    engine.register_rule(interp::rule(RULE_A)).unwrap();
    engine.register_rule(interp::rule(RULE_B)).unwrap();
    let tx = engine.begin();
    let mut applied = Vec::new();
    for c in cands {
        match engine.apply_in_warp(tx, c.warp, c.rule, &c.scope, &[]) {
            Ok(ApplyResult::Applied) => applied.push(true),
            Ok(ApplyResult::NoMatch) => applied.push(false),
            Err(e) => {
                return TickOut { applied, text: format!("err apply:{}", class(&format!("{e:?}"))), digests: String::new(), accepted: vec![], post: None, patch: None, canonical: true }
            }
        }
    }
    let res = std::panic::catch_unwind(std::panic::AssertUnwindSafe(|| engine.commit_with_receipt(tx)));
    match res {
        Err(p) => {
            let what = if p.downcast_ref::<warp_core::FootprintViolation>().is_some() {
                "footprint-violation".to_string()
            } else if let Some(s) = p.downcast_ref::<&str>() {
                class(s)
            } else if let Some(s) = p.downcast_ref::<String>() {
                class(s)
            } else {
                "other".to_string()
            };
            TickOut { applied, text: format!("panic {what}"), digests: String::new(), accepted: vec![], post: None, patch: None, canonical: true }
        }
        Ok(Err(e)) => TickOut { applied, text: format!("err commit:{}", class(&format!("{e:?}"))), digests: String::new(), accepted: vec![], post: None, patch: None, canonical: true },
        Ok(Ok((snap, receipt, patch))) => {
            let mut s = format!("receipt {}", receipt.entries().len());
            let mut accepted = Vec::new();
            let keys: Vec<([u8; 32], [u8; 32])> = receipt.entries().iter().map(|e| (scope_hash(&e.rule_id, &e.scope), e.rule_id)).collect();
            let canonical = keys.windows(2).all(|w| w[0] < w[1]);
            for (i, e) in receipt.entries().iter().enumerate() {
                let rule = if e.rule_id == interp::rule_id(RULE_A) { "a" } else { "b" };
                match e.disposition {
                    TickReceiptDisposition::Applied => {
                        accepted.push((e.scope.warp_id, e.scope.local_id));
                        s.push_str(&format!(" {rule} {} {} A", hex(&e.scope.warp_id.0), hex(&e.scope.local_id.0)));
                    }
                    TickReceiptDisposition::Rejected(_) => {
                        let b: Vec<String> = receipt.blocked_by(i).iter().map(|x| x.to_string()).collect();
                        s.push_str(&format!(" {rule} {} {} R {} {}", hex(&e.scope.warp_id.0), hex(&e.scope.local_id.0), b.len(), b.join(" ")));
                    }
                }
            }
            let post = engine.state().clone();
            s.push_str(&format!(" ; patch {}", ops_str(patch.ops())));
            s.push_str(&format!(" ; post {}", state_str(&post)));
            // digests: the model emits their PRE-IMAGES (Model/TickDigest.lean), `hashx` evaluates them
            let digests = format!(
                " ; policy {} ; root {} ; patchdigest {} ; commit {} ; receiptdigest {} ; plan {} ; rewrites {}",
                snap.policy_id,
                hex(&snap.state_root),
                hex(&patch.digest()),
                hex(&snap.hash),
                hex(&receipt.digest()),
                hex(&snap.plan_digest),
                hex(&snap.rewrites_digest)
            );
            if snap.decision_digest != receipt.digest() || snap.patch_digest != patch.digest() || !snap.parents.is_empty() {
                return TickOut { applied, text: "err snapshot-fields-inconsistent".into(), digests: String::new(), accepted: vec![], post: None, patch: None, canonical: true };
            }
            TickOut { applied, text: s, digests, accepted, post: Some(post), patch: Some(patch), canonical }
        }
    }
}

fn class(s: &str) -> String {
    s.chars()
        .map(|c| if c.is_ascii_alphanumeric() || c == '_' || c == '-' || c == ':' { c } else { '_' })
        .take(90)
        .collect()
}

fn imp_tick(t: &mut Toks) -> Result<String, String> {
    let c = parse_case(t)?;
    let out = run_tick(&c.state, c.root, c.kind, c.workers, &c.cands);
    let ap: Vec<&str> = out.applied.iter().map(|b| if *b { "M" } else { "N" }).collect();
    Ok(format!("apply {} ; {}{}", ap.join(""), out.text, out.digests))
}

fn oracle_tick(t: &mut Toks, tier: Tier) -> Result<OracleOut, String> {
    let c = parse_case(t)?;
    let mut o = OracleOut::default();
    let base = run_tick(&c.state, c.root, c.kind, c.workers, &c.cands);
    // the candidate SET: distinct (rule, warp, scope)
    let mut set: Vec<Cand> = Vec::new();
    for x in &c.cands {
        if !set.iter().any(|y| y.rule == x.rule && y.warp == x.warp && y.scope == x.scope) {
            set.push(x.clone());
        }
    }
    let mut rng = Rng::new(c.cands.len() as u64 * 31 + 5);
    let rounds = if tier == Tier::Thorough { 12 } else { 5 };
    let key = |x: &Cand| (x.shash, x.rule);
    if !base.canonical {
        o.fails.push(("C01.receipt-order-not-canonical".into(), format!("receipt entries are not in ascending (scope hash, rule) order: [{}]", clip(&base.text))));
    }
    // (1) order / duplication / scheduler kind / worker count independence.
    // Rounds 0..2 are deterministic extremes of the arrival order (canonical, anti-canonical, the given
    // list reversed); the others are random shuffles with repeats, the other scheduler, other worker counts.
    for r in 0..rounds {
        let mut v = set.clone();
        let mut switched = false;
        let mut workers = [1usize, 2, 3, 8, 32][r % 5];
        let label;
        match r {
            0 => {
                v.sort_by(|a, b| key(a).cmp(&key(b)));
                workers = c.workers;
                label = "order";
            }
            1 => {
                v.sort_by(|a, b| key(b).cmp(&key(a)));
                workers = c.workers;
                label = "order";
            }
            2 => {
                v = c.cands.clone();
                v.reverse();
                workers = c.workers;
                label = "order";
            }
            3 if set.len() >= 2 => {
                // re-enqueue an already pending candidate at the moment exactly p distinct candidates are
                // pending, for every power-of-two boundary p (and its neighbours) up to the batch size
                let bounds = [1usize, 2, 3, 4, 7, 8, 9, 15, 16, 17, 31, 32, 33, 63, 64, 65, 127, 128, 129, 255, 256, 257, 511, 512, 513, 1023, 1024, 1025];
                let first = set[0].clone();
                v = Vec::new();
                for (i, x) in set.iter().enumerate() {
                    v.push(x.clone());
                    if bounds.contains(&(i + 1)) {
                        v.push(first.clone());
                    }
                }
                workers = c.workers;
                label = "repeat-at-queue-size-boundary";
            }
            _ => {
                rng.shuffle(&mut v);
                if r % 2 == 1 && !v.is_empty() {
                    // duplicate some candidates at random positions
                    for _ in 0..rng.range(1, 3) {
                        let x = v[rng.below(v.len() as u64) as usize].clone();
                        let pos = rng.below(v.len() as u64 + 1) as usize;
                        v.insert(pos, x);
                    }
                }
                switched = r % 3 == 0;
                label = if switched { "scheduler-kind" } else if workers != c.workers { "order-or-workers" } else { "order" };
            }
        }
        let kind = if switched { other(c.kind) } else { c.kind };
        let out = run_tick(&c.state, c.root, kind, workers, &v);
        if out.text != base.text || out.digests != base.digests {
            let what = label;
            o.fails.push((format!("C01.outcome-depends-on.{what}"), format!("same candidate set, different enqueue order/duplication ({what}): [{}] vs [{}]", clip(&base.text), clip(&out.text))));
            break;
        }
    }
    // (2) post = pre + effects of accepted rewrites, each computed against the PRE state; nothing else
    if let (Some(post), Some(patch)) = (&base.post, &base.patch) {
        let mut deltas: Vec<Vec<warp_core::WarpOp>> = Vec::new();
        for (w, scope) in &base.accepted {
            if let Some(store) = c.state.store(w) {
                let view = GraphView::new(store);
                if let Some(warp_core::AttachmentValue::Atom(a)) = view.node_attachment(scope) {
                    if let Ok(p) = interp::parse_program(std::str::from_utf8(&a.bytes).unwrap_or("")) {
                        deltas.push(interp::eval(&view, &p));
                    }
                }
            }
        }
        let ops: Vec<warp_core::WarpOp> = deltas.iter().flatten().cloned().collect();
        // (2b) tick_serial_equiv on the real code: the accepted rewrites' ops (each computed against the
        // PRE-state) applied one rewrite after another - forward, reversed and in a shuffled order - reach
        // the tick's post-state whenever every step applies
        if deltas.len() >= 2 && deltas.len() <= 64 {
            let mut orders: Vec<Vec<usize>> = vec![(0..deltas.len()).collect(), (0..deltas.len()).rev().collect()];
            let mut sh: Vec<usize> = (0..deltas.len()).collect();
            rng.shuffle(&mut sh);
            orders.push(sh);
            let mut serial_ok = 0;
            for ord in &orders {
                let mut st = c.state.clone();
                let mut ok = true;
                for &k in ord {
                    let one = WarpTickPatchV1::new(0, [0u8; 32], warp_core::TickCommitStatus::Committed, vec![], vec![], deltas[k].clone());
                    if one.apply_to_state(&mut st).is_err() {
                        ok = false;
                        break;
                    }
                }
                if ok {
                    serial_ok += 1;
                    if state_str(&st) != state_str(post) {
                        o.fails.push(("C01.serial-application-differs".into(), format!("accepted rewrites applied one after another (order {ord:?}) reach a state different from the tick's post-state: [{}] vs [{}]", clip(&state_str(&st)), clip(&state_str(post)))));
                        break;
                    }
                }
            }
            o.tags.push(format!("serial-orders-ok={serial_ok}"));
        }
        let canon = WarpTickPatchV1::new(0, [0u8; 32], warp_core::TickCommitStatus::Committed, vec![], vec![], ops);
        let mut expect = c.state.clone();
        match canon.apply_to_state(&mut expect) {
            Ok(()) => {
                if state_str(&expect) != state_str(post) {
                    o.fails.push(("C01.post-not-pre-plus-accepted".into(), format!("post-state differs from pre + accepted effects: [{}] vs [{}]", clip(&state_str(post)), clip(&state_str(&expect)))));
                }
            }
            Err(e) => o.tags.push(format!("recompute-err:{}", err_class(&e))),
        }
        // (3) the emitted patch replays on the pre-state to the post-state (C04 at tick level)
        let mut replay = c.state.clone();
        match patch.apply_to_state(&mut replay) {
            Ok(()) => {
                if state_str(&replay) != state_str(post) || hook::state_root(&replay, &c.root) != hook::state_root(post, &c.root) {
                    o.fails.push(("C01.patch-replay-differs".into(), "tick patch applied to the pre-state does not reproduce the post-state".into()));
                }
            }
            Err(e) => o.fails.push(("C01.patch-replay-fails".into(), format!("tick patch fails to apply to the pre-state: {}", err_class(&e)))),
        }
    }
    let rejected = base.text.matches(" R ").count();
    o.tags.push(format!("cands={}", bucket(set.len())));
    if rejected > 0 {
        o.tags.push("has-rejection".into());
    }
    if base.text.starts_with("panic") || base.text.starts_with("err") {
        o.tags.push(base.text.split(';').next().unwrap_or("").trim().replace(' ', ":"));
    }
    if set.len() > 1024 {
        o.tags.push("radix-path".into());
    }
    // longest scope-hash prefix shared by two distinct candidates of this tick (adversarial keys)
    {
        let mut hs: Vec<[u8; 32]> = set.iter().map(|x| x.shash).collect();
        hs.sort_unstable();
        hs.dedup();
        let m = hs.windows(2).map(|w| lcp(&w[0], &w[1])).max().unwrap_or(0);
        if m >= 2 {
            o.tags.push(format!("shared-hash-prefix={}{}", m.min(6), if m >= 6 { "+" } else { "" }));
        }
        if m >= 4 && set.len() > 1024 {
            o.tags.push("radix-path-with-4-byte-prefix-collision".into());
        }
    }
    if c.state_warps() > 1 {
        o.tags.push("multi-instance".into());
    }
    o.tags.push(format!("accepted={}", bucket(base.accepted.len())));
    o.nontrivial = set.len() >= 2;
    Ok(o)
}

impl Case {
    fn state_warps(&self) -> usize {
        hook::stores(&self.state).len()
    }
}

fn bucket(n: usize) -> String {
    match n {
        0..=8 => n.to_string(),
        9..=64 => "9-64".into(),
        65..=1024 => "65-1024".into(),
        _ => ">1024".into(),
    }
}

fn clip(s: &str) -> String {
    s.chars().take(300).collect()
}

fn other(k: SchedulerKind) -> SchedulerKind {
    match k {
        SchedulerKind::Radix => SchedulerKind::Legacy,
        SchedulerKind::Legacy => SchedulerKind::Radix,
    }
}

// ------------------------------------------------------------------ generation

/// An honest random program over the warp `w`: returns program text. Footprint = exactly what the body
/// reads/writes (per `op_write_targets` attribution).
fn gen_program(rng: &mut Rng, w: &GWarp) -> String {
    let wid = w.id;
    let mut nr: Vec<u64> = vec![];
    let mut nw: Vec<u64> = vec![];
    let mut er: Vec<u64> = vec![];
    let mut ew: Vec<u64> = vec![];
    let mut ar: Vec<(bool, u64)> = vec![];
    let mut aw: Vec<(bool, u64)> = vec![];
    let mut body: Vec<String> = vec![];
    let nkeys: Vec<u64> = w.nodes.keys().copied().filter(|k| *k < 0x1000).collect();
    let ekeys: Vec<u64> = w.edges.keys().copied().collect();
    let isolated: Vec<u64> = nkeys
        .iter()
        .copied()
        .filter(|n| *n != w.root && !w.edges.values().any(|(f, t, _)| f == n || t == n))
        .filter(|n| !matches!(w.natts.get(n), Some(GAtt::Descend(_))))
        .collect();
    // mostly existing ids, sometimes fresh / missing ones
    let node = |rng: &mut Rng| if !nkeys.is_empty() && rng.chance(5, 6) { *rng.pick(&nkeys) } else { rng.range(1, 7) };
    let edge = |rng: &mut Rng| if !ekeys.is_empty() && rng.chance(5, 6) { *rng.pick(&ekeys) } else { 0x20 + rng.range(1, 5) };
    let n_instr = if rng.chance(1, 6) { rng.range(3, 5) } else { rng.range(1, 3) };
    let used: std::cell::RefCell<Vec<String>> = std::cell::RefCell::new(Vec::new());
    // writes of an op (text) are recorded while generating it; one op per sort key inside a program
    let gen_write_op = |rng: &mut Rng, nw: &mut Vec<u64>, ew: &mut Vec<u64>, aw: &mut Vec<(bool, u64)>| -> String {
        for _attempt in 0..8 {
            let (key, text, wn, we, wa): (String, String, Vec<u64>, Vec<u64>, Vec<(bool, u64)>) = match rng.below(7) {
                0 => {
                    let n = if rng.chance(1, 2) { node(rng) } else { rng.range(1, 7) };
                    (format!("n{n}"), format!("UN {} {} {}", sid(wid), sid(n), sid(0x10 + rng.below(3))), vec![n], vec![], vec![])
                }
                1 => {
                    if isolated.is_empty() && rng.chance(7, 8) {
                        continue;
                    }
                    let n = if !isolated.is_empty() && rng.chance(7, 8) { *rng.pick(&isolated) } else { node(rng) };
                    (format!("n{n}"), format!("DN {} {}", sid(wid), sid(n)), vec![n], vec![], vec![(false, n)])
                }
                2 => {
                    let e = edge(rng);
                    // keep the source when the edge exists (re-parenting is C14's known finding, exercised rarely)
                    let f = match w.edges.get(&e) {
                        Some((f, _, _)) if rng.chance(9, 10) => *f,
                        _ => node(rng),
                    };
                    let to = node(rng);
                    (format!("e{e}"), format!("UE {} {} {} {} {}", sid(wid), sid(e), sid(f), sid(to), sid(0x30 + rng.below(2))), vec![f], vec![e], vec![])
                }
                3 => {
                    if ekeys.is_empty() && rng.chance(7, 8) {
                        continue;
                    }
                    let (e, f) = if !ekeys.is_empty() && rng.chance(5, 6) {
                        let e = *rng.pick(&ekeys);
                        (e, w.edges[&e].0)
                    } else {
                        (edge(rng), node(rng))
                    };
                    if matches!(w.eatts.get(&e), Some(GAtt::Descend(_))) {
                        continue;
                    }
                    (format!("e{e}"), format!("DE {} {} {}", sid(wid), sid(f), sid(e)), vec![f], vec![e], vec![(true, e)])
                }
                4 | 5 => {
                    let n = node(rng);
                    if matches!(w.natts.get(&n), Some(GAtt::Descend(_))) {
                        continue;
                    }
                    let v = if rng.chance(1, 4) { "-".to_string() } else { format!("a {} {}", sid(0x70), hex(&rng.bytes(2))) };
                    (format!("an{n}"), format!("SA na {} {} {}", sid(wid), sid(n), v), vec![], vec![], vec![(false, n)])
                }
                _ => {
                    if ekeys.is_empty() && rng.chance(7, 8) {
                        continue;
                    }
                    let e = edge(rng);
                    if matches!(w.eatts.get(&e), Some(GAtt::Descend(_))) {
                        continue;
                    }
                    let v = if rng.chance(1, 4) { "-".to_string() } else { format!("a {} {}", sid(0x71), hex(&rng.bytes(1))) };
                    (format!("ae{e}"), format!("SA eb {} {} {}", sid(wid), sid(e), v), vec![], vec![], vec![(true, e)])
                }
            };
            if used.borrow().contains(&key) {
                continue;
            }
            used.borrow_mut().push(key);
            nw.extend(wn);
            ew.extend(we);
            aw.extend(wa);
            return text;
        }
        // fallback: a fresh node nobody else names
        let n = 0x3000 + rng.below(1 << 20);
        nw.push(n);
        format!("UN {} {} {}", sid(wid), sid(n), sid(0x10))
    };
    for _ in 0..n_instr {
        match rng.below(8) {
            0 | 1 => {
                let op = gen_write_op(rng, &mut nw, &mut ew, &mut aw);
                body.push(format!("E {op}"));
            }
            2 => {
                let n = node(rng);
                nr.push(n);
                let op = gen_write_op(rng, &mut nw, &mut ew, &mut aw);
                body.push(format!("IFN {} {op}", sid(n)));
            }
            3 => {
                let n = node(rng);
                ar.push((false, n));
                let a = gen_write_op(rng, &mut nw, &mut ew, &mut aw);
                let b = gen_write_op(rng, &mut nw, &mut ew, &mut aw);
                body.push(format!("IFA {} {a} {b}", sid(n)));
            }
            4 => {
                let e = edge(rng);
                er.push(e);
                let op = gen_write_op(rng, &mut nw, &mut ew, &mut aw);
                body.push(format!("IFE {} {op}", sid(e)));
            }
            5 => {
                let n = node(rng);
                nr.push(n);
                let op = gen_write_op(rng, &mut nw, &mut ew, &mut aw);
                body.push(format!("ADJ {} {} {op}", sid(n), rng.below(3)));
            }
            6 => {
                let src = node(rng);
                let dst = node(rng);
                if used.borrow().contains(&format!("an{dst}")) || matches!(w.natts.get(&dst), Some(GAtt::Descend(_))) {
                    continue;
                }
                used.borrow_mut().push(format!("an{dst}"));
                ar.push((false, src));
                aw.push((false, dst));
                body.push(format!("CP {} {}", sid(src), sid(dst)));
            }
            _ => {
                let e = edge(rng);
                let dst = node(rng);
                if used.borrow().contains(&format!("an{dst}")) || matches!(w.natts.get(&dst), Some(GAtt::Descend(_))) {
                    continue;
                }
                used.borrow_mut().push(format!("an{dst}"));
                ar.push((true, e));
                aw.push((false, dst));
                body.push(format!("CPE {} {}", sid(e), sid(dst)));
            }
        }
    }
    // the program's own panic (no footprint violation besides it): rare
    if rng.chance(1, 40) {
        let pos = rng.below(body.len() as u64 + 1) as usize;
        body.insert(pos, "PANIC".to_string());
    }
    format!("P {} {} {}", interp::fp_text(&nr, &nw, &er, &ew, &ar, &aw), body.len(), body.join(" "))
}

// ------------------------------------------------------------------ adversarial scheduler keys
//
// Scope hashes reachable through `Engine::apply_in_warp` are BLAKE3 outputs; candidates whose hashes
// share a long prefix (the inputs on which a digit-/prefix-based drain order can go wrong) only occur
// by search. `grind` is a birthday search with the REAL `scope_hash` over scope-node ids
// `base .. base+n` of warp 0xA1 under both rules: it returns groups (pairs / triples) of candidates
// whose hashes agree on >= 2, 3, 4, (5 ...) leading bytes. Deterministic in `base` (derived from the
// stream's seed), computed once per `gen` call.

#[derive(Clone, Debug)]
struct GCand {
    rule: char,
    scope: u64,
    shash: [u8; 32],
}

/// groups by number of shared leading bytes (index = shared bytes, clipped to 6); members ascending
struct Ground {
    by_len: Vec<Vec<Vec<GCand>>>,
    next: Vec<usize>,
}

fn lcp(a: &[u8; 32], b: &[u8; 32]) -> usize {
    a.iter().zip(b.iter()).take_while(|(x, y)| x == y).count()
}

const ADV_WARP: u64 = 0xA1;

fn grind(base: u64, n: u64) -> Ground {
    let w = WarpId(small_id(ADV_WARP));
    let rid = [interp::rule_id(RULE_A), interp::rule_id(RULE_B)];
    // (leading 8 hash bytes, index*2 + rule)
    let mut v: Vec<(u64, u64)> = Vec::with_capacity(2 * n as usize);
    for i in 0..n {
        let key = NodeKey { warp_id: w, local_id: NodeId(small_id(base + i)) };
        for (r, id) in rid.iter().enumerate() {
            let h = scope_hash(id, &key);
            v.push((u64::from_be_bytes(h[0..8].try_into().unwrap()), i * 2 + r as u64));
        }
    }
    v.sort_unstable();
    let full = |x: &(u64, u64)| -> GCand {
        let (i, r) = (x.1 / 2, (x.1 % 2) as usize);
        let shash = scope_hash(&rid[r], &NodeKey { warp_id: w, local_id: NodeId(small_id(base + i)) });
        GCand { rule: if r == 0 { 'a' } else { 'b' }, scope: base + i, shash }
    };
    let shared = |a: u64, b: u64| -> usize { ((a ^ b).leading_zeros() / 8) as usize };
    let mut by_len: Vec<Vec<Vec<GCand>>> = vec![Vec::new(); 7];
    let mut used = vec![false; v.len()];
    // longest prefixes first, triples before pairs, never reusing a member
    for want in (2..=6usize).rev() {
        for size in [3usize, 2] {
            let cap = if want >= 4 { usize::MAX } else { 64 };
            let mut k = 0;
            while k + size <= v.len() && by_len[want].len() < cap {
                let sh = shared(v[k].0, v[k + size - 1].0).min(6);
                let fresh = (k..k + size).all(|j| !used[j]);
                // two different candidates on the same scope node (rules a and b) would share the program: skip
                let distinct_scopes = (k..k + size).all(|j| (k..j).all(|i| v[i].1 / 2 != v[j].1 / 2));
                if sh == want && fresh && distinct_scopes {
                    let mut g: Vec<GCand> = (k..k + size).map(|j| full(&v[j])).collect();
                    g.sort_by(|a, b| (a.shash, a.rule).cmp(&(b.shash, b.rule)));
                    let real = lcp(&g[0].shash, &g[size - 1].shash).min(6);
                    for j in k..k + size {
                        used[j] = true;
                    }
                    by_len[real].push(g);
                    k += size;
                } else {
                    k += 1;
                }
            }
        }
    }
    Ground { by_len, next: vec![0; 7] }
}

impl Ground {
    /// next unused group sharing exactly `len` leading bytes (wraps around when exhausted);
    /// `same_rule` prefers a group whose first two members are candidates of the same rule
    fn take(&mut self, len: usize, same_rule: bool) -> Option<Vec<GCand>> {
        let pool = &self.by_len[len];
        if pool.is_empty() {
            return None;
        }
        let n = pool.len();
        let start = self.next[len];
        let mut pick = start % n;
        if same_rule {
            for d in 0..n {
                let g = &pool[(start + d) % n];
                if g[0].rule == g[1].rule {
                    pick = (start + d) % n;
                    break;
                }
            }
        }
        self.next[len] = pick + 1;
        Some(pool[pick].clone())
    }
}

#[derive(Clone, Copy, PartialEq, Eq, Debug)]
enum Arrival {
    /// descending (scope hash, rule): the exact reverse of the canonical drain order
    Anti,
    /// ascending, then every grouped candidate enqueued AGAIN in descending order (the last-wins
    /// re-enqueue refreshes the nonce, so the latest arrival order is anti-canonical)
    AscThenDupAnti,
    /// shuffled, reversed halves, random repeats
    ShuffleDup,
    /// ascending (control)
    Canon,
}

/// One adversarial tick: `total` distinct candidates in warp 0xA1; several groups of candidates with
/// shared scope-hash prefixes and CONFLICTING footprints (so the accepted member - hence post-state,
/// root, patch, commit id - is decided by the drain order), the rest pairwise independent fillers.
fn gen_adversarial(rng: &mut Rng, ground: &mut Ground, total: u64, kind: &str, arrival: Arrival, lens: &[usize]) -> String {
    let children = rng.chance(1, 3);
    let mut st = gen_state(rng, 5, 4, children);
    let wid = ADV_WARP;
    let mut cands: Vec<GCand> = Vec::new();
    let mut grouped: Vec<GCand> = Vec::new();
    let mut progs: Vec<(u64, String)> = Vec::new();
    for (gi, len) in lens.iter().enumerate() {
        if cands.len() as u64 + 2 > total {
            break;
        }
        let Some(g) = ground.take(*len, gi % 2 == 0) else { continue };
        if g.iter().any(|m| cands.iter().any(|c| c.scope == m.scope)) {
            continue; // the same scope node under the other rule is already in this tick
        }
        let g: Vec<GCand> = g.into_iter().take((total - cands.len() as u64) as usize).collect();
        let gi = gi as u64;
        let t = 0x700 + gi; // target node of the group (exists, carries an attachment)
        {
            let w = st.warps.get_mut(&wid).unwrap();
            w.nodes.insert(t, 0x10);
            w.natts.insert(t, GAtt::Atom(0x70, vec![0xEE, gi as u8]));
        }
        let ckind = rng.below(6);
        let reader = rng.below(g.len() as u64) as usize;
        for (j, m) in g.iter().enumerate() {
            let j64 = j as u64;
            let prog = match ckind {
                // attachment write/write on the group's node, member-specific value
                0 => format!("P {} 1 E SA na {} {} a {} {}", interp::fp_text(&[], &[], &[], &[], &[], &[(false, t)]), sid(wid), sid(t), sid(0x70), hex(&[gi as u8, j as u8])),
                // node write/write: same fresh node, member-specific type
                1 => format!("P {} 1 E UN {} {} {}", interp::fp_text(&[], &[0x780 + gi], &[], &[], &[], &[]), sid(wid), sid(0x780 + gi), sid(0x10 + j64)),
                // read/write: one member copies the PRE-state value of the node onto its own scope node,
                // the others overwrite the node
                2 => {
                    if j == reader {
                        format!("P {} 1 CP {} {}", interp::fp_text(&[], &[], &[], &[], &[(false, t)], &[(false, m.scope)]), sid(t), sid(m.scope))
                    } else {
                        format!("P {} 1 E SA na {} {} a {} {}", interp::fp_text(&[], &[], &[], &[], &[], &[(false, t)]), sid(wid), sid(t), sid(0x70), hex(&[gi as u8, j as u8]))
                    }
                }
                // edge write/write: same fresh edge, member-specific type
                3 => format!(
                    "P {} 1 E UE {} {} {} {} {}",
                    interp::fp_text(&[], &[t], &[], &[0x7C0 + gi], &[], &[]),
                    sid(wid), sid(0x7C0 + gi), sid(t), sid(t), sid(0x30 + j64)
                ),
                // delete vs. attachment write on the same node (node write + alpha write vs alpha write)
                4 => {
                    if j == reader {
                        format!("P {} 1 E DN {} {}", interp::fp_text(&[], &[t], &[], &[], &[], &[(false, t)]), sid(wid), sid(t))
                    } else {
                        format!("P {} 1 E SA na {} {} -", interp::fp_text(&[], &[], &[], &[], &[], &[(false, t)]), sid(wid), sid(t))
                    }
                }
                // value computed from the pre-state + a conditional on the node another member rewrites
                _ => format!(
                    "P {} 2 IFA {} SA na {} {} a {} {} SA na {} {} - CP {} {}",
                    interp::fp_text(&[], &[], &[], &[], &[(false, t)], &[(false, t), (false, m.scope)]),
                    sid(t), sid(wid), sid(t), sid(0x71), hex(&[j as u8]), sid(wid), sid(t), sid(t), sid(m.scope)
                ),
            };
            progs.push((m.scope, prog));
            cands.push(m.clone());
            grouped.push(m.clone());
        }
    }
    // fillers: pairwise independent, each writes its own fresh node
    let mut j = 0u64;
    let random_fillers = if rng.chance(1, 6) { 3 } else { 0 };
    while (cands.len() as u64) < total {
        let scope = 0x1000 + j;
        let rule = if rng.chance(1, 5) { 'b' } else { 'a' };
        let prog = if j < random_fillers {
            gen_program(rng, &st.warps[&wid])
        } else {
            format!("P {} 1 E UN {} {} {}", interp::fp_text(&[], &[0x2000 + j], &[], &[], &[], &[]), sid(wid), sid(0x2000 + j), sid(0x11))
        };
        let shash = scope_hash(&interp::rule_id(if rule == 'a' { RULE_A } else { RULE_B }), &NodeKey { warp_id: WarpId(small_id(wid)), local_id: NodeId(small_id(scope)) });
        progs.push((scope, prog));
        cands.push(GCand { rule, scope, shash });
        j += 1;
    }
    {
        let w = st.warps.get_mut(&wid).unwrap();
        for (scope, prog) in progs {
            w.nodes.insert(scope, 0x98);
            w.natts.insert(scope, GAtt::Atom(interp::PROG_TY, prog.into_bytes()));
        }
    }
    let key = |c: &GCand| (c.shash, c.rule);
    let mut order = cands.clone();
    match arrival {
        Arrival::Anti => {
            order.sort_by(|a, b| key(b).cmp(&key(a)));
        }
        Arrival::Canon => {
            order.sort_by(|a, b| key(a).cmp(&key(b)));
        }
        Arrival::AscThenDupAnti => {
            order.sort_by(|a, b| key(a).cmp(&key(b)));
            let mut again = grouped.clone();
            again.sort_by(|a, b| key(b).cmp(&key(a)));
            order.extend(again);
        }
        Arrival::ShuffleDup => {
            rng.shuffle(&mut order);
            order.reverse();
            let mut again = grouped.clone();
            again.sort_by(|a, b| key(b).cmp(&key(a)));
            for x in again {
                let pos = rng.below(order.len() as u64 + 1) as usize;
                order.insert(pos, x.clone());
                if rng.chance(1, 2) {
                    order.push(x);
                }
            }
        }
    }
    let workers = *rng.pick(&[1u64, 2, 4, 16]);
    let mut line = format!("{} {} {} {kind} {workers} {}", st.dump(), sid(0xA1), sid(1), order.len());
    for c in &order {
        line.push_str(&format!(" {} {} {} {}", c.rule, sid(wid), sid(c.scope), hex(&c.shash)));
    }
    line
}

fn gen_adversarial_set(rng: &mut Rng, tier: Tier) -> Vec<String> {
    // seed-derived id window; the pool is computed once per `gen` call
    let base = 0x0001_0000_0000u64 * (1 + rng.below(1 << 16));
    let n = if tier == Tier::Thorough { 2_500_000 } else { 160_000 };
    let mut ground = grind(base, n);
    let mut out = Vec::new();
    let lens_big: [&[usize]; 4] = [&[4, 4, 3, 3, 2, 4, 3, 2, 5, 6], &[4, 3, 4, 2, 3, 4, 5], &[3, 4, 2, 4, 3, 6], &[4, 4, 4, 3, 2, 5]];
    // (total, scheduler, arrival)
    let mut plan: Vec<(u64, &str, Arrival)> = vec![
        (1030 + rng.below(40), "radix", Arrival::Anti),
        (1025, "radix", Arrival::AscThenDupAnti),
        (1100 + rng.below(400), "radix", Arrival::ShuffleDup),
        (1024, "radix", Arrival::Anti),
        (1026 + rng.below(8), "legacy", Arrival::Anti),
        (2, "radix", Arrival::Anti),
        (3, "legacy", Arrival::Anti),
        (6, "radix", Arrival::AscThenDupAnti),
        (12, "radix", Arrival::ShuffleDup),
        (40, "legacy", Arrival::ShuffleDup),
        (200, "radix", Arrival::Anti),
        (9, "radix", Arrival::Canon),
    ];
    if tier == Tier::Thorough {
        for k in 0..40u64 {
            let total = match k % 5 {
                0 => 1025 + rng.below(6),
                1 => 1030 + rng.below(470),
                2 => 1020 + rng.below(5),
                3 => 2 + rng.below(60),
                _ => 1050 + rng.below(100),
            };
            let arr = [Arrival::Anti, Arrival::AscThenDupAnti, Arrival::ShuffleDup][(k % 3) as usize];
            plan.push((total, if k % 7 == 3 { "legacy" } else { "radix" }, arr));
        }
    }
    for (i, (total, kind, arr)) in plan.into_iter().enumerate() {
        out.push(gen_adversarial(rng, &mut ground, total, kind, arr, lens_big[i % 4]));
    }
    out
}

fn gen_tick(rng: &mut Rng, tier: Tier) -> Vec<String> {
    let n = if tier == Tier::Thorough { 1200 } else { 150 };
    // adversarial scheduler keys first: they are what the widened search needs to reach quickly
    let mut adv_rng = rng.fork();
    let mut out = gen_adversarial_set(&mut adv_rng, tier);
    for case in 0..n {
        let big = tier == Tier::Thorough && case % 100 == 7; // a plain batch above the 1024-entry small-sort threshold
        let mut st = gen_state(rng, 5, 4, case % 2 == 0);
        let wids: Vec<u64> = st.warps.keys().copied().collect();
        let medium = !big && case % 25 == 3; // 20..60 random programs: many conflicts, long blocker lists
        let wide = !big && case % 50 == 11; // 100..400 candidates, mostly independent
        let ncand = if big { 1030 + rng.below(40) } else if medium { rng.range(20, 60) } else if wide { rng.range(100, 400) } else { rng.range(0, 7) };
        let mut cands: Vec<(char, u64, u64)> = Vec::new();
        for j in 0..ncand {
            let wid = if big { 0xA1 } else { *rng.pick(&wids) };
            let scope = 0x1000 + j;
            let prog = if (big && j > 6) || (wide && j > 12) {
                // trivial, pairwise independent: each writes its own fresh node
                format!("P {} 1 E UN {} {} {}", interp::fp_text(&[], &[0x2000 + j], &[], &[], &[], &[]), sid(wid), sid(0x2000 + j), sid(0x11))
            } else {
                gen_program(rng, &st.warps[&wid])
            };
            let w = st.warps.get_mut(&wid).unwrap();
            w.nodes.insert(scope, 0x98);
            w.natts.insert(scope, GAtt::Atom(interp::PROG_TY, prog.into_bytes()));
            cands.push((if rng.chance(1, 5) { 'b' } else { 'a' }, wid, scope));
            if !big && rng.chance(1, 6) {
                // the same scope under the other rule: a distinct candidate with the same program
                cands.push(('b', wid, scope));
            }
        }
        // enqueue order: shuffled, with some repeats
        rng.shuffle(&mut cands);
        if !cands.is_empty() && rng.chance(1, 3) {
            let x = cands[rng.below(cands.len() as u64) as usize];
            cands.push(x);
        }
        let kind = if case % 3 == 0 { "legacy" } else { "radix" };
        let workers = *rng.pick(&[1u64, 1, 2, 4, 16]);
        let mut line = format!("{} {} {} {kind} {workers} {}", st.dump(), sid(0xA1), sid(1), cands.len());
        for (r, w, s) in &cands {
            let rule = if *r == 'a' { RULE_A } else { RULE_B };
            let h = scope_hash(&interp::rule_id(rule), &NodeKey { warp_id: WarpId(small_id(*w)), local_id: NodeId(small_id(*s)) });
            line.push_str(&format!(" {r} {} {} {}", sid(*w), sid(*s), hex(&h)));
        }
        out.push(line);
    }
    out
}
