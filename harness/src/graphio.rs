//! Shared (de)serialisation of `WarpState` dumps and `WarpOp`s for the line protocol
//! (grammar in DESIGN.md Appendix A; Lean side: Driver/GraphIO.lean).
#![allow(dead_code)]
use crate::prng::Rng;
use crate::util::{hex, small_id, Toks};
use bytes::Bytes;
use warp_core::echo_verif::state as hook;
use warp_core::{
    AtomPayload, AttachmentKey, AttachmentOwner, AttachmentPlane, AttachmentValue, EdgeId, EdgeKey, EdgeRecord,
    GraphStore, NodeId, NodeKey, NodeRecord, PortalInit, TickPatchError, TypeId, WarpId, WarpInstance, WarpOp,
    WarpState,
};

// ------------------------------------------------------------------ printing

pub fn key_str(k: &AttachmentKey) -> String {
    let p = match k.plane {
        AttachmentPlane::Alpha => 'a',
        AttachmentPlane::Beta => 'b',
    };
    match k.owner {
        AttachmentOwner::Node(n) => format!("n{p} {} {}", hex(&n.warp_id.0), hex(&n.local_id.0)),
        AttachmentOwner::Edge(e) => format!("e{p} {} {}", hex(&e.warp_id.0), hex(&e.local_id.0)),
    }
}

pub fn att_str(v: &AttachmentValue) -> String {
    match v {
        AttachmentValue::Atom(a) => format!("a {} {}", hex(&a.type_id.0), hex(&a.bytes)),
        AttachmentValue::Descend(w) => format!("d {}", hex(&w.0)),
    }
}

pub fn optatt_str(v: Option<&AttachmentValue>) -> String {
    v.map_or_else(|| "-".to_string(), att_str)
}

pub fn op_str(op: &WarpOp) -> String {
    match op {
        WarpOp::OpenPortal { key, child_warp, child_root, init } => format!(
            "OP {} {} {} {}",
            key_str(key),
            hex(&child_warp.0),
            hex(&child_root.0),
            match init {
                PortalInit::Empty { root_record } => format!("E {}", hex(&root_record.ty.0)),
                PortalInit::RequireExisting => "R".to_string(),
            }
        ),
        WarpOp::UpsertWarpInstance { instance } => format!(
            "UI {} {} {}",
            hex(&instance.warp_id.0),
            hex(&instance.root_node.0),
            instance.parent.as_ref().map_or_else(|| "-".to_string(), key_str)
        ),
        WarpOp::DeleteWarpInstance { warp_id } => format!("DI {}", hex(&warp_id.0)),
        WarpOp::UpsertNode { node, record } => {
            format!("UN {} {} {}", hex(&node.warp_id.0), hex(&node.local_id.0), hex(&record.ty.0))
        }
        WarpOp::DeleteNode { node } => format!("DN {} {}", hex(&node.warp_id.0), hex(&node.local_id.0)),
        WarpOp::UpsertEdge { warp_id, record } => format!(
            "UE {} {} {} {} {}",
            hex(&warp_id.0),
            hex(&record.id.0),
            hex(&record.from.0),
            hex(&record.to.0),
            hex(&record.ty.0)
        ),
        WarpOp::DeleteEdge { warp_id, from, edge_id } => {
            format!("DE {} {} {}", hex(&warp_id.0), hex(&from.0), hex(&edge_id.0))
        }
        WarpOp::SetAttachment { key, value } => format!("SA {} {}", key_str(key), optatt_str(value.as_ref())),
    }
}

pub fn ops_str(ops: &[WarpOp]) -> String {
    let mut s = format!("{}", ops.len());
    for o in ops {
        s.push(' ');
        s.push_str(&op_str(o));
    }
    s
}

/// Canonical dump: warps ascending; nodes, attachments, edges ascending by id (bucket order erased).
pub fn state_str(st: &WarpState) -> String {
    let insts = hook::instances(st);
    let stores = hook::stores(st);
    let mut s = format!("warps {}", stores.len());
    for (w, g) in stores {
        let inst = insts.iter().find(|i| i.warp_id == w);
        match inst {
            Some(i) => s.push_str(&format!(
                " {} {} {}",
                hex(&w.0),
                hex(&i.root_node.0),
                i.parent.as_ref().map_or_else(|| "-".to_string(), key_str)
            )),
            None => s.push_str(&format!(" {} noinst -", hex(&w.0))),
        }
        let nodes: Vec<_> = g.iter_nodes().collect();
        s.push_str(&format!(" nodes {}", nodes.len()));
        for (id, r) in nodes {
            s.push_str(&format!(" {} {}", hex(&id.0), hex(&r.ty.0)));
        }
        let na: Vec<_> = g.iter_node_attachments().collect();
        s.push_str(&format!(" natts {}", na.len()));
        for (id, v) in na {
            s.push_str(&format!(" {} {}", hex(&id.0), att_str(v)));
        }
        let mut edges: Vec<&EdgeRecord> = g.iter_edges().flat_map(|(_, v)| v.iter()).collect();
        edges.sort_by_key(|e| e.id);
        s.push_str(&format!(" edges {}", edges.len()));
        for e in edges {
            s.push_str(&format!(" {} {} {} {}", hex(&e.id.0), hex(&e.from.0), hex(&e.to.0), hex(&e.ty.0)));
        }
        let ea: Vec<_> = g.iter_edge_attachments().collect();
        s.push_str(&format!(" eatts {}", ea.len()));
        for (id, v) in ea {
            s.push_str(&format!(" {} {}", hex(&id.0), att_str(v)));
        }
    }
    s
}

pub fn err_class(e: &TickPatchError) -> &'static str {
    match e {
        TickPatchError::MissingWarp(_) => "MissingWarp",
        TickPatchError::MissingNode(_) => "MissingNode",
        TickPatchError::MissingEdge(_) => "MissingEdge",
        TickPatchError::NodeNotIsolated(_) => "NodeNotIsolated",
        TickPatchError::InvalidAttachmentKey(_) => "InvalidAttachmentKey",
        TickPatchError::PortalInitRequired => "PortalInitRequired",
        TickPatchError::PortalInvariantViolation => "PortalInvariantViolation",
        TickPatchError::DigestMismatch => "DigestMismatch",
    }
}

// ------------------------------------------------------------------ parsing

pub fn parse_key(t: &mut Toks) -> Result<AttachmentKey, String> {
    let tag = t.next()?;
    let w = WarpId(t.id()?);
    let i = t.id()?;
    let (o, p) = (tag.as_bytes().first().copied(), tag.as_bytes().get(1).copied());
    let plane = match p {
        Some(b'a') => AttachmentPlane::Alpha,
        Some(b'b') => AttachmentPlane::Beta,
        _ => return Err(format!("bad key tag {tag}")),
    };
    let owner = match o {
        Some(b'n') => AttachmentOwner::Node(NodeKey { warp_id: w, local_id: NodeId(i) }),
        Some(b'e') => AttachmentOwner::Edge(EdgeKey { warp_id: w, local_id: EdgeId(i) }),
        _ => return Err(format!("bad key tag {tag}")),
    };
    Ok(AttachmentKey { owner, plane })
}

pub fn parse_optkey(t: &mut Toks) -> Result<Option<AttachmentKey>, String> {
    if t.t.get(t.i).copied() == Some("-") {
        t.i += 1;
        return Ok(None);
    }
    parse_key(t).map(Some)
}

pub fn parse_att(t: &mut Toks) -> Result<AttachmentValue, String> {
    match t.next()? {
        "a" => {
            let ty = TypeId(t.id()?);
            let b = t.bytes()?;
            Ok(AttachmentValue::Atom(AtomPayload::new(ty, Bytes::from(b))))
        }
        "d" => Ok(AttachmentValue::Descend(WarpId(t.id()?))),
        x => Err(format!("bad att tag {x}")),
    }
}

pub fn parse_optatt(t: &mut Toks) -> Result<Option<AttachmentValue>, String> {
    if t.t.get(t.i).copied() == Some("-") {
        t.i += 1;
        return Ok(None);
    }
    parse_att(t).map(Some)
}

pub fn parse_op(t: &mut Toks) -> Result<WarpOp, String> {
    match t.next()? {
        "OP" => {
            let key = parse_key(t)?;
            let child_warp = WarpId(t.id()?);
            let child_root = NodeId(t.id()?);
            let init = match t.next()? {
                "E" => PortalInit::Empty { root_record: NodeRecord { ty: TypeId(t.id()?) } },
                "R" => PortalInit::RequireExisting,
                x => return Err(format!("bad init {x}")),
            };
            Ok(WarpOp::OpenPortal { key, child_warp, child_root, init })
        }
        "UI" => {
            let warp_id = WarpId(t.id()?);
            let root_node = NodeId(t.id()?);
            let parent = parse_optkey(t)?;
            Ok(WarpOp::UpsertWarpInstance { instance: WarpInstance { warp_id, root_node, parent } })
        }
        "DI" => Ok(WarpOp::DeleteWarpInstance { warp_id: WarpId(t.id()?) }),
        "UN" => {
            let w = WarpId(t.id()?);
            let i = NodeId(t.id()?);
            let ty = TypeId(t.id()?);
            Ok(WarpOp::UpsertNode { node: NodeKey { warp_id: w, local_id: i }, record: NodeRecord { ty } })
        }
        "DN" => {
            let w = WarpId(t.id()?);
            let i = NodeId(t.id()?);
            Ok(WarpOp::DeleteNode { node: NodeKey { warp_id: w, local_id: i } })
        }
        "UE" => {
            let w = WarpId(t.id()?);
            let id = EdgeId(t.id()?);
            let from = NodeId(t.id()?);
            let to = NodeId(t.id()?);
            let ty = TypeId(t.id()?);
            Ok(WarpOp::UpsertEdge { warp_id: w, record: EdgeRecord { id, from, to, ty } })
        }
        "DE" => {
            let w = WarpId(t.id()?);
            let from = NodeId(t.id()?);
            let id = EdgeId(t.id()?);
            Ok(WarpOp::DeleteEdge { warp_id: w, from, edge_id: id })
        }
        "SA" => {
            let key = parse_key(t)?;
            let value = parse_optatt(t)?;
            Ok(WarpOp::SetAttachment { key, value })
        }
        x => Err(format!("bad op tag {x}")),
    }
}

pub fn parse_ops(t: &mut Toks) -> Result<Vec<WarpOp>, String> {
    let n = t.num()?;
    (0..n).map(|_| parse_op(t)).collect()
}

/// Builds a real `WarpState` from a dump. Edges are inserted in dump order.
pub fn parse_state(t: &mut Toks) -> Result<WarpState, String> {
    let kw = t.next()?;
    if kw != "warps" {
        return Err(format!("expected warps, got {kw}"));
    }
    let n = t.num()?;
    let mut st = WarpState::new();
    for _ in 0..n {
        let w = WarpId(t.id()?);
        let root = NodeId(t.id()?);
        let parent = parse_optkey(t)?;
        let mut g = GraphStore::new(w);
        expect(t, "nodes")?;
        for _ in 0..t.num()? {
            let id = NodeId(t.id()?);
            let ty = TypeId(t.id()?);
            g.insert_node(id, NodeRecord { ty });
        }
        expect(t, "natts")?;
        for _ in 0..t.num()? {
            let id = NodeId(t.id()?);
            let v = parse_att(t)?;
            g.set_node_attachment(id, Some(v));
        }
        expect(t, "edges")?;
        for _ in 0..t.num()? {
            let id = EdgeId(t.id()?);
            let from = NodeId(t.id()?);
            let to = NodeId(t.id()?);
            let ty = TypeId(t.id()?);
            g.insert_edge(from, EdgeRecord { id, from, to, ty });
        }
        expect(t, "eatts")?;
        for _ in 0..t.num()? {
            let id = EdgeId(t.id()?);
            let v = parse_att(t)?;
            g.set_edge_attachment(id, Some(v));
        }
        hook::upsert_instance(&mut st, WarpInstance { warp_id: w, root_node: root, parent }, g);
    }
    Ok(st)
}

fn expect(t: &mut Toks, kw: &str) -> Result<(), String> {
    let x = t.next()?;
    if x == kw {
        Ok(())
    } else {
        Err(format!("expected {kw}, got {x}"))
    }
}

// ------------------------------------------------------------------ generation (abstract states)

#[derive(Clone, Debug, PartialEq, Eq)]
pub enum GAtt {
    Atom(u64, Vec<u8>),
    Descend(u64),
}

#[derive(Clone, Debug, Default, PartialEq, Eq)]
pub struct GWarp {
    pub id: u64,
    pub root: u64,
    /// (is_edge, warp, local)
    pub parent: Option<(bool, u64, u64)>,
    pub nodes: std::collections::BTreeMap<u64, u64>,
    pub natts: std::collections::BTreeMap<u64, GAtt>,
    pub edges: std::collections::BTreeMap<u64, (u64, u64, u64)>,
    pub eatts: std::collections::BTreeMap<u64, GAtt>,
}

#[derive(Clone, Debug, Default, PartialEq, Eq)]
pub struct GState {
    pub warps: std::collections::BTreeMap<u64, GWarp>,
}

pub fn sid(n: u64) -> String {
    hex(&small_id(n))
}

fn gatt_str(a: &GAtt) -> String {
    match a {
        GAtt::Atom(ty, b) => format!("a {} {}", sid(*ty), hex(b)),
        GAtt::Descend(w) => format!("d {}", sid(*w)),
    }
}

impl GState {
    pub fn dump(&self) -> String {
        let mut s = format!("warps {}", self.warps.len());
        for w in self.warps.values() {
            let parent = match w.parent {
                None => "-".to_string(),
                Some((false, pw, pi)) => format!("na {} {}", sid(pw), sid(pi)),
                Some((true, pw, pi)) => format!("eb {} {}", sid(pw), sid(pi)),
            };
            s.push_str(&format!(" {} {} {}", sid(w.id), sid(w.root), parent));
            s.push_str(&format!(" nodes {}", w.nodes.len()));
            for (i, ty) in &w.nodes {
                s.push_str(&format!(" {} {}", sid(*i), sid(*ty)));
            }
            s.push_str(&format!(" natts {}", w.natts.len()));
            for (i, a) in &w.natts {
                s.push_str(&format!(" {} {}", sid(*i), gatt_str(a)));
            }
            s.push_str(&format!(" edges {}", w.edges.len()));
            for (i, (f, t, ty)) in &w.edges {
                s.push_str(&format!(" {} {} {} {}", sid(*i), sid(*f), sid(*t), sid(*ty)));
            }
            s.push_str(&format!(" eatts {}", w.eatts.len()));
            for (i, a) in &w.eatts {
                s.push_str(&format!(" {} {}", sid(*i), gatt_str(a)));
            }
        }
        s
    }
}

fn gen_atom(rng: &mut Rng) -> GAtt {
    let ty = 0x70 + rng.below(2);
    let len = rng.below(4) as usize;
    GAtt::Atom(ty, (0..len).map(|_| *rng.pick(&[0u8, 1, 0xff])).collect())
}

/// One well-formed instance body: nodes 1..=k, edges with existing endpoints, attachments on existing owners.
fn gen_body(rng: &mut Rng, w: &mut GWarp, max_nodes: u64, max_edges: u64) {
    let n = rng.range(1, max_nodes);
    for i in 1..=n {
        if i == 1 || rng.chance(3, 4) {
            w.nodes.insert(i, 0x10 + rng.below(2));
        }
    }
    let ids: Vec<u64> = w.nodes.keys().copied().collect();
    for e in 1..=max_edges {
        if rng.chance(1, 2) {
            let f = *rng.pick(&ids);
            let t = *rng.pick(&ids);
            w.edges.insert(0x20 + e, (f, t, 0x30 + rng.below(2)));
        }
    }
    for i in ids {
        if rng.chance(1, 3) {
            w.natts.insert(i, gen_atom(rng));
        }
    }
    let eids: Vec<u64> = w.edges.keys().copied().collect();
    for e in eids {
        if rng.chance(1, 3) {
            w.eatts.insert(e, gen_atom(rng));
        }
    }
}

/// A well-formed multi-instance state: root warp 0xA1 and optionally child warps hanging off portals.
pub fn gen_state(rng: &mut Rng, max_nodes: u64, max_edges: u64, allow_children: bool) -> GState {
    let mut st = GState::default();
    let mut root = GWarp { id: 0xA1, root: 1, ..Default::default() };
    gen_body(rng, &mut root, max_nodes, max_edges);
    st.warps.insert(root.id, root);
    if allow_children {
        let nchild = rng.below(3);
        for c in 0..nchild {
            let cid = 0xA2 + c;
            // parent slot: a node or an edge of an existing warp
            let pw = *rng.pick(&st.warps.keys().copied().collect::<Vec<_>>());
            let (is_edge, pi) = {
                let p = &st.warps[&pw];
                if !p.edges.is_empty() && rng.chance(1, 3) {
                    (true, *rng.pick(&p.edges.keys().copied().collect::<Vec<_>>()))
                } else {
                    (false, *rng.pick(&p.nodes.keys().copied().collect::<Vec<_>>()))
                }
            };
            // the slot must not already be a portal
            let taken = {
                let p = &st.warps[&pw];
                let cur = if is_edge { p.eatts.get(&pi) } else { p.natts.get(&pi) };
                matches!(cur, Some(GAtt::Descend(_)))
            };
            if taken {
                continue;
            }
            let mut child = GWarp { id: cid, root: 1, parent: Some((is_edge, pw, pi)), ..Default::default() };
            gen_body(rng, &mut child, max_nodes, max_edges);
            let p = st.warps.get_mut(&pw).unwrap();
            if is_edge {
                p.eatts.insert(pi, GAtt::Descend(cid));
            } else {
                p.natts.insert(pi, GAtt::Descend(cid));
            }
            st.warps.insert(cid, child);
        }
    }
    st
}

/// Applies `k` random well-formedness-preserving (mostly) edits to a copy of the state.
pub fn mutate_state(rng: &mut Rng, st: &GState, k: u64, allow_instance_edits: bool) -> GState {
    let mut s = st.clone();
    for _ in 0..k {
        let wids: Vec<u64> = s.warps.keys().copied().collect();
        let wid = *rng.pick(&wids);
        let choice = rng.below(if allow_instance_edits { 13 } else { 11 });
        let w = s.warps.get_mut(&wid).unwrap();
        let nids: Vec<u64> = w.nodes.keys().copied().collect();
        let eids: Vec<u64> = w.edges.keys().copied().collect();
        match choice {
            0 => {
                // add node
                w.nodes.insert(rng.range(1, 6), 0x10 + rng.below(2));
            }
            1 => {
                // retype node
                if let Some(i) = nids.first() {
                    w.nodes.insert(*i, 0x12);
                }
            }
            2 => {
                // delete a node together with its incident edges and attachment (never the root)
                if nids.len() > 1 {
                    let i = *rng.pick(&nids[1..]);
                    if !matches!(w.natts.get(&i), Some(GAtt::Descend(_))) {
                        w.nodes.remove(&i);
                        w.natts.remove(&i);
                        let dead: Vec<u64> =
                            w.edges.iter().filter(|(_, (f, t, _))| *f == i || *t == i).map(|(e, _)| *e).collect();
                        for e in dead {
                            if !matches!(w.eatts.get(&e), Some(GAtt::Descend(_))) {
                                w.edges.remove(&e);
                                w.eatts.remove(&e);
                            } else {
                                // keep the portal edge: re-point it at the root instead
                                let (f, t, ty) = w.edges[&e];
                                let f2 = if f == i { w.root } else { f };
                                let t2 = if t == i { w.root } else { t };
                                w.edges.insert(e, (f2, t2, ty));
                            }
                        }
                    }
                }
            }
            3 => {
                // add edge
                if !nids.is_empty() {
                    let f = *rng.pick(&nids);
                    let t = *rng.pick(&nids);
                    w.edges.insert(0x20 + rng.range(1, 5), (f, t, 0x30 + rng.below(2)));
                }
            }
            4 => {
                // delete edge (not a portal owner)
                if let Some(e) = eids.first() {
                    if !matches!(w.eatts.get(e), Some(GAtt::Descend(_))) {
                        w.edges.remove(e);
                        w.eatts.remove(e);
                    }
                }
            }
            5 => {
                // retarget / retype edge
                if !eids.is_empty() && !nids.is_empty() {
                    let e = *rng.pick(&eids);
                    let (f, _, ty) = w.edges[&e];
                    w.edges.insert(e, (f, *rng.pick(&nids), ty + rng.below(2)));
                }
            }
            6 => {
                // RE-PARENT edge: same id, different `from`
                if !eids.is_empty() && nids.len() > 1 {
                    let e = *rng.pick(&eids);
                    let (f, t, ty) = w.edges[&e];
                    let nf = *rng.pick(&nids);
                    if nf != f {
                        w.edges.insert(e, (nf, t, ty));
                    }
                }
            }
            7 => {
                // set node attachment (atom), never over a portal
                if !nids.is_empty() {
                    let i = *rng.pick(&nids);
                    if !matches!(w.natts.get(&i), Some(GAtt::Descend(_))) {
                        w.natts.insert(i, gen_atom(rng));
                    }
                }
            }
            8 => {
                if !nids.is_empty() {
                    let i = *rng.pick(&nids);
                    if !matches!(w.natts.get(&i), Some(GAtt::Descend(_))) {
                        w.natts.remove(&i);
                    }
                }
            }
            9 => {
                if !eids.is_empty() {
                    let e = *rng.pick(&eids);
                    if !matches!(w.eatts.get(&e), Some(GAtt::Descend(_))) {
                        w.eatts.insert(e, gen_atom(rng));
                    }
                }
            }
            10 => {
                if !eids.is_empty() {
                    let e = *rng.pick(&eids);
                    if !matches!(w.eatts.get(&e), Some(GAtt::Descend(_))) {
                        w.eatts.remove(&e);
                    }
                }
            }
            11 => {
                // open a new portal + child instance on a free node slot
                let free: Vec<u64> = nids.iter().copied().filter(|i| !w.natts.contains_key(i)).collect();
                let cid = 0xB0 + rng.below(3);
                if !free.is_empty() && !s.warps.contains_key(&cid) {
                    let pi = *rng.pick(&free);
                    let mut child = GWarp { id: cid, root: 1, parent: Some((false, wid, pi)), ..Default::default() };
                    gen_body(rng, &mut child, 3, 2);
                    s.warps.get_mut(&wid).unwrap().natts.insert(pi, GAtt::Descend(cid));
                    s.warps.insert(cid, child);
                }
            }
            _ => {
                // delete a leaf child instance and clear its portal slot
                let leafs: Vec<u64> = s
                    .warps
                    .values()
                    .filter(|c| c.parent.is_some())
                    .filter(|c| {
                        !c.natts.values().chain(c.eatts.values()).any(|a| matches!(a, GAtt::Descend(_)))
                    })
                    .map(|c| c.id)
                    .collect();
                if let Some(cid) = leafs.first().copied() {
                    let (is_edge, pw, pi) = s.warps[&cid].parent.unwrap();
                    s.warps.remove(&cid);
                    if let Some(p) = s.warps.get_mut(&pw) {
                        if is_edge {
                            p.eatts.remove(&pi);
                        } else {
                            p.natts.remove(&pi);
                        }
                    }
                }
            }
        }
    }
    s
}
