//! C06, goal WSC — the columnar snapshot writer/reader byte for byte.
//! Real code: `wsc::{build_one_warp_input, write_wsc_one_warp, WscFile::from_bytes, validate_wsc, WarpView}`.
//! Streams: `C06.wscb <state>` (file bytes of every warp + what the reader makes of them) and
//! `C06.wscr <hex bytes>` (reader/validator on arbitrary, mostly damaged, files).
//! Lean side: Model/WscFile.lean, Driver/C06w.lean.
use crate::graphio::*;
use crate::prng::Rng;
use crate::util::{hex, small_id, Toks};
use crate::{OracleOut, Stream, Tier};
use bytes::Bytes;
use std::collections::BTreeMap;
use std::panic::{catch_unwind, AssertUnwindSafe};
use warp_core::echo_verif::state as hook;
use warp_core::wsc::types::AttRow;
use warp_core::wsc::{build_one_warp_input, validate_wsc, write_wsc_one_warp, ReadError, WarpView, WscFile};
use warp_core::{
    AtomPayload, AttachmentValue, EdgeId, EdgeRecord, GraphStore, NodeId, NodeKey, NodeRecord, TypeId, WarpId,
    WarpInstance, WarpState,
};

pub fn streams() -> Vec<Stream> {
    vec![
        Stream { name: "C06.wscb", gen: gen_wscb, imp: imp_wscb, oracle: oracle_wscb },
        Stream { name: "C06.wscr", gen: gen_wscr, imp: imp_wscr, oracle: oracle_wscr },
    ]
}

type Id = [u8; 32];

// ------------------------------------------------------------------ abstract states

#[derive(Clone, Debug, PartialEq, Eq)]
enum AAtt {
    Atom(Id, Vec<u8>),
    Descend(Id),
}

#[derive(Clone, Debug, PartialEq, Eq, Default)]
struct AWarp {
    id: Id,
    root: Id,
    nodes: BTreeMap<Id, Id>,
    natts: BTreeMap<Id, AAtt>,
    /// id -> (from, to, ty)
    edges: BTreeMap<Id, (Id, Id, Id)>,
    eatts: BTreeMap<Id, AAtt>,
}

#[derive(Clone, Debug, PartialEq, Eq, Default)]
struct AState {
    warps: BTreeMap<Id, AWarp>,
}

fn a_att(t: &mut Toks) -> Result<AAtt, String> {
    match t.next()? {
        "a" => Ok(AAtt::Atom(t.id()?, t.bytes()?)),
        "d" => Ok(AAtt::Descend(t.id()?)),
        x => Err(format!("bad att tag {x}")),
    }
}

fn a_expect(t: &mut Toks, kw: &str) -> Result<(), String> {
    let x = t.next()?;
    if x == kw {
        Ok(())
    } else {
        Err(format!("expected {kw}, got {x}"))
    }
}

/// Same grammar and last-wins semantics as `graphio::parse_state` (parent keys are skipped: WSC has no column for them).
fn a_parse(t: &mut Toks) -> Result<AState, String> {
    a_expect(t, "warps")?;
    let n = t.num()?;
    let mut st = AState::default();
    for _ in 0..n {
        let id = t.id()?;
        let root = t.id()?;
        let _ = parse_optkey(t)?;
        let mut w = AWarp { id, root, ..Default::default() };
        a_expect(t, "nodes")?;
        for _ in 0..t.num()? {
            let i = t.id()?;
            w.nodes.insert(i, t.id()?);
        }
        a_expect(t, "natts")?;
        for _ in 0..t.num()? {
            let i = t.id()?;
            w.natts.insert(i, a_att(t)?);
        }
        a_expect(t, "edges")?;
        for _ in 0..t.num()? {
            let i = t.id()?;
            let f = t.id()?;
            let to = t.id()?;
            let ty = t.id()?;
            w.edges.insert(i, (f, to, ty));
        }
        a_expect(t, "eatts")?;
        for _ in 0..t.num()? {
            let i = t.id()?;
            w.eatts.insert(i, a_att(t)?);
        }
        st.warps.insert(id, w);
    }
    Ok(st)
}

fn a_att_str(a: &AAtt) -> String {
    match a {
        AAtt::Atom(ty, b) => format!("a {} {}", hex(ty), hex(b)),
        AAtt::Descend(w) => format!("d {}", hex(w)),
    }
}

/// Dump with every list (warps, nodes, attachments, edges) in a random order.
fn a_dump(st: &AState, rng: &mut Rng) -> String {
    fn order<T: Clone>(v: Vec<T>, rng: &mut Rng) -> Vec<T> {
        let mut v = v;
        rng.shuffle(&mut v);
        v
    }
    let mut s = format!("warps {}", st.warps.len());
    for w in order(st.warps.values().cloned().collect::<Vec<_>>(), rng) {
        s.push_str(&format!(" {} {} -", hex(&w.id), hex(&w.root)));
        s.push_str(&format!(" nodes {}", w.nodes.len()));
        for (i, ty) in order(w.nodes.iter().collect::<Vec<_>>(), rng) {
            s.push_str(&format!(" {} {}", hex(i), hex(ty)));
        }
        s.push_str(&format!(" natts {}", w.natts.len()));
        for (i, a) in order(w.natts.iter().collect::<Vec<_>>(), rng) {
            s.push_str(&format!(" {} {}", hex(i), a_att_str(a)));
        }
        s.push_str(&format!(" edges {}", w.edges.len()));
        for (i, (f, t, ty)) in order(w.edges.iter().collect::<Vec<_>>(), rng) {
            s.push_str(&format!(" {} {} {} {}", hex(i), hex(f), hex(t), hex(ty)));
        }
        s.push_str(&format!(" eatts {}", w.eatts.len()));
        for (i, a) in order(w.eatts.iter().collect::<Vec<_>>(), rng) {
            s.push_str(&format!(" {} {}", hex(i), a_att_str(a)));
        }
    }
    s
}

fn real_att(a: &AAtt) -> AttachmentValue {
    match a {
        AAtt::Atom(ty, b) => AttachmentValue::Atom(AtomPayload::new(TypeId(*ty), Bytes::from(b.clone()))),
        AAtt::Descend(w) => AttachmentValue::Descend(WarpId(*w)),
    }
}

fn junk(tag: u8, n: u8) -> Id {
    let mut b = [0xEEu8; 32];
    b[0] = tag;
    b[31] = n;
    b
}

/// One real store. mode 0: ascending order; 1: random insertion order; 2: random order plus storage
/// churn (junk inserted and removed again, edges first filed under another source, overwritten values).
fn a_store(w: &AWarp, mode: u64, rng: &mut Rng) -> GraphStore {
    let mut g = GraphStore::new(WarpId(w.id));
    let mut nodes: Vec<_> = w.nodes.iter().collect();
    let mut edges: Vec<_> = w.edges.iter().collect();
    let mut natts: Vec<_> = w.natts.iter().collect();
    let mut eatts: Vec<_> = w.eatts.iter().collect();
    if mode > 0 {
        rng.shuffle(&mut nodes);
        rng.shuffle(&mut edges);
        rng.shuffle(&mut natts);
        rng.shuffle(&mut eatts);
    }
    let atts_first = mode > 0 && rng.chance(1, 2);
    if atts_first {
        for (i, a) in &eatts {
            g.set_edge_attachment(EdgeId(**i), Some(real_att(a)));
        }
        for (i, a) in &natts {
            g.set_node_attachment(NodeId(**i), Some(real_att(a)));
        }
    }
    if mode == 2 {
        let jn = NodeId(junk(0xF1, 1));
        g.insert_node(jn, NodeRecord { ty: TypeId(junk(0xF2, 0)) });
        g.set_node_attachment(jn, Some(AttachmentValue::Atom(AtomPayload::new(TypeId(junk(0xF2, 1)), Bytes::from(vec![1u8, 2, 3])))));
        for (k, (_, (f, _, ty))) in edges.iter().enumerate().take(2) {
            let je = EdgeId(junk(0xF3, k as u8));
            g.insert_edge(NodeId(*f), EdgeRecord { id: je, from: NodeId(*f), to: jn, ty: TypeId(*ty) });
            g.set_edge_attachment(je, Some(AttachmentValue::Descend(WarpId(junk(0xF4, 0)))));
        }
    }
    let edges_first = mode > 0 && rng.chance(1, 2);
    if !edges_first {
        for (i, ty) in &nodes {
            g.insert_node(NodeId(**i), NodeRecord { ty: TypeId(**ty) });
        }
    }
    for (i, (f, t, ty)) in &edges {
        if mode == 2 && rng.chance(1, 2) {
            let other = NodeId(junk(0xF5, 0));
            g.insert_edge(other, EdgeRecord { id: EdgeId(**i), from: other, to: other, ty: TypeId(junk(0xF6, 0)) });
        }
        g.insert_edge(NodeId(*f), EdgeRecord { id: EdgeId(**i), from: NodeId(*f), to: NodeId(*t), ty: TypeId(*ty) });
    }
    if edges_first {
        for (i, ty) in &nodes {
            if mode == 2 {
                g.insert_node(NodeId(**i), NodeRecord { ty: TypeId(junk(0xF7, 0)) });
            }
            g.insert_node(NodeId(**i), NodeRecord { ty: TypeId(**ty) });
        }
    }
    if mode == 2 {
        g.delete_node_cascade(NodeId(junk(0xF1, 1)));
    }
    if !atts_first {
        for (i, a) in &natts {
            if mode == 2 {
                g.set_node_attachment(NodeId(**i), Some(AttachmentValue::Descend(WarpId(junk(0xF8, 0)))));
            }
            g.set_node_attachment(NodeId(**i), Some(real_att(a)));
        }
    }
    // (re-)assert β values: idempotent, and the cascade above may only have touched junk edges
    for (i, a) in &eatts {
        g.set_edge_attachment(EdgeId(**i), Some(real_att(a)));
    }
    g
}

// ------------------------------------------------------------------ the real writer / reader, canonical printing

fn panic_class(p: Box<dyn std::any::Any + Send>) -> String {
    let msg = p.downcast_ref::<String>().cloned().or_else(|| p.downcast_ref::<&str>().map(|s| (*s).to_string())).unwrap_or_default();
    if msg.contains("does not exist in GraphStore") {
        "RootMissing".into()
    } else if msg.contains("edge_ix missing entry") {
        "EdgeIxMissing".into()
    } else if msg.contains("WSC buffer size mismatch") {
        "SizeMismatch".into()
    } else {
        format!("Panic:{}", msg.replace(' ', "_"))
    }
}

/// `build_one_warp_input` + `write_wsc_one_warp`; Err(("build-err"|"write-err", class)).
fn real_write(g: &GraphStore, root: NodeId, schema: Id, tick: u64) -> Result<Vec<u8>, (&'static str, String)> {
    let input = catch_unwind(AssertUnwindSafe(|| build_one_warp_input(g, root))).map_err(|p| ("build-err", panic_class(p)))?;
    match catch_unwind(AssertUnwindSafe(|| write_wsc_one_warp(&input, schema, tick))) {
        Err(p) => Err(("write-err", panic_class(p))),
        Ok(Err(e)) => Err(("write-err", format!("Io:{e}").replace(' ', "_"))),
        Ok(Ok(b)) => Ok(b),
    }
}

fn err_class(e: &ReadError) -> String {
    match e {
        ReadError::Io(_) => "Io".into(),
        ReadError::FileTooSmall { .. } => "FileTooSmall".into(),
        ReadError::InvalidMagic { .. } => "InvalidMagic".into(),
        ReadError::SectionOutOfBounds { name, .. } => format!("SectionOutOfBounds:{}", name.replace(' ', "_")),
        ReadError::WarpIndexOutOfBounds { .. } => "WarpIndexOutOfBounds".into(),
        ReadError::AlignmentViolation { .. } => "AlignmentViolation".into(),
        ReadError::IndexMismatch { .. } => "IndexMismatch".into(),
        ReadError::InvalidAttachmentTag { .. } => "InvalidAttachmentTag".into(),
        ReadError::BlobOutOfBounds { .. } => "BlobOutOfBounds".into(),
        ReadError::Alignment(_) => "Alignment".into(),
        ReadError::IndexRangeOutOfBounds { index_name, .. } => format!("IndexRangeOutOfBounds:{index_name}"),
        ReadError::OrderingViolation { kind, .. } => format!("OrderingViolation:{kind}"),
        ReadError::NonZeroReservedBytes { .. } => "NonZeroReservedBytes".into(),
        ReadError::NonAtomHasBlobFields { .. } => "NonAtomHasBlobFields".into(),
        ReadError::MissingRoot { .. } => "MissingRoot".into(),
    }
}

fn view_att(view: &WarpView<'_>, rows: &[AttRow]) -> Result<Option<AttachmentValue>, &'static str> {
    match rows {
        [] => Ok(None),
        [r] => {
            if r.is_atom() {
                let blob = view.blob_for_attachment(r).ok_or("BlobOutOfRange")?;
                Ok(Some(AttachmentValue::Atom(AtomPayload::new(TypeId(r.type_or_warp), Bytes::from(blob.to_vec())))))
            } else if r.is_descend() {
                Ok(Some(AttachmentValue::Descend(WarpId(r.type_or_warp))))
            } else {
                Err("BadAttachmentTag")
            }
        }
        _ => Err("MultipleAttRows"),
    }
}

/// Is the redundant out-edge index the one the edge rows determine?
fn out_index_consistent(view: &WarpView<'_>) -> bool {
    for (ix, n) in view.nodes().iter().enumerate() {
        let outs = view.out_edges_for_node(ix);
        let want: Vec<Id> = view.edges().iter().filter(|e| e.from_node_id == n.node_id).map(|e| e.edge_id).collect();
        let got: Vec<Id> = outs.iter().map(|r| r.edge_id).collect();
        if got != want {
            return false;
        }
        for r in outs {
            match usize::try_from(r.edge_ix()).ok().and_then(|i| view.edges().get(i)) {
                Some(e) if e.edge_id == r.edge_id => {}
                _ => return false,
            }
        }
    }
    true
}

fn store_str(g: &GraphStore) -> String {
    let mut s = String::new();
    let nodes: Vec<_> = g.iter_nodes().collect();
    s.push_str(&format!("nodes {}", nodes.len()));
    for (id, r) in nodes {
        s.push_str(&format!(" {} {}", hex(&id.0), hex(&r.ty.0)));
    }
    let na: Vec<_> = g.iter_node_attachments().collect();
    s.push_str(&format!(" natts {}", na.len()));
    for (id, v) in na {
        s.push_str(&format!(" {} {}", hex(&id.0), att_str(v)));
    }
    let mut edges: Vec<&EdgeRecord> = g.iter_edges().flat_map(|(_, v)| v.iter()).collect();
    edges.sort_by_key(|e| e.id);
    s.push_str(&format!(" edges {}", edges.len()));
    for e in edges {
        s.push_str(&format!(" {} {} {} {}", hex(&e.id.0), hex(&e.from.0), hex(&e.to.0), hex(&e.ty.0)));
    }
    let ea: Vec<_> = g.iter_edge_attachments().collect();
    s.push_str(&format!(" eatts {}", ea.len()));
    for (id, v) in ea {
        s.push_str(&format!(" {} {}", hex(&id.0), att_str(v)));
    }
    s
}

struct ReadOk {
    warp: Id,
    root: Id,
    schema: Id,
    tick: u64,
    oix: bool,
    store: Result<GraphStore, &'static str>,
}

/// `from_bytes` → `validate_wsc` → single warp → rows rebuilt into a `GraphStore`.
fn real_read(bytes: Vec<u8>) -> Result<ReadOk, String> {
    let file = WscFile::from_bytes(bytes).map_err(|e| err_class(&e))?;
    validate_wsc(&file).map_err(|e| err_class(&e))?;
    if file.warp_count() != 1 {
        return Err("WarpCount".into());
    }
    let view = file.warp_view(0).map_err(|e| err_class(&e))?;
    let w = *view.warp_id();
    let store = (|| {
        let mut g = GraphStore::new(WarpId(w));
        for (ix, n) in view.nodes().iter().enumerate() {
            g.insert_node(NodeId(n.node_id), NodeRecord { ty: TypeId(n.node_type) });
            if let Some(a) = view_att(&view, view.node_attachments(ix))? {
                g.set_node_attachment(NodeId(n.node_id), Some(a));
            }
        }
        for (ix, e) in view.edges().iter().enumerate() {
            g.insert_edge(
                NodeId(e.from_node_id),
                EdgeRecord { id: EdgeId(e.edge_id), from: NodeId(e.from_node_id), to: NodeId(e.to_node_id), ty: TypeId(e.edge_type) },
            );
            if let Some(a) = view_att(&view, view.edge_attachments(ix))? {
                g.set_edge_attachment(EdgeId(e.edge_id), Some(a));
            }
        }
        Ok(g)
    })();
    Ok(ReadOk { warp: w, root: *view.root_node_id(), schema: *file.schema_hash(), tick: file.tick(), oix: out_index_consistent(&view), store })
}

fn read_str(bytes: Vec<u8>) -> String {
    match catch_unwind(AssertUnwindSafe(|| real_read(bytes))) {
        Err(p) => format!("err {}", panic_class(p)),
        Ok(Err(e)) => format!("err {e}"),
        Ok(Ok(r)) => {
            let head = format!("ok {} {} {} {} oix {} ", hex(&r.warp), hex(&r.root), hex(&r.schema), r.tick, u8::from(r.oix));
            match &r.store {
                Err(e) => format!("{head}back-err {e}"),
                Ok(g) => format!("{head}{}", store_str(g)),
            }
        }
    }
}

// ------------------------------------------------------------------ C06.wscb  <state>

fn imp_wscb(t: &mut Toks) -> Result<String, String> {
    let st = parse_state(t)?;
    if !t.done() {
        return Err("trailing tokens".into());
    }
    let insts = hook::instances(&st);
    let stores = hook::stores(&st);
    let mut s = format!("warps {}", stores.len());
    for (w, g) in stores {
        s.push_str(&format!(" W {}", hex(&w.0)));
        let Some(inst) = insts.iter().find(|i| i.warp_id == w) else {
            s.push_str(" noinst");
            continue;
        };
        match real_write(g, inst.root_node, [0u8; 32], 0) {
            Err((k, c)) => s.push_str(&format!(" {k} {c}")),
            Ok(b) => s.push_str(&format!(" bytes {} read {}", hex(&b), read_str(b.clone()))),
        }
    }
    Ok(s)
}

fn case_rng(t: &Toks) -> Rng {
    let mut h = blake3::Hasher::new();
    for tok in &t.t {
        h.update(tok.as_bytes());
    }
    Rng::new(u64::from_le_bytes(h.finalize().as_bytes()[0..8].try_into().unwrap()))
}

/// the store with the attachments whose owner does not exist removed (WSC has rows for owners only).
fn owned_only(w: &AWarp) -> AWarp {
    let mut x = w.clone();
    x.natts.retain(|n, _| w.nodes.contains_key(n));
    x.eatts.retain(|e, _| w.edges.contains_key(e));
    x
}

/// byte positions of a *written* file: `slack` carries no information (header `reserved`, blob
/// alignment padding); `payload` carries denoted information directly (schema hash, tick, warp id, root,
/// node/edge rows, out-edge refs, attachment rows, referenced blob bytes). The rest is structural
/// (offsets, lengths, index ranges): a change there is rejected, changes the reading, or — for offsets
/// of empty sections, over-long `*_len`, starts of empty ranges — is redundant.
fn positions(bytes: &[u8]) -> (Vec<usize>, Vec<bool>) {
    let u = |o: usize| u64::from_le_bytes(bytes[o..o + 8].try_into().unwrap()) as usize;
    let mut slack: Vec<usize> = (64..128).collect();
    let mut payload = vec![false; bytes.len()];
    let mut mark = |a: usize, b: usize| {
        for p in a..b {
            payload[p] = true;
        }
    };
    mark(8, 48);
    let d = 128;
    mark(d, d + 64);
    mark(u(d + 64), u(d + 64) + 64 * u(d + 72));
    mark(u(d + 80), u(d + 80) + 128 * u(d + 88));
    mark(u(d + 104), u(d + 104) + 40 * u(d + 112));
    let (blobs_off, blobs_len) = (u(d + 168), u(d + 176));
    let mut used = vec![false; blobs_len];
    for (off_f, len_f) in [(d + 128, d + 136), (d + 152, d + 160)] {
        let (o, n) = (u(off_f), u(len_f));
        for k in 0..n {
            let r = o + 56 * k;
            mark(r, r + 40);
            if bytes[r] == AttRow::TAG_ATOM {
                let (bo, bl) = (u(r + 40), u(r + 48));
                mark(r + 48, r + 56);
                if bl > 0 {
                    mark(r + 40, r + 48);
                }
                mark(blobs_off + bo, blobs_off + bo + bl);
                for p in bo..bo + bl {
                    used[p] = true;
                }
            } else {
                mark(r + 40, r + 56);
            }
        }
    }
    slack.extend((0..blobs_len).filter(|p| !used[*p]).map(|p| blobs_off + p));
    (slack, payload)
}

fn oracle_wscb(t: &mut Toks, tier: Tier) -> Result<OracleOut, String> {
    let ast = a_parse(t)?;
    if !t.done() {
        return Err("trailing tokens".into());
    }
    let mut rng = case_rng(t);
    let mut o = OracleOut::default();
    let schema = [0x5c; 32];
    for w in ast.warps.values() {
        let g0 = a_store(w, 0, &mut rng);
        let root_ok = w.nodes.contains_key(&w.root) || (w.nodes.is_empty() && w.root == [0u8; 32]);
        let bytes0 = match real_write(&g0, NodeId(w.root), schema, 7) {
            Ok(b) => b,
            Err((k, c)) => {
                if root_ok || c != "RootMissing" {
                    o.fails.push((format!("C06.wscb.{k}"), format!("warp {}: writer failed with {c} on a store whose root is fine", hex(&w.id))));
                } else {
                    o.tags.push("build:root-missing".into());
                }
                continue;
            }
        };
        if !root_ok {
            o.fails.push(("C06.wscb.root-unchecked".into(), format!("warp {}: a root that is not a node was written", hex(&w.id))));
        }
        // (1) the written file validates and reads back as the same store
        let want = owned_only(w);
        if want != *w {
            o.tags.push("orphan-att:dropped".into());
        }
        let want_str = store_str(&a_store(&want, 0, &mut rng));
        let denot0 = read_str(bytes0.clone());
        match real_read(bytes0.clone()) {
            Err(e) => o.fails.push(("C06.wscb.validate-rejects".into(), format!("warp {}: written file rejected: {e}", hex(&w.id)))),
            Ok(r) => {
                if r.warp != w.id || r.root != w.root || r.schema != schema || r.tick != 7 {
                    o.fails.push(("C06.wscb.header".into(), "warp id / root / schema hash / tick not preserved".into()));
                }
                if !r.oix {
                    o.fails.push(("C06.wscb.out-index".into(), "out-edge index disagrees with the edge rows".into()));
                }
                match &r.store {
                    Err(e) => o.fails.push(("C06.wscb.roundtrip".into(), format!("rows do not rebuild: {e}"))),
                    Ok(g) => {
                        if store_str(g) != want_str {
                            o.fails.push(("C06.wscb.roundtrip".into(), format!("read-back differs: got [{}] want [{want_str}]", store_str(g))));
                        }
                        // same reachable content ⇒ same state root
                        let mut a = WarpState::new();
                        let mut b = WarpState::new();
                        let inst = WarpInstance { warp_id: WarpId(w.id), root_node: NodeId(w.root), parent: None };
                        hook::upsert_instance(&mut a, inst.clone(), g0.clone());
                        hook::upsert_instance(&mut b, inst, g.clone());
                        let k = NodeKey { warp_id: WarpId(w.id), local_id: NodeId(w.root) };
                        let portals = w.natts.values().chain(w.eatts.values()).any(|a| matches!(a, AAtt::Descend(_)));
                        if !portals && w.nodes.contains_key(&w.root) && hook::state_root(&a, &k) != hook::state_root(&b, &k) {
                            o.fails.push(("C06.wscb.roundtrip-root".into(), "read-back store has another state root".into()));
                        }
                    }
                }
            }
        }
        // (2) bytes are a function of the abstract store
        for mode in 1..3u64 {
            let g = a_store(w, mode, &mut rng);
            match real_write(&g, NodeId(w.root), schema, 7) {
                Ok(b) if b == bytes0 => {}
                Ok(_) => o.fails.push((format!("C06.wscb.order-dependent.mode{mode}"), "same abstract store, different file bytes".into())),
                Err((k, c)) => o.fails.push((format!("C06.wscb.{k}"), format!("mode {mode}: {c}"))),
            }
        }
        // (3) every strict prefix is rejected
        let mut cuts: Vec<usize> = vec![0, 1, 127, 128, 311, 312, bytes0.len() - 1];
        for _ in 0..(if tier == Tier::Thorough { 24 } else { 6 }) {
            cuts.push(rng.below(bytes0.len() as u64) as usize);
        }
        for c in cuts {
            if c < bytes0.len() && real_read(bytes0[..c].to_vec()).is_ok() {
                o.fails.push(("C06.wscb.truncation-accepted".into(), format!("prefix of {c} bytes (of {}) accepted", bytes0.len())));
            }
        }
        // (4) a flipped byte is rejected, or denotes something else, unless it sits in a slack position
        let (slack, payload) = positions(&bytes0);
        let nflip = if tier == Tier::Thorough { 160 } else { 40 };
        for k in 0..nflip {
            let p = if k % 8 == 0 && !slack.is_empty() { *rng.pick(&slack) } else { rng.below(bytes0.len() as u64) as usize };
            let mut b = bytes0.clone();
            b[p] ^= *rng.pick(&[1u8, 2, 0x80, 0xff, 8]);
            let d = read_str(b);
            let in_slack = slack.contains(&p);
            if d.starts_with("err Panic") {
                o.fails.push(("C06.wscb.reader-panic".into(), format!("byte {p} flipped: {d}")));
            } else if in_slack && d != denot0 {
                o.fails.push(("C06.wscb.slack-matters".into(), format!("byte {p} (reserved/padding) flipped changes the reading: {d}")));
            } else if payload[p] && d == denot0 {
                o.fails.push(("C06.wscb.flip-silent".into(), format!("byte {p} flipped, file still accepted with the same reading")));
            }
            if d.starts_with("err") {
                o.tags.push("flip:rejected".into());
            } else if d.contains(" oix 0 ") {
                o.tags.push("flip:accepted-inconsistent-out-index".into());
            } else if in_slack {
                o.tags.push("flip:slack".into());
            } else if d == denot0 {
                o.tags.push("flip:redundant-structure".into());
            } else {
                o.tags.push("flip:other-state".into());
            }
        }
        o.tags.push(format!("blob-pad:{}", u8::from(slack.len() > 64)));
    }
    o.tags.push(format!("warps:{}", ast.warps.len()));
    o.nontrivial = ast.warps.values().any(|w| w.edges.len() >= 2 && !w.natts.is_empty());
    Ok(o)
}

fn sm(n: u64) -> Id {
    small_id(n)
}

fn atom(ty: u64, b: Vec<u8>) -> AAtt {
    AAtt::Atom(sm(ty), b)
}

fn one(w: AWarp) -> AState {
    let mut st = AState::default();
    st.warps.insert(w.id, w);
    st
}

fn corners(rng: &mut Rng) -> Vec<AState> {
    let mut out = Vec::new();
    // empty store, zero root / non-zero root (writer asserts)
    out.push(one(AWarp { id: sm(0xA1), root: [0u8; 32], ..Default::default() }));
    out.push(one(AWarp { id: sm(0xA1), root: sm(1), ..Default::default() }));
    // no nodes but edges (both ends dangling) and an edge attachment; zero root
    let mut w = AWarp { id: sm(0xA1), root: [0u8; 32], ..Default::default() };
    w.edges.insert(sm(0x21), (sm(5), sm(6), sm(0x30)));
    w.eatts.insert(sm(0x21), atom(0x70, vec![9]));
    out.push(one(w));
    // atoms of length 0/1/7/8/9 on consecutive nodes, holes between them
    let mut w = AWarp { id: sm(0xA1), root: sm(1), ..Default::default() };
    for (k, len) in [0usize, 1, 7, 8, 9, 16, 17].iter().enumerate() {
        let n = 1 + 2 * k as u64;
        w.nodes.insert(sm(n), sm(0x10));
        w.nodes.insert(sm(n + 1), sm(0x11));
        w.natts.insert(sm(n), atom(0x70, rng.bytes(*len)));
    }
    out.push(one(w.clone()));
    // the same with β attachments (atoms and portals) and a node portal in the middle
    for (k, len) in [3usize, 0, 8, 5].iter().enumerate() {
        let e = 0x21 + k as u64;
        w.edges.insert(sm(e), (sm(1 + k as u64), sm(2), sm(0x30)));
        w.eatts.insert(sm(e), atom(0x71, rng.bytes(*len)));
    }
    w.edges.insert(sm(0x2a), (sm(3), sm(3), sm(0x31)));
    w.eatts.insert(sm(0x2a), AAtt::Descend(sm(0xA2)));
    w.natts.insert(sm(4), AAtt::Descend(sm(0xA3)));
    out.push(one(w.clone()));
    // dangling source / target, orphan attachments, root that is not the smallest node
    w.root = sm(6);
    w.edges.insert(sm(0x2b), (sm(0x0f), sm(1), sm(0x30)));
    w.edges.insert(sm(0x2c), (sm(1), sm(0x0e), sm(0x30)));
    w.eatts.insert(sm(0x2b), atom(0x72, vec![1, 2, 3]));
    out.push(one(w.clone()));
    w.natts.insert(sm(0x0f), atom(0x70, vec![7, 7]));
    w.eatts.insert(sm(0x2f), atom(0x71, vec![1]));
    out.push(one(w.clone()));
    // root missing although the store is not empty; zero root with a non-empty store
    let mut x = w.clone();
    x.root = sm(0x0d);
    out.push(one(x));
    let mut x = w.clone();
    x.root = [0u8; 32];
    out.push(one(x));
    // a node whose id is zero makes the zero root legal
    let mut x = AWarp { id: sm(0xA1), root: [0u8; 32], ..Default::default() };
    x.nodes.insert([0u8; 32], sm(0x10));
    x.nodes.insert([0xffu8; 32], [0xffu8; 32]);
    x.edges.insert([0xffu8; 32], ([0xffu8; 32], [0u8; 32], [0x80u8; 32]));
    x.natts.insert([0xffu8; 32], AAtt::Atom([0xffu8; 32], vec![0xff; 33]));
    out.push(one(x));
    // several warps
    let mut st = one(w);
    let mut c = AWarp { id: sm(0xA2), root: sm(1), ..Default::default() };
    c.nodes.insert(sm(1), sm(0x10));
    c.natts.insert(sm(1), atom(0x70, vec![]));
    st.warps.insert(c.id, c);
    st.warps.insert(sm(0xA3), AWarp { id: sm(0xA3), root: [0u8; 32], ..Default::default() });
    out.push(st);
    out
}

fn rid(rng: &mut Rng, wide: bool, n: u64) -> Id {
    if wide {
        // full-width ids sharing long prefixes: order is decided late
        let mut b = [0xABu8; 32];
        b[31] = n as u8;
        b[(rng.below(3) * 15) as usize] = (n * 37) as u8;
        b
    } else {
        sm(n)
    }
}

fn gen_random(rng: &mut Rng) -> AState {
    let mut st = AState::default();
    let nw = 1 + rng.below(3);
    for k in 0..nw {
        let wide = rng.chance(1, 4);
        let mut w = AWarp { id: sm(0xA1 + k), ..Default::default() };
        let nn = rng.below(7);
        let mut ids = Vec::new();
        for i in 0..nn {
            let id = rid(rng, wide, 1 + i);
            w.nodes.insert(id, sm(0x10 + rng.below(2)));
            ids.push(id);
        }
        let ids: Vec<Id> = w.nodes.keys().copied().collect();
        w.root = if ids.is_empty() { [0u8; 32] } else { *rng.pick(&ids) };
        if rng.chance(1, 12) {
            w.root = sm(0x0d);
        }
        let mut ends = ids.clone();
        if rng.chance(1, 4) || ends.is_empty() {
            ends.push(sm(0x0f));
        }
        for e in 0..rng.below(8) {
            let id = rid(rng, wide, 0x20 + e);
            w.edges.insert(id, (*rng.pick(&ends), *rng.pick(&ends), sm(0x30 + rng.below(2))));
        }
        for n in &ids {
            match rng.below(4) {
                0 => {
                    let len = *rng.pick(&[0usize, 1, 2, 7, 8, 9, 15, 16, 31, 32, 33]);
                    w.natts.insert(*n, AAtt::Atom(sm(0x70 + rng.below(2)), rng.bytes(len)));
                }
                1 if rng.chance(1, 3) => {
                    w.natts.insert(*n, AAtt::Descend(sm(0xB0 + rng.below(3))));
                }
                _ => {}
            }
        }
        let eids: Vec<Id> = w.edges.keys().copied().collect();
        for e in &eids {
            match rng.below(4) {
                0 => {
                    let len = *rng.pick(&[0usize, 1, 3, 7, 8, 9, 24]);
                    w.eatts.insert(*e, AAtt::Atom(sm(0x72), rng.bytes(len)));
                }
                1 if rng.chance(1, 2) => {
                    w.eatts.insert(*e, AAtt::Descend(sm(0xB0 + rng.below(3))));
                }
                _ => {}
            }
        }
        if rng.chance(1, 10) {
            w.natts.insert(sm(0x0c), atom(0x70, vec![1]));
        }
        st.warps.insert(w.id, w);
    }
    st
}

fn gen_wscb(rng: &mut Rng, tier: Tier) -> Vec<String> {
    let n = if tier == Tier::Thorough { 1500 } else { 70 };
    let mut out = Vec::new();
    for st in corners(rng) {
        let mut r = rng.fork();
        out.push(a_dump(&st, &mut r));
    }
    for _ in 0..n {
        let st = gen_random(rng);
        let mut r = rng.fork();
        out.push(a_dump(&st, &mut r));
    }
    out
}

// ------------------------------------------------------------------ C06.wscr  <hex bytes>

fn imp_wscr(t: &mut Toks) -> Result<String, String> {
    let b = t.bytes()?;
    if !t.done() {
        return Err("trailing tokens".into());
    }
    Ok(read_str(b))
}

fn oracle_wscr(t: &mut Toks, _tier: Tier) -> Result<OracleOut, String> {
    let b = t.bytes()?;
    let mut o = OracleOut::default();
    match catch_unwind(AssertUnwindSafe(|| real_read(b.clone()))) {
        Err(p) => o.fails.push(("C06.wscr.reader-panic".into(), panic_class(p))),
        Ok(Err(e)) => o.tags.push(format!("rejected:{}", e.split(':').next().unwrap_or(""))),
        Ok(Ok(r)) => {
            o.nontrivial = true;
            match &r.store {
                Err(e) => o.tags.push(format!("accepted:back-err:{e}")),
                Ok(g) => {
                    // an accepted file denotes a store; writing that store again must denote the same store
                    o.tags.push(format!("accepted:oix{}", u8::from(r.oix)));
                    match real_write(g, NodeId(r.root), r.schema, r.tick) {
                        Err((k, c)) => o.fails.push(("C06.wscr.accepted-unwritable".into(), format!("{k} {c}"))),
                        Ok(b2) => match real_read(b2) {
                            Ok(r2) if r2.store.as_ref().map(store_str).ok() == Some(store_str(g)) && r2.root == r.root && r2.warp == r.warp && r2.oix => {}
                            _ => o.fails.push(("C06.wscr.rewrite-differs".into(), "store denoted by an accepted file does not survive write+read".into())),
                        },
                    }
                }
            }
        }
    }
    Ok(o)
}

fn gen_wscr(rng: &mut Rng, tier: Tier) -> Vec<String> {
    let n = if tier == Tier::Thorough { 3000 } else { 90 };
    let mut out = Vec::new();
    let specials = |orig: u64, len: u64, rng: &mut Rng| -> u64 {
        *rng.pick(&[0, 1, 7, 8, orig.wrapping_add(1), orig.wrapping_sub(1), orig.wrapping_add(8), orig.wrapping_sub(8), len, len + 1, len.saturating_sub(8), u64::MAX, u64::MAX - 7, 1 << 61, 2, 312, 128])
    };
    let mut made = 0;
    while made < n {
        let st = gen_random(rng);
        for w in st.warps.values() {
            let g = a_store(w, 1, rng);
            let Ok(bytes) = real_write(&g, NodeId(w.root), rng.bytes(32).try_into().unwrap(), rng.below(1 << 40)) else { continue };
            let len = bytes.len() as u64;
            let u = |b: &[u8], o: usize| u64::from_le_bytes(b[o..o + 8].try_into().unwrap());
            for _ in 0..4 {
                let mut b = bytes.clone();
                match rng.below(10) {
                    0 => {}
                    1 => {
                        b.truncate(*rng.pick(&[0usize, 7, 8, 127, 128, 200, 311, 312, bytes.len() - 1, bytes.len() / 2]).min(&bytes.len()));
                    }
                    2 => {
                        let k = 1 + rng.below(9) as usize;
                        b.extend_from_slice(&rng.bytes(k));
                    }
                    3 | 4 => {
                        // a u64 field of the header / directory entry
                        let fields: Vec<usize> = (40..64).step_by(8).chain((128 + 64..312).step_by(8)).collect();
                        let o = *rng.pick(&fields);
                        let v = specials(u(&b, o), len, rng);
                        b[o..o + 8].copy_from_slice(&v.to_le_bytes());
                    }
                    5 => {
                        // an index range / out ref / att row field somewhere in the sections
                        if b.len() > 320 {
                            let o = 312 + 8 * rng.below((len - 312) / 8) as usize;
                            let v = specials(u(&b, o), len, rng);
                            b[o..o + 8].copy_from_slice(&v.to_le_bytes());
                        }
                    }
                    6 => {
                        // attachment rows: tag and reserved bytes
                        let (no, nl) = (u(&b, 128 + 128) as usize, u(&b, 128 + 136) as usize);
                        if nl > 0 {
                            let r = no + 56 * rng.below(nl as u64) as usize;
                            if rng.chance(1, 2) {
                                b[r] = *rng.pick(&[0u8, 1, 2, 3, 0xff]);
                            } else {
                                b[r + 1 + rng.below(7) as usize] = 1;
                            }
                        }
                    }
                    7 => {
                        // swap two adjacent node / edge rows (ordering), or duplicate one
                        let (no, nl) = (u(&b, 128 + 64) as usize, u(&b, 128 + 72) as usize);
                        let (eo, el) = (u(&b, 128 + 80) as usize, u(&b, 128 + 88) as usize);
                        if nl >= 2 && rng.chance(1, 2) {
                            let k = no + 64 * rng.below(nl as u64 - 1) as usize;
                            let (a, c) = (b[k..k + 64].to_vec(), b[k + 64..k + 128].to_vec());
                            b[k..k + 64].copy_from_slice(&c);
                            if rng.chance(1, 2) {
                                b[k + 64..k + 128].copy_from_slice(&a);
                            }
                        } else if el >= 2 {
                            let k = eo + 128 * rng.below(el as u64 - 1) as usize;
                            let (a, c) = (b[k..k + 128].to_vec(), b[k + 128..k + 256].to_vec());
                            b[k..k + 128].copy_from_slice(&c);
                            b[k + 128..k + 256].copy_from_slice(&a);
                        }
                    }
                    8 => {
                        // magic / ids in the directory entry
                        let o = *rng.pick(&[0usize, 3, 7, 8, 128, 159, 160, 191]);
                        b[o] ^= 1;
                    }
                    _ => {
                        let p = rng.below(len) as usize;
                        b[p] ^= *rng.pick(&[1u8, 0x80, 0xff]);
                    }
                }
                out.push(hex(&b));
                made += 1;
            }
        }
    }
    out.truncate(n);
    out
}
