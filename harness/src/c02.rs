//! C02 — parallel execution is invisible: every worker schedule commits the same tick.
//! Real code: `parallel::build_work_units`, `execute_item_enforced`, `execute_work_queue`,
//! `execute_parallel_with_policy`, `execute_serial`, `engine_impl::merge_parallel_deltas`
//! (through the `echo_verif::schedule` seam), `apply_ops_to_state`, `diff_state`,
//! `WarpTickPatchV1::digest`.
use crate::graphio::*;
use crate::prng::Rng;
use crate::util::{hex, small_id, Toks};
use crate::{OracleOut, Stream, Tier};
use std::num::NonZeroUsize;
use warp_core::echo_verif::schedule as sch;
use warp_core::echo_verif::state as hook;
use warp_core::parallel::{
    execute_parallel_with_adaptive_routing, execute_parallel_with_policy, execute_serial, ExecItem,
    ParallelExecutionPolicy, WorkUnit, WorkerResult,
};
use warp_core::{
    AtomPayload, AttachmentKey, AttachmentOwner, AttachmentValue, EdgeId, EdgeKey, EdgeRecord, Footprint,
    GraphView, NodeId, NodeKey, NodeRecord, OpOrigin, PortalInit, TickCommitStatus, TickDelta, TypeId, WarpId,
    WarpOp, WarpState, WarpTickPatchV1,
};

pub fn streams() -> Vec<Stream> {
    vec![
        Stream { name: "C02.merge", gen: gen_merge, imp: imp_merge, oracle: oracle_merge },
        Stream { name: "C02.sched", gen: gen_sched, imp: imp_sched, oracle: oracle_sched },
        Stream { name: "C02.all", gen: gen_all, imp: imp_all, oracle: oracle_all },
        Stream { name: "C02.policy", gen: gen_policy, imp: imp_policy, oracle: oracle_policy },
    ]
}

// ------------------------------------------------------------------ the data-driven executor
// Program = α-attachment atom bytes of the scope node, 3-byte instructions [opcode, a, b].
// Lean side: Model/Merge.lean `instr` / `interp`.

fn nid(n: u8) -> NodeId {
    NodeId(small_id(u64::from(n)))
}
fn tid(n: u64) -> TypeId {
    TypeId(small_id(n))
}
fn atom(ty: u64, bytes: Vec<u8>) -> AttachmentValue {
    AttachmentValue::Atom(AtomPayload::new(tid(ty), bytes::Bytes::from(bytes)))
}

fn exec_prog(view: GraphView<'_>, scope: &NodeId, delta: &mut TickDelta) {
    let warp = view.warp_id();
    let prog: Vec<u8> = match view.node_attachment(scope) {
        Some(AttachmentValue::Atom(a)) => a.bytes.to_vec(),
        _ => Vec::new(),
    };
    let na = |w: WarpId, n: u8| AttachmentKey::node_alpha(NodeKey { warp_id: w, local_id: nid(n) });
    for ins in prog.chunks_exact(3) {
        let (opc, a, b) = (ins[0], ins[1], ins[2]);
        match opc {
            1 => delta.push(WarpOp::SetAttachment { key: na(warp, a), value: Some(atom(0x70, vec![b])) }),
            2 => delta.push(WarpOp::UpsertNode {
                node: NodeKey { warp_id: warp, local_id: nid(a) },
                record: NodeRecord { ty: tid(0x10 + u64::from(b % 4)) },
            }),
            3 => delta.push(WarpOp::DeleteNode { node: NodeKey { warp_id: warp, local_id: nid(a) } }),
            4 => delta.push(WarpOp::UpsertEdge {
                warp_id: warp,
                record: EdgeRecord { id: EdgeId(small_id(0x20 + u64::from(a))), from: nid(b), to: nid(b), ty: tid(0x30) },
            }),
            5 => delta.push(WarpOp::DeleteEdge { warp_id: warp, from: nid(b), edge_id: EdgeId(small_id(0x20 + u64::from(a))) }),
            6 => {
                // value computed from the PRE-state: a rewrite that saw another rewrite's write would differ
                let v = match view.node_attachment(&nid(b)) {
                    Some(AttachmentValue::Atom(p)) => {
                        let mut bytes = p.bytes.to_vec();
                        bytes.push(0xEE);
                        Some(atom(0x71, bytes))
                    }
                    _ => None,
                };
                delta.push(WarpOp::SetAttachment { key: na(warp, a), value: v });
            }
            7 => panic!("verif/prog: scripted panic"),
            8 => delta.push(WarpOp::SetAttachment {
                key: na(WarpId(small_id(0xA0 + u64::from(b))), a),
                value: Some(atom(0x70, vec![b])),
            }),
            9 => delta.push(WarpOp::OpenPortal {
                key: na(warp, a),
                child_warp: WarpId(small_id(0xB0 + u64::from(b))),
                child_root: nid(1),
                init: PortalInit::Empty { root_record: NodeRecord { ty: tid(0x10) } },
            }),
            _ => return,
        }
    }
}

/// Footprint of an item: reads always declared; writes = every same-warp target of the ops a dry
/// run on an unguarded view emits (`honest`), or none at all.
fn footprint_for(state: &WarpState, warp: WarpId, scope: NodeId, honest: bool) -> Footprint {
    let mut fp = Footprint::default();
    let Some(store) = state.store(&warp) else { return fp };
    let skey = AttachmentKey::node_alpha(NodeKey { warp_id: warp, local_id: scope });
    fp.a_read.insert(skey);
    fp.n_read.insert_with_warp(warp, scope);
    for n in 0..=255u8 {
        fp.a_read.insert(AttachmentKey::node_alpha(NodeKey { warp_id: warp, local_id: nid(n) }));
    }
    if !honest {
        return fp;
    }
    let mut d = TickDelta::new();
    let _ = std::panic::catch_unwind(std::panic::AssertUnwindSafe(|| exec_prog(GraphView::new(store), &scope, &mut d)));
    for op in d.into_ops_unsorted() {
        let mut att = |k: AttachmentKey| {
            let w = match k.owner {
                AttachmentOwner::Node(n) => n.warp_id,
                AttachmentOwner::Edge(e) => e.warp_id,
            };
            if w == warp {
                fp.a_write.insert(k);
            }
        };
        match op {
            WarpOp::UpsertNode { node, .. } if node.warp_id == warp => fp.n_write.insert(node),
            WarpOp::DeleteNode { node } if node.warp_id == warp => {
                fp.n_write.insert(node);
                fp.a_write.insert(AttachmentKey::node_alpha(node));
            }
            WarpOp::UpsertEdge { warp_id, record } if warp_id == warp => {
                fp.n_write.insert_with_warp(warp, record.from);
                fp.e_write.insert_with_warp(warp, record.id);
                // an upsert that moves an existing edge also writes its previous source's adjacency
                // (enforced since fix 7993b16: FootprintGuard::check_op_in)
                if let Some(prev) = store.iter_edges().flat_map(|(_, v)| v.iter()).find(|r| r.id == record.id) {
                    if prev.from != record.from {
                        fp.n_write.insert_with_warp(warp, prev.from);
                    }
                }
            }
            WarpOp::DeleteEdge { warp_id, from, edge_id } if warp_id == warp => {
                fp.n_write.insert_with_warp(warp, from);
                fp.e_write.insert_with_warp(warp, edge_id);
                fp.a_write.insert(AttachmentKey::edge_beta(EdgeKey { warp_id: warp, local_id: edge_id }));
            }
            WarpOp::SetAttachment { key, .. } => att(key),
            WarpOp::OpenPortal { key, .. } => att(key),
            _ => {}
        }
    }
    fp
}

// ------------------------------------------------------------------ parsing helpers

#[derive(Clone)]
struct Item {
    warp: WarpId,
    scope: NodeId,
    origin: OpOrigin,
    sys: bool,
    honest: bool,
}

fn parse_origin(t: &mut Toks) -> Result<OpOrigin, String> {
    Ok(OpOrigin {
        intent_id: t.num()?,
        rule_id: u32::try_from(t.num()?).map_err(|e| e.to_string())?,
        match_ix: u32::try_from(t.num()?).map_err(|e| e.to_string())?,
        op_ix: u32::try_from(t.num()?).map_err(|e| e.to_string())?,
    })
}

fn parse_items(t: &mut Toks) -> Result<Vec<Item>, String> {
    if t.next()? != "items" {
        return Err("expected items".into());
    }
    let n = t.num()?;
    let mut v = Vec::new();
    for _ in 0..n {
        let warp = WarpId(t.id()?);
        let scope = NodeId(t.id()?);
        let origin = OpOrigin {
            intent_id: t.num()?,
            rule_id: u32::try_from(t.num()?).map_err(|e| e.to_string())?,
            match_ix: u32::try_from(t.num()?).map_err(|e| e.to_string())?,
            op_ix: 0,
        };
        let sys = t.num()? != 0;
        let honest = t.num()? != 0;
        v.push(Item { warp, scope, origin, sys, honest });
    }
    Ok(v)
}

fn check_variant(t: &mut Toks) -> Result<(), String> {
    let v = t.next()?;
    if v != sch::MERGE_VARIANT {
        return Err(format!("line is for merge variant {v}, this build compiles variant {}", sch::MERGE_VARIANT));
    }
    if !sch::ENFORCED {
        return Err("harness must be built with footprint enforcement (debug assertions)".into());
    }
    Ok(())
}

fn units_of(state: &WarpState, items: &[Item]) -> Vec<WorkUnit> {
    sch::build_units(
        items
            .iter()
            .map(|it| sch::ItemSpec {
                warp: it.warp,
                exec: exec_prog,
                scope: it.scope,
                origin: it.origin,
                footprint: footprint_for(state, it.warp, it.scope, it.honest),
                rule_name: "verif/prog",
                system: it.sys,
            })
            .collect(),
    )
}

fn outcome_str(o: &sch::MergeOutcome) -> String {
    match o {
        sch::MergeOutcome::Ok(ops) => format!("ok {}", ops_str(ops)),
        sch::MergeOutcome::Conflict => "err conflict".into(),
        sch::MergeOutcome::NewWarp => "err newwarp".into(),
        sch::MergeOutcome::Poisoned => "err poisoned".into(),
        sch::MergeOutcome::MissingStore => "err missingstore".into(),
        sch::MergeOutcome::Other(m) => format!("err other:{}", m.replace(' ', "_")),
    }
}

fn units_str(units: &[WorkUnit]) -> String {
    let shape = sch::unit_shape(units);
    let mut s = format!("units {}", shape.len());
    for (w, its) in shape {
        s.push_str(&format!(" {} {}", hex(&w.0), its.len()));
        for (scope, _) in its {
            s.push_str(&format!(" {}", hex(&scope.0)));
        }
    }
    s
}

fn post_str(state: &WarpState, o: &sch::MergeOutcome) -> String {
    match o {
        sch::MergeOutcome::Ok(ops) => {
            let mut c = state.clone();
            match hook::apply_ops(&mut c, ops) {
                Ok(()) => format!("ok {}", state_str(&c)),
                Err(e) => format!("err {}", err_class(&e)),
            }
        }
        _ => "-".into(),
    }
}

/// post-state dump + patch digest (patch = `diff_state(pre, post)` as the engine builds it).
fn commit_fingerprint(state: &WarpState, o: &sch::MergeOutcome) -> String {
    match o {
        sch::MergeOutcome::Ok(ops) => {
            let mut c = state.clone();
            match hook::apply_ops(&mut c, ops) {
                Ok(()) => {
                    let d = hook::diff_state(state, &c);
                    let patch = WarpTickPatchV1::new(0, [0u8; 32], TickCommitStatus::Committed, vec![], vec![], d);
                    let tick = WarpTickPatchV1::new(0, [0u8; 32], TickCommitStatus::Committed, vec![], vec![], ops.clone());
                    format!("{} patch={} tick={}", state_str(&c), hex(&patch.digest()), hex(&tick.digest()))
                }
                Err(e) => format!("apply-err {}", err_class(&e)),
            }
        }
        other => outcome_str(other),
    }
}

/// every (assignment, per-worker claim order) with exactly k workers, k = 1..=maxw
fn all_schedules(n: usize, maxw: usize) -> Vec<Vec<Vec<usize>>> {
    fn perms(xs: &[usize]) -> Vec<Vec<usize>> {
        if xs.is_empty() {
            return vec![vec![]];
        }
        let mut out = Vec::new();
        for p in perms(&xs[1..]) {
            for i in 0..=p.len() {
                let mut q = p.clone();
                q.insert(i, xs[0]);
                out.push(q);
            }
        }
        out
    }
    fn cuts(k: usize, l: &[usize]) -> Vec<Vec<Vec<usize>>> {
        if k == 0 {
            return if l.is_empty() { vec![vec![]] } else { vec![] };
        }
        if k == 1 {
            return vec![vec![l.to_vec()]];
        }
        let mut out = Vec::new();
        for i in 0..=l.len() {
            for mut rest in cuts(k - 1, &l[i..]) {
                rest.insert(0, l[..i].to_vec());
                out.push(rest);
            }
        }
        out
    }
    let base: Vec<usize> = (0..n).collect();
    let ps = perms(&base);
    let mut out = Vec::new();
    for k in 1..=maxw {
        for p in &ps {
            out.extend(cuts(k, p));
        }
    }
    out
}

fn line_rng(t: &Toks) -> Rng {
    let h = blake3::hash(t.t.join(" ").as_bytes());
    Rng::new(u64::from_le_bytes(h.as_bytes()[0..8].try_into().unwrap()))
}

// ------------------------------------------------------------------ C02.merge  <variant> k (S n (op origin)… | P | M)…

enum W {
    S(Vec<(WarpOp, OpOrigin)>),
    P,
    M,
}

fn parse_workers(t: &mut Toks) -> Result<Vec<W>, String> {
    let k = t.num()?;
    let mut ws = Vec::new();
    for _ in 0..k {
        match t.next()? {
            "S" => {
                let n = t.num()?;
                let mut es = Vec::new();
                for _ in 0..n {
                    let op = parse_op(t)?;
                    let og = parse_origin(t)?;
                    es.push((op, og));
                }
                ws.push(W::S(es));
            }
            "P" => ws.push(W::P),
            "M" => ws.push(W::M),
            x => return Err(format!("bad worker tag {x}")),
        }
    }
    Ok(ws)
}

fn delta_of(es: &[(WarpOp, OpOrigin)]) -> TickDelta {
    let mut d = TickDelta::new();
    for (op, og) in es {
        d.push_with_origin(op.clone(), *og);
    }
    d
}

fn results_of(ws: &[W]) -> Vec<WorkerResult> {
    ws.iter()
        .map(|w| match w {
            W::S(es) => WorkerResult::Success(delta_of(es)),
            W::P => sch::poisoned(TickDelta::new()),
            W::M => WorkerResult::MissingStore(WarpId(small_id(0xEE))),
        })
        .collect()
}

fn imp_merge(t: &mut Toks) -> Result<String, String> {
    check_variant(t)?;
    let ws = parse_workers(t)?;
    if !t.done() {
        return Err("trailing tokens".into());
    }
    Ok(outcome_str(&sch::merge(results_of(&ws))))
}

fn oracle_merge(t: &mut Toks, tier: Tier) -> Result<OracleOut, String> {
    let mut rng = line_rng(t);
    check_variant(t)?;
    let ws = parse_workers(t)?;
    let mut o = OracleOut::default();
    let base = sch::merge(results_of(&ws));
    let base_s = outcome_str(&base);
    let has_p = ws.iter().any(|w| matches!(w, W::P));
    let has_m = ws.iter().any(|w| matches!(w, W::M));
    if (has_p || has_m) && matches!(base, sch::MergeOutcome::Ok(_)) {
        o.fails.push(("C02.poison-committed.merge".into(), "a poisoned / store-less worker result merged to Ok".into()));
    }
    // every re-distribution of the same (op, origin) multiset over any number of workers, in any order
    let pool: Vec<(WarpOp, OpOrigin)> = ws.iter().flat_map(|w| if let W::S(es) = w { es.clone() } else { vec![] }).collect();
    let rounds = if tier == Tier::Thorough { 24 } else { 8 };
    for _ in 0..rounds {
        let mut p = pool.clone();
        rng.shuffle(&mut p);
        let k = rng.range(1, 5) as usize;
        let mut parts: Vec<Vec<(WarpOp, OpOrigin)>> = vec![Vec::new(); k];
        for e in p {
            let i = rng.below(k as u64) as usize;
            parts[i].push(e);
        }
        let mut ws2: Vec<W> = parts.into_iter().map(W::S).collect();
        for w in &ws {
            match w {
                W::P => ws2.insert(rng.below(ws2.len() as u64 + 1) as usize, W::P),
                W::M => ws2.insert(rng.below(ws2.len() as u64 + 1) as usize, W::M),
                W::S(_) => {}
            }
        }
        let r = outcome_str(&sch::merge(results_of(&ws2)));
        if r != base_s {
            o.fails.push((
                "C02.merge-order-sensitive".into(),
                format!("re-distributing the same entries over {k} workers changed the merge: [{base_s}] vs [{r}]"),
            ));
            break;
        }
    }
    // deterministic corner redistributions: everything on ONE worker next to 0..3 empty deltas (the
    // "at most one non-empty delta" shape), and one entry per worker
    if !(has_p || has_m) {
        for empties in 0..4usize {
            for at in 0..=empties {
                let mut ws2: Vec<W> = (0..empties).map(|_| W::S(Vec::new())).collect();
                ws2.insert(at, W::S(pool.clone()));
                let r = outcome_str(&sch::merge(results_of(&ws2)));
                if r != base_s {
                    o.fails.push((
                        "C02.merge-order-sensitive.single-delta".into(),
                        format!("all entries in one delta (slot {at}) next to {empties} empty deltas: [{r}] vs [{base_s}]"),
                    ));
                }
            }
        }
        let ws3: Vec<W> = pool.iter().map(|e| W::S(vec![e.clone()])).collect();
        let r = outcome_str(&sch::merge(results_of(&ws3)));
        if r != base_s {
            o.fails.push(("C02.merge-order-sensitive.one-per-worker".into(), format!("one entry per worker: [{r}] vs [{base_s}]")));
        }
        // independent of the merge: two DIFFERENT ops under one WarpOpKey must never commit, wherever
        // the two sit (same delta, two deltas, next to empty deltas)
        let mut divergent: Option<&'static str> = None;
        let mut placed: Vec<(usize, &WarpOp)> = Vec::new();
        for (wi, w) in ws.iter().enumerate() {
            if let W::S(es) = w {
                for (op, _) in es {
                    placed.push((wi, op));
                }
            }
        }
        for (i, (wa, a)) in placed.iter().enumerate() {
            for (wb, b) in placed.iter().skip(i + 1) {
                if a.sort_key() == b.sort_key() && a != b {
                    let here = if wa == wb { "same-worker" } else { "two-workers" };
                    if divergent != Some("same-worker") {
                        divergent = Some(here);
                    }
                }
            }
        }
        if let Some(place) = divergent {
            let nonempty = ws.iter().filter(|w| matches!(w, W::S(es) if !es.is_empty())).count();
            o.tags.push(format!("samekey:{place}"));
            o.tags.push(format!("nonempty-deltas:{}", nonempty.min(3)));
            if matches!(base, sch::MergeOutcome::Ok(_)) {
                o.fails.push((
                    format!("C02.merge-conflict-accepted.{place}"),
                    format!("two different ops share a WarpOpKey ({place}, {nonempty} non-empty of {} deltas) and the merge returned Ok", ws.len()),
                ));
            }
        }
    }
    o.tags.push(format!("res:{}", base_s.split(' ').take(2).collect::<Vec<_>>().join("-").replace("ok-", "ok").chars().take(16).collect::<String>()));
    if let sch::MergeOutcome::Ok(ops) = &base {
        if ops.len() < pool.len() {
            o.tags.push("deduped".into());
        }
    }
    o.tags.push(format!("workers:{}", ws.len().min(4)));
    o.nontrivial = pool.len() >= 2 && ws.len() >= 2;
    Ok(o)
}

const WARPS: [u64; 3] = [0xA1, 0xA2, 0xB0];

fn gen_mop(rng: &mut Rng) -> String {
    let w = *rng.pick(&WARPS);
    let n = rng.range(1, 3);
    let e = 0x20 + rng.range(1, 2);
    let att = |rng: &mut Rng| match rng.below(4) {
        0 => "-".to_string(),
        1 => format!("d {}", sid(0xB0 + rng.below(2))),
        _ => format!("a {} {}", sid(0x70 + rng.below(2)), hex(&[rng.below(2) as u8])),
    };
    match rng.below(10) {
        0 | 1 => format!("UN {} {} {}", sid(w), sid(n), sid(0x10 + rng.below(2))),
        2 => format!("DN {} {}", sid(w), sid(n)),
        3 => format!("UE {} {} {} {} {}", sid(w), sid(e), sid(n), sid(rng.range(1, 2)), sid(0x30)),
        4 => format!("DE {} {} {}", sid(w), sid(n), sid(e)),
        5 | 6 => format!("SA na {} {} {}", sid(w), sid(n), att(rng)),
        7 => format!("SA eb {} {} {}", sid(w), sid(e), att(rng)),
        8 => format!(
            "OP na {} {} {} {} {}",
            sid(0xA1),
            sid(n),
            sid(0xB0 + rng.below(2)),
            sid(1),
            if rng.chance(3, 4) { format!("E {}", sid(0x10)) } else { "R".into() }
        ),
        _ => {
            if rng.chance(1, 2) {
                format!("UI {} {} -", sid(0xB0 + rng.below(2)), sid(1))
            } else {
                format!("DI {}", sid(0xB0 + rng.below(2)))
            }
        }
    }
}

fn gen_origin(rng: &mut Rng) -> String {
    format!("{} {} {} {}", rng.below(3), rng.below(2), rng.below(2), rng.below(3))
}

/// two DIFFERENT ops with the same `WarpOpKey`.
fn gen_divergent_pair(rng: &mut Rng) -> (String, String) {
    let w = *rng.pick(&WARPS);
    let n = rng.range(1, 3);
    match rng.below(3) {
        0 => (
            format!("UN {} {} {}", sid(w), sid(n), sid(0x10)),
            format!("UN {} {} {}", sid(w), sid(n), sid(0x11)),
        ),
        1 => (
            format!("SA na {} {} -", sid(w), sid(n)),
            format!("SA na {} {} a {} {}", sid(w), sid(n), sid(0x70), hex(&[rng.below(2) as u8])),
        ),
        _ => (
            format!("UE {} {} {} {} {}", sid(w), sid(0x21), sid(n), sid(1), sid(0x30)),
            format!("UE {} {} {} {} {}", sid(w), sid(0x21), sid(n), sid(2), sid(0x30)),
        ),
    }
}

/// the same-key divergent pair on every placement: k = 1..=4 deltas, both ops in one delta or in two,
/// the other deltas empty (half of the time) or carrying filler.
fn gen_merge_divergent(rng: &mut Rng, rounds: usize) -> Vec<String> {
    let mut out = Vec::new();
    for _ in 0..rounds {
        for k in 1..=4usize {
            for a in 0..k {
                for b in a..k {
                    let (p, q) = gen_divergent_pair(rng);
                    let filler = rng.chance(1, 2);
                    let mut workers: Vec<Vec<String>> = vec![Vec::new(); k];
                    if filler {
                        for wk in workers.iter_mut() {
                            for _ in 0..rng.below(3) {
                                wk.push(format!("{} {}", gen_mop(rng), gen_origin(rng)));
                            }
                        }
                    }
                    let (first, second) = if rng.chance(1, 2) { (p, q) } else { (q, p) };
                    let ia = rng.below(workers[a].len() as u64 + 1) as usize;
                    workers[a].insert(ia, format!("{first} {}", gen_origin(rng)));
                    let ib = rng.below(workers[b].len() as u64 + 1) as usize;
                    workers[b].insert(ib, format!("{second} {}", gen_origin(rng)));
                    let mut line = format!("{} {k}", sch::MERGE_VARIANT);
                    for es in workers {
                        line.push_str(&format!(" S {}", es.len()));
                        for e in es {
                            line.push(' ');
                            line.push_str(&e);
                        }
                    }
                    out.push(line);
                }
            }
        }
    }
    out
}

fn gen_merge(rng: &mut Rng, tier: Tier) -> Vec<String> {
    let n = if tier == Tier::Thorough { 6000 } else { 600 };
    // 20 placements per round: k=1:1, k=2:3, k=3:6, k=4:10
    let mut out = gen_merge_divergent(rng, if tier == Tier::Thorough { 20 } else { 2 });
    for case in 0..n {
        let k = rng.range(if case % 10 == 0 { 0 } else { 1 }, 4);
        let mut workers: Vec<Vec<String>> = Vec::new();
        let mut pool: Vec<String> = Vec::new();
        for _ in 0..k {
            let m = rng.below(5);
            let mut es = Vec::new();
            for _ in 0..m {
                // mostly fresh ops; sometimes an exact copy of an earlier op (dedupe), sometimes the
                // same op under another origin
                let op = if !pool.is_empty() && rng.chance(1, 4) { rng.pick(&pool).clone() } else { gen_mop(rng) };
                pool.push(op.clone());
                es.push(format!("{op} {}", gen_origin(rng)));
            }
            workers.push(es);
        }
        let mut line = format!("{} {k}", sch::MERGE_VARIANT);
        for es in workers {
            if case % 4 == 3 && rng.chance(1, 6) {
                line.push_str(" P");
            } else if case % 4 == 3 && rng.chance(1, 10) {
                line.push_str(" M");
            } else {
                line.push_str(&format!(" S {}", es.len()));
                for e in es {
                    line.push(' ');
                    line.push_str(&e);
                }
            }
        }
        out.push(line);
    }
    out
}

// ------------------------------------------------------------------ ticks: state + items

fn scope_hex(shard: u8, n: u8) -> String {
    let mut b = [0u8; 32];
    b[0] = shard;
    // bytes 1..8 are outside the mask: vary them so that a wider mask / other window shows up
    b[1] = n.wrapping_mul(37);
    b[7] = 0x80 | n;
    b[31] = n;
    hex(&b)
}

const SHARDS: [u8; 6] = [0, 1, 2, 0x80, 0xFF, 1];

struct Tick {
    dump: String,
    items: Vec<String>,
    nunits: usize,
}

/// A small tick: 1–2 warps, target nodes 1..=3 (some with atom attachments, one edge), scope nodes
/// carrying programs. `spice`: 0 = clean honest programs; 1 = may conflict; 2 = may poison /
/// miss a store as well.
fn gen_tick(rng: &mut Rng, max_units: usize, spice: u64) -> Tick {
    loop {
        let nwarps = if rng.chance(1, 3) { 2 } else { 1 };
        let nitems = rng.range(1, 7) as usize;
        let mut items = Vec::new();
        let mut unit_keys = std::collections::BTreeSet::new();
        let mut progs: Vec<(u64, String, Vec<u8>)> = Vec::new();
        for i in 0..nitems {
            let mut warp = 0xA1 + rng.below(nwarps);
            let shard = *rng.pick(&SHARDS);
            let scope = scope_hex(shard, 0x40 + i as u8);
            let ninstr = rng.range(0, 3);
            let mut prog = Vec::new();
            for _ in 0..ninstr {
                let opc = match rng.below(20) {
                    0..=6 => 1u8,
                    7..=9 => 2,
                    10 => 3,
                    11 | 12 => 4,
                    13 => 5,
                    14..=16 => 6,
                    17 => {
                        if spice >= 2 { 7 } else { 1 }
                    }
                    18 => {
                        if spice >= 2 { 8 } else { 6 }
                    }
                    _ => {
                        if spice >= 2 { 9 } else { 2 }
                    }
                };
                // spice 0: every item writes its own target (a = item index) so nothing collides
                let a = if spice == 0 { 0x10 + i as u8 } else { rng.range(1, 3) as u8 };
                let b = rng.range(0, 3) as u8;
                prog.extend_from_slice(&[opc, a, b]);
            }
            if rng.chance(1, 12) {
                prog.push(1); // trailing partial instruction is ignored
            }
            let sys = spice >= 2 && rng.chance(1, 4);
            let honest = !(spice >= 2 && rng.chance(1, 10));
            if spice >= 2 && rng.chance(1, 25) {
                warp = 0xA9; // no such store
            }
            unit_keys.insert((warp, shard));
            items.push(format!("{} {} {} 1 0 {} {}", sid(warp), scope, i, u8::from(sys), u8::from(honest)));
            progs.push((warp, scope, prog));
        }
        if unit_keys.len() > max_units {
            continue;
        }
        let mut dump = format!("warps {nwarps}");
        for w in 0..nwarps {
            let wid = 0xA1 + w;
            let mine: Vec<&(u64, String, Vec<u8>)> = progs.iter().filter(|p| p.0 == wid).collect();
            dump.push_str(&format!(" {} {} -", sid(wid), sid(1)));
            dump.push_str(&format!(" nodes {}", 3 + mine.len()));
            for n in 1..=3u64 {
                dump.push_str(&format!(" {} {}", sid(n), sid(0x10)));
            }
            for p in &mine {
                dump.push_str(&format!(" {} {}", p.1, sid(0x11)));
            }
            let mut natts = Vec::new();
            for n in 1..=3u64 {
                if rng.chance(1, 2) {
                    natts.push(format!(" {} a {} {}", sid(n), sid(0x70), hex(&[n as u8, rng.below(2) as u8])));
                }
            }
            for p in &mine {
                natts.push(format!(" {} a {} {}", p.1, sid(0x7F), hex(&p.2)));
            }
            dump.push_str(&format!(" natts {}", natts.len()));
            for a in natts {
                dump.push_str(&a);
            }
            dump.push_str(&format!(" edges 1 {} {} {} {}", sid(0x21), sid(1), sid(2), sid(0x30)));
            dump.push_str(" eatts 0");
        }
        return Tick { dump, items, nunits: unit_keys.len() };
    }
}

fn items_str(items: &[String]) -> String {
    format!("items {} {}", items.len(), items.join(" ")).trim_end().to_string()
}

/// Independent of the code under test: does the harness executor panic on this item, or emit an op
/// its footprint cannot cover (no-write footprint, other warp, instance op from a non-system item)?
fn expect_poison(state: &WarpState, items: &[Item]) -> bool {
    items.iter().any(|it| {
        let Some(store) = state.store(&it.warp) else { return false };
        let mut d = TickDelta::new();
        let r = std::panic::catch_unwind(std::panic::AssertUnwindSafe(|| exec_prog(GraphView::new(store), &it.scope, &mut d)));
        if r.is_err() {
            return true;
        }
        d.into_ops_unsorted().iter().any(|op| {
            let (w, inst) = match op {
                WarpOp::OpenPortal { key, .. } => (owner_warp(key), true),
                WarpOp::UpsertWarpInstance { instance } => (instance.warp_id, true),
                WarpOp::DeleteWarpInstance { warp_id } => (*warp_id, true),
                WarpOp::UpsertNode { node, .. } | WarpOp::DeleteNode { node } => (node.warp_id, false),
                WarpOp::UpsertEdge { warp_id, .. } | WarpOp::DeleteEdge { warp_id, .. } => (*warp_id, false),
                WarpOp::SetAttachment { key, .. } => (owner_warp(key), false),
            };
            !it.honest || w != it.warp || (inst && !it.sys)
        })
    })
}

fn owner_warp(k: &AttachmentKey) -> WarpId {
    match k.owner {
        AttachmentOwner::Node(n) => n.warp_id,
        AttachmentOwner::Edge(e) => e.warp_id,
    }
}

fn expect_missing(state: &WarpState, items: &[Item]) -> bool {
    items.iter().any(|it| state.store(&it.warp).is_none())
}

// ------------------------------------------------------------------ C02.sched  <variant> <state> items … script k (n idx…)…

fn parse_script(t: &mut Toks, nunits: usize) -> Result<Vec<Vec<usize>>, String> {
    if t.next()? != "script" {
        return Err("expected script".into());
    }
    let k = t.num()?;
    let mut s = Vec::new();
    for _ in 0..k {
        let n = t.num()?;
        let mut c = Vec::new();
        for _ in 0..n {
            let i = t.num()? as usize;
            if i >= nunits {
                return Err("unit index out of range".into());
            }
            c.push(i);
        }
        s.push(c);
    }
    Ok(s)
}

fn imp_sched(t: &mut Toks) -> Result<String, String> {
    check_variant(t)?;
    let state = parse_state(t)?;
    let items = parse_items(t)?;
    let units = units_of(&state, &items);
    let script = parse_script(t, units.len())?;
    if !t.done() {
        return Err("trailing tokens".into());
    }
    let results = sch::run_scripted(&state, &units, &script);
    let mut s = units_str(&units);
    s.push_str(&format!(" ; workers {}", results.len()));
    for r in &results {
        match sch::delta_ops(r) {
            Some(ops) => s.push_str(&format!(" success {}", ops_str(&ops))),
            None => s.push_str(&format!(" {}", sch::result_class(r))),
        }
    }
    let m = sch::merge(results);
    s.push_str(&format!(" ; merged {} ; post {}", outcome_str(&m), post_str(&state, &m)));
    Ok(s)
}

fn is_valid_schedule(script: &[Vec<usize>], n: usize) -> bool {
    let mut seen = vec![0usize; n];
    for c in script {
        for &i in c {
            seen[i] += 1;
        }
    }
    seen.iter().all(|&c| c == 1)
}

/// which failure kinds the tick contains (item-level poison is detected by running each unit alone)
fn failure_kinds(state: &WarpState, units: &[WorkUnit]) -> (bool, bool) {
    let mut poison = false;
    let mut missing = false;
    for i in 0..units.len() {
        let r = sch::run_scripted(state, units, &[vec![i]]);
        match sch::result_class(&r[0]) {
            "poisoned" => poison = true,
            "missingstore" => missing = true,
            _ => {}
        }
    }
    (poison, missing)
}

fn oracle_sched(t: &mut Toks, _tier: Tier) -> Result<OracleOut, String> {
    check_variant(t)?;
    let state = parse_state(t)?;
    let items = parse_items(t)?;
    let units = units_of(&state, &items);
    let script = parse_script(t, units.len())?;
    let mut o = OracleOut::default();
    let serial = sch::merge(sch::run_scripted(&state, &units, &[(0..units.len()).collect()]));
    let got = sch::merge(sch::run_scripted(&state, &units, &script));
    let (p_obs, m_obs) = failure_kinds(&state, &units);
    let (poison, missing) = (p_obs || expect_poison(&state, &items), m_obs || expect_missing(&state, &items));
    let valid = is_valid_schedule(&script, units.len());
    if valid {
        if (poison || missing) && matches!(got, sch::MergeOutcome::Ok(_)) {
            o.fails.push(("C02.poison-committed.sched".into(), "a tick with a poisoned item / missing store merged to Ok under this schedule".into()));
        }
        let same = if poison && missing {
            !matches!(got, sch::MergeOutcome::Ok(_)) && !matches!(serial, sch::MergeOutcome::Ok(_))
        } else {
            commit_fingerprint(&state, &got) == commit_fingerprint(&state, &serial)
        };
        if !same {
            o.fails.push((
                "C02.schedule-visible.scripted".into(),
                format!("schedule {script:?} commits [{}], one worker commits [{}]", outcome_str(&got), outcome_str(&serial)),
            ));
        }
    }
    o.tags.push(format!("units:{}", units.len()));
    o.tags.push(format!("workers:{}", script.len().min(5)));
    o.tags.push(if valid { "valid-schedule".into() } else { "non-schedule".into() });
    o.tags.push(format!("res:{}", outcome_str(&got).split(' ').take(2).collect::<Vec<_>>().join("-").chars().take(16).collect::<String>()));
    o.nontrivial = units.len() >= 2 && script.iter().filter(|c| !c.is_empty()).count() >= 2;
    Ok(o)
}

fn gen_sched(rng: &mut Rng, tier: Tier) -> Vec<String> {
    let n = if tier == Tier::Thorough { 4000 } else { 400 };
    let mut out = Vec::new();
    for case in 0..n {
        let tick = gen_tick(rng, 6, (case % 3) as u64);
        let k = rng.range(1, 4) as usize;
        let mut idx: Vec<usize> = (0..tick.nunits).collect();
        rng.shuffle(&mut idx);
        let mut script: Vec<Vec<usize>> = vec![Vec::new(); k];
        for i in idx {
            let w = rng.below(k as u64) as usize;
            script[w].push(i);
        }
        if case % 20 == 19 && tick.nunits > 0 {
            // not a schedule: a unit claimed twice / dropped (the model follows the script regardless)
            let w = rng.below(k as u64) as usize;
            if rng.chance(1, 2) {
                script[w].push(rng.below(tick.nunits as u64) as usize);
            } else {
                script[w].pop();
            }
        }
        let mut line = format!("{} {} {} script {k}", sch::MERGE_VARIANT, tick.dump, items_str(&tick.items));
        for c in script {
            line.push_str(&format!(" {}", c.len()));
            for i in c {
                line.push_str(&format!(" {i}"));
            }
        }
        out.push(line);
    }
    out
}

// ------------------------------------------------------------------ C02.all  <variant> <maxw> <state> items …

fn imp_all(t: &mut Toks) -> Result<String, String> {
    check_variant(t)?;
    let maxw = t.num()? as usize;
    let state = parse_state(t)?;
    let items = parse_items(t)?;
    if !t.done() {
        return Err("trailing tokens".into());
    }
    let units = units_of(&state, &items);
    let scheds = all_schedules(units.len(), maxw);
    let mut results: Vec<String> =
        scheds.iter().map(|s| outcome_str(&sch::merge(sch::run_scripted(&state, &units, s)))).collect();
    results.sort();
    results.dedup();
    // "serial" is the real thread pool with one worker
    let serial = sch::merge(sch::run_threads(&state, &units, 1));
    let mut s = format!("units {} scheds {} distinct {}", units.len(), scheds.len(), results.len());
    for r in &results {
        s.push_str(&format!(" [ {r} ]"));
    }
    s.push_str(&format!(" ; serial {} ; post {}", outcome_str(&serial), post_str(&state, &serial)));
    Ok(s)
}

fn oracle_all(t: &mut Toks, tier: Tier) -> Result<OracleOut, String> {
    check_variant(t)?;
    let maxw = t.num()? as usize;
    let state = parse_state(t)?;
    let items = parse_items(t)?;
    let units = units_of(&state, &items);
    let mut o = OracleOut::default();
    let serial = sch::merge(sch::run_threads(&state, &units, 1));
    let want = commit_fingerprint(&state, &serial);
    let (p_obs, m_obs) = failure_kinds(&state, &units);
    let (poison, missing) = (p_obs || expect_poison(&state, &items), m_obs || expect_missing(&state, &items));
    let mixed = poison && missing;
    let scheds = all_schedules(units.len(), maxw);
    let mut bad_reported = false;
    for s in &scheds {
        let got = sch::merge(sch::run_scripted(&state, &units, s));
        if (poison || missing) && matches!(got, sch::MergeOutcome::Ok(_)) && !bad_reported {
            o.fails.push(("C02.poison-committed.sched".into(), format!("schedule {s:?} merged a poisoned tick to Ok")));
            bad_reported = true;
        }
        let same = if mixed {
            !matches!(got, sch::MergeOutcome::Ok(_))
        } else {
            // equal merged ops imply equal post-state / patch; fingerprint only when the ops differ
            outcome_str(&got) == outcome_str(&serial) || commit_fingerprint(&state, &got) == want
        };
        if !same && !bad_reported {
            o.fails.push((
                "C02.schedule-visible.scripted".into(),
                format!("schedule {s:?} commits [{}], one worker commits [{}]", outcome_str(&got), outcome_str(&serial)),
            ));
            bad_reported = true;
        }
    }
    // real threads racing on the real claim counter
    let counts: &[usize] = if tier == Tier::Thorough { &[1, 2, 3, 4, 5, 6, 8, 16, 32] } else { &[1, 2, 3, 4, 8] };
    for &workers in counts {
        for _rep in 0..(if tier == Tier::Thorough { 3 } else { 1 }) {
            let got = sch::merge(sch::run_threads(&state, &units, workers));
            let same = if mixed { !matches!(got, sch::MergeOutcome::Ok(_)) } else { commit_fingerprint(&state, &got) == want };
            if (poison || missing) && matches!(got, sch::MergeOutcome::Ok(_)) {
                o.fails.push(("C02.poison-committed.threads".into(), format!("{workers} real workers merged a poisoned tick to Ok")));
            } else if !same {
                o.fails.push((
                    "C02.schedule-visible.threads".into(),
                    format!("execute_work_queue with {workers} workers commits [{}], one worker [{}]", outcome_str(&got), outcome_str(&serial)),
                ));
            }
        }
    }
    o.tags.push(format!("units:{}", units.len()));
    o.tags.push(format!("scheds:{}", scheds.len()));
    o.tags.push(format!("res:{}", outcome_str(&serial).split(' ').take(2).collect::<Vec<_>>().join("-").chars().take(16).collect::<String>()));
    if state_warps(&state) > 1 {
        o.tags.push("multi-instance".into());
    }
    o.nontrivial = units.len() >= 2;
    Ok(o)
}

fn state_warps(s: &WarpState) -> usize {
    hook::stores(s).len()
}

fn gen_all(rng: &mut Rng, tier: Tier) -> Vec<String> {
    let mut out = Vec::new();
    let (n, cap) = if tier == Tier::Thorough { (60, 5usize) } else { (36, 4usize) };
    for case in 0..n {
        let tick = gen_tick(rng, cap, (case % 3) as u64);
        let maxw = tick.nunits.max(1);
        out.push(format!("{} {maxw} {} {}", sch::MERGE_VARIANT, tick.dump, items_str(&tick.items)));
    }
    out
}

// ------------------------------------------------------------------ C02.policy  <variant> <policy> <w> <state> items …

fn policy_of(name: &str) -> Result<ParallelExecutionPolicy, String> {
    Ok(match name {
        "dpw" => ParallelExecutionPolicy::DYNAMIC_PER_WORKER,
        "dps" => ParallelExecutionPolicy::DYNAMIC_PER_SHARD,
        "spw" => ParallelExecutionPolicy::STATIC_PER_WORKER,
        "sps" => ParallelExecutionPolicy::STATIC_PER_SHARD,
        "ded" => ParallelExecutionPolicy::DEDICATED_PER_SHARD,
        x => return Err(format!("bad policy {x}")),
    })
}

const POLICIES: [&str; 5] = ["dpw", "dps", "spw", "sps", "ded"];

fn merge_plain(deltas: Vec<TickDelta>) -> sch::MergeOutcome {
    sch::merge(deltas.into_iter().map(WorkerResult::Success).collect())
}

fn parse_policy_case(t: &mut Toks) -> Result<(String, usize, u64, WarpState, Vec<ExecItem>), String> {
    check_variant(t)?;
    let pol = t.next()?.to_string();
    let w = t.num()? as usize;
    // oracle-only: 0 = no real-thread sweep, 1 = rotating policy per worker count, 2 = full cross product
    let sweep = t.num()?;
    let state = parse_state(t)?;
    let items = parse_items(t)?;
    if w == 0 {
        return Err("zero workers".into());
    }
    let ex: Vec<ExecItem> = items.iter().map(|it| ExecItem::new(exec_prog, it.scope, it.origin)).collect();
    Ok((pol, w, sweep, state, ex))
}

fn first_store(state: &WarpState) -> Result<&warp_core::GraphStore, String> {
    hook::stores(state).into_iter().next().map(|(_, g)| g).ok_or_else(|| "no warp".to_string())
}

fn imp_policy(t: &mut Toks) -> Result<String, String> {
    let (pol, w, _sweep, state, ex) = parse_policy_case(t)?;
    if !t.done() {
        return Err("trailing tokens".into());
    }
    let policy = policy_of(&pol)?;
    let store = first_store(&state)?;
    let view = GraphView::new(store);
    let r = std::panic::catch_unwind(std::panic::AssertUnwindSafe(|| {
        execute_parallel_with_policy(view, &ex, NonZeroUsize::new(w).unwrap(), policy)
    }));
    let deltas = match r {
        Ok(d) => d,
        Err(_) => return Ok("panic".into()),
    };
    let results: Vec<WorkerResult> = deltas.into_iter().map(WorkerResult::Success).collect();
    let mut s = if pol == "dpw" && !ex.is_empty() {
        "deltas ?".to_string()
    } else {
        let mut s = format!("deltas {}", results.len());
        for r in &results {
            s.push_str(&format!(" {}", ops_str(&sch::delta_ops(r).unwrap_or_default())));
        }
        s
    };
    s.push_str(&format!(" ; merged {}", outcome_str(&sch::merge(results))));
    Ok(s)
}

fn oracle_policy(t: &mut Toks, _tier: Tier) -> Result<OracleOut, String> {
    let rot = line_rng(t).below(5) as usize;
    let (pol, w0, sweep, state, ex) = parse_policy_case(t)?;
    let mut o = OracleOut::default();
    let store = first_store(&state)?;
    let view = GraphView::new(store);
    let serial = std::panic::catch_unwind(std::panic::AssertUnwindSafe(|| execute_serial(view, &ex)));
    let serial = match serial {
        Ok(d) => merge_plain(vec![d]),
        Err(_) => {
            o.tags.push("executor-panic".into());
            return Ok(o);
        }
    };
    let want = commit_fingerprint(&state, &serial);
    let mut reported = false;
    let mut check = |o: &mut OracleOut, what: String, got: sch::MergeOutcome| {
        if !reported && outcome_str(&got) != outcome_str(&serial) && commit_fingerprint(&state, &got) != want {
            o.fails.push((
                format!("C02.schedule-visible.policy.{}", what.split(' ').next().unwrap_or("")),
                format!("{what} workers commits [{}], execute_serial commits [{}]", outcome_str(&got), outcome_str(&serial)),
            ));
            reported = true;
        }
    };
    // the line's own configuration
    let nz = |w: usize| NonZeroUsize::new(w).unwrap();
    check(&mut o, format!("{pol} {w0}"), merge_plain(execute_parallel_with_policy(view, &ex, nz(w0), policy_of(&pol)?)));
    if sweep >= 1 {
        for w in 1..=32usize {
            for (pi, p) in POLICIES.iter().enumerate() {
                if sweep >= 2 || (w + rot) % 5 == pi {
                    check(&mut o, format!("{p} {w}"), merge_plain(execute_parallel_with_policy(view, &ex, nz(w), policy_of(p)?)));
                    o.tags.push(format!("threads:{p}"));
                }
            }
            if sweep >= 2 || w % 8 == 0 {
                check(&mut o, format!("adaptive {w}"), merge_plain(execute_parallel_with_adaptive_routing(view, &ex, nz(w))));
            }
        }
        o.tags.push("threads:w1..32".into());
    }
    o.tags.push(format!("items:{}", ex.len().min(8)));
    o.tags.push(format!("pol:{pol}"));
    o.tags.push(format!("res:{}", outcome_str(&serial).split(' ').take(2).collect::<Vec<_>>().join("-").chars().take(16).collect::<String>()));
    o.tags.sort();
    o.tags.dedup();
    o.nontrivial = ex.len() >= 2;
    Ok(o)
}

fn gen_policy(rng: &mut Rng, tier: Tier) -> Vec<String> {
    // real threads are expensive (one spawn per worker per run): the sweep over 1..=32 workers is
    // requested on a few lines only (quick: rotating policy per worker count, every (policy, w)
    // pair covered across the lines; thorough: full cross product).
    let (n, nsweep, sweep_kind) = if tier == Tier::Thorough { (200, 40, 2) } else { (40, 6, 1) };
    let mut out = Vec::new();
    for case in 0..n {
        // one warp only (the shard-level API takes one view); spice <= 1 + rare panic
        let tick = loop {
            let t = gen_tick(rng, 6, if case % 15 == 14 { 2 } else { (case % 2) as u64 });
            if t.dump.starts_with("warps 1 ") && !t.items.iter().any(|i| i.starts_with(&sid(0xA9))) {
                break t;
            }
        };
        let pol = POLICIES[case % 5];
        let w = if case % 20 == 7 { *rng.pick(&[255u64, 256, 257, 1000]) } else { *rng.pick(&[1u64, 2, 3, 4, 5, 7, 8, 16, 31, 32]) };
        let items = if case % 17 == 16 { "items 0".to_string() } else { items_str(&tick.items) };
        let sweep = if case < nsweep { sweep_kind } else { 0 };
        out.push(format!("{} {pol} {w} {sweep} {} {items}", sch::MERGE_VARIANT, tick.dump));
    }
    out
}
