//! C09 — a scheduler pass is all-or-nothing and strictly ordered.
//! Real code: `SchedulerCoordinator::super_tick`, `WorldlineRuntime::{ingest, submit_intent,
//! ingest_ticketed_invocation, resolve_scheduler_fault, set_head_eligibility}`, `ProvenanceService`,
//! `Engine::commit_with_state`; hooks `echo_verif::c09::{fingerprint, summary, arm_fail_inject, …}`.
//!
//! Case line (after the stream token):
//!   W n {wl broken tick|-}  H n {wl hid paused budget|-}  G gtick|-  O n {op}
//!   op := ing wl hid bytes ingid ticket|-  |  pass k|- kind  |  res i  |  elig wl hid 0|1
//! Intent behaviour class = first payload byte: 'N' no-op rule, 'C' shared-footprint rule (all but one
//! rejected as FootprintConflict), 'P' rule whose executor panics, anything else: no rule matches.
use crate::prng::Rng;
use crate::util::{hex, small_id, Toks};
use crate::{OracleOut, Stream, Tier};
use std::collections::{BTreeMap, BTreeSet};
use std::panic::{catch_unwind, AssertUnwindSafe};
use warp_core::echo_verif::c09 as hook;
use warp_core::{
    make_intent_kind, make_node_id, make_type_id, AttachmentValue, ConflictPolicy, Engine, EngineBuilder,
    Footprint, GraphStore, GraphView, HeadEligibility, HeadId, InboxPolicy, IngressDisposition,
    IngressEnvelope, IngressTarget, IntentSubmissionDisposition, NodeId, NodeRecord, OpticAdmissionTicket,
    OpticArtifactHandle, PatternGraph, PlaybackMode, ProvenanceService, ProvenanceStore, RewriteRule,
    RuntimeError, SchedulerCoordinator, SchedulerFaultRecoveryAuthority, SchedulerFaultScope,
    SchedulerFaultStatus, StepRecord, TickReceiptDisposition, TicketedRuntimeIngressAuthority,
    TicketedRuntimeIngressDisposition, WorldlineId, WorldlineRuntime, WorldlineState, WriterHead,
    WriterHeadKey,
};

pub fn streams() -> Vec<Stream> {
    vec![Stream { name: "C09.pass", gen: gen_pass, imp: imp_pass, oracle: oracle_pass }]
}

// ---------------------------------------------------------------------------------------------
// case
// ---------------------------------------------------------------------------------------------

#[derive(Clone)]
enum Op {
    Ing { wl: u64, hid: u64, bytes: Vec<u8>, ingid: [u8; 32], ticket: Option<u64> },
    Pass { k: Option<u32>, kind: String },
    Res(usize),
    Elig { wl: u64, hid: u64, on: bool },
}

struct Case {
    wls: Vec<(u64, bool, Option<u64>)>,
    heads: Vec<(u64, u64, bool, Option<u32>)>,
    gtick: Option<u64>,
    ops: Vec<Op>,
}

fn opt_num(t: &mut Toks) -> Result<Option<u64>, String> {
    let s = t.next()?;
    if s == "-" {
        Ok(None)
    } else {
        s.parse::<u64>().map(Some).map_err(|e| format!("bad num {s}: {e}"))
    }
}

fn expect(t: &mut Toks, lit: &str) -> Result<(), String> {
    let s = t.next()?;
    if s == lit {
        Ok(())
    } else {
        Err(format!("expected {lit} got {s}"))
    }
}

const KINDS: [&str; 7] = ["none", "engine", "prov", "overflow", "unkwl", "corr", "panic"];

fn parse_case(t: &mut Toks) -> Result<Case, String> {
    expect(t, "W")?;
    let nw = t.num()?;
    let mut wls = Vec::new();
    for _ in 0..nw {
        let wl = t.num()?;
        let broken = t.num()? != 0;
        let tick = opt_num(t)?;
        wls.push((wl, broken, tick));
    }
    expect(t, "H")?;
    let nh = t.num()?;
    let mut heads = Vec::new();
    for _ in 0..nh {
        let wl = t.num()?;
        let hid = t.num()?;
        let paused = t.num()? != 0;
        let budget = opt_num(t)?.map(|b| b as u32);
        heads.push((wl, hid, paused, budget));
    }
    expect(t, "G")?;
    let gtick = opt_num(t)?;
    expect(t, "O")?;
    let no = t.num()?;
    let mut ops = Vec::new();
    for _ in 0..no {
        let op = t.next()?;
        match op {
            "ing" => {
                let wl = t.num()?;
                let hid = t.num()?;
                let bytes = t.bytes()?;
                let ingid = t.id()?;
                let ticket = opt_num(t)?;
                ops.push(Op::Ing { wl, hid, bytes, ingid, ticket });
            }
            "pass" => {
                let k = opt_num(t)?.map(|k| k as u32);
                let kind = t.next()?.to_string();
                if !KINDS.contains(&kind.as_str()) {
                    return Err(format!("bad kind {kind}"));
                }
                ops.push(Op::Pass { k, kind });
            }
            "res" => ops.push(Op::Res(t.num()? as usize)),
            "elig" => {
                let wl = t.num()?;
                let hid = t.num()?;
                let on = t.num()? != 0;
                ops.push(Op::Elig { wl, hid, on });
            }
            o => return Err(format!("bad op {o}")),
        }
    }
    if !t.done() {
        return Err("trailing tokens".into());
    }
    Ok(Case { wls, heads, gtick, ops })
}

// ---------------------------------------------------------------------------------------------
// real-code world
// ---------------------------------------------------------------------------------------------

fn wlid(n: u64) -> WorldlineId {
    WorldlineId::from_bytes(small_id(n))
}
fn hkey(wl: u64, hid: u64) -> WriterHeadKey {
    WriterHeadKey { worldline_id: wlid(wl), head_id: HeadId::from_bytes(small_id(hid)) }
}
fn small_of(bytes: &[u8; 32]) -> u64 {
    u64::from_be_bytes(bytes[24..32].try_into().unwrap())
}
fn key_name(k: &WriterHeadKey) -> String {
    format!("{}:{}", small_of(k.worldline_id.as_bytes()), small_of(k.head_id.as_bytes()))
}

fn first_byte(view: GraphView<'_>, scope: &NodeId) -> Option<u8> {
    match view.node_attachment(scope) {
        Some(AttachmentValue::Atom(payload)) => payload.bytes.as_ref().first().copied(),
        _ => None,
    }
}
fn m_noop(view: GraphView<'_>, scope: &NodeId) -> bool {
    first_byte(view, scope) == Some(b'N')
}
fn m_conflict(view: GraphView<'_>, scope: &NodeId) -> bool {
    first_byte(view, scope) == Some(b'C')
}
fn m_panic(view: GraphView<'_>, scope: &NodeId) -> bool {
    first_byte(view, scope) == Some(b'P')
}

fn rules() -> Vec<RewriteRule> {
    vec![
        RewriteRule {
            id: [1; 32],
            name: "cmd/c09-noop",
            left: PatternGraph { nodes: vec![] },
            matcher: m_noop,
            executor: |_v, _s, _d| {},
            compute_footprint: |_v, _s| Footprint::default(),
            factor_mask: 0,
            conflict_policy: ConflictPolicy::Abort,
            join_fn: None,
        },
        RewriteRule {
            id: [2; 32],
            name: "cmd/c09-conflict",
            left: PatternGraph { nodes: vec![] },
            matcher: m_conflict,
            executor: |_v, _s, _d| {},
            compute_footprint: |view, _s| {
                let mut fp = Footprint::default();
                fp.n_write.insert_with_warp(view.warp_id(), make_node_id("c09-shared"));
                fp.factor_mask = 1;
                fp
            },
            factor_mask: 0,
            conflict_policy: ConflictPolicy::Abort,
            join_fn: None,
        },
        RewriteRule {
            id: [3; 32],
            name: "cmd/c09-panic",
            left: PatternGraph { nodes: vec![] },
            matcher: m_panic,
            executor: |_v, _s, _d| std::panic::panic_any("c09-executor-panic"),
            compute_footprint: |_v, _s| Footprint::default(),
            factor_mask: 0,
            conflict_policy: ConflictPolicy::Abort,
            join_fn: None,
        },
    ]
}

fn envelope(wl: u64, hid: u64, bytes: &[u8]) -> IngressEnvelope {
    IngressEnvelope::local_intent(
        IngressTarget::ExactHead { key: hkey(wl, hid) },
        make_intent_kind("c09"),
        bytes.to_vec(),
    )
}

fn ticket(n: u64) -> OpticAdmissionTicket {
    OpticAdmissionTicket {
        kind: "c09".into(),
        artifact_handle: OpticArtifactHandle { kind: "c09".into(), id: "c09".into() },
        artifact_hash: String::new(),
        operation_id: String::new(),
        requirements_digest: String::new(),
        canonical_variables_digest: Vec::new(),
        basis_request_digest: [0; 32],
        aperture_request_digest: [0; 32],
        budget_request_digest: [0; 32],
        law_witness_digest: [0; 32],
        ticket_digest: small_id(n),
    }
}

struct World {
    rt: WorldlineRuntime,
    prov: ProvenanceService,
    eng: Engine,
    wls: Vec<u64>,
}

fn err_class(e: &RuntimeError) -> &'static str {
    match e {
        RuntimeError::Engine(_) => "engine",
        RuntimeError::Provenance(_) => "prov",
        RuntimeError::FrontierTickOverflow(_) => "overflow",
        RuntimeError::UnknownWorldline(_) => "unkwl",
        RuntimeError::UnknownHead(_) => "unkhead",
        RuntimeError::ReceiptCorrelationReplayMismatch(_) => "corr",
        RuntimeError::GlobalTickOverflow => "goverflow",
        RuntimeError::SchedulerRuntimeFaultActive(_) => "rtfault",
        RuntimeError::RejectedByPolicy(_) => "policy",
        RuntimeError::UnknownIntentSubmission(_) => "unksub",
        RuntimeError::TicketedIngressAlreadyStaged(_) => "staged2",
        RuntimeError::TicketedIngressDuplicateRuntimeIngress { .. } => "dupingress",
        RuntimeError::TicketedIngressSubmissionMismatch(_) => "mismatch",
        RuntimeError::UnknownSchedulerFault(_) => "unkfault",
        RuntimeError::SchedulerFaultAlreadyResolved(_) => "resolved",
        _ => "other",
    }
}

fn build(c: &Case) -> Result<World, String> {
    let mut store = GraphStore::default();
    let root = make_node_id("root");
    store.insert_node(root, NodeRecord { ty: make_type_id("world") });
    let mut eng = EngineBuilder::new(store, root).build();
    for r in rules() {
        eng.register_rule(r).map_err(|e| format!("rule: {e:?}"))?;
    }
    let mut rt = WorldlineRuntime::new();
    let mut prov = ProvenanceService::new();
    let mut wls = Vec::new();
    for (wl, _, _) in &c.wls {
        rt.register_worldline(wlid(*wl), WorldlineState::empty()).map_err(|e| format!("wl: {}", err_class(&e)))?;
        wls.push(*wl);
    }
    for (wl, hid, paused, budget) in &c.heads {
        let policy = match budget {
            None => InboxPolicy::AcceptAll,
            Some(b) => InboxPolicy::Budgeted { max_per_tick: *b },
        };
        let mode = if *paused { PlaybackMode::Paused } else { PlaybackMode::Play };
        rt.register_writer_head(WriterHead::with_routing(hkey(*wl, *hid), mode, policy, None, false))
            .map_err(|e| format!("head: {}", err_class(&e)))?;
    }
    for (id, frontier) in rt.worldlines().iter() {
        prov.register_worldline(*id, frontier.state()).map_err(|e| format!("prov: {e:?}"))?;
    }
    for (wl, broken, tick) in &c.wls {
        if *broken {
            hook::break_root_instance(&mut rt, wlid(*wl));
        }
        if let Some(t) = tick {
            hook::set_frontier_tick(&mut rt, wlid(*wl), *t);
        }
    }
    if let Some(g) = c.gtick {
        hook::set_global_tick(&mut rt, g);
    }
    Ok(World { rt, prov, eng, wls })
}

/// Fault records in generation order.
fn faults(rt: &WorldlineRuntime) -> Vec<warp_core::SchedulerFaultRecord> {
    let mut v: Vec<_> = rt.scheduler_faults().cloned().collect();
    v.sort_by_key(|r| r.fault_generation.as_u64());
    v
}

fn scope_name(s: &SchedulerFaultScope) -> String {
    match s {
        SchedulerFaultScope::Head(k) => format!("h{}", key_name(k)),
        SchedulerFaultScope::Runtime => "rt".into(),
    }
}

enum PassResult {
    Ok(Vec<StepRecord>),
    Err(RuntimeError),
    Panic,
}

struct PassObs {
    result: PassResult,
    fp_before: Vec<(String, String)>,
    fp_after: Vec<(String, String)>,
    faults_before: Vec<warp_core::SchedulerFaultRecord>,
    faults_after: Vec<warp_core::SchedulerFaultRecord>,
    /// heads that were admitted, unpaused, unfaulted and able to admit before the pass (canonical order)
    expected_heads: Vec<WriterHeadKey>,
    runtime_faulted_before: bool,
    ticks_before: BTreeMap<u64, u64>,
    prov_before: BTreeMap<u64, u64>,
    gtick_before: u64,
    rejected: Vec<u64>,
}

fn inject_kind(kind: &str) -> Option<hook::InjectKind> {
    Some(match kind {
        "engine" => hook::InjectKind::Engine,
        "prov" => hook::InjectKind::Provenance,
        "overflow" => hook::InjectKind::FrontierTickOverflow,
        "unkwl" => hook::InjectKind::UnknownWorldline,
        "corr" => hook::InjectKind::CorrelationMismatch,
        "panic" => hook::InjectKind::Panic,
        _ => return None,
    })
}

fn run_pass(w: &mut World, k: Option<u32>, kind: &str) -> PassObs {
    let fp_before = hook::fingerprint(&w.rt, &w.prov, &w.eng);
    let faults_before = faults(&w.rt);
    let runtime_faulted_before = w.rt.is_runtime_faulted();
    let mut expected_heads = Vec::new();
    for (key, head) in w.rt.heads().iter() {
        if head.is_admitted() && !head.is_paused() && !w.rt.is_head_faulted(key) && head.inbox().can_admit() {
            expected_heads.push(*key);
        }
    }
    let mut ticks_before = BTreeMap::new();
    let mut prov_before = BTreeMap::new();
    for wl in &w.wls {
        ticks_before.insert(*wl, w.rt.worldlines().get(&wlid(*wl)).map(|f| f.frontier_tick().as_u64()).unwrap_or(0));
        prov_before.insert(*wl, w.prov.len(wlid(*wl)).unwrap_or(0));
    }
    let gtick_before = w.rt.global_tick().as_u64();
    if let (Some(k), Some(ik)) = (k, inject_kind(kind)) {
        hook::arm_fail_inject(k, ik);
    }
    let r = {
        let (rt, prov, eng) = (&mut w.rt, &mut w.prov, &mut w.eng);
        catch_unwind(AssertUnwindSafe(|| SchedulerCoordinator::super_tick(rt, prov, eng)))
    };
    hook::disarm_fail_inject();
    let result = match r {
        Ok(Ok(recs)) => PassResult::Ok(recs),
        Ok(Err(e)) => PassResult::Err(e),
        Err(_) => PassResult::Panic,
    };
    // rejected candidates per record, read from the worldline's retained receipts
    let mut rejected = Vec::new();
    if let PassResult::Ok(recs) = &result {
        for (i, rec) in recs.iter().enumerate() {
            let later = recs[i + 1..].iter().filter(|r| r.head_key.worldline_id == rec.head_key.worldline_id).count();
            let n = w
                .rt
                .worldlines()
                .get(&rec.head_key.worldline_id)
                .and_then(|f| {
                    let h = f.state().tick_history();
                    h.len().checked_sub(later + 1).and_then(|ix| h.get(ix)).map(|(_, receipt, _)| {
                        receipt
                            .entries()
                            .iter()
                            .filter(|e| matches!(e.disposition, TickReceiptDisposition::Rejected(_)))
                            .count() as u64
                    })
                })
                .unwrap_or(u64::MAX);
            rejected.push(n);
        }
    }
    PassObs {
        result,
        fp_after: hook::fingerprint(&w.rt, &w.prov, &w.eng),
        fp_before,
        faults_after: faults(&w.rt),
        faults_before,
        expected_heads,
        runtime_faulted_before,
        ticks_before,
        prov_before,
        gtick_before,
        rejected,
    }
}

fn changed(a: &[(String, String)], b: &[(String, String)]) -> Vec<String> {
    let ma: BTreeMap<&String, &String> = a.iter().map(|(k, v)| (k, v)).collect();
    let mb: BTreeMap<&String, &String> = b.iter().map(|(k, v)| (k, v)).collect();
    let keys: BTreeSet<&String> = ma.keys().chain(mb.keys()).copied().collect();
    keys.into_iter().filter(|k| ma.get(*k) != mb.get(*k)).map(|k| (*k).clone()).collect()
}

/// fingerprint component names use 4 hex digits of the small ids; print them as decimals
fn comp_name(c: &str) -> String {
    fn dec(h: &str) -> String {
        u64::from_str_radix(h, 16).map(|n| n.to_string()).unwrap_or_else(|_| h.to_string())
    }
    if let Some(rest) = c.strip_prefix("head.") {
        let mut it = rest.split(':');
        let a = it.next().unwrap_or("");
        let b = it.next().unwrap_or("");
        return format!("head.{}:{}", dec(a), dec(b));
    }
    for p in ["front.", "prov."] {
        if let Some(rest) = c.strip_prefix(p) {
            if rest != "shells" {
                return format!("{p}{}", dec(rest));
            }
        }
    }
    c.to_string()
}

fn state_summary(w: &World) -> String {
    let mut s = String::new();
    s.push_str(&format!("g={}", w.rt.global_tick().as_u64()));
    for (key, head) in w.rt.heads().iter() {
        s.push_str(&format!(" h{}={}", key_name(key), head.inbox().pending_count()));
    }
    let sm: BTreeMap<String, u64> = hook::summary(&w.rt).into_iter().collect();
    for wl in &w.wls {
        let tick = w.rt.worldlines().get(&wlid(*wl)).map(|f| f.frontier_tick().as_u64()).unwrap_or(0);
        let plen = w.prov.len(wlid(*wl)).unwrap_or(0);
        let committed = sm.get(&format!("committed.{:04x}", wl)).copied().unwrap_or(0);
        s.push_str(&format!(" w{wl}={tick}/{plen}/{committed}"));
    }
    for k in ["corr.tid", "corr.sub", "corr.ticket", "corr.ref", "corr.basis", "pendsubs", "subs", "ticketed"] {
        s.push_str(&format!(" {}={}", k, sm.get(k).copied().unwrap_or(0)));
    }
    let fs = faults(&w.rt);
    let st: String = fs
        .iter()
        .map(|f| if matches!(f.status, SchedulerFaultStatus::Active) { 'a' } else { 'r' })
        .collect();
    s.push_str(&format!(" faults={}:{}", fs.len(), if st.is_empty() { "-".to_string() } else { st }));
    let mut fh: Vec<String> = Vec::new();
    for (key, _) in w.rt.heads().iter() {
        if w.rt.is_head_faulted(key) {
            fh.push(key_name(key));
        }
    }
    s.push_str(&format!(" fh={}", if fh.is_empty() { "-".to_string() } else { fh.join(",") }));
    s.push_str(&format!(" rf={}", u8::from(w.rt.is_runtime_faulted())));
    s
}

fn do_ing(w: &mut World, wl: u64, hid: u64, bytes: &[u8], ingid: &[u8; 32], tk: Option<u64>) -> Result<String, String> {
    let env = envelope(wl, hid, bytes);
    if &env.ingress_id() != ingid {
        return Err(format!("ingress id mismatch for {}", hex(bytes)));
    }
    Ok(match tk {
        None => match w.rt.ingest(env) {
            Ok(IngressDisposition::Accepted { .. }) => "acc".into(),
            Ok(IngressDisposition::Duplicate { .. }) => "dup".into(),
            Err(e) => format!("e:{}", err_class(&e)),
        },
        Some(t) => {
            let sid = match w.rt.submit_intent(env.clone()) {
                Ok(IntentSubmissionDisposition::Accepted { submission_id, .. })
                | Ok(IntentSubmissionDisposition::Duplicate { submission_id, .. }) => submission_id,
                Err(e) => return Ok(format!("e:{}", err_class(&e))),
            };
            let auth = TicketedRuntimeIngressAuthority::assume_runtime_owner();
            match w.rt.ingest_ticketed_invocation(&auth, sid, &ticket(t), env) {
                Ok(TicketedRuntimeIngressDisposition::Staged { .. }) => "staged".into(),
                Ok(TicketedRuntimeIngressDisposition::Duplicate { .. }) => "tdup".into(),
                Err(e) => format!("e:{}", err_class(&e)),
            }
        }
    })
}

fn do_res(w: &mut World, i: usize) -> String {
    let fs = faults(&w.rt);
    match fs.get(i) {
        None => "nofault".into(),
        Some(f) => {
            let auth = SchedulerFaultRecoveryAuthority::assume_runtime_owner();
            match w.rt.resolve_scheduler_fault(&auth, f.fault_id, [0x5e; 32]) {
                Ok(()) => "ok".into(),
                Err(e) => format!("e:{}", err_class(&e)),
            }
        }
    }
}

fn do_elig(w: &mut World, wl: u64, hid: u64, on: bool) -> String {
    let e = if on { HeadEligibility::Admitted } else { HeadEligibility::Dormant };
    match w.rt.set_head_eligibility(hkey(wl, hid), e) {
        Ok(()) => "ok".into(),
        Err(e) => format!("e:{}", err_class(&e)),
    }
}

fn pass_line(obs: &PassObs) -> String {
    let mut s = match &obs.result {
        PassResult::Ok(recs) => {
            let mut s = format!("ok n={}", recs.len());
            for (i, r) in recs.iter().enumerate() {
                s.push_str(&format!(
                    " {}:{}:{}:{}:{}",
                    key_name(&r.head_key),
                    r.worldline_tick_after.as_u64(),
                    r.commit_global_tick.as_u64(),
                    r.admitted_count,
                    obs.rejected[i]
                ));
            }
            s
        }
        PassResult::Err(e) => format!("err {}", err_class(e)),
        PassResult::Panic => "panic".to_string(),
    };
    if !matches!(obs.result, PassResult::Ok(_)) {
        let new: Vec<String> = obs.faults_after[obs.faults_before.len().min(obs.faults_after.len())..]
            .iter()
            .map(|f| scope_name(&f.scope))
            .collect();
        s.push_str(&format!(" scope={}", if new.is_empty() { "none".to_string() } else { new.join(",") }));
    }
    let ch: Vec<String> = changed(&obs.fp_before, &obs.fp_after).iter().map(|c| comp_name(c)).collect();
    s.push_str(&format!(" chg={}", if ch.is_empty() { "-".to_string() } else { ch.join(",") }));
    s
}

/// outcome of a pass without the change list (used by the twin comparison)
fn result_line(obs: &PassObs) -> String {
    match &obs.result {
        PassResult::Ok(recs) => {
            let mut s = format!("ok n={}", recs.len());
            for (i, r) in recs.iter().enumerate() {
                s.push_str(&format!(
                    " {}:{}:{}:{}:{}",
                    key_name(&r.head_key),
                    r.worldline_tick_after.as_u64(),
                    r.commit_global_tick.as_u64(),
                    r.admitted_count,
                    obs.rejected[i]
                ));
            }
            s
        }
        PassResult::Err(e) => format!("err {}", err_class(e)),
        PassResult::Panic => "panic".to_string(),
    }
}

/// Runs the case on a fresh world, skipping the ops at `skip`; returns the outcomes of the passes at
/// op index > `from`, the final fingerprint (fault evidence excluded by construction) and the inbox /
/// index summary without its fault part.
fn run_tail(c: &Case, skip: &[usize], from: usize, dropped_fault: Option<usize>) -> Result<(Vec<String>, Vec<(String, String)>, String), String> {
    let mut w = build(c)?;
    let mut lines = Vec::new();
    for (i, op) in c.ops.iter().enumerate() {
        if skip.contains(&i) {
            continue;
        }
        match op {
            Op::Ing { wl, hid, bytes, ingid, ticket } => {
                do_ing(&mut w, *wl, *hid, bytes, ingid, *ticket)?;
            }
            Op::Res(j) => {
                // the twin has no record for the dropped fault: later records sit one index lower, and
                // resolving the dropped (already resolved) one is a no-op in the main run
                match dropped_fault {
                    Some(f) if i > from && *j == f => {}
                    Some(f) if i > from && *j > f => {
                        do_res(&mut w, *j - 1);
                    }
                    _ => {
                        do_res(&mut w, *j);
                    }
                }
            }
            Op::Elig { wl, hid, on } => {
                do_elig(&mut w, *wl, *hid, *on);
            }
            Op::Pass { k, kind } => {
                let obs = run_pass(&mut w, *k, kind);
                if i > from {
                    lines.push(result_line(&obs));
                }
            }
        }
    }
    let summ = state_summary(&w);
    let summ = summ.split(" faults=").next().unwrap_or("").to_string();
    Ok((lines, hook::fingerprint(&w.rt, &w.prov, &w.eng), summ))
}

fn imp_pass(t: &mut Toks) -> Result<String, String> {
    let c = parse_case(t)?;
    let mut w = build(&c)?;
    let mut out: Vec<String> = Vec::new();
    for op in &c.ops {
        match op {
            Op::Ing { wl, hid, bytes, ingid, ticket } => out.push(do_ing(&mut w, *wl, *hid, bytes, ingid, *ticket)?),
            Op::Res(i) => out.push(do_res(&mut w, *i)),
            Op::Elig { wl, hid, on } => out.push(do_elig(&mut w, *wl, *hid, *on)),
            Op::Pass { k, kind } => {
                let obs = run_pass(&mut w, *k, kind);
                out.push(format!("{} [{}]", pass_line(&obs), state_summary(&w)));
            }
        }
    }
    out.push(format!("end [{}]", state_summary(&w)));
    Ok(out.join(" | "))
}

// ---------------------------------------------------------------------------------------------
// oracle: the property evaluated on the real code only
// ---------------------------------------------------------------------------------------------

fn comp_class(c: &str) -> String {
    // strip instance ids so the finding key is stable
    let c = comp_name(c);
    match c.split_once('.') {
        Some((p @ ("head" | "front" | "prov"), rest)) if rest != "shells" => p.to_string(),
        _ => c,
    }
}

fn oracle_pass(t: &mut Toks, _tier: Tier) -> Result<OracleOut, String> {
    let c = parse_case(t)?;
    let mut w = build(&c)?;
    let mut o = OracleOut::default();
    let fail = |o: &mut OracleOut, key: String, what: String| {
        if !o.fails.iter().any(|(k, _)| *k == key) {
            o.fails.push((key, what));
        }
    };
    let mut pass_no = 0usize;
    let mut resolved_heads: BTreeSet<WriterHeadKey> = BTreeSet::new();
    // (op index of an injected failing pass, index of the fault record it added)
    let mut failed_at: Option<(usize, usize)> = None;
    // (op index of the failing pass, op index of the `res` that resolved exactly its fault)
    let mut twin_of: Option<(usize, usize)> = None;
    let mut n_injected_failures = 0usize;
    for (op_ix, op) in c.ops.iter().enumerate() {
        match op {
            Op::Ing { wl, hid, bytes, ingid, ticket } => {
                do_ing(&mut w, *wl, *hid, bytes, ingid, *ticket)?;
            }
            Op::Res(i) => {
                let before = faults(&w.rt);
                let r = do_res(&mut w, *i);
                if r == "ok" {
                    o.tags.push("resolve".into());
                    if let Some((p_ix, f_ix)) = failed_at {
                        if p_ix + 1 == op_ix && f_ix == *i && twin_of.is_none() {
                            twin_of = Some((p_ix, op_ix));
                        }
                    }
                    if let Some(f) = before.get(*i) {
                        match f.scope {
                            SchedulerFaultScope::Head(k) => {
                                if w.rt.is_head_faulted(&k) {
                                    fail(&mut o, "C09.quarantine.resolve-kept-head".into(), format!("head {} still faulted after resolve", key_name(&k)));
                                }
                                resolved_heads.insert(k);
                            }
                            SchedulerFaultScope::Runtime => {
                                if w.rt.is_runtime_faulted() {
                                    fail(&mut o, "C09.quarantine.resolve-kept-runtime".into(), "runtime still faulted after resolve".into());
                                }
                            }
                        }
                    }
                    // evidence must be retained
                    if faults(&w.rt).len() != before.len() {
                        fail(&mut o, "C09.fault.evidence-dropped".into(), "resolve changed the number of fault records".into());
                    }
                }
            }
            Op::Elig { wl, hid, on } => {
                let k = hkey(*wl, *hid);
                let was = w.rt.is_head_faulted(&k);
                do_elig(&mut w, *wl, *hid, *on);
                if was && !w.rt.is_head_faulted(&k) {
                    fail(&mut o, "C09.quarantine.eligibility-cleared-fault".into(), format!("set_head_eligibility cleared the fault of {}", key_name(&k)));
                }
            }
            Op::Pass { k, kind } => {
                pass_no += 1;
                let faulted_before: Vec<WriterHeadKey> =
                    w.rt.heads().iter().filter(|(key, _)| w.rt.is_head_faulted(key)).map(|(key, _)| *key).collect();
                let obs = run_pass(&mut w, *k, kind);
                let ch = changed(&obs.fp_before, &obs.fp_after);
                match &obs.result {
                    PassResult::Err(_) | PassResult::Panic => {
                        let (label, cls) = match &obs.result {
                            PassResult::Err(e) => ("err", err_class(e)),
                            _ => ("panic", "panic"),
                        };
                        // ---- all-or-nothing: every non-fault component is as before the pass
                        for comp in &ch {
                            fail(
                                &mut o,
                                format!("C09.atomic.{}", comp_class(comp)),
                                format!("pass {pass_no} failed ({label} {cls}) but component {} differs from its pre-pass value", comp_name(comp)),
                            );
                        }
                        let new = obs.faults_after.len() as i64 - obs.faults_before.len() as i64;
                        let blocked = cls == "rtfault";
                        if blocked {
                            if new != 0 {
                                fail(&mut o, "C09.fault.spurious".into(), "blocked pass added fault evidence".into());
                            }
                            if !obs.runtime_faulted_before {
                                fail(&mut o, "C09.quarantine.blocked-without-runtime-fault".into(), "SchedulerRuntimeFaultActive without an active runtime fault".into());
                            }
                            o.tags.push("blocked-by-runtime-fault".into());
                        } else {
                            if new != 1 {
                                fail(&mut o, "C09.fault.missing".into(), format!("failed pass ({cls}) added {new} fault records"));
                            } else if let Some(f) = obs.faults_after.last() {
                                if !matches!(f.status, SchedulerFaultStatus::Active) {
                                    fail(&mut o, "C09.fault.not-active".into(), "new fault record is not active".into());
                                }
                                // a typed engine error / tick overflow is attributable to one head and must
                                // not stop unrelated heads; a panic cannot be attributed
                                let head_scoped = matches!(f.scope, SchedulerFaultScope::Head(_));
                                if matches!(cls, "engine" | "overflow") && !head_scoped {
                                    fail(&mut o, "C09.quarantine.head-error-blocks-runtime".into(), format!("a {cls} failure of one head quarantined the whole runtime"));
                                }
                                if matches!(cls, "panic" | "prov" | "corr" | "unkwl" | "goverflow") && head_scoped {
                                    fail(&mut o, "C09.quarantine.unattributable-error-head-scoped".into(), format!("a {cls} failure was scoped to one head; the runtime keeps running on possibly inconsistent state"));
                                }
                                match f.scope {
                                    SchedulerFaultScope::Head(hk) => {
                                        o.tags.push("scope.head".into());
                                        if !w.rt.is_head_faulted(&hk) {
                                            fail(&mut o, "C09.quarantine.head-not-quarantined".into(), format!("head {} has a fault record but is not quarantined", key_name(&hk)));
                                        }
                                        // systematic grid (head ids >= 10): no honest failure source, so the
                                        // culprit of an injected failure is the k-th committing head
                                        let grid = c.heads.iter().all(|(_, hid, _, _)| *hid >= 10);
                                        if let (true, Some(k)) = (grid && kind != "none", k) {
                                            if let Some(exp) = obs.expected_heads.get(*k as usize) {
                                                if *exp != hk {
                                                    fail(&mut o, "C09.fault.wrong-culprit".into(), format!("failure injected at head {} but fault blames {}", key_name(exp), key_name(&hk)));
                                                }
                                            }
                                        }
                                        if !obs.expected_heads.contains(&hk) {
                                            fail(&mut o, "C09.fault.wrong-head".into(), format!("fault blames head {} which was not runnable in this pass", key_name(&hk)));
                                        }
                                        if w.rt.is_runtime_faulted() != obs.runtime_faulted_before {
                                            fail(&mut o, "C09.fault.scope-widened".into(), "head-scoped failure changed the runtime fault".into());
                                        }
                                    }
                                    SchedulerFaultScope::Runtime => {
                                        o.tags.push("scope.rt".into());
                                        if !w.rt.is_runtime_faulted() {
                                            fail(&mut o, "C09.quarantine.runtime-not-quarantined".into(), "runtime fault recorded but runtime is not faulted".into());
                                        }
                                    }
                                }
                            }
                            // earlier evidence is untouched
                            if obs.faults_after.len() >= obs.faults_before.len()
                                && obs.faults_after[..obs.faults_before.len()] != obs.faults_before[..]
                            {
                                fail(&mut o, "C09.fault.evidence-rewritten".into(), "earlier fault records changed".into());
                            }
                            for hk in &faulted_before {
                                if !w.rt.is_head_faulted(hk) {
                                    fail(&mut o, "C09.quarantine.lost".into(), format!("head {} lost its quarantine in a failed pass", key_name(hk)));
                                }
                            }
                        }
                        if w.rt.global_tick().as_u64() != obs.gtick_before {
                            fail(&mut o, "C09.order.gtick-on-failure".into(), "global tick changed on a failed pass".into());
                        }
                        let n = obs.expected_heads.len();
                        let injected = k.is_some() && kind != "none" && cls == kind.as_str();
                        if injected && new == 1 {
                            n_injected_failures += 1;
                            failed_at = Some((op_ix, obs.faults_before.len()));
                        }
                        o.tags.push(format!("fail.{}{}.n{}", if injected { "inj-" } else { "honest-" }, cls, n));
                        if let (true, Some(k)) = (injected, k) {
                            o.tags.push(format!("failpos.{k}of{n}"));
                            if *k >= 1 {
                                o.nontrivial = true;
                            }
                        }
                        if n >= 2 {
                            o.nontrivial = true;
                        }
                        o.tags.push(format!("failpass.{}", pass_no.min(4)));
                    }
                    PassResult::Ok(recs) => {
                        // ---- order
                        let keys: Vec<WriterHeadKey> = recs.iter().map(|r| r.head_key).collect();
                        if keys.windows(2).any(|p| p[0] >= p[1]) {
                            fail(&mut o, "C09.order.not-ascending".into(), "step records are not in strictly ascending WriterHeadKey order".into());
                        }
                        if keys != obs.expected_heads {
                            let exp: Vec<String> = obs.expected_heads.iter().map(key_name).collect();
                            let got: Vec<String> = keys.iter().map(key_name).collect();
                            fail(&mut o, "C09.order.wrong-heads".into(), format!("committed heads {got:?} != runnable unfaulted heads with admissible work {exp:?}"));
                        }
                        for hk in &faulted_before {
                            if keys.contains(hk) {
                                fail(&mut o, "C09.quarantine.faulted-head-ran".into(), format!("quarantined head {} committed", key_name(hk)));
                            }
                            if !w.rt.is_head_faulted(hk) {
                                fail(&mut o, "C09.quarantine.lost".into(), format!("head {} lost its quarantine in a successful pass", key_name(hk)));
                            }
                        }
                        if !faulted_before.is_empty() && !keys.is_empty() {
                            o.tags.push("quarantine-others-proceed".into());
                            o.nontrivial = true;
                        }
                        if keys.iter().any(|k| resolved_heads.contains(k)) {
                            o.tags.push("resolved-head-ran-again".into());
                        }
                        // ---- ticks
                        let g_after = w.rt.global_tick().as_u64();
                        if g_after != obs.gtick_before + 1 {
                            fail(&mut o, "C09.order.gtick".into(), format!("global tick {} -> {} on a successful pass", obs.gtick_before, g_after));
                        }
                        let mut seen: BTreeMap<u64, u64> = BTreeMap::new();
                        for r in recs {
                            let wl = small_of(r.head_key.worldline_id.as_bytes());
                            let n = seen.entry(wl).or_insert(0);
                            *n += 1;
                            let before = obs.ticks_before.get(&wl).copied().unwrap_or(0);
                            if r.worldline_tick_after.as_u64() != before + *n {
                                fail(&mut o, "C09.order.tick-after".into(), format!("record for {} has tick_after {} expected {}", key_name(&r.head_key), r.worldline_tick_after.as_u64(), before + *n));
                            }
                            if r.commit_global_tick.as_u64() != g_after {
                                fail(&mut o, "C09.order.commit-gtick".into(), "record's commit_global_tick is not the pass's global tick".into());
                            }
                        }
                        for wl in &w.wls {
                            let n = seen.get(wl).copied().unwrap_or(0);
                            let tick = w.rt.worldlines().get(&wlid(*wl)).map(|f| f.frontier_tick().as_u64()).unwrap_or(0);
                            if tick != obs.ticks_before[wl] + n {
                                fail(&mut o, "C09.order.frontier-tick".into(), format!("worldline {wl} tick {} -> {} with {n} commits", obs.ticks_before[wl], tick));
                            }
                            let plen = w.prov.len(wlid(*wl)).unwrap_or(0);
                            if plen != obs.prov_before[wl] + n {
                                fail(&mut o, "C09.order.provenance-len".into(), format!("worldline {wl} provenance {} -> {} with {n} commits", obs.prov_before[wl], plen));
                            }
                        }
                        // ---- success adds no fault evidence (lawful rejections are receipts)
                        if obs.faults_after != obs.faults_before {
                            fail(&mut o, "C09.rejection.fault-on-success".into(), "a successful pass changed fault evidence".into());
                        }
                        if obs.rejected.iter().any(|r| *r > 0 && *r != u64::MAX) {
                            o.tags.push("rejection-receipt".into());
                        }
                        // ---- frame: nothing outside the committed heads / their worldlines moved
                        for comp in &ch {
                            let name = comp_name(comp);
                            let ok = if let Some(rest) = name.strip_prefix("head.") {
                                keys.iter().any(|k| key_name(k) == rest)
                            } else if let Some(rest) = name.strip_prefix("front.") {
                                seen.keys().any(|wl| wl.to_string() == rest)
                            } else if let Some(rest) = name.strip_prefix("prov.") {
                                rest != "shells" && seen.keys().any(|wl| wl.to_string() == rest)
                            } else {
                                matches!(name.as_str(), "gtick" | "pendsubs" | "corr.tid" | "corr.sub" | "corr.ticket" | "corr.ref" | "corr.basis")
                            };
                            if !ok {
                                fail(&mut o, format!("C09.frame.{}", comp_class(comp)), format!("successful pass changed {name}, which no committed head owns"));
                            }
                        }
                        o.tags.push(format!("ok.n{}", recs.len()));
                        if recs.len() >= 2 {
                            o.nontrivial = true;
                        }
                        if seen.values().any(|n| *n >= 2) {
                            o.tags.push("two-heads-one-worldline".into());
                        }
                    }
                }
            }
        }
    }
    // ---- recovery: injected failure -> resolve of exactly that fault -> the rest of the run must be
    //      indistinguishable (pass outcomes, every fingerprint component, inbox / index sizes) from the
    //      twin run that never executed the failing pass
    if let (Some((p_ix, r_ix)), 1) = (twin_of, n_injected_failures) {
        let has_later_pass = c.ops.iter().enumerate().any(|(i, op)| i > r_ix && matches!(op, Op::Pass { .. }));
        if has_later_pass {
            let (main_lines, main_fp, main_sum) = run_tail(&c, &[], r_ix, None)?;
            let (twin_lines, twin_fp, twin_sum) = run_tail(&c, &[p_ix, r_ix], r_ix, failed_at.map(|(_, f)| f))?;
            if main_lines != twin_lines {
                let at = main_lines.iter().zip(twin_lines.iter()).position(|(a, b)| a != b).unwrap_or(0);
                fail(
                    &mut o,
                    "C09.retry.twin-records".into(),
                    format!(
                        "after failure + recovery, pass #{} after the recovery returned [{}] but the never-failed twin returned [{}]",
                        at + 1,
                        main_lines.get(at).cloned().unwrap_or_default(),
                        twin_lines.get(at).cloned().unwrap_or_default()
                    ),
                );
            }
            for comp in changed(&main_fp, &twin_fp) {
                fail(
                    &mut o,
                    format!("C09.retry.twin-differs.{}", comp_class(&comp)),
                    format!("after failure + recovery + retried pass, component {} differs from the never-failed twin", comp_name(&comp)),
                );
            }
            if main_sum != twin_sum {
                fail(&mut o, "C09.retry.twin-differs.summary".into(), format!("[{main_sum}] vs twin [{twin_sum}]"));
            }
            o.tags.push("retry-twin".into());
            if main_lines.iter().any(|l| l.starts_with("ok n=") && !l.starts_with("ok n=0")) {
                o.tags.push("retry-twin-commits".into());
                o.nontrivial = true;
            }
        }
    }
    Ok(o)
}

// ---------------------------------------------------------------------------------------------
// generator
// ---------------------------------------------------------------------------------------------

fn ing_tok(wl: u64, hid: u64, bytes: &[u8], ticket: Option<u64>) -> String {
    let id = envelope(wl, hid, bytes).ingress_id();
    format!(
        "ing {wl} {hid} {} {} {}",
        hex(bytes),
        hex(&id),
        ticket.map(|t| t.to_string()).unwrap_or_else(|| "-".into())
    )
}

struct Shape {
    wls: Vec<(u64, bool, Option<u64>)>,
    heads: Vec<(u64, u64, bool, Option<u32>)>,
}

fn render(shape: &Shape, gtick: Option<u64>, ops: &[String]) -> String {
    let mut s = format!("W {}", shape.wls.len());
    for (wl, b, t) in &shape.wls {
        s.push_str(&format!(" {wl} {} {}", u8::from(*b), t.map(|t| t.to_string()).unwrap_or_else(|| "-".into())));
    }
    s.push_str(&format!(" H {}", shape.heads.len()));
    for (wl, hid, p, b) in &shape.heads {
        s.push_str(&format!(" {wl} {hid} {} {}", u8::from(*p), b.map(|b| b.to_string()).unwrap_or_else(|| "-".into())));
    }
    s.push_str(&format!(" G {}", gtick.map(|g| g.to_string()).unwrap_or_else(|| "-".into())));
    s.push_str(&format!(" O {}", ops.len()));
    for o in ops {
        s.push(' ');
        s.push_str(o);
    }
    s
}

fn payload(rng: &mut Rng, cls: u8) -> Vec<u8> {
    let mut v = vec![cls];
    let n = rng.range(0, 2) as usize;
    v.extend(rng.bytes(n));
    v
}

fn rand_cls(rng: &mut Rng, panic_ok: bool) -> u8 {
    match rng.below(20) {
        0..=10 => b'N',
        11..=15 => b'C',
        16..=17 => b'X',
        18 if panic_ok => b'P',
        _ => b'N',
    }
}

fn rand_shape(rng: &mut Rng, plain: bool) -> Shape {
    let nw = rng.range(1, 3);
    let mut wls = Vec::new();
    let mut heads = Vec::new();
    for wl in 1..=nw {
        let broken = !plain && rng.chance(1, 12);
        let tick = if !plain && rng.chance(1, 25) {
            Some(*rng.pick(&[1u64, u64::MAX, u64::MAX - 1]))
        } else {
            None
        };
        wls.push((wl, broken, tick));
        let nh = rng.range(1, 4);
        let mut hids: Vec<u64> = (1..=5).collect();
        rng.shuffle(&mut hids);
        for hid in hids.into_iter().take(nh as usize) {
            let paused = !plain && rng.chance(1, 12);
            let budget = if !plain && rng.chance(1, 6) { Some(rng.range(0, 2) as u32) } else { None };
            heads.push((wl, hid, paused, budget));
        }
    }
    rng.shuffle(&mut heads); // registration order must not matter
    Shape { wls, heads }
}

fn gen_pass(rng: &mut Rng, tier: Tier) -> Vec<String> {
    let mut out = Vec::new();
    let kinds = ["engine", "prov", "overflow", "unkwl", "corr", "panic"];
    // 1. systematic grid: n committing heads, failure injected at every position, every kind,
    //    on the first / second / third pass of the run
    let reps = if tier == Tier::Thorough { 4 } else { 1 };
    for _ in 0..reps {
        for n in 1..=4u32 {
            for k in 0..n {
                for (ki, kind) in kinds.iter().enumerate() {
                    // n heads spread over 1..3 worldlines
                    let nw = rng.range(1, 3.min(n as u64));
                    let mut heads = Vec::new();
                    for i in 0..n as u64 {
                        let wl = if i < nw { i + 1 } else { rng.range(1, nw) };
                        heads.push((wl, 10 + i, false, None));
                    }
                    rng.shuffle(&mut heads);
                    let shape = Shape { wls: (1..=nw).map(|w| (w, false, None)).collect(), heads };
                    let mut ops = Vec::new();
                    let warm = (k as usize + ki) % 3; // failing pass is the 1st, 2nd or 3rd
                    let mut serial = 0u8;
                    let fill = |ops: &mut Vec<String>, rng: &mut Rng, serial: &mut u8| {
                        for (wl, hid, _, _) in &shape.heads {
                            let m = rng.range(1, 2);
                            for _ in 0..m {
                                *serial += 1;
                                let tk = if rng.chance(1, 2) { Some(100 + *serial as u64) } else { None };
                                let cls = if rng.chance(1, 4) { b'C' } else { b'N' };
                                ops.push(ing_tok(*wl, *hid, &[cls, *serial], tk));
                            }
                        }
                    };
                    for _ in 0..warm {
                        fill(&mut ops, rng, &mut serial);
                        ops.push("pass - none".into());
                    }
                    fill(&mut ops, rng, &mut serial);
                    ops.push(format!("pass {k} {kind}"));
                    // follow-up: another pass (quarantine), recovery, then a pass again
                    ops.push("pass - none".into());
                    ops.push("res 0".into());
                    ops.push("pass - none".into());
                    out.push(render(&shape, None, &ops));
                }
            }
        }
    }
    // 1b. recovery scenarios: every head commit correlates 2-3 ticketed ingresses under ONE current-basis
    //     key, a LATER head fails (k >= 1), the fault is resolved at once, the pass is retried, then the
    //     run goes on; the oracle compares the tail with the never-failed twin
    let treps = if tier == Tier::Thorough { 4 } else { 1 };
    for _ in 0..treps {
        for n in 2..=4u32 {
            for k in 1..n {
                for (ki, kind) in kinds.iter().enumerate() {
                    let nw = rng.range(1, 3.min(n as u64));
                    let mut heads = Vec::new();
                    for i in 0..n as u64 {
                        let wl = if i < nw { i + 1 } else { rng.range(1, nw) };
                        // a budgeted head leaves part of its inbox for the retried / later passes
                        let budget = if rng.chance(1, 4) { Some(2u32) } else { None };
                        heads.push((wl, 10 + i, false, budget));
                    }
                    rng.shuffle(&mut heads);
                    let shape = Shape { wls: (1..=nw).map(|w| (w, false, None)).collect(), heads };
                    let mut ops = Vec::new();
                    let mut serial = 0u8;
                    let fill = |ops: &mut Vec<String>, rng: &mut Rng, serial: &mut u8, min: u64| {
                        for (wl, hid, _, _) in &shape.heads {
                            let m = rng.range(min, 3);
                            for j in 0..m {
                                *serial += 1;
                                let tk = if j < 2 || rng.chance(1, 2) { Some(100 + *serial as u64) } else { None };
                                let cls = if rng.chance(1, 5) { b'C' } else { b'N' };
                                ops.push(ing_tok(*wl, *hid, &[cls, *serial], tk));
                            }
                        }
                    };
                    let warm = (k as usize + ki) % 3;
                    for _ in 0..warm {
                        fill(&mut ops, rng, &mut serial, 1);
                        ops.push("pass - none".into());
                    }
                    fill(&mut ops, rng, &mut serial, 2);
                    ops.push(format!("pass {k} {kind}"));
                    ops.push("res 0".into());
                    ops.push("pass - none".into());
                    fill(&mut ops, rng, &mut serial, 0);
                    ops.push("pass - none".into());
                    out.push(render(&shape, None, &ops));
                }
            }
        }
    }
    // 2. random runs
    let n_random = if tier == Tier::Thorough { 4000 } else { 260 };
    for _ in 0..n_random {
        let plain = rng.chance(1, 3);
        let shape = rand_shape(rng, plain);
        let gtick = if !plain && rng.chance(1, 30) { Some(*rng.pick(&[u64::MAX, u64::MAX - 1, 7])) } else { None };
        let mut ops: Vec<String> = Vec::new();
        let mut used: Vec<(u64, u64, Vec<u8>, Option<u64>)> = Vec::new();
        let rounds = rng.range(1, 4);
        let mut nfaults = 0u64;
        for _ in 0..rounds {
            // ingest
            for (wl, hid, _, _) in &shape.heads {
                let m = match rng.below(6) {
                    0 => 0,
                    1..=3 => 1,
                    4 => 2,
                    _ => 3,
                };
                for _ in 0..m {
                    let cls = rand_cls(rng, !plain);
                    let bytes = payload(rng, cls);
                    // tiny ticket universe so that two submissions can share a ticket digest
                    let tk = if rng.chance(1, 2) { Some(if rng.chance(1, 8) { rng.range(1, 2) } else { rng.range(3, 40) }) } else { None };
                    ops.push(ing_tok(*wl, *hid, &bytes, tk));
                    used.push((*wl, *hid, bytes, tk));
                }
            }
            if !used.is_empty() && rng.chance(1, 5) {
                // re-ingest something already seen (pending, committed or rolled back), maybe with another ticket
                let (wl, hid, bytes, tk) = rng.pick(&used).clone();
                let tk2 = if rng.chance(1, 2) { tk } else if rng.chance(1, 2) { Some(rng.range(1, 40)) } else { None };
                ops.push(ing_tok(wl, hid, &bytes, tk2));
            }
            if rng.chance(1, 8) {
                let (wl, hid, _, _) = *rng.pick(&shape.heads);
                ops.push(format!("elig {wl} {hid} {}", rng.below(2)));
            }
            if rng.chance(1, 30) {
                ops.push(format!("ing 9 9 {} {} -", hex(b"N"), hex(&envelope(9, 9, b"N").ingress_id())));
            }
            // pass with or without a failure plan
            if rng.chance(2, 5) {
                let k = rng.below(4);
                ops.push(format!("pass {k} {}", rng.pick(&kinds)));
                nfaults += 1;
            } else {
                ops.push("pass - none".into());
            }
            if rng.chance(1, 2) {
                ops.push(format!("res {}", rng.below(nfaults + 2)));
            }
            if rng.chance(1, 3) {
                ops.push("pass - none".into());
            }
        }
        out.push(render(&shape, gtick, &ops));
    }
    out
}
